#!/bin/bash
# Entry point of every registered check: offline environment, binary built from the files on disk.
#   ./gbv.sh check <Cxx> <quick|thorough>     ./gbv.sh replay <violation.json>     ./gbv.sh build
set -u
cd "$(dirname "$0")"
export GOFLAGS=-mod=mod GOPROXY=off GOSUMDB=off GOTOOLCHAIN=local CGO_ENABLED=0
unset GOWORK
VERIF="$(pwd)"
REPO="${GBV_REPO:-/repo}"
build() {
  mkdir -p bin
  if [ ! -x bin/gbv ] || [ -n "$(find gbv go.mod go.sum -newer bin/gbv 2>/dev/null | head -1)" ]; then
    go build -o bin/gbv.tmp.$$ ./gbv && mv -f bin/gbv.tmp.$$ bin/gbv || { rm -f bin/gbv.tmp.$$; echo "gbv: build failed" >&2; exit 2; }
  fi
}
case "${1:-}" in
  build) build ;;
  check) build; exec bin/gbv check -prop "$2" -tier "${3:-${VERIF_TIER:-quick}}" -repo "$REPO" -verif "$VERIF" ;;
  replay) build; exec bin/gbv replay "$2" ;;
  variants) build; shift; exec bin/gbv variants -repo "$REPO" -verif "$VERIF" "$@" ;;
  *) echo "usage: $0 build | check <Cxx> <quick|thorough> | replay <file> | variants [-prop Cxx]" >&2; exit 2 ;;
esac
