#!/usr/bin/env python3
"""Summarise out/reg/*.txt (outputs of tools/evalseed_wt.sh): seeds caught by their own check / by any check,
refactorings silent, number of (refactoring, check) alarms."""
import os, re, sys, json
d = sys.argv[1] if len(sys.argv) > 1 else '/verif/out/reg'
seeds, refs = {}, {}
for fn in sorted(os.listdir(d)):
    txt = open(os.path.join(d, fn), errors='replace').read()
    m = re.search(r'^(\S+) caught-by:(.*)$', txt, re.M)
    if not m:
        print('NO RESULT', fn); continue
    c = m.group(2).split()
    c = [] if c == ['NONE'] else c
    (refs if m.group(1).startswith('R') else seeds)[m.group(1)] = c
own = [k for k, v in seeds.items() if k.split('-')[0] in v]
anyc = [k for k, v in seeds.items() if v]
print('seeds %d own-check %d any-check %d' % (len(seeds), len(own), len(anyc)))
print('not by own check:', ' '.join('%s(%s)' % (k, ','.join(v) or '-') for k, v in sorted(seeds.items()) if k not in own))
silent = [k for k, v in refs.items() if not v]
print('refactorings %d silent %d alarm-pairs %d' % (len(refs), len(silent), sum(len(v) for v in refs.values())))
print('alarming:', ' '.join('%s(%d)' % (k, len(v)) for k, v in sorted(refs.items()) if v))
json.dump({'seeds': seeds, 'refactorings': refs}, open(os.path.join(os.path.dirname(d), 'reg_summary.json'), 'w'), indent=1)
