#!/usr/bin/env python3
"""Store staged seeded changes / refactorings under /verif/seeded with what the checks reported for them.
usage: storeseeds.py seeds <stage-dir> <first-eval.txt> <latest-eval.txt>
       storeseeds.py refactorings <stage-dir> <first-eval.txt> <latest-eval.txt>
The eval files are the concatenated outputs of tools/evalseed.sh."""
import json, os, re, shutil, sys

kind, stage, first, latest = sys.argv[1:5]
verif = os.path.dirname(os.path.dirname(os.path.abspath(__file__)))

def parse(path):
    caught, reports, confirm = {}, {}, {}
    cur = None
    for line in open(path, errors='replace'):
        m = re.match(r'(\S+) confirm: (.*)', line)
        if m:
            confirm[m.group(1)] = m.group(2).strip()
            continue
        m = re.match(r'(\S+) caught-by:(.*)', line)
        if m:
            cur = m.group(1)
            c = m.group(2).split()
            caught[cur] = [] if c == ['NONE'] else c
            reports[cur] = []
            continue
        if cur and line.startswith('    '):
            reports[cur].append(line.strip())
    return caught, reports, confirm

c1, r1, conf1 = parse(first)
c2, r2, conf2 = parse(latest)
n = 0
for name in sorted(os.listdir(stage)):
    src = os.path.join(stage, name)
    if not os.path.isdir(src) or not os.path.exists(os.path.join(src, 'patch.diff')):
        continue
    dst = os.path.join(verif, 'seeded', name) if kind == 'seeds' else os.path.join(verif, 'seeded', 'refactorings', name)
    os.makedirs(dst, exist_ok=True)
    for f in ('patch.diff', 'demo_test.go'):
        if os.path.exists(os.path.join(src, f)):
            shutil.copy(os.path.join(src, f), os.path.join(dst, f))
    meta = json.load(open(os.path.join(src, 'meta.json')))
    meta['id'] = name
    meta.pop('commands_run', None)
    if kind == 'seeds':
        meta.setdefault('property', name.split('-')[0])
        meta['origin'] = 'written by a fresh sub-agent that was given only the property text and its own scratch worktree under /tmp (nothing from /verif)'
        meta['confirmed_by_me'] = {
            'how': 'tools/evalseed.sh <dir> confirm: scratch worktree of /repo HEAD outside /repo and /verif; demonstration copied to its package dir; worktree removed afterwards',
            'result': conf1.get(name) or conf2.get(name, 'see DESIGN section 10'),
            'meaning': 'demo passes without the patch; with the patch the code builds, the unedited existing suite passes, the demo fails',
        }
        meta['checks_run'] = "git -C /repo apply patch.diff; every check's quick command (gbv check -prop Cxx -tier quick); git -C /repo checkout -- ."
        meta['caught_by_first_round'] = c1.get(name, [])
        meta['caught_by'] = c2.get(name, [])
        meta['first_reports'] = r2.get(name, [])[:6]
    else:
        meta['kind'] = 'behaviour-preserving refactoring (false-alarm regression case)'
        meta['origin'] = 'written by a fresh sub-agent that was given only a region of /repo and its own scratch worktree under /tmp (nothing from /verif); it kept the suite green and compared old and new behaviour with a temporary differential test'
        meta['checks_run'] = "git -C /repo apply patch.diff; every check's quick command; git -C /repo checkout -- ."
        meta['alarms_first_round'] = c1.get(name, [])
        meta['alarms_now'] = c2.get(name, [])
        meta['remaining_reports'] = r2.get(name, [])[:8]
        meta['expected'] = 'no check should alarm: the properties hold on this tree'
    json.dump(meta, open(os.path.join(dst, 'meta.json'), 'w'), indent=1, ensure_ascii=False)
    n += 1
print('stored', n, kind)
