# Claims table read by tools/mkmanifest.py. One chk(...) per property whose check is built.

NOTES = ("Technique family: static analysis only. Every check type-checks /repo's current working tree from source and decides rule "
         "instances on typed AST / SSA / CFG / call graph; nothing from /repo is executed. All claims are level 'other': each check "
         "decides the structural clauses listed in its level text (necessary conditions of the property) and not the behaviour as a whole. "
         "KNOWN_FINDINGS.txt lists defects repaired by 'fix:' commits in /repo.")

ENGINES = [
    {"name": "gbv", "path": "/verif/gbv", "serves_properties": [], "kind_free_text":
     "one Go binary (x/tools v0.29.0: go/packages, go/ssa, dominators, VTA call graph) with rule sets per property; in-memory overlay variants as self-test"},
]

NOT_APPLICABLE = {}

chk("C04", "gbv/streamfsm+lifecycle",
    "SSA dataflow + dominance over parseEvents and Stream (position-cell invariant)",
    "Decides the inductive position invariant structurally, for every exit and every path rather than sampled runs: every one of the parser's "
    "exits returns a fresh load of the position cell; the cell is advanced in the commit closure only on the handler-accepted edge, and every exit of commit after that edge has advanced it; only "
    "initialisation, commit and the rotate arm write it; Stream writes the parser's result back on every path and nothing else stores the resume "
    "position; the next attempt starts there; every accepted event reaches the dispatch (no way round the loop skips the checksum stripping except for the format description, "
    "before a format is known, or for a kind without an arm), so no rotation or commit is lost to the cell; nothing is lost between socket and parser - one ReadPacket per decoder call, outside any loop, and every event read is handed over before the next read (R7); the dump request carries the stored file and offset (C07-R3, included); a failure inside the parser or the commit closure (handler, table lookup, decode) is tested and ends the attempt, so the loop cannot go on and move the position past a transaction that was not accepted (C06-R3, the parser's instances, included). It does not decide what the master serves between attempts nor run any history.",
    "sync/atomic.Value semantics; handler failures are signalled by the returned error.",
    "DESIGN.md 5/C04")

chk("C02", "gbv/streamfsm+dispatch",
    "arm-label dataflow over the dispatch loop's SSA + dominance/must-pass-through of effects",
    "Decides the effect structure behind the grouping for every event kind and every path: one handler call site (in the commit closure), commit called only "
    "from XID/COMMIT/ROLLBACK arms or from change arms under the 'no BEGIN open' guard, per-arm table of which arms may touch buffer/flag/format/table cache, "
    "required effects on every path of each arm (ROLLBACK clears before committing, change arms append exactly one event), resets only after acceptance, "
    "case-insensitive and total statement classification; begin installs a freshly allocated buffer. Included: no accepted event skips the dispatch and no packet is filtered before the parser (C04-R6/R7), the QUERY_EVENT layout and "
    "status-variable scan (C16-R4/R5), every format description adopted (C16-R6). It does not decide SQL tokenisation of unusual text nor run any event sequence.",
    "arm names are derived from the exported Statement*/BinlogEvent API; a new arm that commits needs a table entry.",
    "DESIGN.md 5/C02")

chk("C03", "gbv/streamfsm",
    "field-wise value provenance (store-to-load forwarding) in the commit closure, rotate arm and offset conversion chains",
    "Decides how the labels are computed and that they chain: now = cell at closure entry, next = {same file, NextPosition() of the commit event, no arithmetic}, "
    "constructor parameter order, cell == next on the accepted exit, commit always receives the stripped current event, rotate stores Rotate()'s results, and every "
    "conversion on the offset chain is one of uint32->int64 / uint64->int64 / int64->uint32. The check includes C04-R2/R3/R6 (the cell moves only at an accepted commit and at a "
    "rotation; every accepted event is dispatched) and C07-R3 (the request of the next attempt carries the stored file and the offset as uint32), which chaining and resumption need. It does not decide what a master serves when resumed at a label.",
    "none beyond the common base.",
    "DESIGN.md 5/C03")

chk("C16", "gbv/streamfsm+wirefmt",
    "receiver provenance in the parser; SCCP specialisation of StripChecksum over all 256 algorithm values; affine offset-term extraction of header/body reads compared with the documented event layouts",
    "Decides: every body parser runs on the checksum-stripped event with the current format; StripChecksum is identity for OFF/UNDEF, a capacity-preserving re-slice "
    "dropping exactly 4 bytes for CRC32 and an error otherwise (all 256 values); the six header accessors read exactly the v4 header ranges, little-endian, and agree with "
    "the package's writer; the fixed-offset reads (with destinations) of Format, Rotate, Query, IntVar, Rand and both GTID parsers equal the documented layouts; the "
    "status-variable scanner advances by the documented size per code. Every format description is decoded and adopted (none skipped once a format is known); HeaderSize(t) is entry t-1 of the described table for every described type; accessors and body parsers keep no package-level state. It decides which bytes reach which result, not the arithmetic performed on them.",
    "the MySQL internals documentation of event layouts, encoded as the spec table in rules_c16.go; encoding/binary semantics.",
    "DESIGN.md 5/C16")

chk("C17", "gbv/wirefmt+streamfsm",
    "SCCP over IsValid's comparison regions (exhaustive for its constants); constant-bound check of header accessors; dominance of every event method call by the gate",
    "Decides: IsValid's verdict equals (len>=19 && lengthField==len) on every order region its comparisons can distinguish and touches the buffer only when len>=19; "
    "all index/slice bounds of header accessors are constants within the guaranteed header (also after checksum stripping); every method invoked on a received event in the "
    "parser is dominated by the accepting edge; the rejecting edge returns a non-nil error and a fresh load of the position cell with no state effect; every packet reaches the gate (no skip or filter between socket and parser, R5); the header accessors read the exact header ranges (C16-R3, included). Body parsers on gate-accepted but "
    "malformed bodies are outside the statement and not decided.",
    "buffers shorter than 2^31 bytes.",
    "DESIGN.md 5/C17")

chk("C05", "gbv/lifecycle",
    "goroutine inventory, blocking-operation classification, a three-state publish/close automaton run as a set-valued dataflow with callee transfer functions, dominance (release on every exit), context provenance, who-writes-what for shared cells; VTA reachability in thorough",
    "Decides the structure that makes termination and cleanup hold under every timing: one goroutine; the handler unreachable from it; every blocking channel operation of the reader "
    "escapable; every reader exit publishes then closes; connection close deferred on every exit after construction and the constructor hands the connection out only with a nil error (closing it otherwise, after the driver connection has been stored in the object or directly); the reader's context derived in Stream with a deferred cancel; Error()'s "
    "receive nil-guarded and its channel always that of a started reader; shared cells and fields written only before the go statement; the parser's only wait is a select with ctx.Done(); the packet decoder cannot loop over ReadPacket (no retry or skip loop that never reaches a reader exit) and the reader cannot bypass its hand-off (R10); the reader goroutine is the only sender on the capacity-1 reason channel, so its one plain send cannot block (R11). "
    "It does not decide wall-clock bounds, stalls inside driver handshake calls, or data races inside the driver.",
    "driver facts listed in DESIGN section 2 (only Close unblocks ReadPacket); sync.Once / context / buffered channel semantics; handler and mapper return.",
    "DESIGN.md 5/C05")

chk("C06", "gbv/lifecycle+streamfsm",
    "nil-ness dataflow on every exit, error-discipline check (test + failure region ends in a return derived from the error), classification by dominating conditions, sentinel-only filtering by edge-cut reachability",
    "Decides: the parser returns nil only on channel-closed / ctx-done edges and provably non-nil errors elsewhere; Stream never returns a typed nil and returns nil only after the parser did; every "
    "error result on the stream path is tested and propagated (one named exception); the packet decoder wraps the transport error, the master's error packet, and produces the EOF sentinel only for EOF "
    "packets; the reason is published before any channel is closed; Error() can return nil for a received reason only through equality with context.Canceled / errStreamEOF; that sentinel is a value of its own (errors.New / fmt.Errorf, never an alias such as io.EOF) and the "
    "reason channel is received from only by Error(); every format description is decoded, so its decode failure can be reported (C16-R6, included). Timing (the caller-context "
    "filter in Error()) is not decided.",
    "driver facts (ReadPacket never returns empty slice with nil error; HandleErrorPacket decodes the master's message).",
    "DESIGN.md 5/C06")

chk("C07", "gbv/lifecycle",
    "call-site enumeration on the driver interface + dominance + argument provenance through parameters and struct fields",
    "Decides nearly the whole statement: the checksum announcement (constant checked by pattern) precedes the dump on every path and its failure aborts; exactly one NoticeDump site, outside loops, "
    "once per Stream call, and no other driver write calls; server id = NewStreamer's parameter unconverted, offset = uint32(P.Offset) and file = P.Filename of the stored position read in this Stream "
    "call, flags = constant 0. The driver's packet encoding is trusted.",
    "driver NoticeDump/Exec encode what they are given.",
    "DESIGN.md 5/C07")

chk("C08", "gbv/ownership",
    "may-alias root analysis (H-alias) with explicit standard-library model and in-package summaries; escape check of the transport buffer; allocation-site/loop check of delivered containers",
    "Decides the aliasing structure: the transport's reused buffer flows only into len / element reads / the source side of copy and append / HandleErrorPacket and each event is built on a "
    "per-packet allocation; every success return of CellBytes may alias only the event's own buffer or memory allocated in the call (never package-level storage, unknown producers fail closed); "
    "delivered containers are fresh allocations produced in the loop iteration that appends them; no reference-typed field or element of a delivered object is set to memory read out of a "
    "delivered object (before and after images never share a value's bytes); the buffer handed to the handler is replaced, not re-sliced (C02-R4, included); nothing on the conversion path writes package-level state (no shared tables, pools or scratch buffers). It does not decide what a handler does through cap() of a delivered slice.",
    "the alias model of bytes.Buffer/append/strconv/copy in ownership.go; driver returns a window of a reused buffer; strings immutable.",
    "DESIGN.md 5/C08")

chk("C18", "gbv/ownership",
    "taint fixpoint over SSA for receiver-derived memory + write-instruction check with in-package callee summaries; normalised linear form of bound-vs-sequence comparisons",
    "Decides only the immutability clause and two structural preconditions of canonical form: no method of Mysql56GTIDSet (or in-package callee) writes storage reachable from its receiver; AddGTID's "
    "result map and the interval lists stored into it are allocated in the method; the parser sorts interval lists before storing them and SIDs() sorts its result; the comparators used for sorting "
    "never decide by the sign of a difference that can wrap; Contains never decides on the number of intervals the two sets hold nor accepts an interval by point lookups of its end points (two shortcuts that are wrong for some pair of sets), nor compare full-width unsigned words as signed numbers; no inequality between an interval bound and a sequence number separates members of the (closed) interval from each other - `end > seq`, `start >= seq` and their mirror images put a boundary member among the non-members (R8); the SID-block reader stores every interval it reads (C19-R4 keep-all, included: sets reach the library in that form too); set operations keep no package-level state. Set-algebra agreement "
    "(Contains/Equal/merge correctness) is a statement about values and is not decided.",
    "list of standard-library functions that write through arguments (ownership.go); other stdlib callees do not.",
    "DESIGN.md 5/C18")

chk("C19", "gbv/dispatch+ownership+wirefmt",
    "registry/implementer cross-check on go/types; write-through taint (as C18); transfer-token comparison of the SID-block writer and reader; separator and field-order agreement between String() and parsers",
    "Decides: every GTID/GTIDSet implementation's constant flavor has a registered parser returning that type; GTIDs are comparable value types; MariadbGTIDSet methods never write the receiver's "
    "storage; SIDBlock and its reader perform the same nested fixed-width little-endian transfers with matching end bias and PREVIOUS_GTIDS feeds the event body to the reader; printing and parsing "
    "agree on separators and field order; lookups in a MariaDB set (unordered, one position per domain) are full scans - no order-assuming search, no early exit on the order of domain ids, no package-level state; the GTID event layouts (C16-R4) and the sorting of parsed interval lists (C18-R3) are included; no index carried over from "
    "an enclosing loop. The round trips themselves are not decided.",
    "encoding/binary transfers the size of the static type.",
    "DESIGN.md 5/C19")

chk("C09", "gbv/cellcodec",
    "sparse conditional constant propagation (H-sccp) of cellLength and CellBytes over the metadata domain + canonical-term comparison (H-term); loop-skeleton extraction from phi edges",
    "Decides that the length rule and the value decoder agree on the size of a cell for every column type and every valid metadata value (quick: all 1580 DECIMAL pairs, all fsp, BIT, ENUM/SET, "
    "blob widths, boundary string lengths, every CHAR real-type byte; thorough: all 65536 metadata values of the three string types - exhaustive), that both handle the same type codes, that the four "
    "row loops start (ordinal, NULL index) at 0 for every image and move (ordinal, NULL index, offset) by (1,0,0)/(1,1,0)/(1,1,L) on absent/NULL/value paths with L taken for Types[c], Metadata[c], that image "
    "families are not mixed and NULL bitmaps are sized by the present-column count, that bitmap constructors/accessors agree, and that per rows-event type Rows reads the images that type carries and finds the "
    "column count after the table id, flags and (v2) the self-inclusive extra-data block. Splitting and decoding keep no package-level state (R7). Included: the right table map reaches the rows (C15-R1/R3), per-type metadata layout (C15-R5), the event is a private copy of the packet (C08-R1), stripped with the current format (C16-R1/R6). It does not decide that row counts and bytes equal what a master encoded.",
    "H-sccp models Go's modular integer arithmetic; dig2bytes is proven constant; metadata domains as MySQL produces them.",
    "DESIGN.md 5/C09")

chk("C10", "gbv/cellcodec",
    "H-sccp specialisation per type + canonical value terms (H-term) compared with the documented decoding; operand provenance at the decoder call sites",
    "Decides API-usage and dependence facts without which the text cannot be exact: type, metadata, signedness, name and type are taken at one column ordinal; for each integer width the returns keyed "
    "by the unsigned flag are base-10 text of the little-endian value / of its two's-complement reinterpretation at exactly that width (INT24 sign bit and extension); FLOAT/DOUBLE use AppendFloat('f', -1, 32|64) "
    "on the little-endian IEEE bits; YEAR, ENUM (also as CHAR real type), BIT and SET shapes; the unsigned flag is read only by the code of the five integer types - the text of every other type depends on bytes, type and metadata alone (R4); the per-type metadata layout of these types (included: the decode chain of DESIGN 9.5 - C15-R1/R3/R5, C09-R2..R5/R7, C08-R1/R2). The numeric results themselves (strconv, math) are trusted, not decided.",
    "canonical terms are compared syntactically after normalisation; an algebraically different but equivalent decoder needs a table update.",
    "DESIGN.md 5/C10")

chk("C11", "gbv/cellcodec",
    "H-sccp over all 1580 (precision, scale) pairs + definite-write must-analysis with guarded facts + fmt-verb and loop-bound checks on the specialised CFG",
    "Decides necessary conditions for every valid (p,s): an integer digit is definitely written before the decimal point and before every success return (zero never decodes to an empty or sign-only value); no "
    "verb pads with spaces; the cursor of each 9-digit-group loop advances by 4 on every way round; after the "
    "'.' exactly the verbs %09d (s/9 times) and %0Nd (N = s mod 9) are reachable, fed by big-endian reads of the tabulated widths, and integer groups use only %09d/%d/strconv; dig2bytes is constant and equals "
    "MySQL's table; the DECIMAL metadata layout (included: the decode chain of DESIGN 9.5 - C15-R1/R3/R5, C09-R2..R5/R7, C08-R1/R2, C10-R4 no dependence on the unsigned flag). The digit arithmetic and negative inversion are not decided.",
    "fmt verb semantics; strconv.AppendUint yields at least one digit.",
    "DESIGN.md 5/C11")

chk("C12", "gbv/cellcodec",
    "H-sccp per (type, fsp) + reachable-format and argument-term checks; canonical value terms of the fixed layouts compared with the documented packings",
    "Decides: per fsp the only reachable fraction format prints exactly fsp digits of the big-endian fraction bytes (divided by 10 for odd fsp - for TIME2 as the last step, after the borrow for negative values); TIMESTAMP text comes from time.Unix in the local zone with "
    "the fields in order and the documented zero literal, and no returned text lives in package-level storage (C08-R2, included); the fsp metadata layout (included: the decode chain of DESIGN 9.5 - C15-R1/R3/R5, C09-R2..R5/R7, C08-R1/R2, C10-R4 no dependence on the unsigned flag); DATE/NEWDATE/DATETIME/DATETIME2/TIMESTAMP/TIMESTAMP2 extract their fields from the documented bit and decimal packings. TIME/TIME2 sign and hour "
    "arithmetic and out-of-range rendering are not decided (a known mis-rendering of negative pre-5.6.4 TIME is outside static reach, see DESIGN).",
    "canonical terms are compared syntactically after normalisation.",
    "DESIGN.md 5/C12")

chk("C13", "gbv/cellcodec",
    "H-sccp over the string-type metadata domains + canonical slice terms; path-class effects in the streamer's column loops",
    "Decides: for VARCHAR/VAR_STRING/CHAR/blobs/GEOMETRY the value is the direct sub-slice after a prefix whose width follows the declared maximum (thorough: all 65536 metadata values, exhaustive); in the "
    "streamer absent/NULL/value are delivered as {IsEmpty}, {nil data}, {decoder result}, each appended exactly once, and IsEmpty is set nowhere else; the decoder can fail for a string cell only "
    "when the cell does not fit the buffer (never on content, never on an empty value at the end of the image); the column loops leave towards success only when the ordinal reached the column "
    "count (trailing absent columns are delivered); ordinal/NULL-index bookkeeping of those loops (C09-R3), and the rest of the decode chain of DESIGN 9.5 (C15-R1/R3/R5, C09-R2..R5/R7, C08-R1/R2, C10-R4 no dependence on the unsigned flag) are included. Byte equality with the master follows given a "
    "well-formed image and is not decided on its own.",
    "a sub-slice of a non-nil image is non-nil even when empty.",
    "DESIGN.md 5/C13")

chk("C15", "gbv/streamfsm+cellcodec+wirefmt",
    "must-pass-through and dominance on the table-cache arm; SCCP over 256 type codes for the three metadata siblings; SCCP over header-size classes and lenenc prefix classes with canonical terms; read-fact extraction of the table-map body",
    "Decides: the decoded map always reaches the cache entry of its own table id; insertion only on the equal edge of the column-count comparison, mismatch is an error; mapper asked for (Database, Name) "
    "and the name constructor keeps that order; rows arms use the entry of their own id and fail on a missing id; per-image count guards; metadataLength/Read/Write agree with each other and with MySQL's "
    "per-type layout for all 256 codes; TableID/TableMap/Rows choose the table-id width identically; the table-map body is read at the documented offsets, nothing after the NULL bitmap is read and no failing exit depends on bytes remaining after it (optional metadata of newer masters); parsing keeps no package-level state; name, type, metadata and signedness are taken at one column ordinal (C10-R1, included) and the event is a private copy of the packet (C08-R1, included); "
    "readLenEncInt composes exactly n little-endian bytes, advances by 1+n and bounds-checks. End-to-end decoding of arbitrary schemas is not decided.",
    "MySQL internals documentation of TABLE_MAP_EVENT and per-type metadata (spec tables in rules_c15.go).",
    "DESIGN.md 5/C15")

chk("C01", "gbv/streamfsm",
    "operand provenance per dispatch arm, constructor parameter mapping, loop-shape check of the row conversions, framing terms",
    "End-to-end equality over all binlogs is a runtime quantity and is NOT decided. The check is the conjunction of the structural clauses of the statement: it runs, besides its own rules, all rules of "
    "C02 (grouping), C09 (row splitting), C10-C14 (value text per column type), C15 (table maps, metadata), C16 (checksum stripping, header and body layouts) and C04-R6, C08-R2/R4 (quick tier), "
    "reported under their own rule ids. C01's own rules decide the routing facts "
    "whose violation changes what the handler sees for every input: rows arms build Insert / Update / Delete events from the rows decoded in the same iteration with the right images in the right lists "
    "(values<-Data image, identifies<-Identify image), one image per row in order, table = cached mapper table, timestamps = the dispatched event's; query arms buffer {category, decoded query, timestamp}; "
    "the event is packet[1:] in a len-1 buffer and the packet kind is packet[0].",
    "the trusted bases of the included checks.",
    "DESIGN.md 5/C01 and 9.4")

chk("C14", "gbv/dispatch+cellcodec",
    "H-sccp over all 256 type bytes x size classes with executable-call extraction; canonical terms of the scalar printers and readers",
    "Decides dispatch completeness and the layout rules of MySQL's binary JSON that do not depend on the document: exactly the declared type codes are handled (containers with the right size class), the "
    "opaque sub-dispatch handles exactly DATE/TIME/DATETIME/NEWDECIMAL on the size-prefixed payload, a value entry is inlined iff its payload fits the entry (2 bytes, 4 in the large format) with the same "
    "printer and width, every offset/size read uses the container's size class except the key length, entry stride 3/5, the offset reader composes 2/4 little-endian bytes, scalar printers render the "
    "documented widths/signedness; the entry printer never rejects an out-of-line value that starts inside the document (R6); the JSON column's metadata layout (included: the decode chain of DESIGN 9.5 - C15-R1/R3/R5, C09-R2..R5/R7, C08-R1/R2, C10-R4 no dependence on the unsigned flag). Rendering of arbitrary documents (nesting, order, offsets, escaping, opaque arithmetic) is not decided.",
    "MySQL json_binary.cc layout constants encoded in rules_c14.go.",
    "DESIGN.md 5/C14")

chk("C20", "gbv/jsonshape+dispatch",
    "encoding/json type walk on go/types from every json.Marshal call; effective JSON field sets (tags, embedding, conflicts) joined with field-wise value provenance; totality of the name tables",
    "Decides: marshalling cannot fail (only always-marshalable kinds, no recursion, only the package's own Marshalers, each returning exactly its json.Marshal result); every source field the statement "
    "lists reaches a visible, non-omitempty JSON field in every branch; name tables are total, distinct and looked up by the receiver; the data field is null exactly when c.Data == nil and the string "
    "otherwise. encoding/json's escaping and invalid-UTF-8 replacement are trusted, not decided. The name printed for a wire type is the name of that wire type (constants cannot be swapped); marshalers keep no package-level state; the NULL / empty / absent stores of the streamer (C13-R2) are included.",
    "encoding/json field-selection rules as re-implemented in rules_c20.go.",
    "DESIGN.md 5/C20")

ENGINES[0]["serves_properties"] = sorted(CHECKS.keys())
