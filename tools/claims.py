# Claims table read by tools/mkmanifest.py. One chk(...) per property whose check is built.

NOTES = ("Technique family: static analysis only. Every check type-checks /repo's current working tree from source and decides rule "
         "instances on typed AST / SSA / CFG / call graph; nothing from /repo is executed. All claims are level 'other': each check "
         "decides the structural clauses listed in its level text (necessary conditions of the property) and not the behaviour as a whole. "
         "KNOWN_FINDINGS.txt lists defects repaired by 'fix:' commits in /repo.")

ENGINES = [
    {"name": "gbv", "path": "/verif/gbv", "serves_properties": [], "kind_free_text":
     "one Go binary (x/tools v0.29.0: go/packages, go/ssa, dominators, VTA call graph) with rule sets per property; in-memory overlay variants as self-test"},
]

NOT_APPLICABLE = {}

chk("C04", "gbv/streamfsm+lifecycle",
    "SSA dataflow + dominance over parseEvents and Stream (position-cell invariant)",
    "Decides the inductive position invariant structurally, for every exit and every path rather than sampled runs: every one of the parser's "
    "exits returns a fresh load of the position cell; the cell is advanced in the commit closure only on the handler-accepted edge; only "
    "initialisation, commit and the rotate arm write it; Stream writes the parser's result back on every path and nothing else stores the resume "
    "position; the next attempt starts there. It does not decide what the master serves between attempts nor run any history.",
    "sync/atomic.Value semantics; handler failures are signalled by the returned error.",
    "DESIGN.md 5/C04")

chk("C02", "gbv/streamfsm+dispatch",
    "arm-label dataflow over the dispatch loop's SSA + dominance/must-pass-through of effects",
    "Decides the effect structure behind the grouping for every event kind and every path: one handler call site (in the commit closure), commit called only "
    "from XID/COMMIT/ROLLBACK arms or from change arms under the 'no BEGIN open' guard, per-arm table of which arms may touch buffer/flag/format/table cache, "
    "required effects on every path of each arm (ROLLBACK clears before committing, change arms append exactly one event), resets only after acceptance, "
    "case-insensitive and total statement classification. It does not decide SQL tokenisation of unusual text nor run any event sequence.",
    "arm names are derived from the exported Statement*/BinlogEvent API; a new arm that commits needs a table entry.",
    "DESIGN.md 5/C02")

chk("C03", "gbv/streamfsm",
    "field-wise value provenance (store-to-load forwarding) in the commit closure, rotate arm and offset conversion chains",
    "Decides how the labels are computed and that they chain: now = cell at closure entry, next = {same file, NextPosition() of the commit event, no arithmetic}, "
    "constructor parameter order, cell == next on the accepted exit, commit always receives the stripped current event, rotate stores Rotate()'s results, and every "
    "conversion on the offset chain is one of uint32->int64 / uint64->int64 / int64->uint32. It does not decide what a master serves when resumed at a label.",
    "with C02-R3/C04-R3 (only commit and rotate write the cell).",
    "DESIGN.md 5/C03")

ENGINES[0]["serves_properties"] = sorted(CHECKS.keys())
