# Claims table read by tools/mkmanifest.py. One chk(...) per property whose check is built.

NOTES = ("Technique family: static analysis only. Every check type-checks /repo's current working tree from source and decides rule "
         "instances on typed AST / SSA / CFG / call graph; nothing from /repo is executed. All claims are level 'other': each check "
         "decides the structural clauses listed in its level text (necessary conditions of the property) and not the behaviour as a whole. "
         "KNOWN_FINDINGS.txt lists defects repaired by 'fix:' commits in /repo.")

ENGINES = [
    {"name": "gbv", "path": "/verif/gbv", "serves_properties": [], "kind_free_text":
     "one Go binary (x/tools v0.29.0: go/packages, go/ssa, dominators, VTA call graph) with rule sets per property; in-memory overlay variants as self-test"},
]

NOT_APPLICABLE = {}

chk("C04", "gbv/streamfsm+lifecycle",
    "SSA dataflow + dominance over parseEvents and Stream (position-cell invariant)",
    "Decides the inductive position invariant structurally, for every exit and every path rather than sampled runs: every one of the parser's "
    "exits returns a fresh load of the position cell; the cell is advanced in the commit closure only on the handler-accepted edge; only "
    "initialisation, commit and the rotate arm write it; Stream writes the parser's result back on every path and nothing else stores the resume "
    "position; the next attempt starts there. It does not decide what the master serves between attempts nor run any history.",
    "sync/atomic.Value semantics; handler failures are signalled by the returned error.",
    "DESIGN.md 5/C04")

ENGINES[0]["serves_properties"] = sorted(CHECKS.keys())
