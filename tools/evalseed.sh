#!/bin/bash
# Evaluate one seeded change against the checks.
#   tools/evalseed.sh <seed-dir> [confirm]
# <seed-dir> holds patch.diff, demo_test.go (first line: // package-dir: <dir>), meta.json.
# Step 1 (only with "confirm"): in a scratch worktree outside /repo and /verif confirm that with the patch the code builds,
#   the existing suite passes and the demonstration fails, and that without the patch the demonstration passes.
# Step 2: apply the patch to /repo (git apply), run every check's quick command, undo it straight afterwards
#   (git checkout -- .), and print which checks raised a violation.
set -u
SEED="$(cd "$1" && pwd)"
MODE="${2:-}"
VERIF="$(cd "$(dirname "$0")/.." && pwd)"
export GOFLAGS=-mod=mod GOPROXY=off GOSUMDB=off GOTOOLCHAIN=local
unset GOWORK
ID="$(basename "$SEED")"
if [ "$MODE" = "confirm" ]; then
  WT="/tmp/evalseed.$$"
  git -C /repo worktree add -q --detach "$WT" HEAD || exit 2
  trap 'git -C /repo worktree remove --force "$WT" >/dev/null 2>&1' EXIT
  PKG="$(head -1 "$SEED/demo_test.go" | sed -n 's,^// *package-dir: *,,p')"
  [ -z "$PKG" ] && { echo "$ID: no package-dir line"; exit 2; }
  NAME="$(python3 -c "import json,sys; print(json.load(open('$SEED/meta.json')).get('demo_test_name',''))" 2>/dev/null)"
  RUN="${NAME:-.}"
  ( cd "$WT" && cp "$SEED/demo_test.go" "$PKG/zz_seed_demo_test.go" && go test -vet=off -count=1 -timeout 120s -run "$RUN" "./$PKG" >/tmp/evalseed.$$.clean 2>&1 ); CLEAN=$?
  rm -f "$WT/$PKG/zz_seed_demo_test.go"
  ( cd "$WT" && git apply "$SEED/patch.diff" ) || { echo "$ID: patch does not apply"; exit 2; }
  ( cd "$WT" && go build ./... >/tmp/evalseed.$$.build 2>&1 ); BUILD=$?
  ( cd "$WT" && go test -vet=off -count=1 -timeout 300s ./... >/tmp/evalseed.$$.suite 2>&1 ); SUITE=$?
  ( cd "$WT" && cp "$SEED/demo_test.go" "$PKG/zz_seed_demo_test.go" && go test -vet=off -count=1 -timeout 120s -run "$RUN" "./$PKG" >/tmp/evalseed.$$.mut 2>&1 ); MUT=$?
  echo "$ID confirm: demo-without-patch=$CLEAN (want 0) build=$BUILD (want 0) suite-with-patch=$SUITE (want 0) demo-with-patch=$MUT (want !=0)"
  rm -f /tmp/evalseed.$$.*
  if [ $CLEAN -ne 0 ] || [ $BUILD -ne 0 ] || [ $SUITE -ne 0 ] || [ $MUT -eq 0 ]; then echo "$ID: NOT CONFIRMED"; exit 3; fi
fi
# Step 2
if [ -n "$(git -C /repo status --porcelain --untracked-files=no)" ]; then echo "/repo is dirty; refusing"; exit 2; fi
git -C /repo apply "$SEED/patch.diff" || { echo "$ID: patch does not apply to /repo"; exit 2; }
trap 'git -C /repo checkout -- . ; [ -n "${WT:-}" ] && git -C /repo worktree remove --force "$WT" >/dev/null 2>&1' EXIT
[ -n "${SEED_RENAME:-}" ] && "$VERIF/tools/renameall.sh" /repo >/dev/null
"$VERIF/gbv.sh" build
CAUGHT=""
mkdir -p "$VERIF/out/seeds/$ID"
for P in C01 C02 C03 C04 C05 C06 C07 C08 C09 C10 C11 C12 C13 C14 C15 C16 C17 C18 C19 C20; do
  ( "$VERIF/bin/gbv" check -prop $P -tier quick -no-evidence -repo /repo -verif "$VERIF" > "$VERIF/out/seeds/$ID/$P.log" 2>&1; echo $? > "$VERIF/out/seeds/$ID/$P.rc" ) &
  while [ "$(jobs -r | wc -l)" -ge 5 ]; do sleep 0.2; done
done
wait
for P in C01 C02 C03 C04 C05 C06 C07 C08 C09 C10 C11 C12 C13 C14 C15 C16 C17 C18 C19 C20; do
  if [ "$(cat "$VERIF/out/seeds/$ID/$P.rc")" != "0" ]; then
    CAUGHT="$CAUGHT $P"
  fi
done
git -C /repo checkout -- .
echo "$ID caught-by:${CAUGHT:- NONE}"
for P in $CAUGHT; do grep -h "\[violated\]\|\[undecided\]\|cannot analyse" "$VERIF/out/seeds/$ID/$P.log" | cut -c1-260 | head -3 | sed "s/^/    $P: /"; done
exit 0
