#!/bin/bash
# Like evalseed.sh, but on a scratch git worktree of /repo HEAD (outside /repo and /verif) so that several evaluations can
# run side by side. The registered checks are unchanged; only -repo points at the scratch tree.
#   tools/evalseed_wt.sh <seed-dir> [confirm]
set -u
SEED="$(cd "$1" && pwd)"
MODE="${2:-}"
VERIF="$(cd "$(dirname "$0")/.." && pwd)"
export GOFLAGS=-mod=mod GOPROXY=off GOSUMDB=off GOTOOLCHAIN=local
unset GOWORK
ID="$(basename "$SEED")"
WT="/tmp/evalwt.$$"
git -C /repo worktree add -q --detach "$WT" HEAD || exit 2
trap 'git -C /repo worktree remove --force "$WT" >/dev/null 2>&1; rm -f /tmp/evalwt.$$.*' EXIT
if [ "$MODE" = "confirm" ]; then
  PKG="$(head -1 "$SEED/demo_test.go" | sed -n 's,^// *package-dir: *,,p')"
  [ -z "$PKG" ] && { echo "$ID: no package-dir line"; exit 2; }
  NAME="$(python3 -c "import json,sys; print(json.load(open('$SEED/meta.json')).get('demo_test_name',''))" 2>/dev/null)"
  RUN="${NAME:-.}"
  ( cd "$WT" && cp "$SEED/demo_test.go" "$PKG/zz_seed_demo_test.go" && go test -vet=off -count=1 -timeout 120s -run "$RUN" "./$PKG" >/tmp/evalwt.$$.clean 2>&1 ); CLEAN=$?
  rm -f "$WT/$PKG/zz_seed_demo_test.go"
  ( cd "$WT" && git apply "$SEED/patch.diff" ) || { echo "$ID: patch does not apply"; exit 2; }
  ( cd "$WT" && go build ./... >/tmp/evalwt.$$.build 2>&1 ); BUILD=$?
  ( cd "$WT" && go test -vet=off -count=1 -timeout 300s ./... >/tmp/evalwt.$$.suite 2>&1 ); SUITE=$?
  ( cd "$WT" && cp "$SEED/demo_test.go" "$PKG/zz_seed_demo_test.go" && go test -vet=off -count=1 -timeout 120s -run "$RUN" "./$PKG" >/tmp/evalwt.$$.mut 2>&1 ); MUT=$?
  rm -f "$WT/$PKG/zz_seed_demo_test.go"
  echo "$ID confirm: demo-without-patch=$CLEAN (want 0) build=$BUILD (want 0) suite-with-patch=$SUITE (want 0) demo-with-patch=$MUT (want !=0)"
  if [ $CLEAN -ne 0 ] || [ $BUILD -ne 0 ] || [ $SUITE -ne 0 ] || [ $MUT -eq 0 ]; then echo "$ID: NOT CONFIRMED"; exit 3; fi
else
  ( cd "$WT" && git apply "$SEED/patch.diff" ) || { echo "$ID: patch does not apply"; exit 2; }
fi
[ -n "${SEED_RENAME:-}" ] && "$VERIF/tools/renameall.sh" "$WT" >/dev/null
CAUGHT=""
PROPS="${PROPS:-C01 C02 C03 C04 C05 C06 C07 C08 C09 C10 C11 C12 C13 C14 C15 C16 C17 C18 C19 C20}"   # PROPS="C18 C19" restricts the evaluation to some checks
OUT="$VERIF/out/seeds/$ID"
mkdir -p "$OUT"
for P in $PROPS; do
  ( "${GBV_BIN:-$VERIF/bin/gbv}" check -prop $P -tier quick -no-evidence -repo "$WT" -verif "$VERIF" > "$OUT/$P.log" 2>&1; echo $? > "$OUT/$P.rc" ) &
  while [ "$(jobs -r | wc -l)" -ge 4 ]; do sleep 0.2; done
done
wait
for P in $PROPS; do
  if [ "$(cat "$OUT/$P.rc")" != "0" ]; then CAUGHT="$CAUGHT $P"; fi
done
echo "$ID caught-by:${CAUGHT:- NONE}"
for P in $CAUGHT; do grep -h "\[violated\]\|\[undecided\]\|cannot analyse" "$OUT/$P.log" | sed "s,$WT/,,g" | cut -c1-260 | head -3 | sed "s/^/    $P: /"; done
exit 0
