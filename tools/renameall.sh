#!/bin/bash
# Rename, in the working tree given as $1 (default /repo), every unexported function and method that the existing
# test files do not mention (so the suite still builds unedited). Used to measure that no rule depends on such a name.
# Undo with: git -C <tree> checkout -- .
set -u
T="${1:-/repo}"
cd "$T" || exit 2
SRC=$(ls *.go replication/*.go | grep -v _test.go)
i=0
for n in $(grep -hoE '^func (\([^)]*\) )?[a-z][A-Za-z0-9_]*' $SRC | sed -E 's/^func (\([^)]*\) )?//' | sort -u); do
  [ "$n" = init ] && continue
  if ! grep -qw "$n" *_test.go replication/*_test.go; then
    i=$((i+1))
    grep -lw "$n" $SRC | xargs sed -i "s/\b$n\b/fnQ$i/g"
  fi
done
echo "renamed $i functions"
