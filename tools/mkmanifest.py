#!/usr/bin/env python3
"""Generates /verif/MANIFEST.json from the table below (kept next to the checks so the
manifest never drifts from what is built). Run: python3 tools/mkmanifest.py"""
import json, os, sys

HERE = os.path.dirname(os.path.dirname(os.path.abspath(__file__)))

NOTE_COMMON = ("Trusted: go/types + go/ssa + go/packages of x/tools v0.29.0 and the analysers in /verif/gbv (unverified, hence 'other'); "
               "non-test files only; the behaviour-preserving source normal forms of gbv/normalise*.go (DESIGN 9.6); ")

# id -> (engine, technique, level text, level note, design ref)
CHECKS = {}

def chk(pid, engine, technique, text, note, ref):
    CHECKS[pid] = dict(engine=engine, technique=technique, text=text, note=NOTE_COMMON + note, ref=ref)

# ---- claimed properties (filled in as the engines are built) -----------------
exec(open(os.path.join(HERE, "tools", "claims.py")).read())

ALL = ["C%02d" % i for i in range(1, 21)]

def main():
    checks = []
    for pid in ALL:
        if pid not in CHECKS:
            continue
        c = CHECKS[pid]
        checks.append({
            "property_id": pid,
            "quick_cmd": "./gbv.sh check %s quick" % pid,
            "thorough_cmd": "./gbv.sh check %s thorough" % pid,
            "evidence_file": "/verif/evidence/%s.json" % pid,
            "replay_cmd_template": "./gbv.sh replay {path}",
            "engine": c["engine"],
            "level_claimed": {"category": "other", "text": c["text"], "design_ref": c["ref"]},
            "level_note": c["note"],
            "technique": c["technique"],
        })
    na = []
    for pid in ALL:
        if pid not in CHECKS:
            na.append({"property_id": pid, "reason": NOT_APPLICABLE.get(pid, "check not built yet in this revision of /verif; see DESIGN.md section 5 for the planned structural clauses")})
    m = {
        "version": 1,
        "setup_cmd": "./gbv.sh build",
        "hooks": {
            "guard": "verif",
            "enable": "none needed: the checks are static analyses that read /repo's source; no instrumentation is compiled into the library",
            "baseline_off_cmd": "cd /repo && GOFLAGS=-mod=mod GOPROXY=off GOSUMDB=off go test -vet=off -count=1 ./...",
            "source_commits": [],
            "add_only": True,
        },
        "engines": ENGINES,
        "checks": checks,
        "not_applicable": na,
        "notes": NOTES,
    }
    with open(os.path.join(HERE, "MANIFEST.json"), "w") as f:
        json.dump(m, f, indent=1)
        f.write("\n")
    print("wrote MANIFEST.json: %d checks, %d not_applicable" % (len(checks), len(na)))

main()
