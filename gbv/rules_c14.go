package main

import (
	"fmt"
	"go/constant"
	"go/token"
	"go/types"
	"sort"
	"strings"

	"golang.org/x/tools/go/ssa"
)

func init() {
	register("C14", propMeta{
		Explanation: "Rendering of arbitrary documents is value-level and not decided. Decided: (R1) dispatch completeness - printJSONValue, specialised on each of the 256 type bytes, handles exactly the declared " +
			"jsonType* constants, and the opaque sub-dispatch handles exactly DATE, TIME, DATETIME and NEWDECIMAL, each with its own printer fed data[pos:pos+size] of the variable-length prefix read at 1; " +
			"(R2) inlining rule - with N(T) the constant payload width printJSONValue slices for scalar type T, the value-entry reader (specialised on type and size class) prints T inline from the entry " +
			"iff N <= 2, or N <= 4 in the large format, with the same printer and exactly N bytes after the type byte, and otherwise follows the offset read with the size class; (R3) size-class propagation - " +
			"inside object/array printing every offset/size read and every entry receives the function's own size class, except exactly one constant-small read (the key length), and the entry stride is 3 / 5 " +
			"bytes (small / large); (R4) the offset/size reader composes 2 / 4 little-endian bytes and advances by exactly that; (R5) the scalar printers render the documented integer widths / signedness, the " +
			"double via AppendFloat('E', -1, 64), the three literals, and the opaque DATE / TIME / DATETIME printers extract their fields from MySQL's packed temporal format (10-bit hour for TIME); the variable-length prefix uses 7-bit groups with a continuation bit. " +
			"Not decided: nesting, key/value order and offsets of arbitrary documents, string escaping, opaque scalar arithmetic (e.g. negative opaque TIME).",
		Rule:        "instances = type bytes x size classes under SCCP, call arguments of the container printers, canonical terms of scalar printers",
		Trusted:     append([]string{"MySQL json_binary.cc layout (type codes, inlining rule, entry sizes) encoded in rules_c14.go", "H-sccp / H-term"}, commonTrusted...),
		Assumptions: []string{"canonical terms are compared syntactically after normalisation"},
	}, runC14)

	addVariants(
		Variant{ID: "c14-r6-rejects-last-one-byte-value", Prop: "C14", File: "replication/binlog_event_json.go",
			Old: "\t\toffset, _ := readOffsetOrSize(data, pos, large)\n", New: "\t\toffset, _ := readOffsetOrSize(data, pos, large)\n\t\tif offset >= len(data)-1 {\n\t\t\treturn fmt.Errorf(\"bad offset\")\n\t\t}\n",
			Expect: "C14-R6 entry-accepts@"},
		Variant{ID: "c14-r1-missing-uint64", Prop: "C14", File: "replication/binlog_event_json.go",
			Old: "\tcase jsonTypeUint64:\n\t\tprintJSONUint64(data[0:8], toplevel, result)\n", New: "",
			Expect: "C14-R1 dispatch@printJSONValue"},
		Variant{ID: "c14-r2-int32-inlined-small", Prop: "C14", File: "replication/binlog_event_json.go",
			Old: "\tcase typ == jsonTypeInt32 && large:", New: "\tcase typ == jsonTypeInt32:",
			Expect: "C14-R2 inline@entry[type=7,small]"},
		Variant{ID: "c14-r2-uint16-not-inlined", Prop: "C14", File: "replication/binlog_event_json.go",
			Old: "\tcase typ == jsonTypeUint16:\n\t\t// Value is always inlined in first 2 bytes.\n\t\tprintJSONUint16(data[pos:pos+2], false /* toplevel */, result)\n", New: "",
			Expect: "C14-R2 inline@entry[type=6"},
		Variant{ID: "c14-r2-wrong-printer", Prop: "C14", File: "replication/binlog_event_json.go",
			Old: "\tcase typ == jsonTypeUint32 && large:\n\t\t// Value is only inlined if large.\n\t\tprintJSONUint32(", New: "\tcase typ == jsonTypeUint32 && large:\n\t\t// Value is only inlined if large.\n\t\tprintJSONInt32(",
			Expect: "C14-R2 inline@entry[type=8,large]"},
		Variant{ID: "c14-r3-array-offset-small", Prop: "C14", File: "replication/binlog_event_json.go",
			Old:    "func printJSONArray(data []byte, large bool, result *bytes.Buffer) error {\n\tpos := 0\n\telementCount, pos := readOffsetOrSize(data, pos, large)\n\tsize, pos := readOffsetOrSize(data, pos, large)",
			New:    "func printJSONArray(data []byte, large bool, result *bytes.Buffer) error {\n\tpos := 0\n\telementCount, pos := readOffsetOrSize(data, pos, large)\n\tsize, pos := readOffsetOrSize(data, pos, false)",
			Expect: "C14-R3 size-class@jsonTypeLargeArray"},
		Variant{ID: "c14-r3-object-stride", Prop: "C14", File: "replication/binlog_event_json.go",
			Old:    "\t\tif large {\n\t\t\tpos += 5 // type byte + 4 bytes\n\t\t} else {\n\t\t\tpos += 3 // type byte + 2 bytes\n\t\t}\n\t}\n\tresult.WriteByte(')')\n\treturn nil\n}\n\nfunc printJSONArray",
			New:    "\t\tif large {\n\t\t\tpos += 5 // type byte + 4 bytes\n\t\t} else {\n\t\t\tpos += 2 // type byte + 2 bytes\n\t\t}\n\t}\n\tresult.WriteByte(')')\n\treturn nil\n}\n\nfunc printJSONArray",
			Expect: "C14-R3 stride@jsonTypeSmallObject"},
		Variant{ID: "c14-r4-reader-advance", Prop: "C14", File: "replication/binlog_event_json.go",
			Old: "\t\t\t\tint(data[pos+3])<<24,\n\t\t\tpos + 4", New: "\t\t\t\tint(data[pos+3])<<24,\n\t\t\tpos + 2",
			Expect: "C14-R4 reader@readOffsetOrSize[large]"},
		Variant{ID: "c14-r5-int32-unsigned", Prop: "C14", File: "replication/binlog_event_json.go",
			Old: "\tresult.Write(strconv.AppendInt(nil, int64(int32(val)), 10))", New: "\tresult.Write(strconv.AppendInt(nil, int64(val), 10))",
			Expect: "C14-R5 scalar@printJSONInt32"},
		Variant{ID: "c14-r5-opaque-time-hour-mask", Prop: "C14", File: "replication/binlog_event_json.go",
			Old: "\thour := (value >> 12) & 0x03ff // 10 bits starting at 12th", New: "\thour := (value >> 12) & 0x1f // 10 bits starting at 12th",
			Expect: "C14-R5 opaque@printJSONTime"},
		Variant{ID: "c14-r5-varlen-group", Prop: "C14", File: "replication/binlog_event_json.go",
			Old: "\t\tres |= int(bb&0x7f) << (7 * idx)", New: "\t\tres |= int(bb&0x7f) << (8 * idx)",
			Expect: "C14-R5 varlen@readVariableLength"},
		Variant{ID: "c14-r5-varlen-mask", Prop: "C14", File: "replication/binlog_event_json.go",
			Old: "\t\tres |= int(bb&0x7f) << (7 * idx)", New: "\t\tres |= int(bb&0xff) << (7 * idx)",
			Expect: "C14-R5 varlen@readVariableLength"},
		Variant{ID: "c14-r5-varlen-stop-inverted", Prop: "C14", File: "replication/binlog_event_json.go",
			Old: "\t\tif int8(bb) >= 0 {\n\t\t\tbreak", New: "\t\tif int8(bb) < 0 {\n\t\t\tbreak",
			Expect: "C14-R5 varlen@readVariableLength"},
		Variant{ID: "c14-r5-varlen-stop-bit6", Prop: "C14", File: "replication/binlog_event_json.go",
			Old: "\t\tif int8(bb) >= 0 {\n\t\t\tbreak", New: "\t\tif bb&0x40 == 0 {\n\t\t\tbreak",
			Expect: "C14-R5 varlen@readVariableLength"},
	)
}

// execCalls lists the executable calls of in-package functions under a specialisation, with argument terms.
type execCall struct {
	Callee string
	Args   []string
	In     *ssa.Call
}

func execCallsOf(f *ssa.Function, res *Result, names map[ssa.Value]string) []execCall {
	t := newTB(res)
	for k, v := range names {
		t.names[k] = v
	}
	var out []execCall
	instrs(f, func(in ssa.Instruction) {
		c, ok := in.(*ssa.Call)
		if !ok || !res.Exec[c.Block()] {
			return
		}
		cal := c.Common().StaticCallee()
		if cal == nil || cal.Pkg != f.Pkg {
			return
		}
		ec := execCall{Callee: roleName(cal), In: c}
		for _, arg := range c.Common().Args {
			switch {
			case isIntegerType(arg.Type()):
				ec.Args = append(ec.Args, t.term(arg).String())
			case types.Identical(arg.Type().Underlying(), types.Typ[types.Bool]):
				if b, ok := constBoolLat(res.get(arg)); ok {
					ec.Args = append(ec.Args, fmt.Sprint(b))
				} else if n, ok := t.names[arg]; ok {
					ec.Args = append(ec.Args, n)
				} else {
					ec.Args = append(ec.Args, "?bool")
				}
			default:
				ec.Args = append(ec.Args, t.sliceTerm(arg))
			}
		}
		for i := range ec.Args {
			ec.Args[i] = strings.ReplaceAll(ec.Args[i], "replication.", "")
		}
		out = append(out, ec)
	})
	sort.SliceStable(out, func(i, j int) bool { return out[i].In.Pos() < out[j].In.Pos() })
	return out
}

func (e execCall) String() string { return e.Callee + "(" + strings.Join(e.Args, ",") + ")" }

func runC14(a *A) {
	w := a.W
	pv := w.fn(w.Repl, "printJSONValue")
	pe := w.fn(w.Repl, "printJSONValueEntry")
	po := w.fn(w.Repl, "printJSONOpaque")
	ro := w.fn(w.Repl, "readOffsetOrSize")
	if !a.need(pv != nil && pe != nil && po != nil && ro != nil, "C14-R0", "printJSONValue / printJSONValueEntry / printJSONOpaque / readOffsetOrSize") {
		return
	}
	a.touch(pv, pe, po, ro)
	// declared JSON type codes
	declared := map[int64]string{}
	sc := w.Repl.Pkg.Scope()
	for _, n := range sc.Names() {
		if c, ok := sc.Lookup(n).(*types.Const); ok && strings.HasPrefix(n, "jsonType") {
			if v, ok := constIntVal(c); ok {
				declared[v] = n
			}
		}
	}
	if !a.need(len(declared) >= 14, "C14-R1", "jsonType* constants") {
		return
	}
	// R1 + payload widths
	type disp struct {
		printer string
		width   int64 // payload bytes sliced for a scalar; -1 container/variable
		arg     string
	}
	handled := map[int64]disp{}
	var bad []string
	for k := int64(0); k < 256; k++ {
		res := Specialize(pv, map[ssa.Value]constant.Value{pv.Params[0]: constant.MakeInt64(k)}, nil)
		a.Evals++
		cs := execCallsOf(pv, res, map[ssa.Value]string{pv.Params[1]: "data", pv.Params[2]: "toplevel", pv.Params[3]: "result"})
		_, isDecl := declared[k]
		if len(cs) == 0 {
			if isDecl {
				bad = append(bad, fmt.Sprintf("%s (%d) has no case", declared[k], k))
			}
			continue
		}
		if !isDecl {
			bad = append(bad, fmt.Sprintf("undeclared type byte %d is handled by %s", k, cs[0].Callee))
			continue
		}
		d := disp{printer: cs[0].Callee, width: -1, arg: cs[0].Args[0]}
		var lo, hi int64
		if _, err := fmt.Sscanf(d.arg, "data[%d:%d]", &lo, &hi); err == nil && lo == 0 {
			d.width = hi
		} else if d.arg == "data[0]" {
			d.width = 1
		}
		handled[k] = d
	}
	a.check(len(bad) == 0, "C14-R1", "dispatch@printJSONValue", w.pos(pv.Pos()), fmt.Sprintf("exactly the %d declared type codes are handled", len(handled)),
		"the JSON value dispatch is not exactly the declared type codes: "+strings.Join(bad, "; ")+" - such values make the whole column fail to decode")
	// documented widths
	wantW := map[string]int64{"jsonTypeLiteral": 1, "jsonTypeInt16": 2, "jsonTypeUint16": 2, "jsonTypeInt32": 4, "jsonTypeUint32": 4, "jsonTypeInt64": 8, "jsonTypeUint64": 8, "jsonTypeDouble": 8}
	for k, name := range declared {
		if ww, ok := wantW[name]; ok {
			a.check(handled[k].width == ww, "C14-R1", "payload@"+name, w.pos(pv.Pos()), fmt.Sprintf("%d payload byte(s)", ww), fmt.Sprintf("%s is printed from %s; its payload is %d byte(s)", name, handled[k].arg, ww))
		}
	}
	// containers: the printer a container type code is dispatched to, specialised on the constant arguments of that call,
	// must print the right flavour (JSON_OBJECT / JSON_ARRAY) from the whole value
	type contCtx struct {
		name   string
		fn     *ssa.Function
		res    *Result
		large  bool
		object bool
	}
	var conts []contCtx
	var contNames []int64
	for k := range declared {
		contNames = append(contNames, k)
	}
	sort.Slice(contNames, func(i, j int) bool { return contNames[i] < contNames[j] })
	for _, k := range contNames {
		name := declared[k]
		wantLarge, isCont := map[string]bool{"jsonTypeSmallObject": false, "jsonTypeLargeObject": true, "jsonTypeSmallArray": false, "jsonTypeLargeArray": true}[name]
		if !isCont {
			continue
		}
		object := strings.Contains(name, "Object")
		res := Specialize(pv, map[ssa.Value]constant.Value{pv.Params[0]: constant.MakeInt64(k)}, nil)
		cs := execCallsOf(pv, res, map[ssa.Value]string{pv.Params[1]: "data", pv.Params[2]: "toplevel", pv.Params[3]: "result"})
		ok := len(cs) == 1 && len(cs[0].Args) >= 1 && cs[0].Args[0] == "data"
		why := fmt.Sprintf("%s is dispatched as %v", name, cs)
		if ok {
			cal := cs[0].In.Common().StaticCallee()
			sub := specCallee(res, cs[0].In)
			a.Evals++
			a.touch(cal)
			// a thin wrapper (return inner(args...)) is looked through
			for d := 0; d < 2; d++ {
				var inner *ssa.Call
				nCalls := 0
				instrs(cal, func(in ssa.Instruction) {
					if c, ok := in.(*ssa.Call); ok && sub.Exec[c.Block()] {
						nCalls++
						inner = c
					}
				})
				if nCalls != 1 || inner.Common().StaticCallee() == nil || inner.Common().StaticCallee().Pkg != cal.Pkg || inner.Common().StaticCallee().Blocks == nil || len(cal.Blocks) != 1 {
					break
				}
				direct := true
				for _, ret := range sub.Returns {
					if len(ret.Results) != 1 || ret.Results[0] != ssa.Value(inner) {
						direct = false
					}
				}
				if !direct {
					break
				}
				sub = specCallee(sub, inner)
				cal = inner.Common().StaticCallee()
				a.Evals++
				a.touch(cal)
			}
			var bufP ssa.Value
			for _, p := range cal.Params {
				if typeIs(p.Type(), "bytes", "Buffer") {
					bufP = p
				}
			}
			first := ""
			if bufP != nil {
				_, items := bufferWriteList(newTB(sub), sub, bufP, 0)
				for _, it := range items {
					if it.Kind == "str" {
						first = it.Txt
						break
					}
				}
			}
			wantLit := `str("JSON_ARRAY(")`
			if object {
				wantLit = `str("JSON_OBJECT(")`
			}
			if first != wantLit {
				ok = false
				why = fmt.Sprintf("%s is printed by %s, which starts with %s instead of %s", name, cs[0], first, wantLit)
			}
			conts = append(conts, contCtx{name, cal, sub, wantLarge, object})
		}
		a.check(ok, "C14-R1", "container@"+name, w.pos(pv.Pos()), fmt.Sprintf("printed as a JSON %s from the whole value", map[bool]string{true: "object", false: "array"}[object]), why+"; a container must be printed by the printer of its own kind, from the whole value")
	}
	// opaque sub-dispatch
	var otyp ssa.Value
	instrs(po, func(in ssa.Instruction) {
		if u, ok := in.(*ssa.UnOp); ok && u.Op == token.MUL {
			if ia, ok := u.X.(*ssa.IndexAddr); ok && ia.X == ssa.Value(po.Params[0]) {
				if k, ok := constInt(ia.Index); ok && k == 0 && otyp == nil {
					otyp = u
				}
			}
		}
	})
	if a.need(otyp != nil, "C14-R1", "opaque type byte read") {
		names := typeConsts(w)
		wantOp := map[string]bool{"TypeDate": true, "TypeTime": true, "TypeDateTime": true, "TypeNewDecimal": true}
		var obad []string
		printers := map[string]string{}
		for k := int64(0); k < 256; k++ {
			res := Specialize(po, map[ssa.Value]constant.Value{otyp: constant.MakeInt64(k)}, nil)
			a.Evals++
			var ps []execCall
			for _, c := range execCallsOf(po, res, map[ssa.Value]string{po.Params[0]: "data", po.Params[1]: "toplevel", po.Params[2]: "result"}) {
				if c.Callee != "readVariableLength" {
					ps = append(ps, c)
				}
			}
			tn := names[k]
			switch {
			case wantOp[tn] && len(ps) != 1:
				obad = append(obad, fmt.Sprintf("opaque %s is not printed", tn))
			case wantOp[tn]:
				if prev, dup := printers[ps[0].Callee]; dup {
					obad = append(obad, fmt.Sprintf("%s and %s share the printer %s", prev, tn, ps[0].Callee))
				}
				printers[ps[0].Callee] = tn
				if ps[0].Args[0] != "data[readVariableLength(data,1)#1:readVariableLength(data,1)#0+readVariableLength(data,1)#1]" {
					obad = append(obad, fmt.Sprintf("opaque %s is printed from %s, not from the size-prefixed payload", tn, ps[0].Args[0]))
				}
			case len(ps) > 0:
				obad = append(obad, fmt.Sprintf("opaque field type %d (%s) is printed by %s", k, tn, ps[0].Callee))
			}
		}
		a.check(len(obad) == 0, "C14-R1", "dispatch@printJSONOpaque", w.pos(po.Pos()), "exactly DATE, TIME, DATETIME, NEWDECIMAL, each with its own printer on the size-prefixed payload", strings.Join(obad, "; "))
	}

	// R2: entries
	var etyp ssa.Value
	instrs(pe, func(in ssa.Instruction) {
		if u, ok := in.(*ssa.UnOp); ok && u.Op == token.MUL && etyp == nil {
			if ia, ok := u.X.(*ssa.IndexAddr); ok && ia.X == ssa.Value(pe.Params[0]) && ia.Index == ssa.Value(pe.Params[1]) {
				etyp = u
			}
		}
	})
	if a.need(etyp != nil, "C14-R2", "entry type byte read") {
		for k := int64(0); k < 256; k++ {
			d, isH := handled[k]
			if !isH {
				continue
			}
			for _, large := range []bool{false, true} {
				res := Specialize(pe, map[ssa.Value]constant.Value{etyp: constant.MakeInt64(k), pe.Params[2]: constant.MakeBool(large)}, nil)
				a.Evals++
				cs := execCallsOf(pe, res, map[ssa.Value]string{pe.Params[0]: "data", pe.Params[1]: "pos", pe.Params[3]: "result"})
				cls := "small"
				limit := int64(2)
				if large {
					cls, limit = "large", 4
				}
				key := fmt.Sprintf("inline@entry[type=%d,%s]", k, cls)
				var got []string
				for _, c := range cs {
					got = append(got, c.String())
				}
				var want []string
				if d.width > 0 && d.width <= limit {
					arg := fmt.Sprintf("data[pos+1:pos+%d]", 1+d.width)
					if d.width == 1 {
						arg = "data[pos+1]"
					}
					want = []string{fmt.Sprintf("%s(%s,false,result)", d.printer, arg)}
				} else {
					want = []string{fmt.Sprintf("readOffsetOrSize(data,pos+1,%v)", large), fmt.Sprintf("printJSONValue(%d,data[LE(%d,data[pos+1]):],false,result)", k, map[bool]int{false: 2, true: 4}[large])}
				}
				a.check(strings.Join(got, " ; ") == strings.Join(want, " ; "), "C14-R2", key, w.pos(pe.Pos()), strings.Join(want, " ; "),
					fmt.Sprintf("a value entry of type %s in the %s format is handled by [%s]; MySQL stores a %d-byte payload %s, so it must be [%s]", declared[k], cls, strings.Join(got, " ; "), d.width,
						map[bool]string{true: "inline in the entry", false: "out of line at the entry's offset"}[d.width > 0 && d.width <= limit], strings.Join(want, " ; ")))
			}
		}
	}
	// R3: size-class propagation and stride, per container context (printer specialised as the dispatch calls it)
	if len(conts) < 4 {
		a.undecided("C14-R3", "size-class@containers", w.pos(pv.Pos()), "found %d container printers, expected 4", len(conts))
	}
	for _, cx := range conts {
		// every executable read of a count/size/offset and every value entry, in the printer and the helpers it calls,
		// evaluates its size-class argument to the container's own; the only exception is the key length of an object
		// entry, which is always small
		nReads, nSmall, nEntries := 0, 0, 0
		okAll := true
		var walk func(g *ssa.Function, res *Result, depth int)
		walk = func(g *ssa.Function, res *Result, depth int) {
			instrs(g, func(in ssa.Instruction) {
				c, ok := in.(*ssa.Call)
				if !ok || !res.Exec[c.Block()] || c.Common().StaticCallee() == nil {
					return
				}
				cal := c.Common().StaticCallee()
				switch {
				case cal == ro || cal == pe:
					v, isC := constBoolLat(res.get(c.Common().Args[2]))
					if !isC {
						okAll = false
						return
					}
					if cal == pe {
						nEntries++
						if v != cx.large {
							okAll = false
						}
						return
					}
					nReads++
					if v != cx.large {
						nSmall++
					}
				case cal.Pkg == cx.fn.Pkg && cal.Blocks != nil && depth < 3 && cal != pv && cal != cx.fn && !c.Common().IsInvoke():
					// helpers that do not print values themselves (the value printer starts a context of its own)
					walk(cal, specCallee(res, c), depth+1)
				}
			})
		}
		walk(cx.fn, cx.res, 0)
		wantSmall := 0
		if cx.object && cx.large {
			wantSmall = 1
		}
		a.check(okAll && nSmall == wantSmall && nReads >= 2 && nEntries >= 1, "C14-R3", "size-class@"+cx.name, w.pos(cx.fn.Pos()),
			fmt.Sprintf("%d reads and %d value entries use the container's size class; %d fixed-small read (key length)", nReads-nSmall, nEntries, nSmall),
			fmt.Sprintf("in a %s a count/size/offset read or a value entry does not use the container's own size class (%d reads, %d of them in the other class, expected %d; %d entries; all decided: %v): documents of 64KB or more are mis-read", cx.name, nReads, nSmall, wantSmall, nEntries, okAll))
		// stride between consecutive value entries
		var entry *ssa.Call
		instrs(cx.fn, func(in ssa.Instruction) {
			if c, ok := in.(*ssa.Call); ok && c.Common().StaticCallee() == pe && cx.res.Exec[c.Block()] {
				entry = c
			}
		})
		want := "3"
		if cx.large {
			want = "5"
		}
		got := "?"
		if entry != nil {
			if phi, ok := entry.Common().Args[1].(*ssa.Phi); ok {
				t := newTB(cx.res)
				t.names[phi] = "p"
				for i, pr := range phi.Block().Preds {
					if phi.Block().Dominates(pr) && cx.res.Exec[pr] {
						got = t.term(phi.Edges[i]).add(affAtom("p"), -1).String()
					}
				}
			}
		}
		a.check(got == want, "C14-R3", "stride@"+cx.name, w.pos(cx.fn.Pos()), "value entries are "+want+" bytes apart",
			fmt.Sprintf("in a %s consecutive value entries are read %s bytes apart; an entry is 1 type byte + %s", cx.name, got, map[bool]string{false: "2 bytes", true: "4 bytes"}[cx.large]))
	}
	// R4
	for _, large := range []bool{false, true} {
		res := Specialize(ro, map[ssa.Value]constant.Value{ro.Params[2]: constant.MakeBool(large)}, nil)
		a.Evals++
		t := newTB(res)
		cls, n := "small", 2
		if large {
			cls, n = "large", 4
		}
		ok := len(res.Returns) == 1
		var v, adv string
		if ok {
			v = t.term(res.Returns[0].Results[0]).String()
			adv = t.term(res.Returns[0].Results[1]).add(affAtom("pos"), -1).String()
			ok = v == fmt.Sprintf("LE(%d,data[pos])", n) && adv == fmt.Sprint(n)
		}
		a.check(ok, "C14-R4", "reader@readOffsetOrSize["+cls+"]", w.pos(ro.Pos()), fmt.Sprintf("%d little-endian bytes, advances by %d", n, n),
			fmt.Sprintf("the %s offset/size reader yields %s and advances by %s; it must read %d little-endian bytes and advance by %d", cls, v, adv, n, n))
	}
	c14R5(a)
	c14R6(a, pe, pv)
}

func c14R5(a *A) {
	const rule = "C14-R5"
	w := a.W
	want := map[string]string{
		"printJSONInt16":  "write(AppendInt(nil,conv<int64>(conv<int16>(LE(2,data[0]))),10))",
		"printJSONUint16": "write(AppendUint(nil,LE(2,data[0]),10))",
		"printJSONInt32":  "write(AppendInt(nil,conv<int64>(conv<int32>(LE(4,data[0]))),10))",
		"printJSONUint32": "write(AppendUint(nil,LE(4,data[0]),10))",
		"printJSONInt64":  "write(AppendInt(nil,conv<int64>(LE(8,data[0])),10))",
		"printJSONUint64": "write(AppendUint(nil,LE(8,data[0]),10))",
		"printJSONDouble": "write(AppendFloat(nil,math.Float64frombits(LE(8,data[0])),69,-1,64))",
	}
	var names []string
	for n := range want {
		names = append(names, n)
	}
	sort.Strings(names)
	for _, n := range names {
		f := w.fn(w.Repl, n)
		if !a.need(f != nil, rule, n) {
			continue
		}
		a.touch(f)
		var top, buf ssa.Value
		for _, p := range f.Params {
			if types.Identical(p.Type(), types.Typ[types.Bool]) {
				top = p
			}
			if typeIs(p.Type(), "bytes", "Buffer") {
				buf = p
			}
		}
		for _, tl := range []bool{false, true} {
			res := Specialize(f, map[ssa.Value]constant.Value{top: constant.MakeBool(tl)}, nil)
			a.Evals++
			t := newTB(res)
			t.names[f.Params[0]] = "data"
			got := bufferWrites(t, res, buf, 0)
			got = strings.TrimPrefix(got, ": ")
			w1 := want[n]
			if tl {
				w1 = "byte(39); " + w1 + "; byte(39)"
			}
			a.check(got == w1, rule, fmt.Sprintf("scalar@%s[toplevel=%v]", n, tl), w.pos(f.Pos()), w1, fmt.Sprintf("%s writes [%s]; the documented rendering is [%s]", n, got, w1))
		}
	}
	// opaque temporal scalars: MySQL's packed formats (TIME_to_longlong_*_packed): value = raw>>24, microseconds = low 24 bits
	v := "(>> LE(8,data[0]) 24)"
	ym := "(& (>> " + v + " 22) 131071)"
	us := "(& 16777215 LE(8,data[0]))"
	wantT := map[string]string{
		"printJSONDate":     `printf("CAST('%04d-%02d-%02d' AS DATE)",(/ ` + ym + ` 13),(% ` + ym + ` 13),(& (>> ` + v + ` 17) 31))`,
		"printJSONTime":     `str("CAST('"); byte(45); printf("%02d:%02d:%02d",(& (>> ` + v + ` 12) 1023),(& (>> ` + v + ` 6) 63),(& ` + v + ` 63)); printf(".%06d",` + us + `); str("' AS TIME(6))")`,
		"printJSONDateTime": `printf("CAST('%04d-%02d-%02d %02d:%02d:%02d",(/ ` + ym + ` 13),(% ` + ym + ` 13),(& (>> ` + v + ` 17) 31),(& (>> ` + v + ` 12) 31),(& (>> ` + v + ` 6) 63),(& ` + v + ` 63)); printf(".%06d",` + us + `); str("' AS DATETIME(6))")`,
	}
	for _, n := range []string{"printJSONDate", "printJSONTime", "printJSONDateTime"} {
		f := w.fn(w.Repl, n)
		if !a.need(f != nil, rule, n) {
			continue
		}
		a.touch(f)
		var top, buf ssa.Value
		for _, p := range f.Params {
			if types.Identical(p.Type(), types.Typ[types.Bool]) {
				top = p
			}
			if typeIs(p.Type(), "bytes", "Buffer") {
				buf = p
			}
		}
		res := Specialize(f, map[ssa.Value]constant.Value{top: constant.MakeBool(false)}, nil)
		a.Evals++
		t := newTB(res)
		t.names[f.Params[0]] = "data"
		got := strings.TrimPrefix(bufferWrites(t, res, buf, 0), ": ")
		a.check(got == wantT[n], rule, "opaque@"+n, w.pos(f.Pos()), "fields extracted per MySQL's packed temporal format",
			fmt.Sprintf("%s renders [%s]; MySQL packs (year*13+month)<<22 | day<<17 | hour<<12 | minute<<6 | second above 24 bits of microseconds (TIME: 10-bit hour), i.e. [%s]", n, got, wantT[n]))
	}
	// literals
	pl := w.fn(w.Repl, "printJSONLiteral")
	if a.need(pl != nil, rule, "printJSONLiteral") {
		a.touch(pl)
		for k, lit := range map[int64]string{0: "null", 1: "true", 2: "false"} {
			res := Specialize(pl, map[ssa.Value]constant.Value{pl.Params[0]: constant.MakeInt64(k), pl.Params[1]: constant.MakeBool(false)}, nil)
			t := newTB(res)
			got := strings.TrimPrefix(bufferWrites(t, res, pl.Params[2], 0), ": ")
			a.check(got == fmt.Sprintf("str(%q)", lit) && len(successReturnsIdx(res)) == 1, rule, fmt.Sprintf("literal@%d", k), w.pos(pl.Pos()), lit, fmt.Sprintf("literal byte %d renders as [%s], expected %s", k, got, lit))
		}
		res := Specialize(pl, map[ssa.Value]constant.Value{pl.Params[0]: constant.MakeInt64(3)}, nil)
		a.check(len(successReturnsIdx(res)) == 0, rule, "literal@other", w.pos(pl.Pos()), "other literal bytes are rejected", "an undefined literal byte is accepted")
	}
	// variable-length prefix: 7-bit groups, continuation on the high bit
	rv := w.fn(w.Repl, "readVariableLength")
	if a.need(rv != nil, rule, "readVariableLength") {
		a.touch(rv)
		okAcc, okCont, okRet := false, false, false
		var why []string
		// accumulate: acc' = acc | (conv)(b & 0x7f) << S, b = data[p], S = 7*i (i: 0,1,2..) or a running shift (0,7,14..)
		var byteLoad *ssa.UnOp
		var accOr *ssa.BinOp
		stepPhi := func(v ssa.Value, step int64) (*ssa.Phi, bool) {
			phi, ok := stripW(v).(*ssa.Phi)
			if !ok || len(phi.Edges) != 2 {
				return nil, false
			}
			zero, inc := false, false
			for _, e := range phi.Edges {
				e = stripW(e)
				if k, isC := constInt(e); isC && k == 0 {
					zero = true
				} else if bo, isB := e.(*ssa.BinOp); isB && bo.Op == token.ADD && stripW(bo.X) == ssa.Value(phi) {
					if k, isC := constInt(bo.Y); isC && k == step {
						inc = true
					}
				}
			}
			return phi, zero && inc
		}
		instrs(rv, func(in ssa.Instruction) {
			bo, ok := in.(*ssa.BinOp)
			if !ok || (bo.Op != token.OR && bo.Op != token.ADD) {
				return
			}
			for _, pair := range [][2]ssa.Value{{bo.X, bo.Y}, {bo.Y, bo.X}} {
				if _, isPhi := stripW(pair[0]).(*ssa.Phi); !isPhi {
					continue
				}
				sh, ok := stripW(pair[1]).(*ssa.BinOp)
				if !ok || sh.Op != token.SHL {
					continue
				}
				m, ok := stripW(sh.X).(*ssa.BinOp)
				if !ok || m.Op != token.AND {
					continue
				}
				var ld ssa.Value
				if k, isC := constInt(m.Y); isC && k == 127 {
					ld = stripW(m.X)
				} else if k, isC := constInt(m.X); isC && k == 127 {
					ld = stripW(m.Y)
				}
				u, isLoad := ld.(*ssa.UnOp)
				if !isLoad || u.Op != token.MUL {
					why = append(why, "payload is not b&0x7f")
					continue
				}
				if ia, isIA := u.X.(*ssa.IndexAddr); !isIA || ia.X != ssa.Value(rv.Params[0]) {
					continue
				}
				// the shift amount
				good := false
				if mul, isMul := stripW(sh.Y).(*ssa.BinOp); isMul && mul.Op == token.MUL {
					for _, pr := range [][2]ssa.Value{{mul.X, mul.Y}, {mul.Y, mul.X}} {
						if k, isC := constInt(pr[0]); isC && k == 7 {
							if _, ok := stepPhi(pr[1], 1); ok {
								good = true
							}
						}
					}
				} else if _, ok := stepPhi(sh.Y, 7); ok {
					good = true
				}
				if !good {
					why = append(why, "groups are not shifted by 0,7,14,...")
					continue
				}
				okAcc, byteLoad, accOr = true, u, bo
			}
		})
		// continuation: the loop is left exactly when the high bit of the same byte is clear
		if byteLoad != nil {
			hdrReach := func(from *ssa.BasicBlock) bool { // can the accumulate block be reached again?
				return reachesAvoiding(from, accOr.Block(), func(*ssa.BasicBlock) bool { return false }, nil)
			}
			for _, b := range rv.Blocks {
				iff, ok := lastInstr(b).(*ssa.If)
				if !ok {
					continue
				}
				clear, ok := highBitClear(iff.Cond, byteLoad)
				if !ok {
					continue
				}
				exitK := 1
				if clear {
					exitK = 0
				}
				if !hdrReach(b.Succs[exitK]) && hdrReach(b.Succs[1-exitK]) {
					okCont = true
				} else {
					why = append(why, "the continuation test is inverted or does not leave the loop")
				}
			}
			// result: the accumulated value and the position after the last byte read
			t := newTB(nil)
			t.names[rv.Params[1]] = "pos"
			okRet = len(returnsOf(rv)) > 0
			for _, ret := range returnsOf(rv) {
				v := stripW(ret.Results[0])
				if phi, isPhi := v.(*ssa.Phi); isPhi {
					for _, e := range phi.Edges {
						if stripW(e) != ssa.Value(accOr) {
							okRet = false
						}
					}
				} else if v != ssa.Value(accOr) {
					okRet = false
				}
				ia := byteLoad.X.(*ssa.IndexAddr)
				if d := t.term(ret.Results[1]).add(t.term(ia.Index), -1).String(); d != "1" {
					okRet = false
					why = append(why, "returned position is last byte + "+d)
				}
			}
		}
		a.check(okAcc && okCont && okRet, rule, "varlen@readVariableLength", w.pos(rv.Pos()), "7 payload bits per byte, least significant group first, stop when the high bit is clear, return the position after the last byte",
			fmt.Sprintf("the variable-length size is not decoded as MySQL defines it (7-bit groups (b&0x7f)<<(7*i): %v; stop exactly when the high bit is clear: %v; returns value and next position: %v) %v", okAcc, okCont, okRet, why))
	}
}

// highBitClear classifies cond as a test of bit 7 of the byte loaded by ld: (true,true) = cond holds iff the bit is clear,
// (false,true) = cond holds iff it is set.
func highBitClear(cond ssa.Value, ld *ssa.UnOp) (bool, bool) {
	bo, ok := cond.(*ssa.BinOp)
	if !ok {
		return false, false
	}
	isLd := func(v ssa.Value) bool { return stripW(v) == ssa.Value(ld) }
	ky, yc := constInt(bo.Y)
	if !yc {
		return false, false
	}
	// int8(b) >= 0 / < 0
	if cv, isConv := bo.X.(*ssa.Convert); isConv && isLd(cv.X) {
		if bits, uns, ok := intBits(cv.Type()); ok && bits == 8 && !uns && ky == 0 {
			switch bo.Op {
			case token.GEQ:
				return true, true
			case token.LSS:
				return false, true
			}
		}
		return false, false
	}
	// b & 0x80 ==/!=/> 0
	if and, isAnd := stripW(bo.X).(*ssa.BinOp); isAnd && and.Op == token.AND && ky == 0 {
		kk, c1 := constInt(and.Y)
		other := and.X
		if !c1 {
			kk, c1 = constInt(and.X)
			other = and.Y
		}
		if c1 && kk == 128 && isLd(other) {
			switch bo.Op {
			case token.EQL:
				return true, true
			case token.NEQ, token.GTR:
				return false, true
			}
		}
		return false, false
	}
	// b < 0x80 / b >= 0x80 / b <= 0x7f / b > 0x7f on the unsigned byte
	if isLd(bo.X) {
		if _, uns, ok := intBits(bo.X.Type()); ok && uns {
			switch {
			case bo.Op == token.LSS && ky == 128, bo.Op == token.LEQ && ky == 127:
				return true, true
			case bo.Op == token.GEQ && ky == 128, bo.Op == token.GTR && ky == 127:
				return false, true
			}
		}
	}
	return false, false
}

func successReturnsIdx(res *Result) []*ssa.Return {
	var out []*ssa.Return
	for _, r := range res.Returns {
		if n := len(r.Results); n > 0 && isNilConst(r.Results[n-1]) {
			out = append(out, r)
		}
	}
	return out
}

// specCallee specialises the callee of c on the arguments that are constants under res.
func specCallee(res *Result, c *ssa.Call) *Result {
	cal := c.Common().StaticCallee()
	bind := map[ssa.Value]constant.Value{}
	for i, a := range c.Common().Args {
		if i >= len(cal.Params) {
			break
		}
		if l := res.get(a); l.k == cst && !l.nilc && l.tbl == nil && l.v != nil && l.v.Kind() != constant.Unknown {
			bind[cal.Params[i]] = l.v
		}
	}
	return Specialize(cal, bind, nil)
}

// R6: an out-of-line value that starts inside the document is never rejected by the entry printer. The value printer is
// handed data[off:]; its first byte exists iff off < len(data). A failing exit of the entry printer whose condition
// mentions the document length must therefore imply off >= len(data): with E <= 0 the rejecting condition,
// E - (len(data) - off) has to be non-negative. ("off >= len(data)-1" rejects the one-byte values - the empty string, a
// literal - that end a document.)
func c14R6(a *A, pe, pv *ssa.Function) {
	const rule = "C14-R6"
	w := a.W
	t := newTB(Specialize(pe, nil, nil))
	t.names[pe.Params[0]] = "data"
	t.names[pe.Params[1]] = "pos"
	var low ssa.Value
	instrs(pe, func(in ssa.Instruction) {
		c, ok := in.(*ssa.Call)
		if !ok || c.Common().StaticCallee() != pv {
			return
		}
		for _, arg := range c.Common().Args {
			if sl, ok := arg.(*ssa.Slice); ok && sl.Low != nil && sl.High == nil {
				low = sl.Low
			}
		}
	})
	if low == nil {
		a.hold(rule, "entry-accepts@"+roleName(pe), w.pos(pe.Pos()), "the out-of-line value is not passed as data[off:] here (nothing to decide)")
		return
	}
	fit := affAtom("len(data)").add(t.term(low), -1)
	bad := 0
	for _, ret := range returnsOf(pe) {
		n := len(ret.Results)
		if n == 0 || isNilConst(resolve(ret.Results[n-1])) {
			continue
		}
		for _, ce := range dominatingConds(ret.Block()) {
			bo, ok := ce.Cond.(*ssa.BinOp)
			if !ok {
				continue
			}
			e, ok := t.leqZeroAff(bo, !ce.Val)
			if !ok || e.syms["len(data)"] == 0 {
				continue
			}
			d := e.add(fit, -1)
			k, isC := d.isConst()
			if !(isC && k >= 0) {
				bad++
				a.viol(rule, fmt.Sprintf("entry-accepts@%s#%d", roleName(pe), bad), w.posOf(ret), "the entry printer fails when %s <= 0 although the out-of-line value it would print starts at %s inside the document: one-byte values (an empty string, a literal) at the end of a document are rejected and the whole cell fails to decode",
					e.String(), t.term(low).String())
			}
		}
	}
	if bad == 0 {
		a.hold(rule, "entry-accepts@"+roleName(pe), w.pos(pe.Pos()), "no failing exit rejects a value that starts inside the document")
	}
}
