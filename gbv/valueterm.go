package main

import (
	"fmt"
	"go/constant"
	"go/token"
	"sort"
	"strings"

	"golang.org/x/tools/go/ssa"
)

// valueTerm renders the canonical term of a decoded cell value (result 0 of
// CellBytes) under a specialisation: which bytes of the image, composed how,
// rendered by which standard-library formatter with which constant arguments.
func valueTerm(cd *codec, r *Result, v ssa.Value) string {
	t := newTB(r)
	t.names[cd.valFn.Params[0]] = "data"
	t.names[cd.valFn.Params[1]] = "pos"
	t.names[cd.valFn.Params[4]] = "unsigned"
	return valTerm(t, r, v, 0)
}

func valTerm(t *tb, r *Result, v ssa.Value, depth int) string {
	if depth > 10 {
		return "..."
	}
	if n, ok := t.ssub[v]; ok {
		return n
	}
	switch x := v.(type) {
	case *ssa.Const:
		if x.Value == nil {
			return "nil"
		}
		return x.Value.String()
	case *ssa.Slice:
		if al, ok := x.X.(*ssa.Alloc); ok {
			// literal: collect constant element stores
			elems := map[int64]string{}
			for _, ref := range *al.Referrers() {
				if ia, ok := ref.(*ssa.IndexAddr); ok {
					k, _ := constInt(ia.Index)
					for _, rr := range *ia.Referrers() {
						if st, ok := rr.(*ssa.Store); ok {
							elems[k] = valTerm(t, r, st.Val, depth+1)
						}
					}
				}
			}
			var ks []int64
			for k := range elems {
				ks = append(ks, k)
			}
			sort.Slice(ks, func(i, j int) bool { return ks[i] < ks[j] })
			var es []string
			for _, k := range ks {
				es = append(es, elems[k])
			}
			return "lit[" + strings.Join(es, " ") + "]"
		}
		return t.sliceTerm(x)
	case *ssa.Convert:
		if isStringType(x.X.Type()) || isStringType(x.Type()) {
			return "bytes(" + valTerm(t, r, x.X, depth+1) + ")"
		}
		return t.term(x).String()
	case *ssa.Call:
		c := x.Common()
		f := c.StaticCallee()
		if f == nil {
			return "call?"
		}
		name := f.String()
		switch {
		case strings.HasPrefix(name, "strconv.Append"):
			var as []string
			for i, a := range c.Args {
				if i == 0 {
					as = append(as, valTerm(t, r, a, depth+1))
					continue
				}
				as = append(as, numTerm(t, a))
			}
			return strings.TrimPrefix(name, "strconv.") + "(" + strings.Join(as, ",") + ")"
		case name == "fmt.Sprintf":
			return "Sprintf(" + fmtArgs(t, r, c.Args, 0, depth) + ")"
		case name == "(*bytes.Buffer).Bytes":
			return "buf{" + bufferWrites(t, r, c.Args[0], depth) + "}"
		}
		if s, ok := valInline(t, r, x, 0, depth); ok {
			return s
		}
		return shortCallee(c) + "(...)"
	case *ssa.Extract:
		if c, ok := x.Tuple.(*ssa.Call); ok {
			if s, ok := valInline(t, r, c, x.Index, depth); ok {
				return s
			}
		}
		return valTerm(t, r, x.Tuple, depth+1) + fmt.Sprintf("#%d", x.Index)
	case *ssa.Phi:
		var alts []string
		for i, e := range x.Edges {
			if r != nil && !r.edgeExec(x.Block().Preds[i], x.Block()) {
				continue
			}
			alts = append(alts, valTerm(t, r, e, depth+1))
		}
		alts = uniq(alts)
		if len(alts) == 1 {
			return alts[0]
		}
		return "phi{" + strings.Join(alts, "|") + "}"
	case *ssa.UnOp:
		if x.Op == token.MUL {
			if fv := forwardLoad(x); fv != nil {
				return valTerm(t, r, fv, depth+1)
			}
		}
	}
	if isIntegerType(v.Type()) {
		return t.term(v).String()
	}
	return t.sliceTerm(v)
}

func numTerm(t *tb, v ssa.Value) string {
	if c, ok := v.(*ssa.Const); ok && c.Value != nil {
		return c.Value.String()
	}
	if isIntegerType(v.Type()) {
		return t.term(v).String()
	}
	// floats etc.
	switch x := v.(type) {
	case *ssa.Convert:
		return "conv<" + x.Type().Underlying().String() + ">(" + numTerm(t, x.X) + ")"
	case *ssa.Call:
		c := x.Common()
		var as []string
		for _, a := range c.Args {
			as = append(as, numTerm(t, a))
		}
		return shortCallee(c) + "(" + strings.Join(as, ",") + ")"
	}
	return t.term(v).String()
}

// fmtArgs renders "format", arg terms of a Sprintf/Fprintf call (args[from] is the format).
func fmtArgs(t *tb, r *Result, args []ssa.Value, from int, depth int) string {
	format, _ := constString(args[from])
	out := []string{fmt.Sprintf("%q", format)}
	if from+1 < len(args) {
		if sl, ok := args[from+1].(*ssa.Slice); ok {
			if al, ok := sl.X.(*ssa.Alloc); ok {
				elems := map[int64]string{}
				for _, ref := range *al.Referrers() {
					if ia, ok := ref.(*ssa.IndexAddr); ok {
						k, _ := constInt(ia.Index)
						for _, rr := range *ia.Referrers() {
							if st, ok := rr.(*ssa.Store); ok {
								v := strip(st.Val)
								if isIntegerType(v.Type()) {
									elems[k] = t.term(v).String()
								} else {
									elems[k] = valTerm(t, r, v, depth+1)
								}
							}
						}
					}
				}
				for k := int64(0); k < int64(len(elems)); k++ {
					out = append(out, elems[k])
				}
			}
		}
	}
	return strings.Join(out, ",")
}

// bufferWrites lists, in source order, the writes into a bytes.Buffer that are executable under the specialisation.
// Writes performed by in-package helpers that receive the buffer are inlined at the call position (bounded depth), with the
// helper specialised on its constant arguments and its parameters replaced by the argument terms.
func bufferWrites(t *tb, r *Result, buf ssa.Value, depth int) string {
	origin, items := bufferWriteList(t, r, buf, depth)
	var out []string
	for _, it := range items {
		out = append(out, it.Txt)
	}
	return origin + ": " + strings.Join(out, "; ")
}

// bwItem is one write into a buffer: Kind byte|str|write|printf|call, Txt its canonical rendering; printf items carry
// their format (with constant star widths folded in) and argument terms.
type bwItem struct {
	Kind   string
	Txt    string
	Format string
	Args   []string
	In     *ssa.Call
}

func bufferWriteList(t *tb, r *Result, buf ssa.Value, depth int) (string, []bwItem) {
	buf = strip(buf)
	var origin string
	type site struct {
		pos   token.Pos
		items []bwItem
	}
	var sites []site
	seenCall := map[ssa.Instruction]bool{}
	var collect func(b ssa.Value, seen map[ssa.Value]bool)
	handle := func(c *ssa.Call, viaIface ssa.Value, raw ssa.Value) {
		if seenCall[c] || (r != nil && !r.Exec[c.Block()]) {
			return
		}
		seenCall[c] = true
		cc := c.Common()
		f := cc.StaticCallee()
		if f == nil {
			return
		}
		switch f.String() {
		case "(*bytes.Buffer).WriteByte":
			sites = append(sites, site{c.Pos(), []bwItem{{Kind: "byte", Txt: "byte(" + numTerm(t, cc.Args[1]) + ")", Args: []string{numTerm(t, cc.Args[1])}, In: c}}})
		case "(*bytes.Buffer).WriteString":
			sites = append(sites, site{c.Pos(), []bwItem{{Kind: "str", Txt: "str(" + valTerm(t, r, cc.Args[1], depth+1) + ")", Args: []string{valTerm(t, r, cc.Args[1], depth+1)}, In: c}}})
		case "(*bytes.Buffer).Write":
			sites = append(sites, site{c.Pos(), []bwItem{{Kind: "write", Txt: "write(" + valTerm(t, r, cc.Args[1], depth+1) + ")", Args: []string{valTerm(t, r, cc.Args[1], depth+1)}, In: c}}})
		case "fmt.Fprintf":
			fa := fmtArgList(t, r, cc.Args, 1, depth)
			format, _ := constString(cc.Args[1])
			args := fa[1:]
			if strings.Contains(format, "*") && len(args) > 0 {
				var k int64
				if _, err := fmt.Sscanf(args[0], "%d", &k); err == nil && fmt.Sprint(k) == args[0] {
					format = strings.Replace(format, "*", args[0], 1)
					args = args[1:]
				}
			}
			txt := "printf(" + strings.Join(append([]string{fmt.Sprintf("%q", format)}, args...), ",") + ")"
			sites = append(sites, site{c.Pos(), []bwItem{{Kind: "printf", Txt: txt, Format: format, Args: args, In: c}}})
		case "(*bytes.Buffer).Bytes", "(*bytes.Buffer).Len", "(*bytes.Buffer).String":
		default:
			// in-package helper receiving the buffer: inline its writes
			home := c.Parent()
			if f.Blocks != nil && f.Pkg != nil && home != nil && enclosingPkg(home) == f.Pkg && f != home && depth < maxInline {
				pi := -1
				for i, a := range cc.Args {
					if a == raw || a == viaIface {
						pi = i
					}
				}
				if pi >= 0 && pi < len(f.Params) {
					bind := map[ssa.Value]constant.Value{}
					child := newTB(nil)
					child.depth, child.tables = t.depth+1, t.tables
					for i, a := range cc.Args {
						if i >= len(f.Params) {
							break
						}
						p := f.Params[i]
						if r != nil {
							if l := r.get(a); l.k == cst && !l.nilc && l.tbl == nil && l.v != nil && l.v.Kind() != constant.Unknown {
								bind[p] = l.v
							}
						} else if k, ok := a.(*ssa.Const); ok && k.Value != nil {
							bind[p] = k.Value
						}
						if i != pi {
							t.bindArg(child, p, a, func(v ssa.Value) string { return valTerm(t, r, v, depth+1) })
						}
					}
					sub := specializeAt(f, bind, t.tables, depth+1)
					child.res = sub
					_, inner := bufferWriteList(child, sub, f.Params[pi], depth+1)
					if len(inner) > 0 {
						sites = append(sites, site{c.Pos(), inner})
					}
					return
				}
			}
			sites = append(sites, site{c.Pos(), []bwItem{{Kind: "call", Txt: shortCallee(cc), In: c}}})
		}
	}
	collect = func(b ssa.Value, seen map[ssa.Value]bool) {
		if seen[b] {
			return
		}
		seen[b] = true
		switch x := b.(type) {
		case *ssa.Phi:
			for _, e := range x.Edges {
				collect(e, seen)
			}
			return
		case *ssa.Call:
			if f := x.Common().StaticCallee(); f != nil {
				origin += "<-" + roleName(f) + "(" + numTermArgs(t, x.Common().Args) + ")"
			}
		case *ssa.Alloc:
			origin += "<-new"
		}
		if refs := b.Referrers(); refs != nil {
			for _, ref := range *refs {
				switch y := ref.(type) {
				case *ssa.Call:
					handle(y, nil, b)
				case *ssa.MakeInterface: // passed as io.Writer
					for _, rr := range *y.Referrers() {
						if c, ok := rr.(*ssa.Call); ok {
							handle(c, y, b)
						}
					}
				}
			}
		}
	}
	collect(buf, map[ssa.Value]bool{})
	sort.SliceStable(sites, func(i, j int) bool { return sites[i].pos < sites[j].pos })
	var out []bwItem
	for _, s := range sites {
		out = append(out, s.items...)
	}
	return origin, out
}

// fmtArgList is fmtArgs as a list: element 0 is the quoted format.
func fmtArgList(t *tb, r *Result, args []ssa.Value, from int, depth int) []string {
	format, _ := constString(args[from])
	out := []string{fmt.Sprintf("%q", format)}
	if from+1 < len(args) {
		if sl, ok := args[from+1].(*ssa.Slice); ok {
			if al, ok := sl.X.(*ssa.Alloc); ok {
				elems := map[int64]string{}
				for _, ref := range *al.Referrers() {
					if ia, ok := ref.(*ssa.IndexAddr); ok {
						k, _ := constInt(ia.Index)
						for _, rr := range *ia.Referrers() {
							if st, ok := rr.(*ssa.Store); ok {
								v := strip(st.Val)
								if isIntegerType(v.Type()) {
									elems[k] = t.term(v).String()
								} else {
									elems[k] = valTerm(t, r, v, depth+1)
								}
							}
						}
					}
				}
				for k := int64(0); k < int64(len(elems)); k++ {
					out = append(out, elems[k])
				}
			}
		}
	}
	return out
}

func numTermArgs(t *tb, args []ssa.Value) string {
	var as []string
	for _, a := range args {
		if isIntegerType(a.Type()) {
			as = append(as, t.term(a).String())
		} else {
			as = append(as, "_")
		}
	}
	return strings.Join(as, ",")
}

// valueCond describes the conditions on the `unsigned` parameter (and on data
// bytes) that dominate a return under the specialisation.
func valueCond(cd *codec, r *Result, ret *ssa.Return) string {
	return valueCondAt(cd, r, ret.Block(), nil)
}

// returnAlts: the (condition, value term) pairs a success return stands for. A single-exit function returns a phi of the
// values its branches computed; each executable incoming edge is one alternative, under the conditions of its
// predecessor block plus the test that selects the edge - the same pairs the early-return form gives.
func returnAlts(cd *codec, r *Result, ret *ssa.Return) [][2]string {
	if phi, ok := ret.Results[0].(*ssa.Phi); ok && phi.Block() == ret.Block() && len(dominatingCondsNonConst(r, ret.Block())) == 0 {
		var out [][2]string
		okAll := true
		for i, p := range phi.Block().Preds {
			if r.Edge != nil && !r.Edge[[2]int{p.Index, phi.Block().Index}] {
				continue
			}
			if _, nested := phi.Edges[i].(*ssa.Phi); nested {
				okAll = false
			}
			out = append(out, [2]string{valueCondAt(cd, r, p, phi.Block()), valueTerm(cd, r, phi.Edges[i])})
		}
		if okAll && len(out) > 0 {
			return out
		}
	}
	// the value is computed by an in-package helper whose returns differ (e.g. by the unsigned flag): one alternative
	// per success return of the helper, under the caller's conditions plus the helper's own
	if c, ok := strip(ret.Results[0]).(*ssa.Call); ok {
		t := newTB(r)
		t.names[cd.valFn.Params[0]] = "data"
		t.names[cd.valFn.Params[1]] = "pos"
		t.names[cd.valFn.Params[4]] = "unsigned"
		if _, same := valInline(t, r, c, 0, 0); !same {
			if alts, ok := valInlineAlts(t, r, c, 0, 0); ok {
				outer := valueCond(cd, r, ret)
				var out [][2]string
				for _, a := range alts {
					cs := []string{}
					for _, x := range []string{outer, a[0]} {
						if x != "" {
							cs = append(cs, strings.Split(x, " && ")...)
						}
					}
					sort.Strings(cs)
					out = append(out, [2]string{strings.Join(cs, " && "), a[1]})
				}
				return out
			}
		}
	}
	return [][2]string{{valueCond(cd, r, ret), valueTerm(cd, r, ret.Results[0])}}
}

// valInlineAlts is valInline for a helper whose success returns yield different value terms: it returns one
// (condition, term) pair per return, the condition being the helper's non-constant dominating tests expressed over the
// caller's terms. Fails (false) when a term or a condition cannot be expressed.
func valInlineAlts(t *tb, r *Result, c *ssa.Call, idx int, depth int) ([][2]string, bool) {
	cc := c.Common()
	f := cc.StaticCallee()
	home := c.Parent()
	if f == nil || f.Blocks == nil || cc.IsInvoke() || f.Pkg == nil || home == nil || enclosingPkg(home) != f.Pkg || f == home || depth >= maxInline || t.depth >= maxInline {
		return nil, false
	}
	bind := map[ssa.Value]constant.Value{}
	child := newTB(nil)
	child.depth, child.tables = t.depth+1, t.tables
	for i, a := range cc.Args {
		if i >= len(f.Params) {
			break
		}
		p := f.Params[i]
		if l := r.get(a); l.k == cst && !l.nilc && l.tbl == nil && l.v != nil && l.v.Kind() != constant.Unknown {
			bind[p] = l.v
		}
		t.bindArg(child, p, a, func(v ssa.Value) string { return valTerm(t, r, v, depth+1) })
	}
	sub := specializeAt(f, bind, t.tables, t.depth+1)
	child.res = sub
	errLast := false
	if res := f.Signature.Results(); res.Len() >= 2 && isErrType(res.At(res.Len()-1).Type()) && idx < res.Len()-1 {
		errLast = true
	}
	var out [][2]string
	for _, ret := range sub.Returns {
		if idx >= len(ret.Results) {
			return nil, false
		}
		if errLast && !sub.isNil(ret.Results[len(ret.Results)-1]) {
			continue
		}
		var sv string
		if isIntegerType(ret.Results[idx].Type()) {
			sv = child.term(ret.Results[idx]).String()
		} else {
			sv = valTerm(child, sub, ret.Results[idx], depth+1)
		}
		if strings.Contains(sv, child.cycleMark()) || strings.Contains(sv, "(...)") {
			return nil, false
		}
		var cs []string
		for _, ce := range dominatingConds(ret.Block()) {
			if l := sub.get(ce.Cond); l.k == cst {
				continue
			}
			s := condTerm(child, ce.Cond)
			if strings.Contains(s, "?bool") || strings.Contains(s, "(...)") || strings.Contains(s, child.cycleMark()) {
				return nil, false
			}
			if !ce.Val {
				s = "!" + s
			}
			for strings.HasPrefix(s, "!!") {
				s = s[2:]
			}
			cs = append(cs, s)
		}
		sort.Strings(cs)
		out = append(out, [2]string{strings.Join(cs, " && "), sv})
	}
	return out, len(out) > 0
}

func dominatingCondsNonConst(r *Result, b *ssa.BasicBlock) []condEdge {
	var out []condEdge
	for _, ce := range dominatingConds(b) {
		if l := r.get(ce.Cond); l.k != cst {
			out = append(out, ce)
		}
	}
	return out
}

// valueCondAt: the non-constant conditions under which block b is reached and - when succ is given - left towards succ.
func valueCondAt(cd *codec, r *Result, b *ssa.BasicBlock, succ *ssa.BasicBlock) string {
	t := newTB(r)
	t.names[cd.valFn.Params[0]] = "data"
	t.names[cd.valFn.Params[1]] = "pos"
	t.names[cd.valFn.Params[4]] = "unsigned"
	var cs []string
	conds := dominatingConds(b)
	if succ != nil {
		if iff, ok := lastInstr(b).(*ssa.If); ok && len(b.Succs) == 2 && b.Succs[0] != b.Succs[1] {
			cond, val := iff.Cond, b.Succs[0] == succ
			for {
				u, isNot := cond.(*ssa.UnOp)
				if !isNot || u.Op != token.NOT {
					break
				}
				cond, val = u.X, !val
			}
			conds = append(conds, condEdge{iff, cond, val})
		}
	}
	for _, ce := range conds {
		l := r.get(ce.Cond)
		if l.k == cst {
			continue // decided by the specialisation
		}
		s := condTerm(t, ce.Cond)
		if !ce.Val {
			s = "!" + s
		}
		for strings.HasPrefix(s, "!!") {
			s = s[2:]
		}
		cs = append(cs, s)
	}
	sort.Strings(cs)
	return strings.Join(cs, " && ")
}

func condTerm(t *tb, v ssa.Value) string {
	switch x := v.(type) {
	case *ssa.Parameter:
		if n, ok := t.names[x]; ok && n != "" {
			return n
		}
		// a parameter of a function the case was delegated to: the caller's term for the argument
		if n, ok := t.ssub[x]; ok && n != "" {
			return n
		}
		return t.term(x).String()
	case *ssa.BinOp:
		// "a != b" is written as the negation of "a == b", so that a test and its inverted form read alike
		if x.Op == token.NEQ {
			return fmt.Sprintf("!(%s == %s)", t.term(x.X), t.term(x.Y))
		}
		// "x > 0" for a value that cannot be negative (a masked byte, an unsigned quantity) is "x != 0"
		if x.Op == token.GTR {
			if k, isK := t.constVal(x.Y); isK && k == 0 && t.ubits(x.X) < 64 {
				return fmt.Sprintf("!(%s == 0)", t.term(x.X))
			}
		}
		return fmt.Sprintf("(%s %s %s)", t.term(x.X), x.Op, t.term(x.Y))
	case *ssa.UnOp:
		if x.Op == token.NOT {
			return "!" + condTerm(t, x.X)
		}
	}
	return t.term(v).String()
}

// valInline renders result idx of a call to an in-package function as a value term of the caller: the callee is specialised
// on its constant arguments, its parameters are replaced by the argument terms, and the result is used when every success
// return (all returns, if the callee has no error result) yields the same value term.
func valInline(t *tb, r *Result, c *ssa.Call, idx int, depth int) (string, bool) {
	cc := c.Common()
	f := cc.StaticCallee()
	home := c.Parent()
	if f == nil || f.Blocks == nil || cc.IsInvoke() || f.Pkg == nil || home == nil || enclosingPkg(home) != f.Pkg || f == home || depth >= maxInline || t.depth >= maxInline {
		return "", false
	}
	bind := map[ssa.Value]constant.Value{}
	child := newTB(nil)
	child.depth, child.tables = t.depth+1, t.tables
	for i, a := range cc.Args {
		if i >= len(f.Params) {
			break
		}
		p := f.Params[i]
		if r != nil {
			if l := r.get(a); l.k == cst && !l.nilc && l.tbl == nil && l.v != nil && l.v.Kind() != constant.Unknown {
				bind[p] = l.v
			}
		} else if k, ok := a.(*ssa.Const); ok && k.Value != nil {
			bind[p] = k.Value
		}
		t.bindArg(child, p, a, func(v ssa.Value) string { return valTerm(t, r, v, depth+1) })
	}
	sub := specializeAt(f, bind, t.tables, t.depth+1)
	child.res = sub
	errLast := false
	if res := f.Signature.Results(); res.Len() >= 2 && isErrType(res.At(res.Len()-1).Type()) && idx < res.Len()-1 {
		errLast = true
	}
	out, n := "", 0
	for _, ret := range sub.Returns {
		if idx >= len(ret.Results) {
			return "", false
		}
		if errLast && !sub.isNil(ret.Results[len(ret.Results)-1]) {
			continue
		}
		var sv string
		if isIntegerType(ret.Results[idx].Type()) {
			sv = child.term(ret.Results[idx]).String()
		} else {
			sv = valTerm(child, sub, ret.Results[idx], depth+1)
		}
		if strings.Contains(sv, child.cycleMark()) || strings.Contains(sv, "(...)") {
			return "", false
		}
		if n > 0 && sv != out {
			return "", false
		}
		out = sv
		n++
	}
	return out, n > 0
}
