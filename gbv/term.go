package main

import (
	"fmt"
	"go/constant"
	"go/token"
	"go/types"
	"sort"
	"strconv"
	"strings"
	"sync"

	"golang.org/x/tools/go/ssa"
)

// H-term: canonical terms (affine forms over canonically named atoms) of SSA
// values, optionally under an SCCP specialisation. Two values agree iff their
// terms print identically. Commutative operators are sorted, value-preserving
// integer conversions are erased, and byte compositions are recognised as
// LE(k,base[idx]) / BE(k,base[idx]).

type tb struct {
	res    *Result
	memo   map[ssa.Value]aff
	names  map[ssa.Value]string // caller-supplied atom names (parameters, loop phis, call results)
	subst  map[ssa.Value]aff    // callee parameter -> term of the argument (interprocedural inlining)
	ssub   map[ssa.Value]string // callee parameter -> slice/other term of the argument
	depth  int
	tables map[*ssa.Global]*constTable
	fsub   map[fref]aff       // fields of struct-valued parameters of an inlined callee: integer fields
	fssub  map[fref]string    // ... slice fields
	ub     map[ssa.Value]int  // values known to be non-negative with at most this many significant bits (arguments of an inlined call)
	small  map[ssa.Value]bool // values known to be small non-negative integers (loop counters with constant bounds)
}

// fref names field i of the struct value held by parameter v.
type fref struct {
	v ssa.Value
	i int
}

func newTB(res *Result) *tb {
	t := &tb{res: res, memo: map[ssa.Value]aff{}, names: map[ssa.Value]string{}, subst: map[ssa.Value]aff{}, ssub: map[ssa.Value]string{},
		fsub: map[fref]aff{}, fssub: map[fref]string{}}
	if res != nil {
		for k, v := range res.Subst {
			t.subst[k] = v
		}
		for k, v := range res.SSub {
			t.ssub[k] = v
		}
		for k, v := range res.FSub {
			t.fsub[k] = v
		}
		for k, v := range res.FSSub {
			t.fssub[k] = v
		}
	}
	return t
}

// structParam: v is a struct-valued parameter with field bindings, or a load of the local it was spilled into (go/ssa
// copies a value receiver whose fields are addressed into a local first).
func (t *tb) structParam(v ssa.Value) (ssa.Value, bool) {
	v = strip(v)
	if p, ok := v.(*ssa.Parameter); ok {
		if structOf(p.Type()) != nil {
			return p, true
		}
		return nil, false
	}
	var al *ssa.Alloc
	switch x := v.(type) {
	case *ssa.UnOp:
		if x.Op == token.MUL {
			al, _ = x.X.(*ssa.Alloc)
		}
	case *ssa.Alloc:
		al = x
	}
	if al == nil || al.Referrers() == nil {
		return nil, false
	}
	var src ssa.Value
	for _, ref := range *al.Referrers() {
		switch y := ref.(type) {
		case *ssa.Store:
			if y.Addr != ssa.Value(al) || src != nil {
				return nil, false
			}
			src = y.Val
		case *ssa.FieldAddr:
			for _, rr := range *y.Referrers() {
				if st, isSt := rr.(*ssa.Store); isSt && st.Addr == ssa.Value(y) {
					return nil, false // a field of the copy is assigned
				}
			}
		}
	}
	if p, ok := src.(*ssa.Parameter); ok && structOf(p.Type()) != nil {
		return p, true
	}
	return nil, false
}

// fieldRef: v reads field i of a struct-valued parameter (directly, or through its spilled copy).
func (t *tb) fieldRef(v ssa.Value) (fref, bool) {
	switch x := v.(type) {
	case *ssa.Field:
		if p, ok := t.structParam(x.X); ok {
			return fref{p, x.Field}, true
		}
	case *ssa.UnOp:
		if x.Op == token.MUL {
			if fa, ok := x.X.(*ssa.FieldAddr); ok {
				if p, ok := t.structParam(fa.X); ok {
					return fref{p, fa.Field}, true
				}
			}
		}
	}
	return fref{}, false
}

// bindArg binds parameter p of an inlined callee to argument a of the call, evaluated in t: integers as terms, booleans
// by name, slices as slice terms, struct values field by field.
func (t *tb) bindArg(child *tb, p *ssa.Parameter, a ssa.Value, sliceOf func(ssa.Value) string) {
	switch {
	case isIntegerType(a.Type()):
		child.subst[p] = t.term(a)
		if n := t.ubits(a); n < 64 {
			if child.ub == nil {
				child.ub = map[ssa.Value]int{}
			}
			child.ub[p] = n
		}
	case isBoolType(a.Type()):
		if n, ok := t.names[a]; ok {
			child.ssub[p] = n
		} else if n, ok := t.names[strip(a)]; ok { // the flag converted to a named bool type
			child.ssub[p] = n
		} else {
			child.ssub[p] = "?bool"
		}
	case structOf(a.Type()) != nil && !isPointer(a.Type()):
		st := structOf(a.Type())
		orig, isParam := t.structParam(a)
		var fs map[string]fsrc
		if !isParam {
			fs = fieldsOfValue(strip(a), 0)
		}
		for i := 0; i < st.NumFields(); i++ {
			ft := st.Field(i).Type()
			if isParam {
				if v, ok := t.fsub[fref{orig, i}]; ok {
					child.fsub[fref{p, i}] = v
				}
				if v, ok := t.fssub[fref{orig, i}]; ok {
					child.fssub[fref{p, i}] = v
				}
				continue
			}
			src, ok := fs[st.Field(i).Name()]
			if !ok || src.Val == nil {
				continue
			}
			if isIntegerType(ft) {
				child.fsub[fref{p, i}] = t.term(src.Val)
			} else if _, isSl := ft.Underlying().(*types.Slice); isSl {
				child.fssub[fref{p, i}] = sliceOf(src.Val)
			}
		}
	default:
		child.ssub[p] = sliceOf(a)
	}
}

func isBoolType(t types.Type) bool {
	b, ok := t.Underlying().(*types.Basic)
	return ok && b.Info()&types.IsBoolean != 0
}

func isPointer(t types.Type) bool {
	_, ok := t.Underlying().(*types.Pointer)
	return ok
}

// inline evaluates result idx of a call to an in-package function as a term of the caller: the callee is specialised on
// the constant arguments, its parameters are replaced by the argument terms, and the result is used only if every reachable
// return yields the same term (bounded depth, no recursion).
func (t *tb) inline(c *ssa.Call, idx int, asSlice bool) (string, aff, bool) {
	cal := c.Common().StaticCallee()
	if cal == nil || cal.Blocks == nil || c.Common().IsInvoke() || t.depth >= maxInline {
		return "", aff{}, false
	}
	home := c.Parent()
	if cal.Pkg == nil || home == nil || enclosingPkg(home) != cal.Pkg || cal == home {
		return "", aff{}, false
	}
	bind := map[ssa.Value]constant.Value{}
	child := newTB(nil)
	child.depth = t.depth + 1
	child.tables = t.tables
	for i, a := range c.Common().Args {
		if i >= len(cal.Params) {
			break
		}
		p := cal.Params[i]
		if t.res != nil {
			if l := t.res.get(a); l.k == cst && !l.nilc && l.tbl == nil && l.v != nil && l.v.Kind() != constant.Unknown {
				bind[p] = l.v
			}
		} else if k, ok := a.(*ssa.Const); ok && k.Value != nil {
			bind[p] = k.Value
		}
		t.bindArg(child, p, a, t.sliceTerm)
	}
	sub := specializeAt(cal, bind, t.tables, t.depth+1)
	child.res = sub
	var out string
	var outA aff
	n := 0
	// a callee whose last result is an error: the other results are meaningful on its success returns only (callers test the
	// error before using them; the error paths hand back zero values)
	errLast := false
	if res := cal.Signature.Results(); res.Len() >= 2 && isErrType(res.At(res.Len()-1).Type()) && idx < res.Len()-1 {
		errLast = true
	}
	for _, ret := range sub.Returns {
		if idx >= len(ret.Results) {
			return "", aff{}, false
		}
		if errLast && !sub.isNil(ret.Results[len(ret.Results)-1]) {
			continue
		}
		var s string
		var a aff
		if asSlice {
			s = child.sliceTerm(ret.Results[idx])
		} else {
			a = child.term(ret.Results[idx])
			s = a.String()
		}
		if n > 0 && s != out {
			return "", aff{}, false
		}
		if strings.Contains(s, child.cycleMark()) {
			return "", aff{}, false // the callee loops: its result is not a closed term
		}
		out, outA = s, a
		n++
	}
	if n == 0 {
		return "", aff{}, false
	}
	return out, outA, true
}

func intBits(t types.Type) (int, bool, bool) { // bits, unsigned, ok
	b, ok := t.Underlying().(*types.Basic)
	if !ok || b.Info()&types.IsInteger == 0 {
		return 0, false, false
	}
	return int(sizes64.Sizeof(t)) * 8, b.Info()&types.IsUnsigned != 0, true
}

// ubits: an upper bound on the number of significant bits of a non-negative value; 64 = unknown.
func (t *tb) ubits(v ssa.Value) int {
	if t.small[v] {
		return 31
	}
	if n, ok := t.ub[v]; ok {
		return n
	}
	if t.res != nil {
		if k, ok := t.res.constOf(v); ok {
			if k < 0 {
				return 64
			}
			n := 0
			for k > 0 {
				n++
				k >>= 1
			}
			return n
		}
	}
	switch x := v.(type) {
	case *ssa.Const:
		if k, ok := constInt(x); ok && k >= 0 {
			n := 0
			for k > 0 {
				n++
				k >>= 1
			}
			return n
		}
	case *ssa.UnOp:
		if x.Op == token.MUL {
			if bits, uns, ok := intBits(x.Type()); ok && uns {
				return bits
			}
		}
	case *ssa.Convert:
		in := t.ubits(x.X)
		if bits, _, ok := intBits(x.Type()); ok && in < bits {
			return in
		}
		if bits, uns, ok := intBits(x.Type()); ok && uns {
			return bits
		}
	case *ssa.BinOp:
		a, b := t.ubits(x.X), t.ubits(x.Y)
		switch x.Op {
		case token.OR, token.XOR:
			if a > b {
				return min64(a)
			}
			return min64(b)
		case token.AND:
			if a < b {
				return a
			}
			return b
		case token.ADD:
			if a < b {
				a = b
			}
			return min64(a + 1)
		case token.QUO, token.REM:
			// dividing a non-negative value by a constant k >= 1 shrinks it by floor(log2 k) bits; the remainder is below k
			_, uns, _ := intBits(x.X.Type())
			if k, ok := t.constVal(x.Y); ok && k >= 1 && (uns || a < 64) {
				lg := 0
				for kk := k; kk > 1; kk >>= 1 {
					lg++
				}
				if x.Op == token.QUO {
					if a-lg < 0 {
						return 0
					}
					return a - lg
				}
				n := 0
				for kk := k - 1; kk > 0; kk >>= 1 {
					n++
				}
				if n < a {
					return n
				}
				return a
			}
		case token.SHL:
			if k, ok := t.constVal(x.Y); ok {
				return min64(a + int(k))
			}
		case token.SHR:
			// only a value already known to be non-negative loses bits by shifting right (>> on a negative int keeps the sign)
			_, uns, _ := intBits(x.X.Type())
			if k, ok := t.constVal(x.Y); ok && (a < 64 || uns) && a-int(k) >= 0 {
				return a - int(k)
			}
			return a
		}
	case *ssa.Call:
		if isBuiltin(x.Common(), "len") {
			return 63
		}
		// an in-package helper whose result is a closed byte composition
		if _, a, ok := t.inline(x, 0, false); ok {
			if n := bitsOfTerm(a); n < 64 {
				return n
			}
		}
		if f := x.Common().StaticCallee(); f != nil && f.Pkg != nil && f.Pkg.Pkg.Path() == "encoding/binary" {
			if bits, _, ok := intBits(x.Type()); ok {
				return bits
			}
		}
	}
	if bits, uns, ok := intBits(v.Type()); ok && uns {
		return bits
	}
	return 64
}

// byteAtoms: element atoms known to denote a single unsigned byte (recorded where they are created).
var byteAtoms sync.Map

// bitsOfTerm: an upper bound on the significant bits of a term that is a constant or a single byte composition.
func bitsOfTerm(a aff) int {
	if !a.ok {
		return 64
	}
	if k, isK := a.isConst(); isK {
		if k < 0 {
			return 64
		}
		n := 0
		for k > 0 {
			n++
			k >>= 1
		}
		return n
	}
	if a.c != 0 || len(a.syms) != 1 {
		return 64
	}
	for atom, coef := range a.syms {
		if coef != 1 {
			return 64
		}
		var k int
		if n, _ := fmt.Sscanf(atom, "LE(%d,", &k); n == 1 && k >= 1 && k < 8 {
			return 8 * k
		}
		if n, _ := fmt.Sscanf(atom, "BE(%d,", &k); n == 1 && k >= 1 && k < 8 {
			return 8 * k
		}
		if _, isByte := byteAtoms.Load(atom); isByte {
			return 8
		}
	}
	return 64
}

func min64(a int) int {
	if a > 64 {
		return 64
	}
	return a
}

func (t *tb) constVal(v ssa.Value) (int64, bool) {
	if t.res != nil {
		if k, ok := t.res.constOf(v); ok {
			return k, true
		}
	}
	return constInt(v)
}

func (t *tb) term(v ssa.Value) aff {
	if r, ok := t.memo[v]; ok {
		return r
	}
	t.memo[v] = affAtom(t.cycleMark() + v.Name())
	r := t.term1(v)
	t.memo[v] = r
	return r
}

func (t *tb) atomOf(format string, args ...interface{}) aff {
	return affAtom(fmt.Sprintf(format, args...))
}

func (t *tb) term1(v ssa.Value) aff {
	if a, ok := t.subst[v]; ok {
		return a
	}
	if n, ok := t.names[v]; ok {
		return affAtom(n)
	}
	if n, ok := t.ssub[v]; ok {
		return affAtom(n)
	}
	if k, ok := t.constVal(v); ok {
		return affConst(k)
	}
	if fr, ok := t.fieldRef(v); ok {
		if a, bound := t.fsub[fr]; bound {
			return a
		}
	}
	switch x := v.(type) {
	case *ssa.Parameter:
		return affAtom(x.Name())
	case *ssa.FreeVar:
		return affAtom("free:" + x.Name())
	case *ssa.Const:
		if x.Value == nil {
			return affAtom("nil")
		}
		return affAtom("const:" + x.Value.String())
	case *ssa.ChangeType:
		return t.term(x.X)
	case *ssa.Convert:
		fb, _, fok := intBits(x.X.Type())
		tbits, tuns, tok := intBits(x.Type())
		if fok && tok {
			u := t.ubits(x.X)
			limit := tbits
			if !tuns {
				limit = tbits - 1
			}
			if u <= limit && u < 64 {
				return t.term(x.X) // value-preserving
			}
			_ = fb
			return t.atomOf("conv<%s>(%s)", x.Type().Underlying().String(), t.term(x.X))
		}
		return t.atomOf("conv<%s>(%s)", x.Type().String(), t.term(x.X))
	case *ssa.BinOp:
		if c, ok := t.byteCompose(x); ok {
			return c
		}
		switch x.Op {
		case token.ADD:
			if isIntegerType(x.Type()) {
				// an addition in a type narrower than 64 bits whose operands can fill that type wraps: it is not the sum
				// (only sums of values read off the wire - they take every value of their width - are judged; a field such as the
				// header length is small by construction)
				if w, uns, ok := intBits(x.Type()); ok && uns && w < 64 {
					maxOf := func(v ssa.Value) (uint64, bool) {
						if k, isK := t.constVal(v); isK && k >= 0 {
							return uint64(k), true
						}
						b := t.ubits(v)
						if bt := bitsOfTerm(t.term(v)); bt < b {
							b = bt
						}
						if b >= 64 {
							return 0, false
						}
						return (uint64(1) << uint(b)) - 1, true
					}
					wire := func(v ssa.Value) bool {
						tv := t.term(v)
						for s := range tv.syms {
							if strings.HasPrefix(s, "LE(") || strings.HasPrefix(s, "BE(") {
								return true
							}
						}
						return false
					}
					mx, okx := maxOf(x.X)
					my, oky := maxOf(x.Y)
					if (wire(x.X) || wire(x.Y)) && (!okx || !oky || mx+my >= uint64(1)<<uint(w)) {
						s := t.term(x.X).add(t.term(x.Y), 1)
						return t.atomOf("wrap%d(%s)", w, s.String())
					}
				}
				return t.term(x.X).add(t.term(x.Y), 1)
			}
		case token.SUB:
			return t.term(x.X).add(t.term(x.Y), -1)
		case token.MUL:
			if k, ok := t.term(x.Y).isConst(); ok {
				return t.term(x.X).scale(k)
			}
			if k, ok := t.term(x.X).isConst(); ok {
				return t.term(x.Y).scale(k)
			}
		case token.SHL:
			if k, ok := t.term(x.Y).isConst(); ok && k >= 0 && k < 32 {
				return t.term(x.X).scale(1 << uint(k))
			}
		}
		// division / remainder of a non-negative value by a power of two == shift / mask (canonical form: shift, mask)
		if x.Op == token.QUO || x.Op == token.REM {
			if k, ok := t.term(x.Y).isConst(); ok && k > 1 && k&(k-1) == 0 {
				_, uns, isInt := intBits(x.X.Type())
				if isInt && (uns || t.ubits(x.X) < 64) {
					sh := 0
					for kk := k; kk > 1; kk >>= 1 {
						sh++
					}
					xs := t.term(x.X).String()
					if x.Op == token.QUO {
						return t.atomOf("(>> %s %d)", xs, sh)
					}
					m := fmt.Sprint(k - 1)
					a, b := xs, m
					if a > b {
						a, b = b, a
					}
					return t.atomOf("(& %s %s)", a, b)
				}
			}
		}
		a, b := t.term(x.X).String(), t.term(x.Y).String()
		switch x.Op {
		case token.ADD, token.MUL, token.OR, token.AND, token.XOR, token.EQL, token.NEQ:
			if a > b {
				a, b = b, a
			}
		}
		return t.atomOf("(%s %s %s)", x.Op.String(), a, b)
	case *ssa.UnOp:
		if x.Op == token.MUL {
			if ia, ok := x.X.(*ssa.IndexAddr); ok {
				base, idx := t.elemRef(ia)
				a := t.atomOf("%s[%s]", base, idx)
				if bits, uns, isInt := intBits(x.Type()); isInt && uns && bits == 8 {
					byteAtoms.Store(a.String(), true)
				}
				return a
			}
			if fv := forwardLoad(x); fv != nil {
				return t.term(fv)
			}
			return t.atomOf("load(%s)", t.addrTerm(x.X))
		}
		return t.atomOf("(%s %s)", x.Op.String(), t.term(x.X))
	case *ssa.Phi:
		if a, ok := t.loopIdiom(x); ok {
			return a
		}
		var alts []string
		var first aff
		for i, e := range x.Edges {
			if t.res != nil && !t.res.edgeExec(x.Block().Preds[i], x.Block()) {
				continue
			}
			a := t.term(e)
			if len(alts) == 0 {
				first = a
			}
			alts = append(alts, a.String())
		}
		alts = uniq(alts)
		if len(alts) == 1 {
			return first
		}
		return t.atomOf("phi{%s}", strings.Join(alts, "|"))
	case *ssa.Call:
		c := x.Common()
		if isBuiltin(c, "len") {
			// len(x[lo:hi]) = hi-lo, len(x[lo:]) = len(x)-lo
			if sl, ok := c.Args[0].(*ssa.Slice); ok {
				if _, isPtr := sl.X.Type().Underlying().(*types.Pointer); !isPtr {
					lo := affConst(0)
					if sl.Low != nil {
						lo = t.term(sl.Low)
					}
					if sl.High != nil {
						return t.term(sl.High).add(lo, -1)
					}
					return t.atomOf("len(%s)", t.sliceTerm(sl.X)).add(lo, -1)
				}
			}
			return t.atomOf("len(%s)", t.sliceTerm(c.Args[0]))
		}
		if f := c.StaticCallee(); f != nil && f.Pkg != nil && f.Pkg.Pkg.Path() == "encoding/binary" && strings.HasPrefix(f.Name(), "Uint") {
			arg := strip(c.Args[len(c.Args)-1])
			e := "LE"
			if strings.Contains(f.String(), "bigEndian") {
				e = "BE"
			}
			if s, ok := arg.(*ssa.Slice); ok && s.Low != nil && s.High != nil {
				lo, hi := t.term(s.Low), t.term(s.High)
				if k, ok := hi.add(lo, -1).isConst(); ok {
					return t.atomOf("%s(%d,%s[%s])", e, k, t.sliceTerm(s.X), lo)
				}
			}
			if s, ok := arg.(*ssa.Slice); ok && s.Low == nil && s.High != nil {
				if k, ok := t.term(s.High).isConst(); ok {
					return t.atomOf("%s(%d,%s[0])", e, k, t.sliceTerm(s.X))
				}
			}
			// UintN reads exactly the first N bytes of whatever slice it is given
			width := map[string]int64{"Uint16": 2, "Uint32": 4, "Uint64": 8}[f.Name()]
			if s, ok := arg.(*ssa.Slice); ok && width > 0 {
				lo := affConst(0)
				if s.Low != nil {
					lo = t.term(s.Low)
				}
				fits := s.High == nil
				if s.High != nil {
					if k, ok := t.term(s.High).add(lo, -1).isConst(); ok && k >= width {
						fits = true
					}
				}
				if fits {
					return t.atomOf("%s(%d,%s[%s])", e, width, t.sliceTerm(s.X), lo)
				}
			}
			if width > 0 {
				if _, isSlice := arg.(*ssa.Slice); !isSlice {
					st := t.sliceTerm(arg)
					// the slice is itself "X[lo:...]" (e.g. handed back by an inlined helper): element 0 is X[lo]
					if base, lo, ok := splitSliceTerm(st); ok {
						return t.atomOf("%s(%d,%s[%s])", e, width, base, lo)
					}
					return t.atomOf("%s(%d,%s[0])", e, width, st)
				}
			}
			return t.atomOf("%s(?,%s)", e, t.sliceTerm(arg))
		}
		if _, a, ok := t.inline(x, 0, false); ok && x.Type() != nil {
			if _, isTuple := x.Type().(*types.Tuple); !isTuple {
				return a
			}
		}
		var as []string
		for _, a := range c.Args {
			if isIntegerType(a.Type()) {
				as = append(as, t.term(a).String())
			} else {
				as = append(as, t.sliceTerm(a))
			}
		}
		return t.atomOf("%s(%s)", shortCallee(c), strings.Join(as, ","))
	case *ssa.Extract:
		if c, ok := x.Tuple.(*ssa.Call); ok {
			if _, a, ok := t.inline(c, x.Index, false); ok {
				return a
			}
		}
		return t.atomOf("%s#%d", t.term(x.Tuple), x.Index)
	case *ssa.Lookup, *ssa.Index:
		return t.atomOf("idx:%s", v.Name())
	}
	return t.atomOf("?%s", v.Name())
}

func (t *tb) addrTerm(v ssa.Value) string {
	switch x := v.(type) {
	case *ssa.FieldAddr:
		return t.addrTerm(x.X) + "." + fieldName(x)
	case *ssa.IndexAddr:
		return t.sliceTerm(x.X) + "[" + t.term(x.Index).String() + "]"
	case *ssa.Alloc:
		return "var:" + x.Comment
	case *ssa.Parameter:
		return x.Name()
	case *ssa.Global:
		return "global:" + x.Name()
	case *ssa.FreeVar:
		return "free:" + x.Name()
	case *ssa.UnOp:
		return "*" + t.addrTerm(x.X)
	}
	if n, ok := t.names[v]; ok {
		return n
	}
	return "?" + v.Name()
}

// sliceTerm names a slice-typed value.
func (t *tb) sliceTerm(v ssa.Value) string {
	if n, ok := t.ssub[v]; ok {
		return n
	}
	if n, ok := t.names[v]; ok {
		return n
	}
	if fr, ok := t.fieldRef(v); ok {
		if n, bound := t.fssub[fr]; bound {
			return n
		}
	}
	switch x := v.(type) {
	case *ssa.Parameter:
		return x.Name()
	case *ssa.Slice:
		lo, hi := "", ""
		if x.Low != nil {
			lo = t.term(x.Low).String()
		}
		if x.High != nil {
			hi = t.term(x.High).String()
		}
		return t.sliceTerm(x.X) + "[" + lo + ":" + hi + "]"
	case *ssa.ChangeType:
		return t.sliceTerm(x.X)
	case *ssa.Convert:
		return t.sliceTerm(x.X)
	case *ssa.MakeSlice:
		return "make#" + x.Name()
	case *ssa.Alloc:
		return "var:" + x.Comment
	case *ssa.UnOp:
		if x.Op == token.MUL {
			if fv := forwardLoad(x); fv != nil {
				return t.sliceTerm(fv)
			}
			return "*" + t.addrTerm(x.X)
		}
	case *ssa.Phi:
		var alts []string
		for i, e := range x.Edges {
			if t.res != nil && !t.res.edgeExec(x.Block().Preds[i], x.Block()) {
				continue
			}
			alts = append(alts, t.sliceTerm(e))
		}
		alts = uniq(alts)
		if len(alts) == 1 {
			return alts[0]
		}
		return "phi{" + strings.Join(alts, "|") + "}"
	case *ssa.Call:
		if _, isTuple := x.Type().(*types.Tuple); !isTuple && !isIntegerType(x.Type()) {
			if s, _, ok := t.inline(x, 0, true); ok {
				return s
			}
		}
		return t.term(x).String()
	case *ssa.Extract:
		if c, ok := x.Tuple.(*ssa.Call); ok && !isIntegerType(x.Type()) {
			if s, _, ok := t.inline(c, x.Index, true); ok {
				return s
			}
		}
		return t.term(x).String()
	case *ssa.Const:
		if x.Value == nil {
			return "nil"
		}
	}
	return "?" + v.Name()
}

// byteCompose recognises Σ/⋁ (conv)(base[idx+i]) << 8·j as LE/BE(k, base[idx]).
func (t *tb) byteCompose(root *ssa.BinOp) (aff, bool) {
	if root.Op != token.ADD && root.Op != token.OR {
		return aff{}, false
	}
	type leaf struct {
		shift int64
		base  string
		idx   aff
	}
	var leaves []leaf
	ok := true
	// minW: the narrowest integer type any arithmetic on the way down was done in; a byte placed at bit `shift` survives
	// only if shift+8 <= minW (a shift or sum in a narrower type drops it)
	var walk func(v ssa.Value, shift int64, minW int)
	walk = func(v ssa.Value, shift int64, minW int) {
		if !ok {
			return
		}
		switch x := v.(type) {
		case *ssa.BinOp:
			if w, _, isInt := intBits(x.Type()); isInt && w < minW {
				minW = w
			}
			switch x.Op {
			case token.ADD, token.OR:
				walk(x.X, shift, minW)
				walk(x.Y, shift, minW)
				return
			case token.SHL:
				if k, isK := t.constVal(x.Y); isK {
					walk(x.X, shift+k, minW)
					return
				}
			}
		case *ssa.Convert:
			if _, _, isInt := intBits(x.Type()); isInt {
				if fb, _, fok := intBits(x.X.Type()); fok {
					tb2, _, _ := intBits(x.Type())
					if tb2 >= fb { // widening of a byte-derived value
						walk(x.X, shift, minW)
						return
					}
				}
			}
		case *ssa.UnOp:
			if x.Op == token.MUL {
				if ia, isIA := x.X.(*ssa.IndexAddr); isIA {
					if bits, uns, isInt := intBits(x.Type()); isInt && uns && bits == 8 && shift+8 <= int64(minW) {
						base, idx := t.elemRef(ia)
						leaves = append(leaves, leaf{shift, base, idx})
						return
					}
				}
			}
		case *ssa.Call:
			// a single byte handed back by an inlined helper (c.at(i))
			if bits, uns, isInt := intBits(x.Type()); isInt && uns && bits == 8 && shift+8 <= int64(minW) {
				if base, ia, ok := splitElemAtom(t.term(x)); ok {
					leaves = append(leaves, leaf{shift, base, ia})
					return
				}
			}
			// an already-composed little-endian group (encoding/binary call or inlined helper) contributes its bytes
			var k int64
			var base, idx string
			if n, _ := fmt.Sscanf(strings.NewReplacer("(", " ", ",", " ", "[", " ", "]", " ", ")", " ").Replace(t.term(x).String()), "LE %d %s %s", &k, &base, &idx); n == 3 && k >= 1 && k <= 8 && shift+8*k <= int64(minW) {
				if ia, err := parseSimpleAff(idx); err == nil {
					for j := int64(0); j < k; j++ {
						leaves = append(leaves, leaf{shift + 8*j, base, ia.add(affConst(j), 1)})
					}
					return
				}
			}
		}
		ok = false
	}
	walk(root, 0, 64)
	if !ok || len(leaves) < 2 {
		return aff{}, false
	}
	sort.Slice(leaves, func(i, j int) bool { return leaves[i].shift < leaves[j].shift })
	k := int64(len(leaves))
	le, be := true, true
	for i, l := range leaves {
		if l.base != leaves[0].base || l.shift != 8*int64(i) {
			return aff{}, false
		}
		d, isK := l.idx.add(leaves[0].idx, -1).isConst()
		if !isK {
			return aff{}, false
		}
		if d != int64(i) {
			le = false
		}
		if d != -int64(i) {
			be = false
		}
	}
	switch {
	case le:
		return t.atomOf("LE(%d,%s[%s])", k, leaves[0].base, leaves[0].idx), true
	case be:
		return t.atomOf("BE(%d,%s[%s])", k, leaves[0].base, leaves[k-1].idx), true
	}
	return aff{}, false
}

// loopIdiom recognises the two byte-accumulation loops with a constant trip count and returns the value of the
// accumulator after the loop as a closed term:
//
//	for i := 0; i < N; i++ { acc |= T(base[off+i]) << (8*i) }   ->  LE(N, base[off])      (also with +)
//	for i := 0; i < N; i++ { acc = acc<<8 | T(base[off+i]) }    ->  BE(N, base[off])      (also with +, *256)
//
// N must be a constant under the specialisation (1..16) and the accumulator must start at 0.
func (t *tb) loopIdiom(acc *ssa.Phi) (aff, bool) {
	hdr := acc.Block()
	if len(hdr.Preds) != 2 || len(acc.Edges) != 2 || !isIntegerType(acc.Type()) {
		return aff{}, false
	}
	latch := -1
	for i, p := range hdr.Preds {
		if hdr.Dominates(p) {
			latch = i
		}
	}
	if latch < 0 {
		return aff{}, false
	}
	if k, ok := t.constVal(acc.Edges[1-latch]); !ok || k != 0 {
		return aff{}, false
	}
	// induction variable and bound
	var iv *ssa.Phi
	descN := int64(0)
	for _, in := range hdr.Instrs {
		p, ok := in.(*ssa.Phi)
		if !ok {
			break
		}
		if p == acc || len(p.Edges) != 2 {
			continue
		}
		c0, ok0 := t.constVal(p.Edges[1-latch])
		bo, ok1 := p.Edges[latch].(*ssa.BinOp)
		if ok0 && c0 == 0 && ok1 && bo.Op == token.ADD && bo.X == ssa.Value(p) {
			if k, ok := t.constVal(bo.Y); ok && k == 1 {
				iv = p
			}
		}
		// descending: for i := N; i > 0; i--
		if ok0 && c0 >= 1 && c0 <= 16 && ok1 && bo.X == ssa.Value(p) {
			if k, ok := t.constVal(bo.Y); ok && ((bo.Op == token.SUB && k == 1) || (bo.Op == token.ADD && k == -1)) {
				iv, descN = p, c0
			}
		}
	}
	if iv == nil {
		return aff{}, false
	}
	if descN > 0 {
		return t.loopIdiomDesc(acc, iv, latch, descN)
	}
	iff, ok := lastInstr(hdr).(*ssa.If)
	if !ok {
		return aff{}, false
	}
	cond, ok := iff.Cond.(*ssa.BinOp)
	if !ok || cond.Op != token.LSS {
		return aff{}, false
	}
	cx := cond.X
	for {
		if cv, isC := cx.(*ssa.Convert); isC {
			cx = cv.X
			continue
		}
		break
	}
	if cx != ssa.Value(iv) {
		return aff{}, false
	}
	n, ok := t.constVal(cond.Y)
	if !ok || n < 1 || n > 16 {
		return aff{}, false
	}
	// the accumulator must be wide enough to hold all N bytes (a narrower one silently drops the high ones)
	if w, _, isInt := intBits(acc.Type()); !isInt || 8*n > int64(w) {
		return aff{}, false
	}
	// body expression, with the induction variable as a named atom
	sub := newTB(t.res)
	sub.depth, sub.tables = t.depth, t.tables
	for k, v := range t.names {
		sub.names[k] = v
	}
	for k, v := range t.subst {
		sub.subst[k] = v
	}
	for k, v := range t.ssub {
		sub.ssub[k] = v
	}
	sub.names[iv] = "@i"
	sub.names[acc] = "@acc"
	sub.small = map[ssa.Value]bool{iv: true}
	e, ok := acc.Edges[latch].(*ssa.BinOp)
	if !ok || (e.Op != token.OR && e.Op != token.ADD) {
		return aff{}, false
	}
	unconv := func(v ssa.Value) ssa.Value {
		for {
			if cv, isC := v.(*ssa.Convert); isC {
				if _, _, isInt := intBits(cv.Type()); isInt {
					v = cv.X
					continue
				}
			}
			return v
		}
	}
	// byteAt: v is (a widening of) base[off+@i]; returns base name and off
	byteAt := func(v ssa.Value) (string, aff, bool) {
		if c, isCall := unconv(v).(*ssa.Call); isCall {
			// a byte fetched through an inlined helper: base[off+@i]
			if bits, uns, isInt := intBits(c.Type()); isInt && uns && bits == 8 {
				if base, idx, ok := splitElemAtom(sub.term(c)); ok && idx.ok && idx.syms["@i"] == 1 {
					off := idx.add(affAtom("@i"), -1)
					if !strings.Contains(off.String(), "@") {
						return base, off, true
					}
				}
			}
			return "", aff{}, false
		}
		u, ok := unconv(v).(*ssa.UnOp)
		if !ok || u.Op != token.MUL {
			return "", aff{}, false
		}
		ia, ok := u.X.(*ssa.IndexAddr)
		if !ok {
			return "", aff{}, false
		}
		idx := sub.term(ia.Index)
		if !idx.ok || idx.syms["@i"] != 1 {
			return "", aff{}, false
		}
		off := idx.add(affAtom("@i"), -1)
		if strings.Contains(off.String(), "@") {
			return "", aff{}, false
		}
		return sub.sliceTerm(ia.X), off, true
	}
	for _, pair := range [][2]ssa.Value{{e.X, e.Y}, {e.Y, e.X}} {
		a, b := pair[0], pair[1]
		// little-endian: acc OP (byte << 8*i)
		if unconv(a) == ssa.Value(acc) {
			if sh, ok := unconv(b).(*ssa.BinOp); ok && sh.Op == token.SHL {
				if w, _, isInt := intBits(sh.Type()); !isInt || 8*n > int64(w) {
					return aff{}, false // shifted in a type too narrow for the last byte
				}
				amt := sub.term(sh.Y)
				if c, isC := amt.add(affAtom("@i").scale(8), -1).isConst(); isC && c == 0 {
					if base, off, ok := byteAt(sh.X); ok {
						if n == 1 {
							a := t.atomOf("%s[%s]", base, off)
							byteAtoms.Store(a.String(), true)
							return a, true
						}
						return t.atomOf("LE(%d,%s[%s])", n, base, off), true
					}
				}
			}
		}
		// big-endian: (acc << 8) OP byte
		if sh, ok := unconv(a).(*ssa.BinOp); ok {
			isShift := false
			if sh.Op == token.SHL && unconv(sh.X) == ssa.Value(acc) {
				if k, isK := t.constVal(sh.Y); isK && k == 8 {
					isShift = true
				}
			}
			if sh.Op == token.MUL && unconv(sh.X) == ssa.Value(acc) {
				if k, isK := t.constVal(sh.Y); isK && k == 256 {
					isShift = true
				}
			}
			if isShift {
				if base, off, ok := byteAt(b); ok {
					if n == 1 {
						a := t.atomOf("%s[%s]", base, off)
						byteAtoms.Store(a.String(), true)
						return a, true
					}
					return t.atomOf("BE(%d,%s[%s])", n, base, off), true
				}
			}
		}
	}
	return aff{}, false
}

// loopIdiomDesc: for i := N; i > 0; i-- { acc = acc<<8 | T(base[off+i]) } reads the most significant byte first from the
// highest address: the value is LE(N, base[off+1]).
func (t *tb) loopIdiomDesc(acc, iv *ssa.Phi, latch int, n int64) (aff, bool) {
	hdr := acc.Block()
	iff, ok := lastInstr(hdr).(*ssa.If)
	if !ok {
		return aff{}, false
	}
	cond, ok := iff.Cond.(*ssa.BinOp)
	if !ok || (cond.Op != token.GTR && cond.Op != token.GEQ) || cond.X != ssa.Value(iv) {
		return aff{}, false
	}
	// "i > 0" or "i >= 1"
	if k, isK := t.constVal(cond.Y); !isK || (cond.Op == token.GTR && k != 0) || (cond.Op == token.GEQ && k != 1) {
		return aff{}, false
	}
	if w, _, isInt := intBits(acc.Type()); !isInt || 8*n > int64(w) {
		return aff{}, false
	}
	sub := newTB(t.res)
	sub.depth, sub.tables = t.depth, t.tables
	for k, v := range t.names {
		sub.names[k] = v
	}
	for k, v := range t.subst {
		sub.subst[k] = v
	}
	for k, v := range t.ssub {
		sub.ssub[k] = v
	}
	sub.names[iv] = "@i"
	sub.small = map[ssa.Value]bool{iv: true}
	e, ok := acc.Edges[latch].(*ssa.BinOp)
	if !ok || (e.Op != token.OR && e.Op != token.ADD) {
		return aff{}, false
	}
	unconv := func(v ssa.Value) ssa.Value {
		for {
			if cv, isC := v.(*ssa.Convert); isC {
				if _, _, isInt := intBits(cv.Type()); isInt {
					v = cv.X
					continue
				}
			}
			return v
		}
	}
	for _, pair := range [][2]ssa.Value{{e.X, e.Y}, {e.Y, e.X}} {
		sh, ok := unconv(pair[0]).(*ssa.BinOp)
		if !ok || unconv(sh.X) != ssa.Value(acc) {
			continue
		}
		isShift := false
		if k, isK := t.constVal(sh.Y); isK && ((sh.Op == token.SHL && k == 8) || (sh.Op == token.MUL && k == 256)) {
			isShift = true
		}
		if !isShift {
			continue
		}
		u, ok := unconv(pair[1]).(*ssa.UnOp)
		if !ok || u.Op != token.MUL {
			continue
		}
		ia, ok := u.X.(*ssa.IndexAddr)
		if !ok {
			continue
		}
		if bits, uns, isInt := intBits(u.Type()); !isInt || !uns || bits != 8 {
			continue
		}
		idx := sub.term(ia.Index)
		if !idx.ok || idx.syms["@i"] != 1 {
			continue
		}
		off := idx.add(affAtom("@i"), -1).add(affConst(1), 1)
		if strings.Contains(off.String(), "@") {
			continue
		}
		base := sub.sliceTerm(ia.X)
		if n == 1 {
			a := t.atomOf("%s[%s]", base, off)
			byteAtoms.Store(a.String(), true)
			return a, true
		}
		return t.atomOf("LE(%d,%s[%s])", n, base, off), true
	}
	return aff{}, false
}

// parseSimpleAff parses terms of the form "name", "name+k", "k" (as printed by aff.String for one atom).
func parseSimpleAff(s string) (aff, error) {
	if k, err := strconv.ParseInt(s, 10, 64); err == nil {
		return affConst(k), nil
	}
	if i := strings.LastIndexAny(s, "+-"); i > 0 {
		if k, err := strconv.ParseInt(s[i:], 10, 64); err == nil && !strings.ContainsAny(s[:i], "+-*() ") {
			return affAtom(s[:i]).add(affConst(k), 1), nil
		}
	}
	if !strings.ContainsAny(s, "+-*() ") {
		return affAtom(s), nil
	}
	return aff{}, fmt.Errorf("not simple")
}

// elemRef names the element an IndexAddr denotes, looking through re-slicing: (x[lo:hi])[i] is x[lo+i].
func (t *tb) elemRef(ia *ssa.IndexAddr) (string, aff) {
	idx := t.term(ia.Index)
	base := ia.X
	for i := 0; i < 8; i++ {
		if n, ok := t.ssub[base]; ok {
			return n, idx
		}
		if n, ok := t.names[base]; ok {
			return n, idx
		}
		switch x := base.(type) {
		case *ssa.Slice:
			if _, isPtr := x.X.Type().Underlying().(*types.Pointer); isPtr {
				return t.sliceTerm(base), idx
			}
			if x.Low != nil {
				idx = idx.add(t.term(x.Low), 1)
			}
			base = x.X
			continue
		case *ssa.ChangeType:
			base = x.X
			continue
		case *ssa.UnOp:
			if x.Op == token.MUL {
				if fv := forwardLoad(x); fv != nil {
					base = fv
					continue
				}
			}
		}
		break
	}
	return t.sliceTerm(base), idx
}

// leqZero normalises an integer comparison to the form E <= 0 and returns E (so that equivalent bound tests print alike):
// X<Y => X-Y+1, X<=Y => X-Y, X>Y => Y-X+1, X>=Y => Y-X. ok is false for other operators.
func (t *tb) leqZero(c *ssa.BinOp, negate bool) (string, bool) {
	x, y := t.term(c.X), t.term(c.Y)
	op := c.Op
	if negate {
		switch op {
		case token.LSS:
			op = token.GEQ
		case token.LEQ:
			op = token.GTR
		case token.GTR:
			op = token.LEQ
		case token.GEQ:
			op = token.LSS
		default:
			return "", false
		}
	}
	switch op {
	case token.LSS:
		return x.add(y, -1).add(affConst(1), 1).String(), true
	case token.LEQ:
		return x.add(y, -1).String(), true
	case token.GTR:
		return y.add(x, -1).add(affConst(1), 1).String(), true
	case token.GEQ:
		return y.add(x, -1).String(), true
	}
	return "", false
}

// leqZeroAff is leqZero with the term itself.
func (t *tb) leqZeroAff(c *ssa.BinOp, negate bool) (aff, bool) {
	x, y := t.term(c.X), t.term(c.Y)
	op := c.Op
	if negate {
		switch op {
		case token.LSS:
			op = token.GEQ
		case token.LEQ:
			op = token.GTR
		case token.GTR:
			op = token.LEQ
		case token.GEQ:
			op = token.LSS
		default:
			return aff{}, false
		}
	}
	var e aff
	switch op {
	case token.LSS:
		e = x.add(y, -1).add(affConst(1), 1)
	case token.LEQ:
		e = x.add(y, -1)
	case token.GTR:
		e = y.add(x, -1).add(affConst(1), 1)
	case token.GEQ:
		e = y.add(x, -1)
	default:
		return aff{}, false
	}
	return e, e.ok
}

// cycleMark is the prefix of the placeholder atom for a value that depends on itself (a loop the idioms do not cover);
// it carries the inlining depth so that a callee's own loops can be told from loop terms passed in as arguments.
func (t *tb) cycleMark() string {
	if t.depth == 0 {
		return "cycle:"
	}
	return fmt.Sprintf("cycle%d:", t.depth)
}

// splitSliceTerm: "X[lo:hi]" or "X[lo:]" -> (X, lo); lo "" reads as 0. Only for a trailing slice expression of a simple base.
func splitSliceTerm(s string) (string, string, bool) {
	if !strings.HasSuffix(s, "]") {
		return "", "", false
	}
	depth := 0
	open := -1
	for i := len(s) - 1; i >= 0; i-- {
		switch s[i] {
		case ']':
			depth++
		case '[':
			depth--
			if depth == 0 {
				open = i
			}
		}
		if open >= 0 {
			break
		}
	}
	if open <= 0 {
		return "", "", false
	}
	inner := s[open+1 : len(s)-1]
	// top-level colon
	d := 0
	colon := -1
	for i := 0; i < len(inner); i++ {
		switch inner[i] {
		case '[', '(':
			d++
		case ']', ')':
			d--
		case ':':
			if d == 0 && colon < 0 {
				colon = i
			}
		}
	}
	if colon < 0 {
		return "", "", false
	}
	lo := inner[:colon]
	if lo == "" {
		lo = "0"
	}
	return s[:open], lo, true
}

// splitElemAtom: a term that is exactly one atom "base[idx]" naming a byte -> (base, idx as an affine form).
func splitElemAtom(a aff) (string, aff, bool) {
	if !a.ok || a.c != 0 || len(a.syms) != 1 {
		return "", aff{}, false
	}
	for atom, coef := range a.syms {
		if coef != 1 {
			return "", aff{}, false
		}
		if _, isByte := byteAtoms.Load(atom); !isByte || !strings.HasSuffix(atom, "]") {
			return "", aff{}, false
		}
		depth := 0
		for i := len(atom) - 1; i >= 0; i-- {
			switch atom[i] {
			case ']':
				depth++
			case '[':
				depth--
				if depth == 0 {
					idx, err := parseAffSum(atom[i+1 : len(atom)-1])
					if err != nil {
						return "", aff{}, false
					}
					return atom[:i], idx, true
				}
			}
		}
	}
	return "", aff{}, false
}

// parseAffSum parses what aff.String prints for sums of simple atoms and a constant: "pos+3", "@i+pos", "2*x+1", "7".
func parseAffSum(s string) (aff, error) {
	out := affConst(0)
	i := 0
	sign := int64(1)
	for i < len(s) {
		j := i
		for j < len(s) && s[j] != '+' && !(s[j] == '-' && j > i) {
			if s[j] == '(' || s[j] == '[' || s[j] == ' ' {
				return aff{}, fmt.Errorf("not a simple sum")
			}
			j++
		}
		tok := s[i:j]
		if strings.HasPrefix(tok, "-") {
			sign, tok = -1, tok[1:]
		}
		coef := int64(1)
		if k := strings.Index(tok, "*"); k > 0 {
			c, err := strconv.ParseInt(tok[:k], 10, 64)
			if err != nil {
				return aff{}, err
			}
			coef, tok = c, tok[k+1:]
		}
		if c, err := strconv.ParseInt(tok, 10, 64); err == nil {
			out = out.add(affConst(c*coef), sign)
		} else if tok != "" {
			out = out.add(affAtom(tok).scale(coef), sign)
		} else {
			return aff{}, fmt.Errorf("empty term")
		}
		sign = 1
		if j < len(s) && s[j] == '-' {
			sign = -1
		}
		i = j + 1
	}
	return out, nil
}
