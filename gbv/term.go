package main

import (
	"fmt"
	"go/token"
	"go/types"
	"sort"
	"strings"

	"golang.org/x/tools/go/ssa"
)

// H-term: canonical terms (affine forms over canonically named atoms) of SSA
// values, optionally under an SCCP specialisation. Two values agree iff their
// terms print identically. Commutative operators are sorted, value-preserving
// integer conversions are erased, and byte compositions are recognised as
// LE(k,base[idx]) / BE(k,base[idx]).

type tb struct {
	res   *Result
	memo  map[ssa.Value]aff
	names map[ssa.Value]string // caller-supplied atom names (parameters, loop phis, call results)
}

func newTB(res *Result) *tb {
	return &tb{res: res, memo: map[ssa.Value]aff{}, names: map[ssa.Value]string{}}
}

func intBits(t types.Type) (int, bool, bool) { // bits, unsigned, ok
	b, ok := t.Underlying().(*types.Basic)
	if !ok || b.Info()&types.IsInteger == 0 {
		return 0, false, false
	}
	return int(sizes64.Sizeof(t)) * 8, b.Info()&types.IsUnsigned != 0, true
}

// ubits: an upper bound on the number of significant bits of a non-negative value; 64 = unknown.
func (t *tb) ubits(v ssa.Value) int {
	if t.res != nil {
		if k, ok := t.res.constOf(v); ok {
			if k < 0 {
				return 64
			}
			n := 0
			for k > 0 {
				n++
				k >>= 1
			}
			return n
		}
	}
	switch x := v.(type) {
	case *ssa.Const:
		if k, ok := constInt(x); ok && k >= 0 {
			n := 0
			for k > 0 {
				n++
				k >>= 1
			}
			return n
		}
	case *ssa.UnOp:
		if x.Op == token.MUL {
			if bits, uns, ok := intBits(x.Type()); ok && uns {
				return bits
			}
		}
	case *ssa.Convert:
		in := t.ubits(x.X)
		if bits, _, ok := intBits(x.Type()); ok && in < bits {
			return in
		}
		if bits, uns, ok := intBits(x.Type()); ok && uns {
			return bits
		}
	case *ssa.BinOp:
		a, b := t.ubits(x.X), t.ubits(x.Y)
		switch x.Op {
		case token.OR, token.XOR:
			if a > b {
				return min64(a)
			}
			return min64(b)
		case token.AND:
			if a < b {
				return a
			}
			return b
		case token.ADD:
			if a < b {
				a = b
			}
			return min64(a + 1)
		case token.SHL:
			if k, ok := t.constVal(x.Y); ok {
				return min64(a + int(k))
			}
		case token.SHR:
			// only a value already known to be non-negative loses bits by shifting right (>> on a negative int keeps the sign)
			_, uns, _ := intBits(x.X.Type())
			if k, ok := t.constVal(x.Y); ok && (a < 64 || uns) && a-int(k) >= 0 {
				return a - int(k)
			}
			return a
		}
	case *ssa.Call:
		if isBuiltin(x.Common(), "len") {
			return 63
		}
		if f := x.Common().StaticCallee(); f != nil && f.Pkg != nil && f.Pkg.Pkg.Path() == "encoding/binary" {
			if bits, _, ok := intBits(x.Type()); ok {
				return bits
			}
		}
	}
	if bits, uns, ok := intBits(v.Type()); ok && uns {
		return bits
	}
	return 64
}

func min64(a int) int {
	if a > 64 {
		return 64
	}
	return a
}

func (t *tb) constVal(v ssa.Value) (int64, bool) {
	if t.res != nil {
		if k, ok := t.res.constOf(v); ok {
			return k, true
		}
	}
	return constInt(v)
}

func (t *tb) term(v ssa.Value) aff {
	if r, ok := t.memo[v]; ok {
		return r
	}
	t.memo[v] = affAtom("cycle:" + v.Name())
	r := t.term1(v)
	t.memo[v] = r
	return r
}

func (t *tb) atomOf(format string, args ...interface{}) aff { return affAtom(fmt.Sprintf(format, args...)) }

func (t *tb) term1(v ssa.Value) aff {
	if n, ok := t.names[v]; ok {
		return affAtom(n)
	}
	if k, ok := t.constVal(v); ok {
		return affConst(k)
	}
	switch x := v.(type) {
	case *ssa.Parameter:
		return affAtom(x.Name())
	case *ssa.FreeVar:
		return affAtom("free:" + x.Name())
	case *ssa.Const:
		if x.Value == nil {
			return affAtom("nil")
		}
		return affAtom("const:" + x.Value.String())
	case *ssa.ChangeType:
		return t.term(x.X)
	case *ssa.Convert:
		fb, _, fok := intBits(x.X.Type())
		tbits, tuns, tok := intBits(x.Type())
		if fok && tok {
			u := t.ubits(x.X)
			limit := tbits
			if !tuns {
				limit = tbits - 1
			}
			if u <= limit && u < 64 {
				return t.term(x.X) // value-preserving
			}
			_ = fb
			return t.atomOf("conv<%s>(%s)", x.Type().Underlying().String(), t.term(x.X))
		}
		return t.atomOf("conv<%s>(%s)", x.Type().String(), t.term(x.X))
	case *ssa.BinOp:
		if c, ok := t.byteCompose(x); ok {
			return c
		}
		switch x.Op {
		case token.ADD:
			if isIntegerType(x.Type()) {
				return t.term(x.X).add(t.term(x.Y), 1)
			}
		case token.SUB:
			return t.term(x.X).add(t.term(x.Y), -1)
		case token.MUL:
			if k, ok := t.term(x.Y).isConst(); ok {
				return t.term(x.X).scale(k)
			}
			if k, ok := t.term(x.X).isConst(); ok {
				return t.term(x.Y).scale(k)
			}
		case token.SHL:
			if k, ok := t.term(x.Y).isConst(); ok && k >= 0 && k < 32 {
				return t.term(x.X).scale(1 << uint(k))
			}
		}
		// division / remainder of a non-negative value by a power of two == shift / mask (canonical form: shift, mask)
		if x.Op == token.QUO || x.Op == token.REM {
			if k, ok := t.term(x.Y).isConst(); ok && k > 1 && k&(k-1) == 0 {
				_, uns, isInt := intBits(x.X.Type())
				if isInt && (uns || t.ubits(x.X) < 64) {
					sh := 0
					for kk := k; kk > 1; kk >>= 1 {
						sh++
					}
					xs := t.term(x.X).String()
					if x.Op == token.QUO {
						return t.atomOf("(>> %s %d)", xs, sh)
					}
					m := fmt.Sprint(k - 1)
					a, b := xs, m
					if a > b {
						a, b = b, a
					}
					return t.atomOf("(& %s %s)", a, b)
				}
			}
		}
		a, b := t.term(x.X).String(), t.term(x.Y).String()
		switch x.Op {
		case token.ADD, token.MUL, token.OR, token.AND, token.XOR, token.EQL, token.NEQ:
			if a > b {
				a, b = b, a
			}
		}
		return t.atomOf("(%s %s %s)", x.Op.String(), a, b)
	case *ssa.UnOp:
		if x.Op == token.MUL {
			if ia, ok := x.X.(*ssa.IndexAddr); ok {
				return t.atomOf("%s[%s]", t.sliceTerm(ia.X), t.term(ia.Index))
			}
			if fv := forwardLoad(x); fv != nil {
				return t.term(fv)
			}
			return t.atomOf("load(%s)", t.addrTerm(x.X))
		}
		return t.atomOf("(%s %s)", x.Op.String(), t.term(x.X))
	case *ssa.Phi:
		var alts []string
		var first aff
		for i, e := range x.Edges {
			if t.res != nil && !t.res.edgeExec(x.Block().Preds[i], x.Block()) {
				continue
			}
			a := t.term(e)
			if len(alts) == 0 {
				first = a
			}
			alts = append(alts, a.String())
		}
		alts = uniq(alts)
		if len(alts) == 1 {
			return first
		}
		return t.atomOf("phi{%s}", strings.Join(alts, "|"))
	case *ssa.Call:
		c := x.Common()
		if isBuiltin(c, "len") {
			return t.atomOf("len(%s)", t.sliceTerm(c.Args[0]))
		}
		if f := c.StaticCallee(); f != nil && f.Pkg != nil && f.Pkg.Pkg.Path() == "encoding/binary" && strings.HasPrefix(f.Name(), "Uint") {
			arg := strip(c.Args[len(c.Args)-1])
			e := "LE"
			if strings.Contains(f.String(), "bigEndian") {
				e = "BE"
			}
			if s, ok := arg.(*ssa.Slice); ok && s.Low != nil && s.High != nil {
				lo, hi := t.term(s.Low), t.term(s.High)
				if k, ok := hi.add(lo, -1).isConst(); ok {
					return t.atomOf("%s(%d,%s[%s])", e, k, t.sliceTerm(s.X), lo)
				}
			}
			if s, ok := arg.(*ssa.Slice); ok && s.Low == nil && s.High != nil {
				if k, ok := t.term(s.High).isConst(); ok {
					return t.atomOf("%s(%d,%s[0])", e, k, t.sliceTerm(s.X))
				}
			}
			return t.atomOf("%s(?,%s)", e, t.sliceTerm(arg))
		}
		var as []string
		for _, a := range c.Args {
			if isIntegerType(a.Type()) {
				as = append(as, t.term(a).String())
			} else {
				as = append(as, t.sliceTerm(a))
			}
		}
		return t.atomOf("%s(%s)", shortCallee(c), strings.Join(as, ","))
	case *ssa.Extract:
		return t.atomOf("%s#%d", t.term(x.Tuple), x.Index)
	case *ssa.Lookup, *ssa.Index:
		return t.atomOf("idx:%s", v.Name())
	}
	return t.atomOf("?%s", v.Name())
}

func (t *tb) addrTerm(v ssa.Value) string {
	switch x := v.(type) {
	case *ssa.FieldAddr:
		return t.addrTerm(x.X) + "." + fieldName(x)
	case *ssa.IndexAddr:
		return t.sliceTerm(x.X) + "[" + t.term(x.Index).String() + "]"
	case *ssa.Alloc:
		return "var:" + x.Comment
	case *ssa.Parameter:
		return x.Name()
	case *ssa.Global:
		return "global:" + x.Name()
	case *ssa.FreeVar:
		return "free:" + x.Name()
	case *ssa.UnOp:
		return "*" + t.addrTerm(x.X)
	}
	if n, ok := t.names[v]; ok {
		return n
	}
	return "?" + v.Name()
}

// sliceTerm names a slice-typed value.
func (t *tb) sliceTerm(v ssa.Value) string {
	if n, ok := t.names[v]; ok {
		return n
	}
	switch x := v.(type) {
	case *ssa.Parameter:
		return x.Name()
	case *ssa.Slice:
		lo, hi := "", ""
		if x.Low != nil {
			lo = t.term(x.Low).String()
		}
		if x.High != nil {
			hi = t.term(x.High).String()
		}
		return t.sliceTerm(x.X) + "[" + lo + ":" + hi + "]"
	case *ssa.ChangeType:
		return t.sliceTerm(x.X)
	case *ssa.Convert:
		return t.sliceTerm(x.X)
	case *ssa.MakeSlice:
		return "make#" + x.Name()
	case *ssa.Alloc:
		return "var:" + x.Comment
	case *ssa.UnOp:
		if x.Op == token.MUL {
			if fv := forwardLoad(x); fv != nil {
				return t.sliceTerm(fv)
			}
			return "*" + t.addrTerm(x.X)
		}
	case *ssa.Phi:
		var alts []string
		for i, e := range x.Edges {
			if t.res != nil && !t.res.edgeExec(x.Block().Preds[i], x.Block()) {
				continue
			}
			alts = append(alts, t.sliceTerm(e))
		}
		alts = uniq(alts)
		if len(alts) == 1 {
			return alts[0]
		}
		return "phi{" + strings.Join(alts, "|") + "}"
	case *ssa.Call:
		return t.term(x).String()
	case *ssa.Extract:
		return t.term(x).String()
	case *ssa.Const:
		if x.Value == nil {
			return "nil"
		}
	}
	return "?" + v.Name()
}

// byteCompose recognises Σ/⋁ (conv)(base[idx+i]) << 8·j as LE/BE(k, base[idx]).
func (t *tb) byteCompose(root *ssa.BinOp) (aff, bool) {
	if root.Op != token.ADD && root.Op != token.OR {
		return aff{}, false
	}
	type leaf struct {
		shift int64
		base  string
		idx   aff
	}
	var leaves []leaf
	ok := true
	var walk func(v ssa.Value, shift int64)
	walk = func(v ssa.Value, shift int64) {
		if !ok {
			return
		}
		switch x := v.(type) {
		case *ssa.BinOp:
			switch x.Op {
			case token.ADD, token.OR:
				walk(x.X, shift)
				walk(x.Y, shift)
				return
			case token.SHL:
				if k, isK := t.constVal(x.Y); isK {
					walk(x.X, shift+k)
					return
				}
			}
		case *ssa.Convert:
			if _, _, isInt := intBits(x.Type()); isInt {
				if fb, _, fok := intBits(x.X.Type()); fok {
					tb2, _, _ := intBits(x.Type())
					if tb2 >= fb { // widening of a byte-derived value
						walk(x.X, shift)
						return
					}
				}
			}
		case *ssa.UnOp:
			if x.Op == token.MUL {
				if ia, isIA := x.X.(*ssa.IndexAddr); isIA {
					if bits, uns, isInt := intBits(x.Type()); isInt && uns && bits == 8 {
						leaves = append(leaves, leaf{shift, t.sliceTerm(ia.X), t.term(ia.Index)})
						return
					}
				}
			}
		}
		ok = false
	}
	walk(root, 0)
	if !ok || len(leaves) < 2 {
		return aff{}, false
	}
	sort.Slice(leaves, func(i, j int) bool { return leaves[i].shift < leaves[j].shift })
	k := int64(len(leaves))
	le, be := true, true
	for i, l := range leaves {
		if l.base != leaves[0].base || l.shift != 8*int64(i) {
			return aff{}, false
		}
		d, isK := l.idx.add(leaves[0].idx, -1).isConst()
		if !isK {
			return aff{}, false
		}
		if d != int64(i) {
			le = false
		}
		if d != -int64(i) {
			be = false
		}
	}
	switch {
	case le:
		return t.atomOf("LE(%d,%s[%s])", k, leaves[0].base, leaves[0].idx), true
	case be:
		return t.atomOf("BE(%d,%s[%s])", k, leaves[0].base, leaves[k-1].idx), true
	}
	return aff{}, false
}
