package main

import (
	"fmt"
	"go/ast"
	"go/token"
	"go/types"
	"os"
	"regexp"
	"sort"
	"strings"

	"golang.org/x/tools/go/packages"
)

// Second source normalisation: inlining of tail calls.
//
// "Split a long function" leaves `return s.secondHalf(a, b)` behind; "extract the cases into a helper" leaves
// `return integerCases(data, pos, typ)`. The rules read one function at a time (dominance, must-pass-through, per-return
// terms), so the two halves are glued together again before SSA construction: a return statement that consists of one
// call of a function or method of the same package - which has no other use in the package, no named results, no defer,
// no labels, is not recursive - is replaced by a block that binds the parameters to the arguments and contains the
// callee's body; the callee's declaration is blanked. Execution is unchanged (the callee's frame is the last thing the
// caller does). Lines that move are remembered, so reports still name the file and line the code really has.

var genLabelRe = regexp.MustCompile(`^inl[0-9]+$`)

type lineOrigin struct {
	file string
	line int
}

// lineOrigins[file][i] is where line i+1 of the (rewritten) file came from; absent = unchanged.
var lineOrigins = map[string][]lineOrigin{}

func originOf(file string, line int) (string, int) {
	if lo, ok := lineOrigins[file]; ok && line >= 1 && line <= len(lo) {
		return lo[line-1].file, lo[line-1].line
	}
	return file, line
}

type inlPrep struct {
	callee  *ast.FuncDecl
	cf      *ast.File
	sig     *types.Signature
	binds   string // "var p T = a; ...; _ = p;" or ""
	csrc    []byte
	cname   string
	typeStr func(types.Type) (string, bool)
	multi   bool // the callee has other uses: its declaration stays
}

type textEdit struct {
	start, end int
	text       string
	origins    []lineOrigin // one per line of text; zero value = "the line the edit starts on"
}

func applyEdits(fname string, src []byte, edits []textEdit) ([]byte, bool) {
	sort.Slice(edits, func(i, j int) bool { return edits[i].start < edits[j].start })
	for i := 1; i < len(edits); i++ {
		if edits[i].start < edits[i-1].end {
			return nil, false
		}
	}
	// current origins of the source lines
	nLines := strings.Count(string(src), "\n") + 1
	cur := make([]lineOrigin, nLines)
	for i := range cur {
		f, l := originOf(fname, i+1)
		cur[i] = lineOrigin{f, l}
	}
	lineAt := func(off int) int { return strings.Count(string(src[:off]), "\n") } // 0-based
	var out []byte
	var outOrg []lineOrigin
	emit := func(text string, org func(k int) lineOrigin) {
		lines := strings.Split(text, "\n")
		for k := range lines {
			if k == 0 && len(outOrg) > 0 {
				continue // continues the line in progress
			}
			outOrg = append(outOrg, org(k))
		}
		out = append(out, text...)
	}
	pos := 0
	for _, e := range edits {
		base := lineAt(pos)
		emit(string(src[pos:e.start]), func(k int) lineOrigin { return cur[base+k] })
		at := cur[lineAt(e.start)]
		emit(e.text, func(k int) lineOrigin {
			if k < len(e.origins) && e.origins[k].file != "" {
				return e.origins[k]
			}
			return at
		})
		pos = e.end
	}
	base := lineAt(pos)
	emit(string(src[pos:]), func(k int) lineOrigin {
		if base+k < len(cur) {
			return cur[base+k]
		}
		return cur[len(cur)-1]
	})
	lineOrigins[fname] = outOrg
	return out, true
}

// tailInlineOverlay: see the comment at the top of the file. base holds the current contents of files already rewritten.
// Besides `return f(args)` it inlines a call that is a whole statement - `f(args)`, `x, y := f(args)`, `x, y = f(args)`,
// also as the init statement of an if - of a function with the same restrictions: the results are assigned where the
// callee returned, and `break` out of a labelled one-armed switch takes the place of the return.
func tailInlineOverlay(pkgs []*packages.Package, base map[string][]byte) map[string][]byte {
	out := map[string][]byte{}
	for _, p := range pkgs {
		if p.TypesInfo == nil {
			continue
		}
		info := p.TypesInfo
		srcOf := func(f *ast.File) (string, []byte) {
			fname := p.Fset.Position(f.Pos()).Filename
			if b, ok := base[fname]; ok {
				return fname, b
			}
			b, _ := os.ReadFile(fname)
			return fname, b
		}
		off := func(pos token.Pos) int { return p.Fset.Position(pos).Offset }
		decls := map[*types.Func]*ast.FuncDecl{}
		fileOf := map[*ast.FuncDecl]*ast.File{}
		for _, f := range p.Syntax {
			for _, d := range f.Decls {
				if fd, ok := d.(*ast.FuncDecl); ok && fd.Body != nil {
					if fn, ok := info.Defs[fd.Name].(*types.Func); ok {
						decls[fn] = fd
						fileOf[fd] = f
					}
				}
			}
		}
		uses := map[*types.Func]int{}
		for _, obj := range info.Uses {
			if fn, ok := obj.(*types.Func); ok {
				uses[fn]++
			}
		}
		imports := func(f *ast.File) map[string]string { // local name -> path
			m := map[string]string{}
			for _, im := range f.Imports {
				path := strings.Trim(im.Path.Value, `"`)
				name := path[strings.LastIndex(path, "/")+1:]
				if im.Name != nil {
					name = im.Name.Name
				}
				m[name] = path
			}
			return m
		}
		pure := func(e ast.Expr) bool {
			okP := true
			ast.Inspect(e, func(m ast.Node) bool {
				if _, isCall := m.(*ast.CallExpr); isCall {
					okP = false
				}
				return okP
			})
			return okP
		}
		edits := map[*ast.File][]textEdit{}
		done := map[*ast.FuncDecl]bool{} // callers and callees touched in this round (one change per function per round)

		type prep = inlPrep
		// prepare: is `call` (in file f, function caller) a call we can inline, and with which parameter bindings
		prepare := func(call *ast.CallExpr, f *ast.File, caller *ast.FuncDecl, fsrc []byte) *prep {
			if call.Ellipsis.IsValid() {
				return nil
			}
			var fn *types.Func
			var recvExpr ast.Expr
			switch fx := call.Fun.(type) {
			case *ast.Ident:
				fn, _ = info.Uses[fx].(*types.Func)
			case *ast.SelectorExpr:
				if sel := info.Selections[fx]; sel != nil && sel.Kind() == types.MethodVal && len(sel.Index()) == 1 {
					fn, _ = sel.Obj().(*types.Func)
					recvExpr = fx.X
				}
			}
			if fn == nil || fn.Pkg() != p.Types || (uses[fn] != 1 && !normInlineMulti) || fn.Exported() {
				return nil
			}
			callee := decls[fn]
			if callee == nil || callee == caller || done[callee] || done[caller] {
				return nil
			}
			multi := uses[fn] != 1
			if multi && p.Fset.Position(callee.End()).Line-p.Fset.Position(callee.Pos()).Line > 40 {
				return nil // copies of a long body help nobody
			}
			if normInlineMulti && knownFuncNames[callee.Name.Name] {
				return nil // at these levels only helpers that came with a rewrite are dissolved; the functions the rules anchor on stay
			}
			sig := fn.Type().(*types.Signature)
			if sig.Variadic() || sig.TypeParams() != nil {
				return nil
			}
			for i := 0; i < sig.Results().Len(); i++ {
				if sig.Results().At(i).Name() != "" {
					return nil
				}
			}
			bad := false
			ast.Inspect(callee.Body, func(m ast.Node) bool {
				switch x := m.(type) {
				case *ast.DeferStmt:
					bad = true
				case *ast.LabeledStmt:
					// labels this normalisation generated itself (unique by the offset in their name) move along with their block
					if !genLabelRe.MatchString(x.Label.Name) {
						bad = true
					}
				case *ast.BranchStmt:
					if x.Tok == token.GOTO || x.Label != nil && !genLabelRe.MatchString(x.Label.Name) {
						bad = true
					}
				case *ast.Ident:
					if info.Uses[x] == types.Object(fn) {
						bad = true
					}
					if b, ok := info.Uses[x].(*types.Builtin); ok && b.Name() == "recover" {
						bad = true
					}
				}
				return !bad
			})
			if bad {
				return nil
			}
			cf := fileOf[callee]
			fi := imports(f)
			if cf != f {
				ci := imports(cf)
				okImp := true
				ast.Inspect(callee.Body, func(m ast.Node) bool {
					if id, ok := m.(*ast.Ident); ok {
						if pn, ok := info.Uses[id].(*types.PkgName); ok {
							if fi[id.Name] == "" || fi[id.Name] != ci[id.Name] || fi[id.Name] != pn.Imported().Path() {
								okImp = false
							}
						}
					}
					return okImp
				})
				if !okImp {
					return nil
				}
			}
			callerLocals := map[string]bool{}
			ast.Inspect(caller, func(m ast.Node) bool {
				if id, ok := m.(*ast.Ident); ok {
					if o := info.Defs[id]; o != nil && o.Parent() != p.Types.Scope() {
						callerLocals[id.Name] = true
					}
				}
				return true
			})
			clash := false
			ast.Inspect(callee.Body, func(m ast.Node) bool {
				if id, ok := m.(*ast.Ident); ok {
					if o := info.Uses[id]; o != nil && (o.Parent() == p.Types.Scope() || o.Parent() == types.Universe) && callerLocals[id.Name] {
						if _, isPkg := o.(*types.PkgName); !isPkg {
							clash = true
						}
					}
				}
				return !clash
			})
			if clash {
				return nil
			}
			cname, csrc := srcOf(cf)
			if fsrc == nil || csrc == nil {
				return nil
			}
			typeStr := func(t types.Type) (string, bool) {
				okT := true
				s := types.TypeString(t, func(other *types.Package) string {
					if other == p.Types {
						return ""
					}
					if fi[other.Name()] != other.Path() {
						okT = false
					}
					return other.Name()
				})
				return s, okT
			}
			var binds, names []string
			bindOne := func(name string, t types.Type, argText string, argExpr ast.Expr) bool {
				if name == "" || name == "_" {
					return true
				}
				// `var a T = x; var b T = a`: the second initialiser would read the new a, not the caller's
				for _, prev := range names {
					for _, tok := range strings.FieldsFunc(argText, func(r rune) bool {
						return !(r == '_' || r >= '0' && r <= '9' || r >= 'a' && r <= 'z' || r >= 'A' && r <= 'Z' || r > 127)
					}) {
						if tok == prev {
							return false
						}
					}
				}
				// an argument that already has the parameter's type needs no type name (which a caller's local may shadow)
				if tv, ok := info.Types[argExpr]; ok && tv.Type != nil && tv.Value == nil && !tv.IsNil() && types.Identical(tv.Type, t) {
					binds = append(binds, fmt.Sprintf("var %s = %s", name, argText))
					names = append(names, name)
					return true
				}
				ts, okT := typeStr(t)
				if !okT {
					return false
				}
				for _, tok := range strings.FieldsFunc(ts, func(r rune) bool {
					return !(r == '_' || r >= '0' && r <= '9' || r >= 'a' && r <= 'z' || r >= 'A' && r <= 'Z' || r > 127)
				}) {
					if callerLocals[tok] {
						return false // the type's name means something else inside the caller
					}
				}
				binds = append(binds, fmt.Sprintf("var %s %s = %s", name, ts, argText))
				names = append(names, name)
				return true
			}
			if recvExpr != nil {
				rn := ""
				if callee.Recv != nil && len(callee.Recv.List) == 1 && len(callee.Recv.List[0].Names) == 1 {
					rn = callee.Recv.List[0].Names[0].Name
				}
				rt := sig.Recv().Type()
				if !types.Identical(info.TypeOf(recvExpr), rt) || !pure(recvExpr) {
					return nil
				}
				if !bindOne(rn, rt, string(fsrc[off(recvExpr.Pos()):off(recvExpr.End())]), recvExpr) {
					return nil
				}
			} else if sig.Recv() != nil {
				return nil
			}
			if len(call.Args) != sig.Params().Len() {
				return nil
			}
			for i := 0; i < sig.Params().Len(); i++ {
				arg := call.Args[i]
				pn := sig.Params().At(i).Name()
				if pn == "" || pn == "_" {
					if !pure(arg) {
						return nil
					}
					continue
				}
				if !bindOne(pn, sig.Params().At(i).Type(), string(fsrc[off(arg.Pos()):off(arg.End())]), arg) {
					return nil
				}
			}
			bt := ""
			if len(binds) > 0 {
				bt = strings.Join(binds, "; ") + "; " + strings.TrimSuffix(strings.Repeat("_, ", len(names)), ", ") + " = " + strings.Join(names, ", ") + ";"
			}
			return &prep{callee, cf, sig, bt, csrc, cname, typeStr, multi}
		}
		blankCallee := func(pr *prep) {
			if pr.multi {
				return
			}
			ds := pr.callee.Pos()
			if pr.callee.Doc != nil {
				ds = pr.callee.Doc.Pos()
			}
			blank := strings.Repeat("\n", strings.Count(string(pr.csrc[off(ds):off(pr.callee.End())]), "\n"))
			edits[pr.cf] = append(edits[pr.cf], textEdit{off(ds), off(pr.callee.End()), blank, nil})
		}
		originsFor := func(pr *prep, text string) []lineOrigin {
			bodyStartLine := p.Fset.Position(pr.callee.Body.Lbrace).Line
			nl := strings.Count(text, "\n") + 1
			orgs := make([]lineOrigin, nl)
			for k := 1; k < nl; k++ {
				of, ol := originOf(pr.cname, bodyStartLine+k)
				orgs[k] = lineOrigin{of, ol}
			}
			return orgs
		}
		// stmtInline: st is `f(args)`, `lhs... = f(args)` or `lhs... := f(args)` (possibly the init statement of wrapIf)
		stmtInline := func(f *ast.File, fsrc []byte, caller *ast.FuncDecl, st ast.Stmt, wrapIf *ast.IfStmt) bool {
			var call *ast.CallExpr
			var lhs []ast.Expr
			define := false
			switch x := st.(type) {
			case *ast.ExprStmt:
				call, _ = x.X.(*ast.CallExpr)
			case *ast.AssignStmt:
				if len(x.Rhs) != 1 || (x.Tok != token.ASSIGN && x.Tok != token.DEFINE) {
					return false
				}
				call, _ = x.Rhs[0].(*ast.CallExpr)
				lhs, define = x.Lhs, x.Tok == token.DEFINE
			}
			if call == nil {
				return false
			}
			for _, l := range lhs {
				if !pure(l) {
					return false
				}
				if define {
					if _, isID := l.(*ast.Ident); !isID {
						return false
					}
				}
			}
			pr := prepare(call, f, caller, fsrc)
			if pr == nil || knownFuncNames[pr.callee.Name.Name] {
				return false
			}
			nres := pr.sig.Results().Len()
			if len(lhs) > 0 && len(lhs) != nres {
				return false
			}
			// results travel through temporaries with names of their own (the callee's locals may be called like the
			// caller's targets), and reach the targets after the inlined block
			pre, post := "", ""
			var lhsText []string
			uid := off(st.Pos())
			for i := 0; i < nres; i++ {
				ts, okT := pr.typeStr(pr.sig.Results().At(i).Type())
				if !okT {
					return false
				}
				tmp := fmt.Sprintf("inlR%d_%d", uid, i)
				pre += fmt.Sprintf("var %s %s; _ = %s; ", tmp, ts, tmp)
				lhsText = append(lhsText, tmp)
			}
			if len(lhs) > 0 {
				var ls []string
				for _, l := range lhs {
					ls = append(ls, string(fsrc[off(l.Pos()):off(l.End())]))
				}
				op := " = "
				if define {
					op = " := "
				}
				post = "; " + strings.Join(ls, ", ") + op + strings.Join(lhsText, ", ")
			}
			label := fmt.Sprintf("inl%d", off(st.Pos()))
			// the callee's body with its returns (those of closures excepted) turned into assignment + break
			b0 := off(pr.callee.Body.Lbrace) + 1
			body := string(pr.csrc[b0:off(pr.callee.Body.Rbrace)])
			type rrep struct {
				s, e int
				text string
			}
			var reps []rrep
			okR := true
			ast.Inspect(pr.callee.Body, func(m ast.Node) bool {
				if _, isLit := m.(*ast.FuncLit); isLit {
					return false
				}
				ret, isRet := m.(*ast.ReturnStmt)
				if !isRet {
					return true
				}
				var t string
				switch {
				case nres == 0:
					t = "break " + label
				case len(ret.Results) == nres || len(ret.Results) == 1:
					var es []string
					for _, e := range ret.Results {
						es = append(es, string(pr.csrc[off(e.Pos()):off(e.End())]))
					}
					t = "{ " + strings.Join(lhsText, ", ") + " = " + strings.Join(es, ", ") + "; break " + label + " }"
				default:
					okR = false
				}
				reps = append(reps, rrep{off(ret.Pos()) - b0, off(ret.End()) - b0, t})
				return true
			})
			if !okR {
				return false
			}
			sort.Slice(reps, func(i, j int) bool { return reps[i].s > reps[j].s })
			for _, r := range reps {
				// keep the line structure of a return spread over several lines
				pad := strings.Repeat("\n", strings.Count(body[r.s:r.e], "\n"))
				body = body[:r.s] + r.text + pad + body[r.e:]
			}
			var text string
			if len(reps) == 0 {
				text = pre + "{ " + pr.binds + body + "}" + post
			} else {
				text = pre + "{ " + pr.binds + label + ": switch { default: " + body + "} }" + post
			}
			if wrapIf == nil {
				edits[f] = append(edits[f], textEdit{off(st.Pos()), off(st.End()), text, originsFor(pr, text)})
			} else {
				// `if init; cond {` -> `{ init'; if cond { ... } }`
				head := "{ " + text + "; if "
				edits[f] = append(edits[f], textEdit{off(wrapIf.Pos()), off(wrapIf.Cond.Pos()), head, originsFor(pr, head)})
				edits[f] = append(edits[f], textEdit{off(wrapIf.End()), off(wrapIf.End()), " }", nil})
			}
			blankCallee(pr)
			done[caller], done[pr.callee] = true, !pr.multi
			return true
		}
		// hoist: st (an element of a statement list) uses the result of exactly one inlinable call C somewhere inside an
		// expression - `return C, 4, nil`, `x := a + C`, `pos += C`, `if C == 3 {`, `switch C {` - and everything of the
		// statement's own expressions outside C is free of calls, of operations that can panic and of short-circuit
		// evaluation that could skip C. Then `t := C` is placed in front and C replaced by t: C was the only thing with an
		// effect, so doing it first changes nothing. The next round inlines `t := C` as a whole statement.
		hoist := func(f *ast.File, fsrc []byte, caller *ast.FuncDecl, st ast.Stmt) bool {
			var exprs []ast.Expr
			switch x := st.(type) {
			case *ast.ReturnStmt:
				exprs = x.Results
			case *ast.AssignStmt:
				for _, l := range x.Lhs {
					if _, isID := l.(*ast.Ident); !isID {
						return false
					}
				}
				exprs = x.Rhs
			case *ast.IfStmt:
				if x.Init != nil {
					return false
				}
				exprs = []ast.Expr{x.Cond}
			case *ast.SwitchStmt:
				if x.Init != nil || x.Tag == nil {
					return false
				}
				exprs = []ast.Expr{x.Tag}
			default:
				return false
			}
			var cand *ast.CallExpr
			okH := true
			var walk func(e ast.Expr, top bool)
			walk = func(e ast.Expr, top bool) {
				if !okH || e == nil {
					return
				}
				switch x := e.(type) {
				case *ast.Ident, *ast.BasicLit:
				case *ast.ParenExpr:
					walk(x.X, false)
				case *ast.UnaryExpr:
					if x.Op != token.SUB && x.Op != token.NOT && x.Op != token.ADD && x.Op != token.XOR {
						okH = false
						return
					}
					walk(x.X, false)
				case *ast.BinaryExpr:
					switch x.Op {
					case token.ADD, token.SUB, token.MUL, token.AND, token.OR, token.XOR, token.AND_NOT, token.EQL, token.NEQ, token.LSS, token.LEQ, token.GTR, token.GEQ:
						if tv, ok := info.Types[x.X]; ok && tv.Type != nil {
							if b, isB := tv.Type.Underlying().(*types.Basic); !isB || b.Info()&(types.IsInteger|types.IsBoolean|types.IsUntyped) == 0 {
								okH = false // string concatenation allocates, interface comparison can panic
								return
							}
						}
						walk(x.X, false)
						walk(x.Y, false)
					default:
						okH = false
					}
				case *ast.SelectorExpr:
					id, isID := x.X.(*ast.Ident)
					if !isID {
						okH = false
						return
					}
					if _, isPkg := info.Uses[id].(*types.PkgName); isPkg {
						return
					}
					if t := info.TypeOf(id); t == nil || structOfAST(t) == nil {
						okH = false // through a pointer: can panic
					}
				case *ast.CallExpr:
					if tv, ok := info.Types[x.Fun]; ok && tv.IsType() && len(x.Args) == 1 {
						walk(x.Args[0], false) // a conversion
						return
					}
					if cand != nil {
						okH = false
						return
					}
					cand = x
				default:
					okH = false
				}
			}
			for _, e := range exprs {
				walk(e, true)
			}
			if !okH || cand == nil {
				return false
			}
			if len(exprs) == 1 && exprs[0] == ast.Expr(cand) {
				switch x := st.(type) {
				case *ast.ReturnStmt:
					return false // a tail call: form (1)
				case *ast.AssignStmt:
					if x.Tok == token.ASSIGN || x.Tok == token.DEFINE {
						return false // a whole statement: form (2)
					}
				}
			}
			pr := prepare(cand, f, caller, fsrc)
			if pr == nil || knownFuncNames[pr.callee.Name.Name] || pr.sig.Results().Len() != 1 {
				return false
			}
			// the arguments of C stay where they are (inside C); the receiver and arguments were checked by prepare
			tmp := fmt.Sprintf("inlH%d", off(cand.Pos()))
			edits[f] = append(edits[f], textEdit{off(st.Pos()), off(st.Pos()), tmp + " := " + string(fsrc[off(cand.Pos()):off(cand.End())]) + "; ", nil})
			edits[f] = append(edits[f], textEdit{off(cand.Pos()), off(cand.End()), tmp, nil})
			done[caller] = true
			return true
		}
		for _, f := range p.Syntax {
			_, fsrc := srcOf(f)
			for _, d := range f.Decls {
				caller, ok := d.(*ast.FuncDecl)
				if !ok || caller.Body == nil {
					continue
				}
				// (1) tail calls
				ast.Inspect(caller.Body, func(n ast.Node) bool {
					if _, isLit := n.(*ast.FuncLit); isLit {
						return false // a return inside a closure returns from the closure
					}
					ret, ok := n.(*ast.ReturnStmt)
					if !ok || len(ret.Results) != 1 || done[caller] {
						return true
					}
					call, ok := ret.Results[0].(*ast.CallExpr)
					if !ok {
						return true
					}
					pr := prepare(call, f, caller, fsrc)
					if pr == nil {
						return true
					}
					csig := info.Defs[caller.Name].(*types.Func).Type().(*types.Signature)
					if csig.Results().Len() != pr.sig.Results().Len() {
						return true
					}
					for i := 0; i < pr.sig.Results().Len(); i++ {
						if !types.Identical(csig.Results().At(i).Type(), pr.sig.Results().At(i).Type()) {
							return true
						}
					}
					body := string(pr.csrc[off(pr.callee.Body.Lbrace)+1 : off(pr.callee.Body.Rbrace)])
					text := "{ " + pr.binds + body + "}"
					edits[f] = append(edits[f], textEdit{off(ret.Pos()), off(ret.End()), text, originsFor(pr, text)})
					blankCallee(pr)
					done[caller], done[pr.callee] = true, !pr.multi
					return true
				})
				if done[caller] || !normInlineStmts {
					continue
				}
				// (2) calls that are a whole statement
				ast.Inspect(caller.Body, func(n ast.Node) bool {
					if done[caller] {
						return false
					}
					switch x := n.(type) {
					case *ast.IfStmt:
						if x.Init != nil && stmtInline(f, fsrc, caller, x.Init, x) {
							return false
						}
					}
					var list []ast.Stmt
					switch x := n.(type) {
					case *ast.BlockStmt:
						list = x.List
					case *ast.CaseClause:
						list = x.Body
					case *ast.CommClause:
						list = x.Body
					}
					for _, st := range list {
						switch st.(type) {
						case *ast.AssignStmt, *ast.ExprStmt:
							if !done[caller] && stmtInline(f, fsrc, caller, st, nil) {
								return false
							}
						}
						if normInlineMulti && !done[caller] && hoist(f, fsrc, caller, st) {
							return false
						}
					}
					return true
				})
			}
		}
		for f, es := range edits {
			fname, src := srcOf(f)
			if nb, ok := applyEdits(fname, src, es); ok {
				out[fname] = nb
			}
		}
	}
	if len(out) == 0 {
		return nil
	}
	return out
}

func structOfAST(t types.Type) *types.Struct {
	st, _ := t.Underlying().(*types.Struct)
	return st
}
