package main

import (
	"fmt"
	"go/ast"
	"go/constant"
	"go/token"
	"go/types"
	"golang.org/x/tools/go/packages"
	"runtime"
	"sort"
	"sync"

	"golang.org/x/tools/go/ssa"
)

// cellcodec: the length rule (cellLength) and the value decoder (CellBytes)
// specialised over the metadata domain by H-sccp, compared by H-term.

type codec struct {
	w        *World
	lenFn    *ssa.Function // (data,pos,typ,metadata) -> (int,error)
	valFn    *ssa.Function // CellBytes
	tables   map[*ssa.Global]*constTable
	typeName map[int64]string // replication.Type* constants
	mu       sync.Mutex
	followed map[*ssa.Function]bool // functions reached by delegation
}

func typeConsts(w *World) map[int64]string {
	out := map[int64]string{}
	sc := w.Repl.Pkg.Scope()
	for _, n := range sc.Names() {
		c, ok := sc.Lookup(n).(*types.Const)
		if !ok || len(n) < 5 || n[:4] != "Type" {
			continue
		}
		if v, ok := constant.Int64Val(c.Val()); ok && c.Val().Kind() == constant.Int {
			out[v] = n
		}
	}
	return out
}

func resolveCodec(a *A, rule string) *codec {
	w := a.W
	cd := &codec{w: w, tables: map[*ssa.Global]*constTable{}, typeName: typeConsts(w), followed: map[*ssa.Function]bool{}}
	cd.valFn = w.fn(w.Repl, "CellBytes")
	if !a.need(cd.valFn != nil && len(cd.valFn.Params) == 5, rule, "replication.CellBytes(data,pos,typ,metadata,unsigned)") {
		return nil
	}
	// the length rule: the (data,pos,typ,metadata)->(int,error) callee of binlogEvent.Rows
	rows := w.method(w.Repl, "binlogEvent", "Rows")
	if !a.need(rows != nil, rule, "binlogEvent.Rows") {
		return nil
	}
	// looked for in Rows and in the in-package functions Rows calls (depth 2)
	var findLen func(g *ssa.Function, depth int)
	seenLen := map[*ssa.Function]bool{}
	findLen = func(g *ssa.Function, depth int) {
		if seenLen[g] || cd.lenFn != nil {
			return
		}
		seenLen[g] = true
		var next []*ssa.Function
		instrs(g, func(in ssa.Instruction) {
			if c, ok := in.(*ssa.Call); ok {
				f := c.Common().StaticCallee()
				if f == nil || f.Pkg != w.Repl || c.Common().IsInvoke() {
					return
				}
				if len(f.Params) == 4 && f.Signature.Results().Len() == 2 && isIntegerType(f.Signature.Results().At(0).Type()) && isErrType(f.Signature.Results().At(1).Type()) &&
					isIntegerType(f.Params[1].Type()) && isIntegerType(f.Params[2].Type()) && isIntegerType(f.Params[3].Type()) {
					if cd.lenFn == nil {
						cd.lenFn = f
					}
					return
				}
				if f.Blocks != nil {
					next = append(next, f)
				}
			}
		})
		if depth < 2 {
			for _, f := range next {
				findLen(f, depth+1)
			}
		}
	}
	findLen(rows, 0)
	if !a.need(cd.lenFn != nil, rule, "length rule (callee of Rows with (data,pos,typ,metadata)->(int,error))") {
		return nil
	}
	a.touch(cd.valFn, cd.lenFn, rows)
	// constant tables: package-level slices/arrays/maps initialised by a literal of constants and never written
	for g, t := range constTablesOf(w, w.ReplP, w.Repl) {
		cd.tables[g] = t
	}
	return cd
}

// constTablesOf: the package-level variables of pkg that are lookup tables - a slice, array or map of constants written as
// a composite literal, never stored to, never element-assigned, never handed to anything that could write it.
func constTablesOf(w *World, pp *packages.Package, pkg *ssa.Package) map[*ssa.Global]*constTable {
	out := map[*ssa.Global]*constTable{}
	zeroOf := func(t types.Type) constant.Value {
		b, ok := t.Underlying().(*types.Basic)
		if !ok {
			return nil
		}
		switch {
		case b.Info()&types.IsInteger != 0:
			return constant.MakeInt64(0)
		case b.Info()&types.IsString != 0:
			return constant.MakeString("")
		case b.Info()&types.IsBoolean != 0:
			return constant.MakeBool(false)
		}
		return nil
	}
	for _, f := range pp.Syntax {
		ast.Inspect(f, func(n ast.Node) bool {
			if _, isFn := n.(*ast.FuncDecl); isFn {
				return false
			}
			vs, ok := n.(*ast.ValueSpec)
			if !ok || len(vs.Names) != 1 || len(vs.Values) != 1 {
				return true
			}
			lit, ok := vs.Values[0].(*ast.CompositeLit)
			if !ok {
				return true
			}
			g := pkg.Var(vs.Names[0].Name)
			if g == nil {
				return true
			}
			t := &constTable{name: g.Name()}
			okAll := true
			switch u := g.Type().(*types.Pointer).Elem().Underlying().(type) {
			case *types.Slice, *types.Array:
				var et types.Type
				n := int64(-1)
				if sl, isS := u.(*types.Slice); isS {
					et = sl.Elem()
				} else {
					et = u.(*types.Array).Elem()
					n = u.(*types.Array).Len()
				}
				t.zero = zeroOf(et)
				if t.zero == nil {
					return true
				}
				next := int64(0)
				vals := map[int64]constant.Value{}
				max := int64(-1)
				for _, e := range lit.Elts {
					val := e
					if kv, isKV := e.(*ast.KeyValueExpr); isKV {
						ktv := pp.TypesInfo.Types[kv.Key]
						k, isInt := constant.Int64Val(ktv.Value)
						if ktv.Value == nil || !isInt {
							okAll = false
							break
						}
						next, val = k, kv.Value
					}
					tv := pp.TypesInfo.Types[val]
					if tv.Value == nil {
						okAll = false
						break
					}
					vals[next] = tv.Value
					if next > max {
						max = next
					}
					next++
				}
				if n < 0 {
					n = max + 1
				}
				if !okAll || n > 1<<16 {
					return true
				}
				t.vals = make([]constant.Value, n)
				for k, v := range vals {
					if k >= 0 && k < n {
						t.vals[k] = v
					}
				}
				for i := range t.vals {
					if t.vals[i] == nil {
						t.vals[i] = t.zero
					}
				}
			case *types.Map:
				t.isM, t.m = true, map[string]constant.Value{}
				t.zero = zeroOf(u.Elem())
				if t.zero == nil || zeroOf(u.Key()) == nil {
					return true
				}
				for _, e := range lit.Elts {
					kv, isKV := e.(*ast.KeyValueExpr)
					if !isKV {
						okAll = false
						break
					}
					ktv, vtv := pp.TypesInfo.Types[kv.Key], pp.TypesInfo.Types[kv.Value]
					if ktv.Value == nil || vtv.Value == nil {
						okAll = false
						break
					}
					t.m[ktv.Value.ExactString()] = vtv.Value
				}
				if !okAll {
					return true
				}
			default:
				return true
			}
			if tableIsConstant(w, pkg, g) {
				out[g] = t
			}
			return true
		})
	}
	return out
}

// tableIsConstant: the global is stored only by the package initialiser, no element of it is ever written, and it is not
// handed to anything that could write it.
func tableIsConstant(w *World, pkg *ssa.Package, g *ssa.Global) bool {
	ok := true
	isG := func(v ssa.Value) bool {
		if v == ssa.Value(g) {
			return true
		}
		u, isU := v.(*ssa.UnOp)
		return isU && u.X == ssa.Value(g)
	}
	for _, f := range w.srcFuncs(pkg) {
		instrs(f, func(in ssa.Instruction) {
			switch x := in.(type) {
			case *ssa.Store:
				if x.Addr == ssa.Value(g) && f.Name() != "init" {
					ok = false
				}
				if ia, isIA := x.Addr.(*ssa.IndexAddr); isIA && isG(ia.X) && f.Name() != "init" {
					ok = false
				}
				if isG(x.Val) {
					ok = false // the table itself is stored somewhere
				}
			case *ssa.MapUpdate:
				if isG(x.Map) && f.Name() != "init" {
					ok = false
				}
			case *ssa.Call:
				// passed to something that may write it
				for _, arg := range x.Common().Args {
					if isG(arg) && !isBuiltin(x.Common(), "len") {
						ok = false
					}
				}
			case *ssa.Slice:
				if isG(x.X) && x.X == ssa.Value(g) {
					ok = false // an array table re-sliced: the slice could be written through
				}
			}
		})
	}
	return ok
}

type spec struct {
	Typ int64
	Md  int64 // -1: metadata unbound
}

func (s spec) String() string {
	if s.Md < 0 {
		return fmt.Sprintf("typ=%d", s.Typ)
	}
	return fmt.Sprintf("typ=%d,md=%d", s.Typ, s.Md)
}

func (cd *codec) bind(f *ssa.Function, s spec) map[ssa.Value]constant.Value {
	m := map[ssa.Value]constant.Value{f.Params[2]: constant.MakeInt64(s.Typ)}
	if s.Md >= 0 {
		m[f.Params[3]] = constant.MakeInt64(s.Md)
	}
	return m
}

func (cd *codec) specLen(s spec) *Result {
	return cd.follow(Specialize(cd.lenFn, cd.bind(cd.lenFn, s), cd.tables), cd.paramNames(cd.lenFn), 0)
}
func (cd *codec) specVal(s spec) *Result {
	return cd.follow(Specialize(cd.valFn, cd.bind(cd.valFn, s), cd.tables), cd.paramNames(cd.valFn), 0)
}

func (cd *codec) paramNames(f *ssa.Function) map[ssa.Value]string {
	m := map[ssa.Value]string{f.Params[0]: "data", f.Params[1]: "pos"}
	if len(f.Params) > 4 {
		m[f.Params[4]] = "unsigned"
	}
	return m
}

// follow resolves delegation: when every reachable return of the specialised function is `return g(args...)` for one
// call of an in-package function g, the case lives in g. The result then describes g specialised on the constant
// arguments, with the argument terms substituted for g's parameters (so terms stay expressed over data/pos).
func (cd *codec) follow(r *Result, names map[ssa.Value]string, depth int) *Result {
	if depth >= maxInline || len(r.Returns) == 0 {
		return r
	}
	var call *ssa.Call
	for _, ret := range r.Returns {
		if len(ret.Results) == 0 {
			return r
		}
		for i, res := range ret.Results {
			ex, ok := res.(*ssa.Extract)
			if !ok || ex.Index != i {
				return r
			}
			c, ok := ex.Tuple.(*ssa.Call)
			if !ok || (call != nil && c != call) {
				return r
			}
			call = c
		}
	}
	cal := call.Common().StaticCallee()
	if cal == nil || cal.Blocks == nil || cal.Pkg != r.Fn.Pkg || cal == r.Fn || cal.Signature.Results().Len() != len(r.Returns[0].Results) {
		return r
	}
	t := newTB(r)
	for k, v := range names {
		t.names[k] = v
	}
	t.tables = cd.tables
	bind := map[ssa.Value]constant.Value{}
	child := newTB(nil)
	for i, a := range call.Common().Args {
		if i >= len(cal.Params) {
			break
		}
		p := cal.Params[i]
		if l := r.get(a); l.k == cst && !l.nilc && l.tbl == nil && l.v != nil && l.v.Kind() != constant.Unknown {
			bind[p] = l.v
		}
		t.bindArg(child, p, a, t.sliceTerm)
	}
	sub := specializeAt(cal, bind, cd.tables, depth+1)
	// unnamed booleans stay unnamed in the callee
	for k, v := range child.ssub {
		if v == "?bool" {
			delete(child.ssub, k)
		}
	}
	sub.Subst, sub.SSub, sub.FSub, sub.FSSub = child.subst, child.ssub, child.fsub, child.fssub
	cd.mu.Lock()
	cd.followed[cal] = true
	cd.mu.Unlock()
	return cd.follow(sub, nil, depth+1)
}

// successReturns: reachable returns whose error operand is the nil constant.
func successReturns(r *Result, errIdx int) []*ssa.Return {
	var out []*ssa.Return
	for _, ret := range r.Returns {
		if errIdx < len(ret.Results) && r.isNil(ret.Results[errIdx]) {
			out = append(out, ret)
		}
	}
	return out
}

// maySucceed: some reachable return hands back an error variable that is nil on at least one executable way in (the
// single-exit form `return txt, l, err` with err set only by the failing branch).
func maySucceed(r *Result, errIdx int) bool {
	for _, ret := range r.Returns {
		if errIdx >= len(ret.Results) {
			continue
		}
		phi, ok := ret.Results[errIdx].(*ssa.Phi)
		if !ok {
			continue
		}
		for i, e := range phi.Edges {
			if i < len(phi.Block().Preds) && r.Edge != nil && !r.Edge[[2]int{phi.Block().Preds[i].Index, phi.Block().Index}] {
				continue
			}
			if r.isNil(e) {
				return true
			}
		}
	}
	return false
}

// lenTerm gives the canonical term of a length result under a specialisation.
func lenTerm(r *Result, v ssa.Value, f *ssa.Function) string {
	t := newTB(r)
	t.names[f.Params[0]] = "data"
	t.names[f.Params[1]] = "pos"
	if len(f.Params) > 4 {
		t.names[f.Params[4]] = "unsigned"
	}
	return t.term(v).String()
}

// handledTypes: the type codes for which the function has a success return
// with the type bound and the metadata left abstract.
func (cd *codec) handledTypes(f *ssa.Function, errIdx int) map[int64]bool {
	out := map[int64]bool{}
	for t := int64(0); t < 256; t++ {
		r := cd.follow(Specialize(f, cd.bind(f, spec{t, -1}), cd.tables), cd.paramNames(f), 0)
		if len(successReturns(r, errIdx)) > 0 || maySucceed(r, errIdx) {
			out[t] = true
		}
	}
	return out
}

// domain of valid metadata per type (DESIGN C09-R2).
func (cd *codec) domain(tier string) []spec {
	byName := map[string]int64{}
	for v, n := range cd.typeName {
		byName[n] = v
	}
	var out []spec
	add := func(name string, mds ...int64) {
		t, ok := byName[name]
		if !ok {
			return
		}
		for _, m := range mds {
			out = append(out, spec{t, m})
		}
	}
	for _, n := range []string{"TypeTiny", "TypeShort", "TypeInt24", "TypeLong", "TypeLongLong", "TypeFloat", "TypeDouble", "TypeYear",
		"TypeTimestamp", "TypeDate", "TypeNewDate", "TypeTime", "TypeDateTime"} {
		add(n, -1)
	}
	for p := int64(1); p <= 65; p++ {
		for s := int64(0); s <= 30 && s <= p; s++ {
			add("TypeNewDecimal", p<<8|s)
		}
	}
	for _, n := range []string{"TypeTimestamp2", "TypeDateTime2", "TypeTime2"} {
		add(n, 0, 1, 2, 3, 4, 5, 6)
	}
	for by := int64(0); by <= 8; by++ {
		for bi := int64(0); bi <= 7; bi++ {
			add("TypeBit", by<<8|bi)
		}
	}
	add("TypeEnum", 1, 2, 247<<8|1, 247<<8|2)
	for k := int64(1); k <= 8; k++ {
		add("TypeSet", k, 248<<8|k)
	}
	for _, n := range []string{"TypeTinyBlob", "TypeMediumBlob", "TypeLongBlob", "TypeBlob", "TypeJSON", "TypeGeometry"} {
		add(n, 1, 2, 3, 4)
	}
	strs := []int64{0, 1, 2, 254, 255, 256, 257, 1023, 1024, 65535}
	if tier == "thorough" {
		strs = nil
		for m := int64(0); m < 65536; m++ {
			strs = append(strs, m)
		}
	}
	add("TypeVarchar", strs...)
	add("TypeVarString", strs...)
	// TypeString: real type in the high byte. Enum/Set sub-cases plus real strings for every high byte.
	add("TypeString", 247<<8|1, 247<<8|2)
	for k := int64(1); k <= 8; k++ {
		add("TypeString", 248<<8|k)
	}
	if tier == "thorough" {
		for m := int64(0); m < 65536; m++ {
			hi := m >> 8
			if hi == 247 || hi == 248 {
				continue
			}
			add("TypeString", m)
		}
	} else {
		for hi := int64(0); hi < 256; hi++ {
			if hi == 247 || hi == 248 {
				continue
			}
			for _, lo := range []int64{0, 1, 255} {
				add("TypeString", hi<<8|lo)
			}
		}
	}
	return out
}

// parallel runs fn over the specs on all cores.
func parallelSpecs(specs []spec, fn func(s spec)) {
	n := runtime.NumCPU()
	if n > 16 {
		n = 16
	}
	ch := make(chan spec, 256)
	var wg sync.WaitGroup
	for i := 0; i < n; i++ {
		wg.Add(1)
		go func() {
			defer wg.Done()
			for s := range ch {
				fn(s)
			}
		}()
	}
	for _, s := range specs {
		ch <- s
	}
	close(ch)
	wg.Wait()
}

func sortedTypes(m map[int64]bool) []int64 {
	var out []int64
	for k := range m {
		out = append(out, k)
	}
	sort.Slice(out, func(i, j int) bool { return out[i] < out[j] })
	return out
}

var _ = token.ADD
