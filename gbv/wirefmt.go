package main

import (
	"fmt"
	"go/token"
	"go/types"
	"sort"
	"strings"

	"golang.org/x/tools/go/ssa"
)

// wirefmt: constant/affine-offset reads of an event body, with their
// destinations, for comparison with the documented layout of the event.

// aff is an affine form c + Σ coef·atom over symbolic atoms.
type aff struct {
	c    int64
	syms map[string]int64
	ok   bool
}

func affConst(c int64) aff { return aff{c: c, syms: map[string]int64{}, ok: true} }
func affAtom(n string) aff { return aff{syms: map[string]int64{n: 1}, ok: true} }

func (x aff) add(y aff, sign int64) aff {
	if !x.ok || !y.ok {
		return aff{}
	}
	r := aff{c: x.c + sign*y.c, syms: map[string]int64{}, ok: true}
	for k, v := range x.syms {
		r.syms[k] += v
	}
	for k, v := range y.syms {
		r.syms[k] += sign * v
		if r.syms[k] == 0 {
			delete(r.syms, k)
		}
	}
	return r
}

func (x aff) scale(k int64) aff {
	if !x.ok {
		return x
	}
	r := aff{c: x.c * k, syms: map[string]int64{}, ok: true}
	for s, v := range x.syms {
		if v*k != 0 {
			r.syms[s] = v * k
		}
	}
	return r
}

func (x aff) isConst() (int64, bool) { return x.c, x.ok && len(x.syms) == 0 }

func (x aff) String() string {
	if !x.ok {
		return "?"
	}
	var ks []string
	for k := range x.syms {
		ks = append(ks, k)
	}
	sort.Strings(ks)
	var sb strings.Builder
	for _, k := range ks {
		v := x.syms[k]
		switch {
		case v == 1:
			if sb.Len() > 0 {
				sb.WriteString("+")
			}
			sb.WriteString(k)
		case v == -1:
			sb.WriteString("-" + k)
		default:
			if v > 0 && sb.Len() > 0 {
				sb.WriteString("+")
			}
			fmt.Fprintf(&sb, "%d*%s", v, k)
		}
	}
	if x.c != 0 || sb.Len() == 0 {
		if x.c >= 0 && sb.Len() > 0 {
			sb.WriteString("+")
		}
		fmt.Fprintf(&sb, "%d", x.c)
	}
	return sb.String()
}

// wf analyses one function's reads of a base slice.
type wf struct {
	f     *ssa.Function
	bases map[ssa.Value]aff // slice value -> offset of its element 0 within the body
	memo  map[ssa.Value]aff
	depth int
	extra func(v ssa.Value) (aff, bool) // caller-supplied atoms
	res   *Result                       // optional SCCP specialisation (constants folded, dead blocks skipped)
}

func newWF(f *ssa.Function) *wf {
	return &wf{f: f, bases: map[ssa.Value]aff{}, memo: map[ssa.Value]aff{}}
}

func isIntegerType(t types.Type) bool {
	b, ok := t.Underlying().(*types.Basic)
	return ok && b.Info()&types.IsInteger != 0
}

// rangeOf returns [lo,hi) of a Slice instruction over a base, in body offsets;
// hi "" means open (to the end).
func (w *wf) sliceRange(s *ssa.Slice) (lo, hi aff, open bool, ok bool) {
	off, isBase := w.bases[s.X]
	if !isBase {
		return aff{}, aff{}, false, false
	}
	lo = off
	if s.Low != nil {
		lo = off.add(w.affine(s.Low), 1)
	}
	if s.High == nil {
		return lo, aff{}, true, true
	}
	hi = off.add(w.affine(s.High), 1)
	return lo, hi, false, true
}

func rangeStr(lo, hi aff, open bool) string {
	if open {
		return "[" + lo.String() + ",end)"
	}
	return "[" + lo.String() + "," + hi.String() + ")"
}

func (w *wf) affine(v ssa.Value) aff {
	if r, ok := w.memo[v]; ok {
		return r
	}
	w.memo[v] = aff{} // cycle guard
	r := w.affine1(v)
	w.memo[v] = r
	return r
}

func (w *wf) affine1(v ssa.Value) aff {
	if w.extra != nil {
		if r, ok := w.extra(v); ok {
			return r
		}
	}
	if w.res != nil {
		if k, ok := w.res.constOf(v); ok {
			return affConst(k)
		}
	}
	switch x := v.(type) {
	case *ssa.Const:
		if k, ok := constInt(x); ok {
			return affConst(k)
		}
	case *ssa.Phi:
		if w.res != nil {
			var first aff
			n := 0
			same := true
			for i, e := range x.Edges {
				if !w.res.edgeExec(x.Block().Preds[i], x.Block()) {
					continue
				}
				a := w.affine(e)
				if n == 0 {
					first = a
				} else if a.String() != first.String() {
					same = false
				}
				n++
			}
			if n > 0 && same {
				return first
			}
		}
	case *ssa.Extract:
		if c, ok := x.Tuple.(*ssa.Call); ok {
			if f := c.Common().StaticCallee(); f != nil {
				name, idx := canonCall(c)
				if j, ok := idx[x.Index]; ok {
					return affAtom(fmt.Sprintf("%s@%s#%d", name, w.callTag(c), j))
				}
				return affAtom(fmt.Sprintf("%s@%s#%d", roleName(f), w.callTag(c), x.Index))
			}
		}
	case *ssa.Convert:
		if isIntegerType(x.Type()) && isIntegerType(x.X.Type()) {
			return w.affine(x.X)
		}
	case *ssa.ChangeType:
		return w.affine(x.X)
	case *ssa.BinOp:
		switch x.Op {
		case token.ADD:
			return w.affine(x.X).add(w.affine(x.Y), 1)
		case token.SUB:
			return w.affine(x.X).add(w.affine(x.Y), -1)
		case token.MUL:
			if k, ok := w.affine(x.Y).isConst(); ok {
				return w.affine(x.X).scale(k)
			}
			if k, ok := w.affine(x.X).isConst(); ok {
				return w.affine(x.Y).scale(k)
			}
		}
	case *ssa.Call:
		c := x.Common()
		if isBuiltin(c, "len") {
			if off, ok := w.bases[c.Args[0]]; ok {
				return affAtom("len").add(off, -1)
			}
		}
		if sub, ret := w.readerHelper(x); sub != nil {
			return sub.affine(ret)
		}
		if f := c.StaticCallee(); f != nil && f.Pkg != nil && f.Pkg.Pkg.Path() == "encoding/binary" && len(c.Args) >= 1 {
			// method value on littleEndian/bigEndian: last arg is the slice
			arg := strip(c.Args[len(c.Args)-1])
			if s, ok := arg.(*ssa.Slice); ok {
				if lo, hi, open, ok := w.sliceRange(s); ok && !open {
					e := "le"
					if strings.Contains(f.String(), "bigEndian") {
						e = "be"
					}
					return affAtom(e + rangeStr(lo, hi, false))
				}
			}
		}
	case *ssa.UnOp:
		if x.Op == token.MUL {
			if ia, ok := x.X.(*ssa.IndexAddr); ok {
				if off, ok := w.bases[ia.X]; ok {
					idx := off.add(w.affine(ia.Index), 1)
					return affAtom("b[" + idx.String() + "]")
				}
			}
			if fv := forwardLoad(x); fv != nil {
				return w.affine(fv)
			}
		}
	}
	return affAtom("?" + v.Name())
}

// callTag distinguishes several calls of one callee by source order.
func (w *wf) callTag(c *ssa.Call) string {
	name, _ := canonCall(c)
	n := 0
	tag := 0
	instrs(w.f, func(in ssa.Instruction) {
		if c2, ok := in.(*ssa.Call); ok && c2.Common().StaticCallee() != nil && canonName(c2) == name {
			n++
			if c2 == c {
				tag = n
			}
		}
	})
	return fmt.Sprint(tag)
}

// readFact is one read of the body.
type readFact struct {
	Range string
	Dests []string
	Pos   token.Pos
	In    ssa.Instruction
}

func (r readFact) String() string { return r.Range + "->" + strings.Join(r.Dests, ",") }

// reads lists the body reads of the function: slices and byte loads of any
// base, with destinations. Sub-slices of a base with an affine low bound become
// bases themselves (e.g. vars := data[13:13+n]).
func (w *wf) reads() []readFact {
	// propagate bases through re-slicing (fixed point over instruction order)
	changed := true
	for changed {
		changed = false
		instrs(w.f, func(in ssa.Instruction) {
			s, ok := in.(*ssa.Slice)
			if !ok {
				return
			}
			if _, done := w.bases[s]; done {
				return
			}
			if lo, _, _, ok := w.sliceRange(s); ok && lo.ok {
				w.bases[s] = lo
				changed = true
			}
		})
	}
	var out []readFact
	instrs(w.f, func(in ssa.Instruction) {
		if w.res != nil && !w.res.Exec[in.Block()] {
			return
		}
		switch x := in.(type) {
		case *ssa.Slice:
			lo, hi, open, ok := w.sliceRange(x)
			if !ok {
				return
			}
			ds := w.dests(x, map[ssa.Value]bool{})
			// a sub-slice used only as a base for further reads is not itself a read
			if len(ds) == 0 {
				return
			}
			out = append(out, readFact{rangeStr(lo, hi, open), ds, x.Pos(), x})
		case *ssa.Call:
			// a pure in-package reader (data, pos...) -> integer: its reads happen here, at the caller's offsets, and go
			// where the call's value goes
			if sub, _ := w.readerHelper(x); sub != nil {
				ds := uniq(w.dests(x, map[ssa.Value]bool{}))
				if len(ds) == 0 {
					ds = []string{"unused"}
				}
				for _, f := range sub.reads() {
					keep := false
					for _, d := range f.Dests {
						if strings.HasPrefix(d, "ret#") {
							keep = true
						}
					}
					if keep {
						out = append(out, readFact{f.Range, ds, x.Pos(), x})
					}
				}
			}
		case *ssa.IndexAddr:
			off, ok := w.bases[x.X]
			if !ok {
				return
			}
			idx := off.add(w.affine(x.Index), 1)
			var ds []string
			if refs := x.Referrers(); refs != nil {
				for _, r := range *refs {
					if u, ok := r.(*ssa.UnOp); ok && u.Op == token.MUL {
						ds = append(ds, w.dests(u, map[ssa.Value]bool{})...)
					}
					if st, ok := r.(*ssa.Store); ok && st.Addr == ssa.Value(x) {
						ds = append(ds, "write")
					}
				}
			}
			ds = uniq(ds)
			if len(ds) == 0 {
				ds = []string{"unused"}
			}
			out = append(out, readFact{"[" + idx.String() + "]", ds, x.Pos(), x})
		}
	})
	return out
}

func uniq(xs []string) []string {
	sort.Strings(xs)
	var out []string
	for i, x := range xs {
		if i == 0 || x != xs[i-1] {
			out = append(out, x)
		}
	}
	return out
}

// dests follows a value forward to where it ends up.
func (w *wf) dests(v ssa.Value, seen map[ssa.Value]bool) []string {
	if seen[v] {
		return nil
	}
	seen[v] = true
	var out []string
	refs := v.Referrers()
	if refs == nil {
		return nil
	}
	for _, r := range *refs {
		switch x := r.(type) {
		case *ssa.DebugRef:
		case *ssa.Convert:
			out = append(out, w.dests(x, seen)...)
		case *ssa.ChangeType:
			out = append(out, w.dests(x, seen)...)
		case *ssa.MakeInterface:
			out = append(out, "fmt")
		case *ssa.Slice:
			if x.X != v {
				out = append(out, "bound")
				continue
			}
			if _, isBase := w.bases[x]; isBase {
				// re-slicing: the sub-slice is reported on its own
				continue
			}
			out = append(out, w.dests(x, seen)...)
		case *ssa.Call:
			c := x.Common()
			switch {
			case isBuiltin(c, "len"):
				out = append(out, "len")
			case isBuiltin(c, "copy"):
				if len(c.Args) == 2 && c.Args[1] == v {
					out = append(out, "copy:"+w.addrDest(c.Args[0]))
				}
			case isBuiltin(c, "append"):
				out = append(out, w.dests(x, seen)...)
			default:
				f := c.StaticCallee()
				if f != nil && f.Pkg != nil && (f.Pkg.Pkg.Path() == "encoding/binary" || f.Pkg.Pkg.Path() == "bytes" || f.Pkg.Pkg.Path() == "strings" || f.Pkg.Pkg.Path() == "math") {
					out = append(out, w.dests(x, seen)...)
				} else if f != nil {
					idx := -1
					for i, arg := range c.Args {
						if arg == v {
							idx = i
						}
					}
					out = append(out, fmt.Sprintf("arg:%s#%d", roleName(f), idx))
					// results of in-package helpers keep flowing (e.g. newBitmap)
					if f.Pkg == w.f.Pkg {
						out = append(out, w.dests(x, seen)...)
					}
				} else {
					out = append(out, "arg:dynamic")
				}
			}
		case *ssa.Extract:
			out = append(out, w.dests(x, seen)...)
		case *ssa.Store:
			if x.Val == v {
				out = append(out, w.addrDest(x.Addr))
				// follow loads of a local
				if al, ok := x.Addr.(*ssa.Alloc); ok {
					if ar := al.Referrers(); ar != nil {
						for _, u := range *ar {
							if ld, ok := u.(*ssa.UnOp); ok && ld.Op == token.MUL {
								out = append(out, w.dests(ld, seen)...)
							}
						}
					}
				}
			}
		case *ssa.Return:
			for i, res := range x.Results {
				if res == v {
					out = append(out, fmt.Sprintf("ret#%d", i))
				}
			}
		case *ssa.BinOp:
			switch x.Op {
			case token.EQL, token.NEQ, token.LSS, token.LEQ, token.GTR, token.GEQ:
				out = append(out, "cond")
			default:
				sub := w.dests(x, seen)
				if len(sub) == 0 {
					sub = []string{"arith"}
				}
				for _, d := range sub {
					if !strings.HasPrefix(d, "~") {
						d = "~" + d
					}
					out = append(out, d)
				}
			}
		case *ssa.If:
			out = append(out, "cond")
		case *ssa.Phi:
			out = append(out, w.dests(x, seen)...)
		case *ssa.IndexAddr:
			if x.Index == v {
				out = append(out, "index")
			}
		case *ssa.Index:
			out = append(out, "index")
		case *ssa.Lookup:
			out = append(out, "index")
		case *ssa.MakeSlice:
			out = append(out, "size")
		case *ssa.UnOp:
			out = append(out, w.dests(x, seen)...)
		case *ssa.FieldAddr, *ssa.Field:
			if val, ok := r.(ssa.Value); ok {
				out = append(out, w.dests(val, seen)...)
			}
		default:
			out = append(out, fmt.Sprintf("other:%T", r))
		}
	}
	return uniq(out)
}

func (w *wf) addrDest(addr ssa.Value) string {
	switch x := addr.(type) {
	case *ssa.FieldAddr:
		return "field:" + fieldName(x)
	case *ssa.Alloc:
		return "var:" + x.Comment
	case *ssa.IndexAddr:
		return "elem"
	case *ssa.Slice:
		return w.addrDest(x.X)
	}
	return "mem"
}

// bodyBases marks as base (offset 0) every slice `bytes[H:]` where bytes is the
// event buffer (result of Bytes() on the receiver, or the receiver itself) and
// H is the header length (constant 19 or the BinlogFormat.HeaderLength field).
// It returns the header-length expression used, for the caller to check.
func (w *wf) bodyBases() []string {
	var used []string
	recv := ssa.Value(nil)
	if len(w.f.Params) > 0 {
		recv = w.f.Params[0]
	}
	// an in-package helper called on the receiver that returns the body slice (e.g. ev.payload(f))
	instrs(w.f, func(in ssa.Instruction) {
		c, ok := in.(*ssa.Call)
		if !ok || c.Common().IsInvoke() {
			return
		}
		cal := c.Common().StaticCallee()
		if cal == nil || cal.Blocks == nil || cal.Pkg != w.f.Pkg || cal == w.f || len(c.Common().Args) == 0 {
			return
		}
		a0 := strip(c.Common().Args[0])
		if fl, ok := a0.(*ssa.Field); ok && fl.X == recv {
			a0 = recv
		}
		if a0 != recv {
			return
		}
		if _, isSlice := c.Type().Underlying().(*types.Slice); !isSlice {
			return
		}
		sub := newWF(cal)
		hl := sub.bodyBasesNoHelpers()
		rets := returnsOf(cal)
		if len(hl) == 1 && len(rets) == 1 && len(rets[0].Results) == 1 {
			if off, isBase := sub.bases[rets[0].Results[0]]; isBase {
				if k, isK := off.isConst(); isK && k == 0 {
					w.bases[c] = affConst(0)
					used = append(used, hl[0])
				}
			}
		}
	})
	used = append(used, w.bodyBasesNoHelpers()...)
	return uniq(used)
}

// bodyBasesNoHelpers: the direct form, `bytes[H:]` sliced in this very function.
func (w *wf) bodyBasesNoHelpers() []string {
	var used []string
	recv := ssa.Value(nil)
	if len(w.f.Params) > 0 {
		recv = w.f.Params[0]
	}
	isBuf := func(v ssa.Value) bool {
		v = strip(v)
		if v == recv {
			return true
		}
		if f, ok := v.(*ssa.Field); ok && f.X == recv {
			return true
		}
		if c, ok := v.(*ssa.Call); ok {
			if cal := c.Common().StaticCallee(); cal != nil && cal.Name() == "Bytes" {
				return true
			}
		}
		if cv, ok := v.(*ssa.Convert); ok {
			return strip(cv.X) == recv
		}
		return false
	}
	instrs(w.f, func(in ssa.Instruction) {
		s, ok := in.(*ssa.Slice)
		if !ok || !isBuf(s.X) || s.Low == nil || s.High != nil {
			return
		}
		if k, ok := constInt(s.Low); ok {
			w.bases[s] = affConst(0)
			used = append(used, fmt.Sprintf("%d", k))
			return
		}
		_, org := convsBack(s.Low)
		if fl, ok := org.(*ssa.Field); ok && fieldNameV(fl) == "HeaderLength" {
			w.bases[s] = affConst(0)
			used = append(used, "HeaderLength")
		}
		if u, ok := org.(*ssa.UnOp); ok && u.Op == token.MUL {
			if fa, ok := u.X.(*ssa.FieldAddr); ok && fieldName(fa) == "HeaderLength" && typeIs(fa.X.Type(), replPath, "BinlogFormat") {
				w.bases[s] = affConst(0)
				used = append(used, "HeaderLength")
			}
		}
	})
	return uniq(used)
}

func canonName(c *ssa.Call) string {
	n, _ := canonCall(c)
	return n
}

// readerHelper: c calls an in-package function that only reads: one []byte parameter that is a base here, the other
// parameters integers, no stores, no calls but encoding/binary and builtins, one return of one integer. Returns an analyser of
// the callee positioned at the caller's offsets (the slice parameter is the same base, the integer parameters are the
// caller's affine arguments) and the returned value.
func (w *wf) readerHelper(c *ssa.Call) (*wf, ssa.Value) {
	cc := c.Common()
	f := cc.StaticCallee()
	if f == nil || f.Blocks == nil || cc.IsInvoke() || f.Pkg != w.f.Pkg || f == w.f || w.depth >= 2 {
		return nil, nil
	}
	if f.Signature.Results().Len() != 1 || !isIntegerType(f.Signature.Results().At(0).Type()) {
		return nil, nil
	}
	sub := newWF(f)
	sub.depth = w.depth + 1
	sub.res = nil
	ints := map[ssa.Value]aff{}
	nb := 0
	for i, a := range cc.Args {
		if i >= len(f.Params) {
			return nil, nil
		}
		p := f.Params[i]
		switch {
		case isIntegerType(a.Type()):
			ints[p] = w.affine(a)
		default:
			off, isBase := w.bases[a]
			if !isBase {
				return nil, nil
			}
			sub.bases[p] = off
			nb++
		}
	}
	if nb != 1 {
		return nil, nil
	}
	pure := true
	instrs(f, func(in ssa.Instruction) {
		switch x := in.(type) {
		case *ssa.Store, *ssa.MapUpdate, *ssa.Send, *ssa.Go, *ssa.Defer:
			pure = false
		case *ssa.Call:
			if _, isB := x.Common().Value.(*ssa.Builtin); isB {
				return
			}
			if cal := x.Common().StaticCallee(); cal != nil && cal.Pkg != nil && cal.Pkg.Pkg.Path() == "encoding/binary" {
				return
			}
			pure = false
		}
	})
	rets := returnsOf(f)
	if !pure || len(rets) != 1 {
		return nil, nil
	}
	sub.extra = func(v ssa.Value) (aff, bool) {
		a, ok := ints[v]
		return a, ok
	}
	return sub, rets[0].Results[0]
}
