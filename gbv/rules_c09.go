package main

import (
	"fmt"
	"go/constant"
	"go/token"
	"sort"
	"strings"
	"sync"

	"golang.org/x/tools/go/ssa"
)

func init() {
	register("C09", propMeta{
		Explanation: "Decides that the length rule and the value decoder agree on the size of a cell for every type and every valid metadata value, and that the row loops share one skeleton: " +
			"(R1) the sets of type codes handled by cellLength and by CellBytes are equal except TypeNull; (R2) for every type and every metadata value of its domain both functions are specialised " +
			"by sparse conditional constant propagation (typ, metadata bound; row bytes abstract) and every reachable success return of CellBytes reports the same consumed length as cellLength - equal " +
			"constants, or identical canonical terms such as LE(2,data[pos])+2; quick covers all 1580 DECIMAL (p,s), fsp 0..6, BIT 0..8x0..7, ENUM/SET sizes, blob prefix widths 1..4, boundary string " +
			"lengths and every real-type byte of CHAR; thorough covers all 65536 metadata values of VARCHAR, VAR_STRING and STRING (exhaustive); (R3) in each of the four row loops (two in Rows, " +
			"getValuesFromRow, getIdentifiesFromRow) an absent column moves neither the NULL index nor the offset, a NULL column moves the index by one only, a value moves the index by one and the " +
			"offset by exactly the length returned for Types[c], Metadata[c] at the current offset, the presence bitmap is indexed by the column ordinal and the NULL bitmap by the running index; " +
			"(R4) bytes, presence bitmap and NULL bitmap of a loop belong to one image family and the NULL bitmap's width is the BitCount of that family's presence bitmap; (R5) the bitmap constructors " +
			"size by (count+7)/8 and Bit/Set address byte index/8 with mask 1<<(index&7), BitCount counts Bit(i) for i<count; (R6) per rows-event type (v1/v2 x write/update/delete) Rows reads exactly the images that type carries and finds the column count after the table id, flags and - v2 only - the extra-data block skipped by its own announced length. " +
			"Not decided: that row count and image bytes equal what a master encoded for arbitrary shapes.",
		Rule:        "instances = (type, metadata) specialisations (distinct = distinct specialisations with a non-trivial, i.e. success-returning, decoder path), loop path classes, bitmap sibling terms",
		Trusted:     append([]string{"H-sccp (sccp.go): modular integer arithmetic per Go type; package tables proven never written after init are constants", "H-term (term.go): canonical affine terms with LE/BE recognition"}, commonTrusted...),
		Assumptions: []string{"metadata domains as produced by MySQL (DESIGN C09-R2)"},
	}, runC09)

	addVariants(
		Variant{ID: "c09-r7-decoder-scribbles-on-its-input", Prop: "C09", File: "replication/binlog_event_rbr.go",
			Old: "\t\td := make([]byte, l)\n\t\tcopy(d, data[pos:pos+l])\n", New: "\t\td := data[pos : pos+l]\n",
			Expect: "C09-R7 read-only@"},
		Variant{ID: "c09-r2-timestamp2-len", Prop: "C09", File: "replication/binlog_event_rbr.go",
			Old: "\tcase TypeTimestamp2:\n\t\t// metadata has number of decimals. One byte encodes\n\t\t// two decimals.\n\t\treturn 4 + (int(metadata)+1)/2, nil", New: "\tcase TypeTimestamp2:\n\t\t// metadata has number of decimals. One byte encodes\n\t\t// two decimals.\n\t\treturn 4 + int(metadata)/2, nil",
			Expect: "C09-R2 agree@cell[TypeTimestamp2"},
		Variant{ID: "c09-r2-varchar-boundary", Prop: "C09", File: "replication/binlog_event_rbr.go",
			Old: "\tcase TypeVarchar, TypeVarString:\n\t\t// Length is encoded in 1 or 2 bytes.\n\t\tif metadata > 255 {", New: "\tcase TypeVarchar, TypeVarString:\n\t\t// Length is encoded in 1 or 2 bytes.\n\t\tif metadata >= 255 {",
			Expect: "C09-R2 agree@cell[TypeVarchar"},
		Variant{ID: "c09-r2-decimal-frac-table", Prop: "C09", File: "replication/binlog_event_rbr.go",
			Old: "\t\treturn intg0*4 + dig2bytes[intg0x] + frac0*4 + dig2bytes[frac0x], nil", New: "\t\treturn intg0*4 + dig2bytes[intg0x] + frac0*4 + frac0x/2, nil",
			Expect: "C09-R2 agree@cell[TypeNewDecimal"},
		Variant{ID: "c09-r2-geometry-prefix", Prop: "C09", File: "replication/binlog_event_rbr.go",
			Old: "\t\tpos += int(metadata)\n\t\treturn data[pos : pos+l], l + int(metadata), nil\n", New: "\t\tpos += int(metadata)\n\t\treturn data[pos : pos+l], l + 4, nil\n",
			Expect: "C09-R2 agree@cell[TypeGeometry"},
		Variant{ID: "c09-r1-missing-case", Prop: "C09", File: "replication/binlog_event_rbr.go",
			Old: "\tcase TypeDate, TypeTime, TypeNewDate:\n\t\treturn 3, nil", New: "\tcase TypeDate, TypeTime:\n\t\treturn 3, nil",
			Expect: "C09-R1 case-set"},
		Variant{ID: "c09-r3-null-advances-offset", Prop: "C09", File: "streamer.go",
			Old: "\t\tif rs.Rows[rowIndex].NullColumns.Bit(valueIndex) {\n\t\t\tcolumn.Data = nil\n\t\t\tvalues.Columns = append(values.Columns, column)\n\t\t\tvalueIndex++\n", New: "\t\tif rs.Rows[rowIndex].NullColumns.Bit(valueIndex) {\n\t\t\tcolumn.Data = nil\n\t\t\tvalues.Columns = append(values.Columns, column)\n\t\t\tvalueIndex++\n\t\t\tpos++\n",
			Expect: "C09-R3 skeleton@getValuesFromRow"},
		Variant{ID: "c09-r3-absent-advances-index", Prop: "C09", File: "replication/binlog_event_rbr.go",
			Old: "\t\t\t\tif !result.DataColumns.Bit(c) {\n\t\t\t\t\t// This column is not represented.\n\t\t\t\t\tcontinue\n", New: "\t\t\t\tif !result.DataColumns.Bit(c) {\n\t\t\t\t\t// This column is not represented.\n\t\t\t\t\tvalueIndex++\n\t\t\t\t\tcontinue\n",
			Expect: "C09-R3 skeleton@Rows"},
		Variant{ID: "c09-r3-null-indexed-by-ordinal", Prop: "C09", File: "streamer.go",
			Old: "\t\tif rs.Rows[rowIndex].NullIdentifyColumns.Bit(identifyIndex) {", New: "\t\tif rs.Rows[rowIndex].NullIdentifyColumns.Bit(c) {",
			Expect: "C09-R3"},
		Variant{ID: "c09-r4-cross-family", Prop: "C09", File: "streamer.go",
			Old: "\t\tif rs.Rows[rowIndex].NullIdentifyColumns.Bit(identifyIndex) {", New: "\t\tif rs.Rows[rowIndex].NullColumns.Bit(identifyIndex) {",
			Expect: "C09-R4 family@getIdentifiesFromRow"},
		Variant{ID: "c09-r4-null-width", Prop: "C09", File: "replication/binlog_event_rbr.go",
			Old: "row.NullColumns, pos = newBitmap(data, pos, numDataColumns)", New: "row.NullColumns, pos = newBitmap(data, pos, numIdentifyColumns)",
			Old2: "row.NullIdentifyColumns, pos = newBitmap(data, pos, numIdentifyColumns)", New2: "row.NullIdentifyColumns, pos = newBitmap(data, pos, numDataColumns)",
			Expect: "C09-R4 null-width@Rows"},
		Variant{ID: "c09-r6-v1-delete-extra", Prop: "C09", File: "replication/binlog_event_rbr.go",
			Old: "\tif typ == eWriteRowsEventV2 || typ == eUpdateRowsEventV2 || typ == eDeleteRowsEventV2 {\n\t\t// This extraDataLength", New: "\tif typ == eWriteRowsEventV2 || typ == eUpdateRowsEventV2 || typ == eDeleteRowsEventV2 || typ == eDeleteRowsEventV1 {\n\t\t// This extraDataLength",
			Expect: "C09-R6 rows-header@Rows[type=25"},
		Variant{ID: "c09-r6-extra-skip-twice", Prop: "C09", File: "replication/binlog_event_rbr.go",
			Old: "\t\tpos += int(extraDataLength)\n", New: "\t\tpos += 2 + int(extraDataLength)\n",
			Expect: "C09-R6 rows-header@Rows[type=30"},
		Variant{ID: "c09-r5-bitcount-popcount", Prop: "C09", File: "replication/binlog_event.go",
			Old: "\tsum := 0\n\tfor i := 0; i < b.count; i++ {\n\t\tif b.Bit(i) {\n\t\t\tsum++\n\t\t}\n\t}\n\treturn sum", New: "\tsum := 0\n\tfor _, x := range b.data {\n\t\tfor ; x != 0; x &= x - 1 {\n\t\t\tsum++\n\t\t}\n\t}\n\treturn sum",
			Expect: "C09-R5 count@BitCount"},
		Variant{ID: "c09-r5-bit-msb", Prop: "C09", File: "replication/binlog_event.go",
			Old: "func (b *Bitmap) Bit(index int) bool {\n\tbyteIndex := index / 8\n\tbitMask := byte(1 << (uint(index) & 0x7))", New: "func (b *Bitmap) Bit(index int) bool {\n\tbyteIndex := index / 8\n\tbitMask := byte(0x80 >> (uint(index) & 0x7))",
			Expect: "C09-R5"},
		Variant{ID: "c09-r5-set-swapped", Prop: "C09", File: "replication/binlog_event.go",
			Old: "\tif value {\n\t\tb.data[byteIndex] |= bitMask\n\t} else {", New: "\tif !value {\n\t\tb.data[byteIndex] |= bitMask\n\t} else {",
			Expect: "C09-R5 store@Set"},
		Variant{ID: "c09-r5-set-wrong-byte", Prop: "C09", File: "replication/binlog_event.go",
			Old: "func (b *Bitmap) Set(index int, value bool) {\n\tbyteIndex := index / 8", New: "func (b *Bitmap) Set(index int, value bool) {\n\tbyteIndex := (index + 7) / 8",
			Expect: "C09-R5 store@Set"},
		Variant{ID: "c09-r5-bitcount-inclusive", Prop: "C09", File: "replication/binlog_event.go",
			Old: "\tfor i := 0; i < b.count; i++ {\n\t\tif b.Bit(i) {", New: "\tfor i := 0; i < len(b.data)*8; i++ {\n\t\tif b.Bit(i) {",
			Expect: "C09-R5 count@BitCount"},
		Variant{ID: "c09-r3-null-index-carried", Prop: "C09", File: "replication/binlog_event_rbr.go",
			Old: "\t\t\t// Get the values.\n\t\t\tstartPos := pos\n\t\t\tvalueIndex := 0\n", New: "\t\t\t// Get the values.\n\t\t\tstartPos := pos\n\t\t\tvalueIndex := numIdentifyColumns - numIdentifyColumns + len(result.Rows)*0 + carry\n",
			Old2: "\t// One row at a time.\n", New2: "\tcarry := 0\n\tif hasIdentify && columnCount > 64 {\n\t\tcarry = 1\n\t}\n\t// One row at a time.\n",
			Expect: "C09-R3 skeleton@Rows"},
	)
}

func runC09(a *A) {
	cd := resolveCodec(a, "C09-R0")
	if cd == nil {
		return
	}
	c09R1(a, cd)
	c09R2(a, cd)
	c09R3R4(a, cd)
	c09R5(a)
	c09R6(a)
	// R7: splitting rows and decoding cells is a function of the event and the table map alone
	statelessRule(a, "C09-R7", "Rows/cellLength/CellBytes", []*ssa.Function{cd.lenFn, cd.valFn, a.W.method(a.W.Repl, "binlogEvent", "Rows"), a.W.method(a.W.Repl, "binlogEvent", "TableMap")}, a.W.Repl)
	// ... and of bytes that stay as they were: the decoders never write into the image they decode
	readOnlyInput(a, "C09-R7", "cellLength/CellBytes", []*ssa.Function{cd.lenFn, cd.valFn}, a.W.Repl)
}

// R6: the rows-event header per event type (v1 23/24/25, v2 30/31/32) and post-header size: which images exist, whether the
// v2 extra-data block is skipped (by exactly its announced length, which counts its own two bytes), where the column count is read.
func c09R6(a *A) {
	const rule = "C09-R6"
	w := a.W
	rows := w.method(w.Repl, "binlogEvent", "Rows")
	if !a.need(rows != nil, rule, "binlogEvent.Rows") {
		return
	}
	var typ, hs ssa.Value
	instrs(rows, func(in ssa.Instruction) {
		if c, ok := in.(*ssa.Call); ok && c.Common().StaticCallee() != nil {
			switch c.Common().StaticCallee().Name() {
			case "Type":
				if typ == nil {
					typ = c
				}
			case "HeaderSize":
				hs = c
			}
		}
	})
	if !a.need(typ != nil && hs != nil, rule, "Type() and HeaderSize() calls in Rows") {
		return
	}
	type want struct {
		ident, data, v2 bool
		name            string
	}
	wants := map[int64]want{23: {false, true, false, "WRITE_ROWSv1"}, 24: {true, true, false, "UPDATE_ROWSv1"}, 25: {true, false, false, "DELETE_ROWSv1"},
		30: {false, true, true, "WRITE_ROWSv2"}, 31: {true, true, true, "UPDATE_ROWSv2"}, 32: {true, false, true, "DELETE_ROWSv2"}}
	for _, t := range []int64{23, 24, 25, 30, 31, 32} {
		wt := wants[t]
		res := Specialize(rows, map[ssa.Value]constant.Value{typ: constant.MakeInt64(t), hs: constant.MakeInt64(8)}, nil)
		a.Evals++
		x := newWF(rows)
		x.res = res
		x.bodyBases()
		// presence bitmaps constructed and the column-count read position
		gotI, gotD := false, false
		countAt := "?"
		nLen := 0
		instrs(rows, func(in ssa.Instruction) {
			c, ok := in.(*ssa.Call)
			if !ok || !res.Exec[c.Block()] || c.Common().StaticCallee() == nil {
				return
			}
			switch canonName(c) {
			case "readLenEncInt":
				nLen++
				if nLen == 1 {
					countAt = x.affine(c.Common().Args[1]).String()
				}
			case "newBitmap":
				for _, ref := range *c.Referrers() {
					if ex, ok := ref.(*ssa.Extract); ok && ex.Index == 0 {
						for _, rr := range *ex.Referrers() {
							if st, ok := rr.(*ssa.Store); ok {
								if fa, ok := st.Addr.(*ssa.FieldAddr); ok {
									switch fieldName(fa) {
									case "IdentifyColumns":
										gotI = true
									case "DataColumns":
										gotD = true
									}
								}
							}
						}
					}
				}
			}
		})
		wantCount := "8"
		if wt.v2 {
			wantCount = "le[8,10)+8"
		}
		key := fmt.Sprintf("rows-header@Rows[type=%d,%s]", t, wt.name)
		ok := gotI == wt.ident && gotD == wt.data && countAt == wantCount
		a.check(ok, rule, key, w.pos(rows.Pos()), fmt.Sprintf("identify image=%v, data image=%v, column count read at %s", wt.ident, wt.data, wantCount),
			fmt.Sprintf("for a %s event Rows() reads identify image=%v, data image=%v and the column count at body offset %s; the layout is identify=%v, data=%v, column count at %s (after the 6-byte table id, 2 flag bytes%s)",
				wt.name, gotI, gotD, countAt, wt.ident, wt.data, wantCount, map[bool]string{true: " and the extra-data block whose 2-byte length includes itself", false: ""}[wt.v2]))
	}
}

func c09R1(a *A, cd *codec) {
	const rule = "C09-R1"
	w := a.W
	hl := cd.handledTypes(cd.lenFn, 1)
	hv := cd.handledTypes(cd.valFn, 2)
	a.Evals += 512
	var diff []string
	for t := int64(0); t < 256; t++ {
		if hl[t] != hv[t] {
			name := cd.typeName[t]
			if name == "TypeNull" && hl[t] {
				continue // length 0, never has a value to decode
			}
			diff = append(diff, fmt.Sprintf("%d(%s): length rule=%v decoder=%v", t, name, hl[t], hv[t]))
		}
	}
	a.check(len(diff) == 0, rule, "case-set", w.pos(cd.lenFn.Pos()), fmt.Sprintf("both handle the same %d type codes (TypeNull: length only)", len(hv)),
		"the length rule and the value decoder do not handle the same column types: "+strings.Join(diff, "; ")+" - a rows event with such a column splits but cannot be decoded (or vice versa)")
	// every declared Type* constant that either handles is a declared one
	for t := range hv {
		if _, ok := cd.typeName[t]; !ok {
			a.viol(rule, fmt.Sprintf("undeclared-type[%d]", t), w.pos(cd.valFn.Pos()), "the decoder handles type code %d which has no Type* constant", t)
		}
	}
	a.Extra["handled_types"] = len(hv)
}

type agreeResult struct {
	s          spec
	lenDesc    string
	valDescs   []string
	ok         bool
	nontrivial bool
	why        string
	pos        string
}

func c09R2(a *A, cd *codec) {
	const rule = "C09-R2"
	w := a.W
	specs := cd.domain(a.Tier)
	var mu sync.Mutex
	var results []agreeResult
	parallelSpecs(specs, func(s spec) {
		r := agreeResult{s: s}
		rl := cd.specLen(s)
		rv := cd.specVal(s)
		ls := successReturns(rl, 1)
		vs := successReturns(rv, 2)
		switch {
		case len(ls) != 1:
			r.why = fmt.Sprintf("length rule has %d success returns for a valid (type, metadata)", len(ls))
			r.pos = w.pos(cd.lenFn.Pos())
		case len(vs) == 0:
			r.why = "value decoder has no success return for a valid (type, metadata)"
			r.pos = w.pos(cd.valFn.Pos())
		default:
			r.nontrivial = true
			r.lenDesc = lenTerm(rl, ls[0].Results[0], cd.lenFn)
			r.ok = true
			for _, ret := range vs {
				d := lenTerm(rv, ret.Results[1], cd.valFn)
				r.valDescs = append(r.valDescs, d)
				if d != r.lenDesc {
					r.ok = false
					r.why = fmt.Sprintf("the length rule says a cell occupies %s bytes, the value decoder consumes %s", r.lenDesc, d)
					r.pos = w.posOf(ret)
				}
			}
		}
		mu.Lock()
		results = append(results, r)
		mu.Unlock()
	})
	a.Evals += 2 * len(specs)
	sort.Slice(results, func(i, j int) bool {
		if results[i].s.Typ != results[j].s.Typ {
			return results[i].s.Typ < results[j].s.Typ
		}
		return results[i].s.Md < results[j].s.Md
	})
	perType := map[int64][2]int{}
	sample := map[int64]string{}
	nontrivial := 0
	for _, r := range results {
		name := cd.typeName[r.s.Typ]
		c := perType[r.s.Typ]
		c[0]++
		if r.nontrivial {
			nontrivial++
		}
		if r.ok {
			c[1]++
			if _, ok := sample[r.s.Typ]; !ok || r.s.Md%7 == 3 {
				sample[r.s.Typ] = fmt.Sprintf("md=%d: %s", r.s.Md, r.lenDesc)
			}
		} else {
			md := fmt.Sprint(r.s.Md)
			if r.s.Typ == 246 && r.s.Md >= 0 {
				md = fmt.Sprintf("%d(p=%d,s=%d)", r.s.Md, r.s.Md>>8, r.s.Md&0xff)
			}
			a.viol(rule, fmt.Sprintf("agree@cell[%s,md=%s]", name, md), r.pos, "%s: decoding an image column by column no longer consumes it exactly, every following column of the row is read from the wrong offset", r.why)
		}
		perType[r.s.Typ] = c
	}
	for _, t := range sortedTypesOf(perType) {
		c := perType[t]
		if c[0] == c[1] {
			a.hold(rule, fmt.Sprintf("agree@cell[%s]", cd.typeName[t]), w.pos(cd.valFn.Pos()), "%d metadata value(s) agree, e.g. %s", c[0], sample[t])
		}
	}
	a.Extra["specialisations"] = len(specs)
	a.Extra["specialisations_nontrivial"] = nontrivial
	a.Extra["distinct_cases"] = nontrivial
	if a.Tier == "thorough" {
		a.exhaustive = true
	}
	a.atLeast(rule, "agree@cell[", 20)
}

func sortedTypesOf(m map[int64][2]int) []int64 {
	var out []int64
	for k := range m {
		out = append(out, k)
	}
	sort.Slice(out, func(i, j int) bool { return out[i] < out[j] })
	return out
}

// row loops of the four functions.
func allRowLoops(a *A, cd *codec) map[string][]*rowLoop {
	w := a.W
	out := map[string][]*rowLoop{}
	isLen := func(f *ssa.Function) bool { return f == cd.lenFn || f == cd.valFn }
	rows := w.method(w.Repl, "binlogEvent", "Rows")
	out["Rows"] = findRowLoopsDeep(w, rows, isLen)
	for _, rl := range out["Rows"] {
		a.touch(rl.Fn)
	}
	for _, n := range []string{"getValuesFromRow", "getIdentifiesFromRow"} {
		f := w.fn(w.Root, n)
		if f != nil {
			a.touch(f)
			out[n] = findRowLoopsDeep(w, f, isLen)
			for _, rl := range out[n] {
				a.touch(rl.Fn)
			}
		}
	}
	return out
}

func c09R3R4(a *A, cd *codec) {
	const rule = "C09-R3"
	w := a.W
	loops := allRowLoops(a, cd)
	wantN := map[string]int{"Rows": 2, "getValuesFromRow": 1, "getIdentifiesFromRow": 1}
	want := map[string]map[string]string{
		"absent": {"c": "1", "idx": "0", "off": "0"},
		"null":   {"c": "1", "idx": "1", "off": "0"},
		"value":  {"c": "1", "idx": "1", "off": "L"},
	}
	for _, fn := range []string{"Rows", "getValuesFromRow", "getIdentifiesFromRow"} {
		ls := loops[fn]
		if len(ls) < wantN[fn] {
			a.undecided(rule, "skeleton@"+fn, "-", "found %d column loops calling the length function, expected %d", len(ls), wantN[fn])
			continue
		}
		for i, rl := range ls {
			key := fmt.Sprintf("skeleton@%s[loop#%d,%s]", fn, i+1, rl.Family)
			if !rl.analyse() {
				a.undecided(rule, key, w.posOf(rl.Len), "loop shape not recognised (presence test %v, NULL test %v, ordinal %v, NULL index %v, offset %v, latch %v)", rl.Presence != nil, rl.Null != nil, rl.C != nil, rl.Idx != nil, rl.Off != nil, rl.Latch != nil)
				continue
			}
			for _, cls := range []string{"absent", "null", "value"} {
				got := rl.Paths[cls]
				ok := got != nil
				var diffs []string
				for _, v := range []string{"c", "idx", "off"} {
					if got == nil || got[v] != want[cls][v] {
						ok = false
						g := "?"
						if got != nil {
							g = got[v]
						}
						diffs = append(diffs, fmt.Sprintf("%s moves by %s (expected %s)", v, g, want[cls][v]))
					}
				}
				a.check(ok, rule, key+"["+cls+"]", w.posOf(rl.Len), "column ordinal +1, NULL index +"+want[cls]["idx"]+", offset +"+want[cls]["off"],
					fmt.Sprintf("on the %s-column path %s: presence/NULL/offset bookkeeping drifts and later columns are mis-read", cls, strings.Join(diffs, ", ")))
			}
			// every image is walked from its own first column and first NULL bit: the ordinal and the NULL index start at 0
			// each time the loop is entered (an index carried over from the previous image or row mis-reads the bitmap)
			var badInit []string
			for vn, phi := range map[string]*ssa.Phi{"column ordinal": rl.C, "NULL index": rl.Idx} {
				for i, p := range rl.Header.Preds {
					if rl.Header.Dominates(p) {
						continue
					}
					if k, isK := constInt(resolve(phi.Edges[i])); !isK || k != 0 {
						badInit = append(badInit, fmt.Sprintf("%s starts from %s", vn, describe(resolve(phi.Edges[i]))))
					}
				}
			}
			if fn != "Rows" {
				for i, p := range rl.Header.Preds {
					if rl.Header.Dominates(p) {
						continue
					}
					if k, isK := constInt(resolve(rl.Off.Edges[i])); !isK || k != 0 {
						badInit = append(badInit, fmt.Sprintf("offset starts from %s", describe(resolve(rl.Off.Edges[i]))))
					}
				}
			}
			sort.Strings(badInit)
			a.check(len(badInit) == 0, rule, key+"[init]", w.posOf(rl.Len), "ordinal, NULL index (and image offset) start at 0 for every image",
				"the walk over an image does not start at its first column / first NULL bit / first byte ("+strings.Join(badInit, "; ")+"): with more than one image or row the NULL bitmap and values are read at the wrong place")
			// length call arguments: offset phi, Types[c], Metadata[c]
			args := rl.Len.Common().Args
			tp, ok1 := indexedBy(args[2], rl.C)
			mp, ok2 := indexedBy(args[3], rl.C)
			a.check(ok1 && ok2 && strings.HasSuffix(tp, "Types") && strings.HasSuffix(mp, "Metadata") && strings.TrimSuffix(tp, "Types") == strings.TrimSuffix(mp, "Metadata"), rule, key+"[len-args]", w.posOf(rl.Len),
				"length taken for Types[c], Metadata[c] of one table map at the current offset", fmt.Sprintf("the length call uses %q / %q (indexed by the ordinal: %v/%v) instead of Types[c]/Metadata[c] of one table map", tp, mp, ok1, ok2))
			// R4: family consistency
			dataArg := args[0]
			if p, isP := strip(dataArg).(*ssa.Parameter); isP && rl.Env != nil {
				if av, bound := rl.Env[p]; bound {
					dataArg = av
				}
			}
			dataField := familyOf(lastField(fieldPath(resolve(dataArg))))
			if fn == "Rows" {
				dataField = rl.Family // the event body; images are cut out of it afterwards
			}
			nullFam := familyOf(rl.NullField())
			a.check(dataField == rl.Family && nullFam == rl.Family, "C09-R4", fmt.Sprintf("family@%s[loop#%d]", fn, i+1), w.posOf(rl.Len),
				"bytes, presence bitmap and NULL bitmap all belong to the "+rl.Family+" image", fmt.Sprintf("image families are mixed: bytes=%s presence=%s null=%s", dataField, rl.Family, nullFam))
		}
	}
	// R4: NULL-bitmap width in Rows = BitCount of the same family's presence bitmap. The construction may sit in Rows or in a
	// helper Rows calls, which then hands the bitmap back (the destination and the count are resolved through the call site).
	rows := w.method(w.Repl, "binlogEvent", "Rows")
	n := 0
	nullWidth := func(c *ssa.Call, site *ssa.Call) {
		// where does result 0 go?
		dest := ""
		for _, ref := range *c.Referrers() {
			if ex, ok := ref.(*ssa.Extract); ok && ex.Index == 0 {
				for _, rr := range *ex.Referrers() {
					if st, ok := rr.(*ssa.Store); ok {
						if fa, ok := st.Addr.(*ssa.FieldAddr); ok {
							dest = fieldName(fa)
						} else if site != nil {
							if d := returnedLocalDest(st.Addr, site); d != "?" {
								dest = d
							}
						}
					}
				}
			}
		}
		if dest != "NullColumns" && dest != "NullIdentifyColumns" {
			return
		}
		n++
		cnt := c.Common().Args[2]
		if p, isP := cnt.(*ssa.Parameter); isP && site != nil {
			for i, q := range site.Common().StaticCallee().Params {
				if q == p && i < len(site.Common().Args) {
					cnt = site.Common().Args[i]
				}
			}
		}
		// the count must be (a phi/variable holding) BitCount() of the same family's presence bitmap
		src := bitCountSource(cnt, map[ssa.Value]bool{})
		a.check(src != "" && familyOf(src) == familyOf(dest), "C09-R4", "null-width@Rows["+dest+"]", w.posOf(c), "NULL bitmap sized by BitCount() of "+src,
			fmt.Sprintf("the %s bitmap is sized by %q instead of the number of present columns of the same image: every row after the first is cut at the wrong place", dest, src))
	}
	instrs(rows, func(in ssa.Instruction) {
		c, ok := in.(*ssa.Call)
		if !ok || c.Common().StaticCallee() == nil {
			return
		}
		cal := c.Common().StaticCallee()
		if roleName(cal) == "newBitmap" {
			nullWidth(c, nil)
			return
		}
		if cal.Pkg == w.Repl && cal.Blocks != nil && !c.Common().IsInvoke() && cal != rows {
			instrs(cal, func(i2 ssa.Instruction) {
				if c2, ok := i2.(*ssa.Call); ok && c2.Common().StaticCallee() != nil && roleName(c2.Common().StaticCallee()) == "newBitmap" {
					nullWidth(c2, c)
				}
			})
		}
	})
	if n < 2 {
		a.undecided("C09-R4", "null-width@Rows", w.pos(rows.Pos()), "found %d NULL-bitmap constructions in Rows, expected 2", n)
	}
}

func lastField(p string) string {
	if i := strings.LastIndex(p, "."); i >= 0 {
		return p[i+1:]
	}
	return p
}

// bitCountSource: cnt derives (through phis whose other inputs are 0 or the phi itself) from BitCount() on a bitmap field; returns the field name.
func bitCountSource(v ssa.Value, seen map[ssa.Value]bool) string {
	s, ok := bitCountSrc(v, seen)
	if !ok {
		return ""
	}
	return s
}

func bitCountSrc(v ssa.Value, seen map[ssa.Value]bool) (string, bool) {
	if seen[v] {
		return "", true // cycle: neutral
	}
	seen[v] = true
	switch x := v.(type) {
	case *ssa.Const:
		if k, ok := constInt(x); ok && k == 0 {
			return "", true
		}
	case *ssa.Call:
		if f := x.Common().StaticCallee(); f != nil && f.Name() == "BitCount" {
			return bitmapField(x), true
		}
	case *ssa.Phi:
		out := ""
		for _, e := range x.Edges {
			s, ok := bitCountSrc(e, seen)
			if !ok {
				return "", false
			}
			if s == "" {
				continue
			}
			if out != "" && out != s {
				return "", false
			}
			out = s
		}
		return out, true
	}
	return "", false
}

func c09R5(a *A) {
	const rule = "C09-R5"
	w := a.W
	nb := w.fn(w.Repl, "newBitmap")
	ns := w.fn(w.Repl, "NewServerBitmap")
	bit := w.method(w.Repl, "Bitmap", "Bit")
	set := w.method(w.Repl, "Bitmap", "Set")
	if !a.need(nb != nil && ns != nil && bit != nil && set != nil, rule, "newBitmap, NewServerBitmap, Bitmap.Bit, Bitmap.Set") {
		return
	}
	a.touch(nb, ns, bit, set)
	// sizes
	sizeOf := func(f *ssa.Function) string {
		t := newTB(nil)
		out := ""
		instrs(f, func(in ssa.Instruction) {
			switch x := in.(type) {
			case *ssa.MakeSlice:
				out = t.term(x.Len).String()
			case *ssa.Slice:
				if x.Low != nil && x.High != nil {
					out = t.term(x.High).add(t.term(x.Low), -1).String()
				}
			}
		})
		return out
	}
	s1, s2 := sizeOf(nb), sizeOf(ns)
	a.check(s1 == s2 && s1 == "(/ count+7 8)", rule, "size@bitmap", w.pos(nb.Pos()), "both constructors size by (count+7)/8",
		fmt.Sprintf("bitmap storage is sized by %q (parsed) vs %q (built); a bitmap of n bits occupies (n+7)/8 bytes", s1, s2))
	// newBitmap returns pos + size
	for _, ret := range returnsOf(nb) {
		t := newTB(nil)
		adv := t.term(ret.Results[1]).String()
		a.check(adv == "(/ count+7 8)+pos", rule, "advance@newBitmap", w.posOf(ret), "next position = pos + (count+7)/8", "newBitmap advances the position by "+adv)
	}
	// Bit: "data[index/8] & (1<<(index&7))" tested against zero, as canonical terms (helpers inlined)
	tBit := newTB(nil)
	tBit.small = map[ssa.Value]bool{}
	var bitIdx, bitMask, bitBase string
	okBit := false
	for _, ret := range returnsOf(bit) {
		bt, ok := bitTestOf(tBit, ret.Results[0])
		if !ok || (okBit && (bt.idx != bitIdx || bt.mask != bitMask)) {
			okBit = false
			break
		}
		okBit, bitIdx, bitMask, bitBase = true, bt.idx, bt.mask, bt.base
	}
	wantMask := func(i string) []string {
		return []string{"(<< 1 (& 7 conv<uint>(" + i + ")))", "(<< 1 (& 7 " + i + "))", "(<< 1 conv<uint>((& 7 " + i + ")))"}
	}
	a.check(okBit && bitIdx == "(/ index 8)", rule, "byte@Bit", w.pos(bit.Pos()), "bit i lives in byte i/8", fmt.Sprintf("Bit addresses byte %q (recognised: %v); expected index/8", bitIdx, okBit))
	a.check(okBit && has(wantMask("index"), bitMask), rule, "mask@Bit", w.pos(bit.Pos()), "mask 1<<(index&7), least significant bit first: "+bitMask,
		fmt.Sprintf("Bit uses mask %q; MySQL bitmaps are least-significant-bit first: 1<<(index&7)", bitMask))
	// Set: every store into the bitmap storage is data[index/8] = data[index/8] | mask when value, &^ mask when !value
	tSet := newTB(nil)
	nSet, nClr := 0, 0
	var badSet []string
	instrs(set, func(in ssa.Instruction) {
		st, ok := in.(*ssa.Store)
		if !ok {
			return
		}
		ia, ok := st.Addr.(*ssa.IndexAddr)
		if !ok {
			return
		}
		idx := tSet.term(ia.Index).String()
		kind, mask := setOpOf(tSet, st.Val, ia)
		sign, known := condSign(st.Block(), set.Params[2])
		switch {
		case idx != "(/ index 8)":
			badSet = append(badSet, "byte "+idx)
		case !has(wantMask("index"), mask):
			badSet = append(badSet, "mask "+mask)
		case kind == "or" && known && sign:
			nSet++
		case kind == "andnot" && known && !sign:
			nClr++
		default:
			badSet = append(badSet, fmt.Sprintf("%s under value=%v(known %v)", kind, sign, known))
		}
	})
	a.check(len(badSet) == 0 && nSet >= 1 && nClr >= 1, rule, "store@Set", w.pos(set.Pos()), "Set ors the bit in when value, clears it otherwise, same byte and mask as Bit",
		fmt.Sprintf("Set does not set/clear exactly the bit that Bit reads (%v; set sites %d, clear sites %d)", badSet, nSet, nClr))
	// BitCount counts exactly the bits 0..count-1 (padding bits of the last byte may be set by the master and must not count)
	bc := w.method(w.Repl, "Bitmap", "BitCount")
	if a.need(bc != nil, rule, "Bitmap.BitCount") {
		a.touch(bc)
		var hdr *ssa.BasicBlock
		for _, b := range bc.Blocks {
			if isLoopHeader(b) {
				hdr = b
			}
		}
		okBound, okTest, okAcc := false, false, false
		var idx ssa.Value
		if hdr != nil {
			if iff, ok := lastInstr(hdr).(*ssa.If); ok {
				if bo, ok := iff.Cond.(*ssa.BinOp); ok && bo.Op == token.LSS {
					idx = bo.X
					tb0 := newTB(nil)
					okBound = strings.HasSuffix(tb0.term(bo.Y).String(), ".count)") || strings.HasSuffix(fieldPath(bo.Y), "count")
					// the counter starts at 0 and steps by 1
					if phi, ok := idx.(*ssa.Phi); ok && phi.Block() == hdr {
						for _, e := range phi.Edges {
							if k, isC := constInt(e); isC && k == 0 {
								continue
							}
							if inc, isB := e.(*ssa.BinOp); isB && inc.Op == token.ADD && inc.X == ssa.Value(phi) {
								if k, isC := constInt(inc.Y); isC && k == 1 {
									continue
								}
							}
							okBound = false
						}
					} else {
						okBound = false
					}
				}
			}
			tc := newTB(nil)
			tc.small = map[ssa.Value]bool{}
			if idx != nil {
				tc.names[idx] = "i"
				tc.small[idx] = true
			}
			// Bit's own test with index := i, i a non-negative counter
			tb2 := newTB(nil)
			tb2.small = map[ssa.Value]bool{bit.Params[1]: true}
			tb2.names[bit.Params[1]] = "i"
			var refIdx, refMask string
			for _, ret := range returnsOf(bit) {
				if bt, ok := bitTestOf(tb2, ret.Results[0]); ok {
					refIdx, refMask = bt.idx, bt.mask
				}
			}
			for _, b := range bc.Blocks {
				iff, ok := lastInstr(b).(*ssa.If)
				if !ok || b == hdr {
					continue
				}
				match := false
				if c, ok := isBitCall(iff.Cond); ok && len(c.Common().Args) == 2 && c.Common().Args[1] == idx && c.Common().Args[0] == ssa.Value(bc.Params[0]) {
					match = true
				} else if bt, ok := bitTestOf(tc, iff.Cond); ok && okBit && bt.idx == refIdx && bt.mask == refMask && bt.base == bitBase {
					match = true
				} else if ok {
					a.info(rule, "bitcount-test", w.posOf(iff), "inline test %v vs Bit's %q %q %q", bt, bitBase, refIdx, refMask)
				}
				if !match {
					continue
				}
				okTest = true
				// the accumulator grows by one exactly on the true edge of this test
				for _, in2 := range b.Succs[0].Instrs {
					if bo, ok := in2.(*ssa.BinOp); ok && bo.Op == token.ADD {
						if k, ok := constInt(bo.Y); ok && k == 1 {
							okAcc = true
						}
					}
				}
			}
		}
		a.check(okBound && okTest && okAcc, rule, "count@BitCount", w.pos(bc.Pos()), "counts Bit(i) for i in [0,count)",
			fmt.Sprintf("BitCount does not count exactly the bits below count (loop 0..count step 1: %v, tests bit i: %v, +1 per set bit: %v): padding bits of the last bitmap byte, which a master may set, are counted as present columns and every row's NULL bitmap is mis-sized", okBound, okTest, okAcc))
	}
}

type bitTest struct{ base, idx, mask string }

// bitTestOf recognises "(conv)(S[idx] & mask) >0 / !=0" (either operand order) and "(S[idx] >> s) & 1 != 0 / == 1".
func bitTestOf(t *tb, cond ssa.Value) (bitTest, bool) {
	bo, ok := stripW(cond).(*ssa.BinOp)
	if !ok {
		return bitTest{}, false
	}
	var inner ssa.Value
	kx, xc := constInt(bo.X)
	ky, yc := constInt(bo.Y)
	one := false
	switch {
	case (bo.Op == token.GTR || bo.Op == token.NEQ) && yc && ky == 0:
		inner = bo.X
	case (bo.Op == token.LSS || bo.Op == token.NEQ) && xc && kx == 0:
		inner = bo.Y
	case bo.Op == token.EQL && yc && ky == 1:
		inner, one = bo.X, true
	default:
		return bitTest{}, false
	}
	and, ok := stripW(inner).(*ssa.BinOp)
	if !ok || and.Op != token.AND {
		return bitTest{}, false
	}
	for _, pair := range [][2]ssa.Value{{and.X, and.Y}, {and.Y, and.X}} {
		ld, m := stripW(pair[0]), pair[1]
		if sh, isSh := ld.(*ssa.BinOp); isSh && sh.Op == token.SHR {
			if k, isC := constInt(m); isC && k == 1 {
				if u, isL := stripW(sh.X).(*ssa.UnOp); isL && u.Op == token.MUL {
					if ia, isIA := u.X.(*ssa.IndexAddr); isIA {
						return bitTest{t.sliceTerm(ia.X), t.term(ia.Index).String(), "(<< 1 " + t.term(sh.Y).String() + ")"}, true
					}
				}
			}
		}
		if one {
			continue
		}
		if u, isL := ld.(*ssa.UnOp); isL && u.Op == token.MUL {
			if ia, isIA := u.X.(*ssa.IndexAddr); isIA {
				return bitTest{t.sliceTerm(ia.X), t.term(ia.Index).String(), t.term(m).String()}, true
			}
		}
	}
	return bitTest{}, false
}

// setOpOf classifies the value stored at ia: "or" (old | mask), "andnot" (old &^ mask, old & (0xff-mask), old & ^mask).
func setOpOf(t *tb, v ssa.Value, ia *ssa.IndexAddr) (string, string) {
	bo, ok := stripW(v).(*ssa.BinOp)
	if !ok {
		return "other", ""
	}
	isOld := func(x ssa.Value) bool {
		u, ok := stripW(x).(*ssa.UnOp)
		if !ok || u.Op != token.MUL {
			return false
		}
		ia2, ok := u.X.(*ssa.IndexAddr)
		return ok && (ia2 == ia || (t.sliceTerm(ia2.X) == t.sliceTerm(ia.X) && t.term(ia2.Index).String() == t.term(ia.Index).String()))
	}
	for _, pair := range [][2]ssa.Value{{bo.X, bo.Y}, {bo.Y, bo.X}} {
		if !isOld(pair[0]) {
			continue
		}
		m := stripW(pair[1])
		switch bo.Op {
		case token.OR:
			return "or", t.term(m).String()
		case token.AND_NOT:
			if pair[0] == bo.X {
				return "andnot", t.term(m).String()
			}
		case token.AND:
			if sub, ok := m.(*ssa.BinOp); ok && sub.Op == token.SUB {
				if k, isC := constInt(sub.X); isC && k == 255 {
					return "andnot", t.term(sub.Y).String()
				}
			}
			if sub, ok := m.(*ssa.BinOp); ok && sub.Op == token.XOR {
				if k, isC := constInt(sub.Y); isC && (k == -1 || k == 255) {
					return "andnot", t.term(sub.X).String()
				}
			}
			if u, ok := m.(*ssa.UnOp); ok && u.Op == token.XOR {
				return "andnot", t.term(u.X).String()
			}
		}
	}
	return "other", ""
}

// condSign: is block b reachable only with boolean v true (true,true), only with v false (false,true), or either (_,false)?
func condSign(b *ssa.BasicBlock, v ssa.Value) (bool, bool) {
	for _, dc := range dominatingConds(b) {
		if dc.Cond == v {
			return dc.Val, true
		}
		if u, ok := dc.Cond.(*ssa.UnOp); ok && u.Op == token.NOT && u.X == v {
			return !dc.Val, true
		}
	}
	return false, false
}

func has(xs []string, s string) bool {
	for _, x := range xs {
		if x == s {
			return true
		}
	}
	return false
}
