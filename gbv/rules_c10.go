package main

import (
	"fmt"
	"go/constant"
	"go/token"
	"regexp"
	"sort"
	"strings"

	"golang.org/x/tools/go/ssa"
)

func init() {
	register("C10", propMeta{
		Explanation: "Numeric results are runtime quantities; decided are the structural facts without which the text cannot be exact, as canonical value terms (H-term) of CellBytes specialised per type: " +
			"(R1) at both CellBytes call sites the type, metadata, unsigned flag, column name and column type are taken at the same column ordinal; (R2) for TINY/SHORT/INT24/LONG/LONGLONG the decoder's " +
			"returns, keyed by the conditions on the unsigned flag, are exactly: unsigned -> base-10 text of the little-endian W-byte value; signed -> base-10 text of that value reinterpreted as a " +
			"W-byte two's-complement integer (INT24: sign bit = bit 7 of byte 2, extension by 0xFF000000); (R3) FLOAT/DOUBLE are rendered by strconv.AppendFloat(.., 'f', -1, 32|64) of the IEEE bits " +
			"read little-endian; YEAR is '0000' for 0 and byte+1900 otherwise; BIT and SET (as column types) are the raw bytes; ENUM is the base-10 text of the 1- or 2-byte little-endian index, also " +
			"when it arrives as a CHAR real type. Not decided: the numeric results themselves (strconv and math are trusted), SET-as-CHAR bitmask accumulation beyond its shape.",
		Rule:        "instances = call-site operands by ordinal; (type, condition) -> canonical value term compared with the documented decoding",
		Trusted:     append([]string{"strconv.AppendInt/AppendUint/AppendFloat, math.Float32frombits/Float64frombits, encoding/binary", "H-sccp / H-term"}, commonTrusted...),
		Assumptions: []string{"canonical terms are compared syntactically after normalisation (commutativity, value-preserving conversions, LE/BE composition); an algebraically different but equivalent decoder needs a table update"},
	}, runC10)

	addVariants(
		Variant{ID: "c10-r1-unsigned-wrong-ordinal", Prop: "C10", File: "streamer.go",
			Old:    "\t\tcolumn.Data, l, err = replication.CellBytes(data, pos, tc.tableMap.Types[c], tc.tableMap.Metadata[c],\n\t\t\ttc.table.Columns()[c].IsUnSignedInt())\n\n\t\tif err != nil {",
			New:    "\t\tcolumn.Data, l, err = replication.CellBytes(data, pos, tc.tableMap.Types[c], tc.tableMap.Metadata[c],\n\t\t\ttc.table.Columns()[valueIndex].IsUnSignedInt())\n\n\t\tif err != nil {",
			Expect: "C10-R1 ordinal@getValuesFromRow"},
		Variant{ID: "c10-r2-longlong-ignores-unsigned", Prop: "C10", File: "replication/binlog_event_rbr.go",
			Old: "\t\tif isUnSignedInt {\n\t\t\treturn strconv.AppendUint(nil, uint64(val), 10), 8, nil\n\t\t}\n\t\treturn strconv.AppendInt(nil, int64(val), 10), 8, nil", New: "\t\treturn strconv.AppendInt(nil, int64(val), 10), 8, nil",
			Expect: "C10-R2 value@TypeLongLong"},
		Variant{ID: "c10-r2-int24-sign-byte", Prop: "C10", File: "replication/binlog_event_rbr.go",
			Old: "\t\tif !isUnSignedInt && data[pos+2]&128 > 0 {\n\t\t\tval := int32(uint32(data[pos]) +", New: "\t\tif !isUnSignedInt && data[pos+1]&128 > 0 {\n\t\t\tval := int32(uint32(data[pos]) +",
			Expect: "C10-R2 value@TypeInt24"},
		Variant{ID: "c10-r2-short-bigendian", Prop: "C10", File: "replication/binlog_event_rbr.go",
			Old: "\tcase TypeShort:\n\t\tval := binary.LittleEndian.Uint16(data[pos : pos+2])", New: "\tcase TypeShort:\n\t\tval := binary.BigEndian.Uint16(data[pos : pos+2])",
			Expect: "C10-R2 value@TypeShort"},
		Variant{ID: "c10-r4-decimal-sign-by-flag", Prop: "C10", File: "replication/binlog_event_rbr.go",
			Old: "\t\tisNegative := (d[0] & 0x80) == 0\n", New: "\t\tisNegative := (d[0]&0x80) == 0 && !isUnSignedInt\n",
			Expect: "C10-R4 flag-scope@TypeNewDecimal"},
		Variant{ID: "c10-r3-float-exponent", Prop: "C10", File: "replication/binlog_event_rbr.go",
			Old: "\t\treturn strconv.AppendFloat(nil, float64(fVal), 'f', -1, 32), 4, nil", New: "\t\treturn strconv.AppendFloat(nil, float64(fVal), 'g', -1, 32), 4, nil",
			Expect: "C10-R3 value@TypeFloat"},
		Variant{ID: "c10-r3-float-bitsize", Prop: "C10", File: "replication/binlog_event_rbr.go",
			Old: "\t\treturn strconv.AppendFloat(nil, float64(fVal), 'f', -1, 32), 4, nil", New: "\t\treturn strconv.AppendFloat(nil, float64(fVal), 'f', -1, 64), 4, nil",
			Expect: "C10-R3 value@TypeFloat"},
		Variant{ID: "c10-r3-year-base", Prop: "C10", File: "replication/binlog_event_rbr.go",
			Old: "uint64(data[pos])+1900, 10), 1, nil", New: "uint64(data[pos])+1901, 10), 1, nil",
			Expect: "C10-R3 value@TypeYear"},
	)
}

func runC10(a *A) {
	cd := resolveCodec(a, "C10-R0")
	if cd == nil {
		return
	}
	c10R1(a, cd)
	c10Values(a, cd)
	c10R4(a, cd)
}

// R1 (= C15-R4): everything at a CellBytes call site is taken at the same column ordinal.
func c10R1(a *A, cd *codec) {
	const rule = "C10-R1"
	w := a.W
	loops := allRowLoops(a, cd)
	n := 0
	for _, fn := range []string{"getValuesFromRow", "getIdentifiesFromRow"} {
		for _, rl := range loops[fn] {
			n++
			if !rl.analyse() {
				a.undecided(rule, "ordinal@"+fn, w.posOf(rl.Len), "loop shape not recognised")
				continue
			}
			args := rl.Len.Common().Args
			var facts []string
			ok := true
			if p, is := indexedBy(args[2], rl.C); !is || !strings.HasSuffix(p, "tableMap.Types") {
				ok = false
				facts = append(facts, "type operand is not tableMap.Types[c]")
			}
			if p, is := indexedBy(args[3], rl.C); !is || !strings.HasSuffix(p, "tableMap.Metadata") {
				ok = false
				facts = append(facts, "metadata operand is not tableMap.Metadata[c]")
			}
			// unsigned flag: invoke IsUnSignedInt() on Columns()[c]
			if !invokeOnColumn(args[4], "IsUnSignedInt", rl.C) {
				ok = false
				facts = append(facts, "unsigned flag is not Columns()[c].IsUnSignedInt()")
			}
			a.check(ok, rule, "ordinal@"+fn+"[decode]", w.posOf(rl.Len), "type, metadata and signedness taken at the column ordinal c",
				"the decoder call mixes ordinals: "+strings.Join(facts, "; ")+" - with a partial row image or NULLs the value is decoded with another column's type or signedness")
			// the ColumnData of this iteration: name and type at the same ordinal
			co := rl.columnObject()
			if a.need(co != nil && co.Name != nil && co.Type != nil, rule, "ColumnData of the iteration (constructor call or composite literal) in "+fn) {
				okName := invokeOnColumn(co.Name, "Field", rl.C)
				_, org := convsBack(co.Type)
				p, okType := indexedBy(org, rl.C)
				okType = okType && strings.HasSuffix(p, "tableMap.Types")
				a.check(okName && okType, rule, "ordinal@"+fn+"[column]", w.posOf(co.Pos), "column name = Columns()[c].Field(), type = Types[c]",
					fmt.Sprintf("the delivered column's name/type are not taken at the ordinal c (name ok=%v, type ok=%v)", okName, okType))
			}
		}
	}
	if n < 2 {
		a.undecided(rule, "ordinal@callsites", "-", "found %d CellBytes loops in the streamer, expected 2", n)
	}
}

// invokeOnColumn: v is `<mapper table>.Columns()[idx].<method>()`.
func invokeOnColumn(v ssa.Value, method string, idx ssa.Value) bool {
	c, ok := v.(*ssa.Call)
	if !ok || !c.Common().IsInvoke() || c.Common().Method.Name() != method {
		return false
	}
	p, ok := indexedBy(c.Common().Value, idx)
	return ok && strings.HasSuffix(p, "table.Columns()")
}

type valueSpec struct {
	Type string
	Mds  []int64
	Rule string
	Want map[string]string // condition -> term
	Why  string
}

// other accepted canonical forms of the same decoding, per type
var valueAlts = map[string][]map[string]string{
	// INT24 sign extension by shifting the 24-bit value to the top of an int32 and back
	"TypeInt24": {{"!unsigned": "AppendInt(nil,conv<int64>((>> conv<int32>(256*LE(3,data[pos])) 8)),10)", "unsigned": "AppendUint(nil,LE(3,data[pos]),10)"}},
}

func le(w int) string {
	if w == 1 {
		return "data[pos]"
	}
	return fmt.Sprintf("LE(%d,data[pos])", w)
}

var intSpecs = []valueSpec{
	{"TypeTiny", []int64{-1}, "C10-R2", map[string]string{
		"unsigned": "AppendUint(nil,data[pos],10)", "!unsigned": "AppendInt(nil,conv<int64>(conv<int8>(data[pos])),10)"}, "8-bit integer"},
	{"TypeShort", []int64{-1}, "C10-R2", map[string]string{
		"unsigned": "AppendUint(nil,LE(2,data[pos]),10)", "!unsigned": "AppendInt(nil,conv<int64>(conv<int16>(LE(2,data[pos]))),10)"}, "16-bit integer"},
	{"TypeInt24", []int64{-1}, "C10-R2", map[string]string{
		"!((& 128 data[pos+2]) == 0) && !unsigned": "AppendInt(nil,conv<int64>(conv<int32>(LE(3,data[pos])+4278190080)),10)", "": "AppendUint(nil,LE(3,data[pos]),10)"}, "24-bit integer"},
	{"TypeLong", []int64{-1}, "C10-R2", map[string]string{
		"unsigned": "AppendUint(nil,LE(4,data[pos]),10)", "!unsigned": "AppendInt(nil,conv<int64>(conv<int32>(LE(4,data[pos]))),10)"}, "32-bit integer"},
	{"TypeLongLong", []int64{-1}, "C10-R2", map[string]string{
		"unsigned": "AppendUint(nil,LE(8,data[pos]),10)", "!unsigned": "AppendInt(nil,conv<int64>(LE(8,data[pos])),10)"}, "64-bit integer"},
	{"TypeFloat", []int64{-1}, "C10-R3", map[string]string{"": "AppendFloat(nil,conv<float64>(math.Float32frombits(LE(4,data[pos]))),102,-1,32)"}, "FLOAT: plain decimal text that parses back to the same float32"},
	{"TypeDouble", []int64{-1}, "C10-R3", map[string]string{"": "AppendFloat(nil,math.Float64frombits(LE(8,data[pos])),102,-1,64)"}, "DOUBLE: plain decimal text that parses back to the same float64"},
	{"TypeYear", []int64{-1}, "C10-R3", map[string]string{"(data[pos] == 0)": "lit[48 48 48 48]", "!(data[pos] == 0)": "AppendUint(nil,data[pos]+1900,10)"}, "YEAR: 0000 for zero, 1900+byte otherwise"},
	{"TypeEnum", []int64{1, 247<<8 | 1}, "C10-R3", map[string]string{"": "AppendUint(nil,data[pos],10)"}, "ENUM stored in one byte"},
	{"TypeEnum", []int64{2, 247<<8 | 2}, "C10-R3", map[string]string{"": "AppendUint(nil,LE(2,data[pos]),10)"}, "ENUM stored in two bytes"},
	{"TypeString", []int64{247<<8 | 1}, "C10-R3", map[string]string{"": "AppendUint(nil,data[pos],10)"}, "ENUM (as CHAR real type) stored in one byte"},
	{"TypeString", []int64{247<<8 | 2}, "C10-R3", map[string]string{"": "AppendUint(nil,LE(2,data[pos]),10)"}, "ENUM (as CHAR real type) stored in two bytes"},
}

func c10Values(a *A, cd *codec) {
	checkValueSpecs(a, cd, intSpecs)
	// BIT and SET column types: raw bytes of the metadata-determined length
	byName := map[string]int64{}
	for v, n := range cd.typeName {
		byName[n] = v
	}
	w := a.W
	for by := int64(0); by <= 8; by++ {
		for bi := int64(0); bi <= 7; bi++ {
			l := (by*8 + bi + 7) / 8
			s := spec{byName["TypeBit"], by<<8 | bi}
			rv := cd.specVal(s)
			a.Evals++
			rets := successReturns(rv, 2)
			want := fmt.Sprintf("data[pos:pos+%d]", l)
			if l == 0 {
				want = "data[pos:pos]"
			}
			ok := len(rets) == 1 && valueTerm(cd, rv, rets[0].Results[0]) == want
			if !ok {
				got := "?"
				if len(rets) > 0 {
					got = valueTerm(cd, rv, rets[0].Results[0])
				}
				a.viol("C10-R3", fmt.Sprintf("value@TypeBit[md=%d]", s.Md), w.pos(cd.valFn.Pos()), "BIT(%d bytes+%d bits) decodes to %s, expected the %d raw big-endian bytes %s", by, bi, got, l, want)
			}
		}
	}
	a.hold("C10-R3", "value@TypeBit", w.pos(cd.valFn.Pos()), "BIT: the (bytes*8+bits+7)/8 raw bytes for all 72 metadata values (unless reported)")
	// SET as CHAR real type: base-10 text of a little-endian accumulation over exactly md&0xff bytes
	for k := int64(1); k <= 8; k++ {
		s := spec{byName["TypeString"], 248<<8 | k}
		rv := cd.specVal(s)
		a.Evals++
		rets := successReturns(rv, 2)
		ok := len(rets) == 1
		var term string
		if ok {
			term = valueTerm(cd, rv, rets[0].Results[0])
			want := fmt.Sprintf("AppendUint(nil,LE(%d,data[pos]),10)", k)
			if k == 1 {
				want = "AppendUint(nil,data[pos],10)"
			}
			ok = term == want
		}
		a.check(ok, "C10-R3", fmt.Sprintf("value@TypeString[set,%d bytes]", k), w.pos(cd.valFn.Pos()), "base-10 text of a little-endian accumulation over "+fmt.Sprint(k)+" bytes",
			"SET (as CHAR real type) is not decoded as the base-10 text of its little-endian bitmask over "+fmt.Sprint(k)+" bytes: "+term)
	}
}

// checkValueSpecs compares (condition -> value term) of the decoder with the table.
func checkValueSpecs(a *A, cd *codec, specs []valueSpec) {
	w := a.W
	byName := map[string]int64{}
	for v, n := range cd.typeName {
		byName[n] = v
	}
	for _, vs := range specs {
		typ, ok := byName[vs.Type]
		if !a.need(ok, vs.Rule, "constant "+vs.Type) {
			continue
		}
		for _, md := range vs.Mds {
			s := spec{typ, md}
			rv := cd.specVal(s)
			a.Evals++
			got := map[string]string{}
			pos := w.pos(cd.valFn.Pos())
			for _, ret := range successReturns(rv, 2) {
				for _, alt := range returnAlts(cd, rv, ret) {
					c, t := alt[0], canonSignExt(alt[1])
					if old, dup := got[c]; dup && old != t {
						t = old + " | " + t
					}
					got[c] = t
				}
				pos = w.posOf(ret)
			}
			key := "value@" + vs.Type
			if md >= 0 {
				key += fmt.Sprintf("[md=%d]", md)
			}
			match := mapsEqual(got, vs.Want)
			for _, alt := range valueAlts[vs.Type] {
				if mapsEqual(got, alt) {
					match = true
				}
			}
			if match {
				a.hold(vs.Rule, key, pos, "%s: %s", vs.Why, renderMap(got))
			} else {
				a.viol(vs.Rule, key, pos, "%s decodes as {%s}; the documented decoding (%s) is {%s}", vs.Type, renderMap(got), vs.Why, renderMap(vs.Want))
			}
		}
	}
}

func mapsEqual(a, b map[string]string) bool {
	if len(a) != len(b) {
		return false
	}
	for k, v := range a {
		if b[k] != v {
			return false
		}
	}
	return true
}

func renderMap(m map[string]string) string {
	var ks []string
	for k := range m {
		ks = append(ks, k)
	}
	sort.Strings(ks)
	var out []string
	for _, k := range ks {
		c := k
		if c == "" {
			c = "always"
		}
		out = append(out, c+" -> "+m[k])
	}
	return strings.Join(out, "; ")
}

// R4: the mapper's unsigned flag means something for the five integer types only. For every other column type the
// decoder handles, the code that runs for that type (blocks executable when the type parameter is bound to the type's
// constant; in-package callees that receive the flag are followed with their constant arguments bound) must not read
// the flag: the text of a DECIMAL, temporal, string, JSON ... cell is a function of the bytes, the type and the
// metadata. (DECIMAL UNSIGNED, FLOAT UNSIGNED etc. are stored exactly like their signed forms.) Instances: one per
// handled non-integer type, keyed by the type's name.
func c10R4(a *A, cd *codec) {
	const rule = "C10-R4"
	w := a.W
	f := cd.valFn
	if len(f.Params) < 5 {
		a.hold(rule, "flag-scope@none", w.pos(f.Pos()), "the value decoder takes no unsigned flag")
		return
	}
	ints := map[string]bool{"TypeTiny": true, "TypeShort": true, "TypeInt24": true, "TypeLong": true, "TypeLongLong": true}
	// uses: the first instruction, in code executable under the binding, that makes something depend on the flag. Copies
	// of the flag (conversions to a named bool type, negation, boolean operators, phis) only pass it on: what they
	// produce is followed instead.
	var uses func(fn *ssa.Function, flag ssa.Value, bind map[ssa.Value]constant.Value, depth int) ssa.Instruction
	uses = func(fn *ssa.Function, flag ssa.Value, bind map[ssa.Value]constant.Value, depth int) ssa.Instruction {
		r := specializeAt(fn, bind, cd.tables, 0)
		var found ssa.Instruction
		tainted := map[ssa.Value]bool{flag: true}
		work := []ssa.Value{flag}
		for len(work) > 0 && found == nil {
			v := work[len(work)-1]
			work = work[:len(work)-1]
			if v.Referrers() == nil {
				continue
			}
			for _, in := range *v.Referrers() {
				if found != nil {
					break
				}
				if in.Block() == nil || !r.Exec[in.Block()] {
					continue
				}
				switch x := in.(type) {
				case *ssa.DebugRef:
					continue
				case *ssa.ChangeType, *ssa.Convert, *ssa.Phi, *ssa.BinOp, *ssa.UnOp:
					if u, isU := x.(*ssa.UnOp); isU && u.Op != token.NOT {
						found = in
						continue
					}
					if val := x.(ssa.Value); !tainted[val] {
						tainted[val] = true
						work = append(work, val)
					}
					continue
				case *ssa.Call:
					if cal := x.Common().StaticCallee(); cal != nil && cal.Blocks != nil && cal.Pkg == fn.Pkg && cal != fn && depth < maxInline && !x.Common().IsInvoke() {
						sub := map[ssa.Value]constant.Value{}
						for i, arg := range x.Common().Args {
							if i >= len(cal.Params) {
								break
							}
							if l := r.get(arg); l.k == cst && !l.nilc && l.tbl == nil && l.v != nil && l.v.Kind() != constant.Unknown {
								sub[cal.Params[i]] = l.v
							}
						}
						for i, arg := range x.Common().Args {
							if i < len(cal.Params) && arg == v {
								if u := uses(cal, cal.Params[i], sub, depth+1); u != nil {
									found = u
								}
							}
						}
						continue
					}
				}
				found = in
			}
		}
		return found
	}
	handled := cd.handledTypes(f, 2)
	n := 0
	for _, t := range sortedTypes(handled) {
		name := cd.typeName[t]
		if name == "" {
			name = fmt.Sprintf("type%d", t)
		}
		if ints[name] {
			continue
		}
		n++
		a.Evals++
		u := uses(f, f.Params[4], cd.bind(f, spec{t, -1}), 0)
		if u == nil {
			a.hold(rule, "flag-scope@"+name, w.pos(f.Pos()), "the code that decodes this type never reads the unsigned flag")
		} else {
			a.viol(rule, "flag-scope@"+name, w.posOf(u), "the decoding of %s reads the mapper's unsigned flag (%s): the flag is defined for integer columns only, and every other type is stored identically with or without UNSIGNED - its text must depend on bytes, type and metadata alone", name, u.String())
		}
	}
	if n < 10 {
		a.undecided(rule, "flag-scope@types", w.pos(f.Pos()), "only %d non-integer column types found in the value decoder (expected at least 10): shape not recognised", n)
	}
}

// canonSignExt rewrites the shift form of a sign extension into the conversion form the tables use:
// int64(x<<k)>>k (arithmetic shift of the signed value) is int64(intN(x)) for N = 64-k in {8,16,32}, and x for k = 0.
var (
	signExtRe  = regexp.MustCompile(`\(>> conv<int64>\(\(<< (.+?) (\d+)\)\) (\d+)\)`)
	signExt0Re = regexp.MustCompile(`\(>> (conv<int64>\([^()]*(?:\([^()]*\)[^()]*)*\)) 0\)`)
)

func canonSignExt(t string) string {
	t = signExt0Re.ReplaceAllString(t, "$1")
	return signExtRe.ReplaceAllStringFunc(t, func(m string) string {
		sm := signExtRe.FindStringSubmatch(m)
		if sm == nil || sm[2] != sm[3] {
			return m
		}
		switch sm[2] {
		case "56":
			return "conv<int64>(conv<int8>(" + sm[1] + "))"
		case "48":
			return "conv<int64>(conv<int16>(" + sm[1] + "))"
		case "32":
			return "conv<int64>(conv<int32>(" + sm[1] + "))"
		}
		return m
	})
}
