package main

import (
	"go/constant"
	"go/token"
	"go/types"
	"sort"
	"strings"

	"golang.org/x/tools/go/ssa"
)

// H-arm: arm-label dataflow over the dispatch loop of the parser.

type armPred struct {
	If    *ssa.If
	Name  string
	Entry *ssa.BasicBlock // successor on the edge that enters the arm
}

type Arms struct {
	r     *Roles
	of    map[*ssa.BasicBlock]map[string]bool
	Preds []armPred
	stmt  map[int64]string // StatementType value -> constant name
}

func statementNames(w *World) map[int64]string {
	out := map[int64]string{}
	sc := w.Root.Pkg.Scope()
	for _, n := range sc.Names() {
		c, ok := sc.Lookup(n).(*types.Const)
		if !ok || !namedIs(c.Type(), rootPath, "StatementType") {
			continue
		}
		if v, ok := constant.Int64Val(c.Val()); ok {
			out[v] = strings.TrimPrefix(n, "Statement")
		}
	}
	return out
}

// edgeLabel returns the arm entered by following edge k (0 true, 1 false) of
// the If ending block b; "" if the edge does not enter an arm.
func (ar *Arms) edgeLabel(iff *ssa.If, k int) string {
	r := ar.r
	switch c := iff.Cond.(type) {
	case *ssa.Call:
		cc := c.Common()
		if cc.IsInvoke() && len(cc.Args) == 0 && namedIs(cc.Value.Type(), replPath, "BinlogEvent") {
			name := cc.Method.Name()
			if cc.Value == r.RawEv {
				if name == "IsValid" {
					if k == 1 {
						return "invalid"
					}
					return ""
				}
				name = "raw." + name
			}
			if k == 0 {
				return name
			}
			return ""
		}
		if f := cc.StaticCallee(); f != nil && f.Name() == "IsZero" && f.Signature.Recv() != nil &&
			namedIs(f.Signature.Recv().Type(), replPath, "BinlogFormat") && k == 0 {
			return "formatZero"
		}
	case *ssa.Extract:
		if c.Tuple == r.Select && c.Index == 1 && k == 1 {
			return "closed"
		}
	case *ssa.BinOp:
		if c.Op != token.EQL {
			return ""
		}
		if ex, ok := c.X.(*ssa.Extract); ok && ex.Tuple == r.Select && ex.Index == 0 {
			if n, ok := constInt(c.Y); ok && n >= 1 && k == 0 {
				return "done"
			}
			return ""
		}
		x, y := c.X, c.Y
		if _, ok := x.(*ssa.Const); ok {
			x, y = y, x
		}
		if namedIs(x.Type(), rootPath, "StatementType") && k == 0 {
			if n, ok := constInt(y); ok {
				if s, ok := ar.stmt[n]; ok {
					return "Query/" + s
				}
				return "Query/?" + y.Name()
			}
		}
	}
	return ""
}

func armAnalysis(w *World, r *Roles) *Arms {
	ar := &Arms{r: r, of: map[*ssa.BasicBlock]map[string]bool{}, stmt: statementNames(w)}
	head := r.LoopHead
	add := func(b *ssa.BasicBlock, s map[string]bool) bool {
		_, seen := ar.of[b]
		if !seen {
			ar.of[b] = map[string]bool{}
		}
		ch := !seen
		for k := range s {
			if !ar.of[b][k] {
				ar.of[b][k] = true
				ch = true
			}
		}
		return ch
	}
	// blocks before the loop: "init"
	for _, b := range r.Parser.Blocks {
		if b != head && b.Dominates(head) {
			ar.of[b] = map[string]bool{"init": true}
		}
	}
	ar.of[head] = map[string]bool{"-": true}
	wl := []*ssa.BasicBlock{head}
	seenPred := map[*ssa.If]bool{}
	for len(wl) > 0 {
		b := wl[len(wl)-1]
		wl = wl[:len(wl)-1]
		iff, _ := lastInstr(b).(*ssa.If)
		for k, s := range b.Succs {
			if s == head {
				continue
			}
			out := ar.of[b]
			if iff != nil {
				if l := ar.edgeLabel(iff, k); l != "" {
					out = map[string]bool{l: true}
					if !seenPred[iff] {
						seenPred[iff] = true
						ar.Preds = append(ar.Preds, armPred{iff, l, s})
					}
				}
			}
			if add(s, out) {
				wl = append(wl, s)
			}
		}
	}
	sort.Slice(ar.Preds, func(i, j int) bool { return ar.Preds[i].If.Block().Index < ar.Preds[j].If.Block().Index })
	return ar
}

func (ar *Arms) label(b *ssa.BasicBlock) string {
	var as []string
	for a := range ar.of[b] {
		as = append(as, a)
	}
	sort.Strings(as)
	if len(as) == 0 {
		return "unreached"
	}
	return strings.Join(as, "|")
}

func (ar *Arms) set(b *ssa.BasicBlock) []string {
	var as []string
	for a := range ar.of[b] {
		as = append(as, a)
	}
	sort.Strings(as)
	return as
}

// entries returns the entry blocks of the arm with the given name.
func (ar *Arms) entries(name string) []*ssa.BasicBlock {
	var out []*ssa.BasicBlock
	for _, p := range ar.Preds {
		if p.Name == name {
			out = append(out, p.Entry)
		}
	}
	return out
}

func (ar *Arms) names() []string {
	seen := map[string]bool{}
	var out []string
	for _, p := range ar.Preds {
		if !seen[p.Name] {
			seen[p.Name] = true
			out = append(out, p.Name)
		}
	}
	sort.Strings(out)
	return out
}

// guardedByAuto: block b is reached only through the true edge of a test of a
// load of the autocommit cell.
func guardedBy(b *ssa.BasicBlock, cell *Cell, want bool) bool {
	for _, ce := range dominatingConds(b) {
		if cell.isLoad(ce.Cond) && ce.Val == want {
			return true
		}
	}
	return false
}

// reachesAvoiding: is `target` reachable from `from` without entering any
// block for which stop(b) is true and without following edges for which
// cut(from,k) is true? Blocks are entered at their start; a stop block is never
// traversed.
func reachesAvoiding(from, target *ssa.BasicBlock, stop func(*ssa.BasicBlock) bool, cut func(*ssa.BasicBlock, int) bool) bool {
	seen := map[*ssa.BasicBlock]bool{}
	var dfs func(b *ssa.BasicBlock) bool
	dfs = func(b *ssa.BasicBlock) bool {
		if b == target {
			return true
		}
		if seen[b] {
			return false
		}
		seen[b] = true
		if stop != nil && stop(b) {
			return false
		}
		for k, s := range b.Succs {
			if cut != nil && cut(b, k) {
				continue
			}
			if dfs(s) {
				return true
			}
		}
		return false
	}
	if from == target {
		return true
	}
	if stop != nil && stop(from) {
		return false
	}
	seen[from] = true
	for k, s := range from.Succs {
		if cut != nil && cut(from, k) {
			continue
		}
		if dfs(s) {
			return true
		}
	}
	return false
}
