package main

import (
	"go/constant"
	"go/token"
	"go/types"
	"sort"
	"strings"

	"golang.org/x/tools/go/ssa"
)

// H-arm: arm-label dataflow over the dispatch loop of the parser.

type armPred struct {
	If    *ssa.If
	Name  string
	Entry *ssa.BasicBlock // successor on the edge that enters the arm
}

type armLab struct {
	name string
	g    bool // the path passed the true edge of a test of the "no BEGIN open" flag since it entered the arm
}

type Arms struct {
	r     *Roles
	of    map[*ssa.BasicBlock]map[string]bool
	all   map[*ssa.BasicBlock]map[armLab]bool                     // labels with their guard attribute
	via   map[*ssa.BasicBlock]map[*ssa.BasicBlock]map[armLab]bool // ... per predecessor they arrived through
	Preds []armPred
	stmt  map[int64]string // StatementType value -> constant name
}

func statementNames(w *World) map[int64]string {
	out := map[int64]string{}
	sc := w.Root.Pkg.Scope()
	for _, n := range sc.Names() {
		c, ok := sc.Lookup(n).(*types.Const)
		if !ok || !namedIs(c.Type(), rootPath, "StatementType") {
			continue
		}
		if v, ok := constant.Int64Val(c.Val()); ok {
			out[v] = strings.TrimPrefix(n, "Statement")
		}
	}
	return out
}

// edgeLabel returns the arm entered by following edge k (0 true, 1 false) of
// the If ending block b; "" if the edge does not enter an arm.
func (ar *Arms) edgeLabel(iff *ssa.If, k int) string {
	r := ar.r
	// "case !x:" of a tagless switch keeps the negation as a value: the edges swap
	cond := iff.Cond
	for {
		u, isNot := cond.(*ssa.UnOp)
		if !isNot || u.Op != token.NOT {
			break
		}
		cond, k = u.X, 1-k
	}
	switch c := cond.(type) {
	case *ssa.Call:
		cc := c.Common()
		if cc.IsInvoke() && len(cc.Args) == 0 && namedIs(cc.Value.Type(), replPath, "BinlogEvent") {
			name := cc.Method.Name()
			if cc.Value == r.RawEv {
				if name == "IsValid" {
					if k == 1 {
						return "invalid"
					}
					return ""
				}
				name = "raw." + name
			}
			if k == 0 {
				return name
			}
			return ""
		}
		if f := cc.StaticCallee(); f != nil && f.Name() == "IsZero" && f.Signature.Recv() != nil &&
			namedIs(f.Signature.Recv().Type(), replPath, "BinlogFormat") && k == 0 {
			return "formatZero"
		}
	case *ssa.Extract:
		if r.Select != nil && c.Tuple == ssa.Value(r.Select) && c.Index == 1 && k == 1 {
			return "closed"
		}
		// the receive helper's "no event: channel closed or context done"
		if r.RecvCall != nil && c.Tuple == ssa.Value(r.RecvCall) && c.Index == r.recvOK && k == 1 {
			return "closed"
		}
	case *ssa.BinOp:
		if c.Op != token.EQL {
			return ""
		}
		if ex, ok := c.X.(*ssa.Extract); ok && r.Select != nil && ex.Tuple == ssa.Value(r.Select) && ex.Index == 0 {
			if n, ok := constInt(c.Y); ok && n >= 1 && k == 0 {
				return "done"
			}
			return ""
		}
		x, y := c.X, c.Y
		if _, ok := x.(*ssa.Const); ok {
			x, y = y, x
		}
		if namedIs(x.Type(), rootPath, "StatementType") && k == 0 {
			if n, ok := constInt(y); ok {
				if s, ok := ar.stmt[n]; ok {
					return "Query/" + s
				}
				return "Query/?" + y.Name()
			}
		}
	}
	return ""
}

// condVia: the condition of the If ending b as it reads when b was entered from pred: negations are peeled off (neg tells
// whether an odd number was), and a phi of b itself - a flag variable set on the way in - is replaced by the value it takes
// on that edge.
func condVia(pred, b *ssa.BasicBlock) (ssa.Value, bool, bool) {
	iff, ok := lastInstr(b).(*ssa.If)
	if !ok {
		return nil, false, false
	}
	c := iff.Cond
	neg := false
	peel := func() {
		for {
			u, isNot := c.(*ssa.UnOp)
			if !isNot || u.Op != token.NOT {
				return
			}
			c, neg = u.X, !neg
		}
	}
	peel()
	if phi, isPhi := c.(*ssa.Phi); isPhi && phi.Block() == b && pred != nil {
		for i, p := range b.Preds {
			if p == pred {
				c = phi.Edges[i]
				peel()
				break
			}
		}
	}
	// a flag that is not a bool: `reason != ""`, `state == 2` with reason/state a phi of b set to constants on the way in
	if bo, isBin := c.(*ssa.BinOp); isBin && (bo.Op == token.EQL || bo.Op == token.NEQ) && pred != nil {
		x, y := bo.X, bo.Y
		if _, xc := x.(*ssa.Const); xc {
			x, y = y, x
		}
		phi, isPhi := x.(*ssa.Phi)
		kc, isConst := y.(*ssa.Const)
		if isPhi && isConst && phi.Block() == b && kc.Value != nil {
			for i, p := range b.Preds {
				if p != pred {
					continue
				}
				if ec, ok := phi.Edges[i].(*ssa.Const); ok && ec.Value != nil {
					eq := constant.Compare(ec.Value, token.EQL, kc.Value)
					if bo.Op == token.NEQ {
						eq = !eq
					}
					return ssa.NewConst(constant.MakeBool(eq), types.Typ[types.Bool]), neg, true
				}
			}
		}
	}
	return c, neg, true
}

// isFlagTest: b ends in a test of (the negation of) one of its own phis.
func isFlagTest(b *ssa.BasicBlock) bool {
	iff, ok := lastInstr(b).(*ssa.If)
	if !ok {
		return false
	}
	c := iff.Cond
	for {
		u, isNot := c.(*ssa.UnOp)
		if !isNot || u.Op != token.NOT {
			break
		}
		c = u.X
	}
	if phi, isPhi := c.(*ssa.Phi); isPhi && phi.Block() == b {
		return true
	}
	if bo, isBin := c.(*ssa.BinOp); isBin && (bo.Op == token.EQL || bo.Op == token.NEQ) {
		for _, pair := range [][2]ssa.Value{{bo.X, bo.Y}, {bo.Y, bo.X}} {
			phi, isPhi := pair[0].(*ssa.Phi)
			_, isConst := pair[1].(*ssa.Const)
			if isPhi && isConst && phi.Block() == b {
				return true
			}
		}
	}
	return false
}

// nilPhiVia: b ends in a nil test of one of its own phis (a result variable set on the ways in and tested right after
// the merge). Entered from pred, is the phi known to be nil / non-nil?
func nilPhiVia(pred, b *ssa.BasicBlock) (known, nonNil, nonNilOnTrue bool) {
	iff, ok := lastInstr(b).(*ssa.If)
	if !ok {
		return
	}
	x, onTrue, ok := nilTest(iff.Cond)
	if !ok {
		return
	}
	phi, isPhi := x.(*ssa.Phi)
	if !isPhi || phi.Block() != b {
		return
	}
	for i, p := range b.Preds {
		if p != pred {
			continue
		}
		v := phi.Edges[i]
		switch {
		case isNilConst(v):
			return true, false, onTrue
		case nonNilAt(v, pred):
			return true, true, onTrue
		}
	}
	return
}

// isPathTest: the outcome of b's test can depend on the edge b was entered by.
func isPathTest(b *ssa.BasicBlock) bool {
	if isFlagTest(b) {
		return true
	}
	iff, ok := lastInstr(b).(*ssa.If)
	if !ok {
		return false
	}
	x, _, ok := nilTest(iff.Cond)
	if !ok {
		return false
	}
	phi, isPhi := x.(*ssa.Phi)
	return isPhi && phi.Block() == b
}

// feasibleVia: can edge k of b be taken when b was entered from pred? Only a flag test whose flag is a constant on that
// edge is ever decided.
func feasibleVia(pred, b *ssa.BasicBlock, k int) bool {
	if pred != nil {
		if known, nonNil, nonNilOnTrue := nilPhiVia(pred, b); known {
			return (k == 0) == (nonNil == nonNilOnTrue)
		}
	}
	if pred == nil || !isFlagTest(b) {
		return true
	}
	c, neg, ok := condVia(pred, b)
	if !ok {
		return true
	}
	v, isC := constBool(c)
	if !isC {
		return true
	}
	return (k == 0) == (v != neg)
}

func armAnalysis(w *World, r *Roles) *Arms {
	ar := &Arms{r: r, of: map[*ssa.BasicBlock]map[string]bool{}, stmt: statementNames(w),
		all: map[*ssa.BasicBlock]map[armLab]bool{}, via: map[*ssa.BasicBlock]map[*ssa.BasicBlock]map[armLab]bool{}}
	head := r.LoopHead
	add := func(b, from *ssa.BasicBlock, s map[armLab]bool) bool {
		if ar.all[b] == nil {
			ar.all[b] = map[armLab]bool{}
			ar.of[b] = map[string]bool{}
			ar.via[b] = map[*ssa.BasicBlock]map[armLab]bool{}
		}
		if ar.via[b][from] == nil {
			ar.via[b][from] = map[armLab]bool{}
		}
		ch := false
		for k := range s {
			if !ar.via[b][from][k] {
				ar.via[b][from][k] = true
				ch = true
			}
			if !ar.all[b][k] {
				ar.all[b][k] = true
				ar.of[b][k.name] = true
				ch = true
			}
		}
		return ch
	}
	// blocks before the loop: "init"
	for _, b := range r.Parser.Blocks {
		if b != head && b.Dominates(head) {
			ar.of[b] = map[string]bool{"init": true}
			ar.all[b] = map[armLab]bool{{"init", false}: true}
		}
	}
	ar.of[head] = map[string]bool{"-": true}
	ar.all[head] = map[armLab]bool{{"-", false}: true}
	wl := []*ssa.BasicBlock{head}
	seenPred := map[*ssa.If]bool{}
	isAuto := func(v ssa.Value) bool { return r.Auto != nil && v != nil && r.Auto.isLoad(v) }
	for len(wl) > 0 {
		b := wl[len(wl)-1]
		wl = wl[:len(wl)-1]
		iff, _ := lastInstr(b).(*ssa.If)
		for k, s := range b.Succs {
			if s == head {
				continue
			}
			out := map[armLab]bool{}
			if iff != nil && isFlagTest(b) && b != head && len(ar.via[b]) > 0 {
				for p, set := range ar.via[b] {
					if !feasibleVia(p, b, k) {
						continue
					}
					c, neg, _ := condVia(p, b)
					trueEdge := (k == 0) != neg
					for l := range set {
						if isAuto(c) && trueEdge {
							l.g = true
						}
						out[l] = true
					}
				}
			} else {
				var c ssa.Value
				neg := false
				if iff != nil {
					c, neg, _ = condVia(nil, b)
				}
				trueEdge := (k == 0) != neg
				for l := range ar.all[b] {
					if isAuto(c) && trueEdge {
						l.g = true
					}
					out[l] = true
				}
			}
			if iff != nil {
				if l := ar.edgeLabel(iff, k); l != "" {
					out = map[armLab]bool{{l, false}: true}
					if !seenPred[iff] {
						seenPred[iff] = true
						ar.Preds = append(ar.Preds, armPred{iff, l, s})
					}
				} else if k == 1 {
					// the false edge of "kind == X": paths already known to be of kind X do not take it
					if lx := ar.edgeLabel(iff, 0); strings.HasPrefix(lx, "Query/") {
						pruned := map[armLab]bool{}
						for l := range out {
							if l.name != lx {
								pruned[l] = true
							}
						}
						out = pruned
					}
				}
			}
			if add(s, b, out) {
				wl = append(wl, s)
			}
		}
	}
	sort.Slice(ar.Preds, func(i, j int) bool { return ar.Preds[i].If.Block().Index < ar.Preds[j].If.Block().Index })
	return ar
}

// unguarded: can block b be reached in arm `name` without having passed the true edge of a test of the flag?
func (ar *Arms) unguarded(b *ssa.BasicBlock, name string) bool {
	return ar.all[b][armLab{name, false}]
}

func (ar *Arms) label(b *ssa.BasicBlock) string {
	var as []string
	for a := range ar.of[b] {
		as = append(as, a)
	}
	sort.Strings(as)
	if len(as) == 0 {
		return "unreached"
	}
	return strings.Join(as, "|")
}

func (ar *Arms) set(b *ssa.BasicBlock) []string {
	var as []string
	for a := range ar.of[b] {
		as = append(as, a)
	}
	sort.Strings(as)
	return as
}

// entries returns the entry blocks of the arm with the given name.
func (ar *Arms) entries(name string) []*ssa.BasicBlock {
	var out []*ssa.BasicBlock
	for _, p := range ar.Preds {
		if p.Name == name {
			out = append(out, p.Entry)
		}
	}
	return out
}

func (ar *Arms) names() []string {
	seen := map[string]bool{}
	var out []string
	for _, p := range ar.Preds {
		if !seen[p.Name] {
			seen[p.Name] = true
			out = append(out, p.Name)
		}
	}
	sort.Strings(out)
	return out
}

// guardedByAuto: block b is reached only through the true edge of a test of a
// load of the autocommit cell.
func guardedBy(b *ssa.BasicBlock, cell *Cell, want bool) bool {
	for _, ce := range dominatingConds(b) {
		if cell.isLoad(ce.Cond) && ce.Val == want {
			return true
		}
	}
	return false
}

// reachesAvoiding: is `target` reachable from `from` without entering any
// block for which stop(b) is true and without following edges for which
// cut(from,k) is true? Blocks are entered at their start; a stop block is never
// traversed.
func reachesAvoiding(from, target *ssa.BasicBlock, stop func(*ssa.BasicBlock) bool, cut func(*ssa.BasicBlock, int) bool) bool {
	var cutP func(pred, b *ssa.BasicBlock, k int) bool
	if cut != nil {
		cutP = func(_, b *ssa.BasicBlock, k int) bool { return cut(b, k) }
	}
	return reachesAvoidingP(from, target, stop, cutP)
}

// reachesAvoidingP is reachesAvoiding with the predecessor known to cut, and with flag tests threaded: an edge out of a
// block that tests its own phi is followed only if the value the phi takes on the edge the path came in by allows it.
func reachesAvoidingP(from, target *ssa.BasicBlock, stop func(*ssa.BasicBlock) bool, cut func(pred, b *ssa.BasicBlock, k int) bool) bool {
	type node struct{ b, pred *ssa.BasicBlock }
	seen := map[node]bool{}
	var dfs func(b, pred *ssa.BasicBlock) bool
	dfs = func(b, pred *ssa.BasicBlock) bool {
		if b == target {
			return true
		}
		n := node{b, nil}
		if isPathTest(b) {
			n.pred = pred
		}
		if seen[n] {
			return false
		}
		seen[n] = true
		if stop != nil && stop(b) {
			return false
		}
		for k, s := range b.Succs {
			if !feasibleVia(pred, b, k) {
				continue
			}
			if cut != nil && cut(pred, b, k) {
				continue
			}
			if dfs(s, b) {
				return true
			}
		}
		return false
	}
	if from == target {
		return true
	}
	if stop != nil && stop(from) {
		return false
	}
	seen[node{from, nil}] = true
	for k, s := range from.Succs {
		if cut != nil && cut(nil, from, k) {
			continue
		}
		if dfs(s, from) {
			return true
		}
	}
	return false
}

// armCut: edges a path of the given arm cannot take - at a test "kind == Y" a path of arm Query/X goes the true way iff X is Y.
func (ar *Arms) armCut(arm string) func(pred, b *ssa.BasicBlock, k int) bool {
	return func(_, b *ssa.BasicBlock, k int) bool {
		if !strings.HasPrefix(arm, "Query/") {
			return false
		}
		iff, ok := lastInstr(b).(*ssa.If)
		if !ok {
			return false
		}
		ly := ar.edgeLabel(iff, 0)
		if !strings.HasPrefix(ly, "Query/") {
			return false
		}
		if ly == arm {
			return k == 1
		}
		return k == 0
	}
}
