package main

import (
	"go/token"
	"go/types"
	"strings"

	"golang.org/x/tools/go/ssa"
)

// Roles are the constructs of the root package that the streamer rules talk
// about. Exported API names are anchors by name; everything else is located by
// role from them.
type Roles struct {
	Stream, ErrorM, SetPos, NewStreamer *ssa.Function
	GetPos                              *ssa.Function // callee of parser init: loads nowPos
	Parser                              *ssa.Function
	ParserCall                          *ssa.Call // the call of Parser inside Stream
	Commit, Begin                       *ssa.Function
	CommitMC, BeginMC                   *ssa.MakeClosure
	Pos, Tran, Auto, Err                *Cell
	StateT                              types.Type // when the transaction state is an object with methods: its struct type
	Tables                              ssa.Value  // the make(map[uint64]*tableCache)
	Select                              *ssa.Select
	RecvCall                            *ssa.Call // when the receive select lives in a helper: the parser's call of it
	recvOK                              int       // ... and the index of its bool result
	RawEv                               ssa.Value // the event extracted from the select
	IsValidCall                         *ssa.Call
	StripCall                           *ssa.Call
	StrippedEv                          ssa.Value
	FormatPhi                           ssa.Value // the `format` variable at the loop head
	LoopHead                            *ssa.BasicBlock

	NewConn, StartDump, Reader, ReadEvent, Prepare, CloseConn *ssa.Function
	GoInstr                                                   *ssa.Go
	StartDumpCall, NewConnCall                                *ssa.Call
	HandlerField                                              *types.Var // Streamer.sendTransaction
	ErrChanField                                              *types.Var // Streamer.errChan
	ConnErrChan, ConnDC                                       *types.Var // slaveConnection.errChan / .dc
	EventChan                                                 *ssa.MakeChan
}

func isBinlogEventChan(t types.Type) bool {
	ch, ok := t.Underlying().(*types.Chan)
	return ok && namedIs(ch.Elem(), replPath, "BinlogEvent")
}

func resolveRoles(a *A, rule string) *Roles { return resolveRolesG(a, rule, "ptc") }

// resolveRolesG resolves only the groups of roles a check needs, so that a rewrite of one part of the package cannot make
// the anchors of an unrelated check fail: "p" = the parser's dispatch skeleton (select, received event, validity gate,
// checksum stripping, format variable, table cache), "t" = the transaction state (commit/begin closures, position, buffer
// and flag cells), "c" = the connection side (constructor, dump starter, reader goroutine, packet decoder, close).
func resolveRolesG(a *A, rule string, groups string) *Roles {
	w := a.W
	r := &Roles{}
	want := func(g string) bool { return strings.Contains(groups, g) }
	r.Stream = w.method(w.Root, "Streamer", "Stream")
	r.ErrorM = w.method(w.Root, "Streamer", "Error")
	r.SetPos = w.method(w.Root, "Streamer", "SetBinlogPosition")
	r.NewStreamer = w.fn(w.Root, "NewStreamer")
	if !a.need(r.Stream != nil, rule, "Streamer.Stream") || !a.need(r.ErrorM != nil, rule, "Streamer.Error") ||
		!a.need(r.SetPos != nil, rule, "Streamer.SetBinlogPosition") || !a.need(r.NewStreamer != nil, rule, "NewStreamer") {
		return nil
	}
	// struct fields by type
	st := w.namedType(w.Root, "Streamer").Underlying().(*types.Struct)
	for i := 0; i < st.NumFields(); i++ {
		f := st.Field(i)
		if namedIs(f.Type(), rootPath, "SendTransactionFunc") {
			r.HandlerField = f
		}
		if ch, ok := f.Type().Underlying().(*types.Chan); ok && typeIs(ch.Elem(), rootPath, "Error") {
			r.ErrChanField = f
		}
	}
	if !a.need(r.HandlerField != nil, rule, "Streamer field of type SendTransactionFunc") ||
		!a.need(r.ErrChanField != nil, rule, "Streamer field of type chan *Error") {
		return nil
	}
	// parser: static callee of Stream receiving a <-chan BinlogEvent
	instrs(r.Stream, func(in ssa.Instruction) {
		c, ok := in.(*ssa.Call)
		if !ok {
			return
		}
		f := c.Common().StaticCallee()
		if f == nil || f.Pkg != w.Root {
			return
		}
		for _, p := range f.Params {
			if isBinlogEventChan(p.Type()) {
				r.Parser, r.ParserCall = f, c
			}
		}
		res := f.Signature.Results()
		for i := 0; i < res.Len(); i++ {
			if isBinlogEventChan(res.At(i).Type()) {
				r.StartDump, r.StartDumpCall = f, c
			}
			if typeIs(res.At(i).Type(), rootPath, "slaveConnection") {
				r.NewConn, r.NewConnCall = f, c
			}
		}
	})
	if r.Parser == nil {
		// Stream split into steps: the parser is called by an in-package function Stream calls (the checks of the parser's
		// own skeleton do not care where it is called from; those that relate the call to Stream's other steps still need
		// it in Stream itself and say so)
		for f := range reachableInPkg([]*ssa.Function{r.Stream}, w.Root) {
			instrs(f, func(in ssa.Instruction) {
				c, ok := in.(*ssa.Call)
				if !ok {
					return
				}
				g := c.Common().StaticCallee()
				if g == nil || g.Pkg != w.Root || r.Parser != nil {
					return
				}
				takes, gives := false, false
				for _, p := range g.Params {
					if isBinlogEventChan(p.Type()) {
						takes = true
					}
				}
				res := g.Signature.Results()
				for i := 0; i < res.Len(); i++ {
					if isBinlogEventChan(res.At(i).Type()) {
						gives = true
					}
				}
				if takes && !gives && !want("c") {
					r.Parser, r.ParserCall = g, c
				}
			})
		}
	}
	if (want("p") || want("t")) && !a.need(r.Parser != nil, rule, "parser (callee of Stream taking <-chan BinlogEvent)") {
		return nil
	}
	if r.StartDump == nil && want("r") && !want("c") {
		// reader-side rules only need the dump starter itself, wherever Stream's steps call it from
		for f := range reachableInPkg([]*ssa.Function{r.Stream}, w.Root) {
			res := f.Signature.Results()
			for i := 0; i < res.Len(); i++ {
				if isBinlogEventChan(res.At(i).Type()) && f.Blocks != nil {
					// the one that starts the reader goroutine, if the work is split over several
					hasGo := false
					instrs(f, func(in ssa.Instruction) {
						if _, ok := in.(*ssa.Go); ok {
							hasGo = true
						}
					})
					if r.StartDump == nil || hasGo {
						r.StartDump = f
					}
				}
			}
		}
	}
	if want("r") && !want("c") && !a.need(r.StartDump != nil, rule, "dump starter (function reachable from Stream returning <-chan BinlogEvent)") {
		return nil
	}
	if want("r") && !want("c") {
		// the dump starter may delegate the goroutine to a step function: take the one that holds the go statement
		hasGo := func(f *ssa.Function) bool {
			found := false
			instrs(f, func(in ssa.Instruction) {
				if _, ok := in.(*ssa.Go); ok {
					found = true
				}
			})
			return found
		}
		if !hasGo(r.StartDump) {
			for f := range reachableInPkg([]*ssa.Function{r.StartDump}, w.Root) {
				if f != r.StartDump && f.Parent() == nil && hasGo(f) {
					r.StartDump = f
				}
			}
		}
	}
	if want("c") && (!a.need(r.StartDump != nil, rule, "dump starter (callee of Stream returning <-chan BinlogEvent)") ||
		!a.need(r.NewConn != nil, rule, "connection constructor (callee of Stream returning *slaveConnection)")) {
		return nil
	}
	if want("t") {
		// closures of the parser: commit = the one that (itself or through nested closures) calls the handler;
		// begin = a niladic one that clears a captured bool (the open/closed flag) and does not call the handler
		callsHandler := func(f *ssa.Function) bool {
			found := false
			var walk func(g *ssa.Function)
			walk = func(g *ssa.Function) {
				instrs(g, func(in ssa.Instruction) {
					if c := callCommon(in); c != nil && !c.IsInvoke() && namedIs(c.Value.Type(), rootPath, "SendTransactionFunc") {
						found = true
					}
				})
				for _, n := range g.AnonFuncs {
					walk(n)
				}
			}
			walk(f)
			return found
		}
		for _, an := range r.Parser.AnonFuncs {
			if callsHandler(an) {
				// several closures may call the handler (that is C02-R1's business); the commit closure is the one taking the event
				takesEvent := an.Signature.Params().Len() == 1 && namedIs(an.Signature.Params().At(0).Type(), replPath, "BinlogEvent")
				if r.Commit == nil || takesEvent {
					r.Commit = an
				}
				continue
			}
			if an.Signature.Params().Len() != 0 || an.Signature.Results().Len() != 0 {
				continue
			}
			clearsFlag := false
			instrs(an, func(in ssa.Instruction) {
				if st, ok := in.(*ssa.Store); ok {
					if b, isC := constBool(st.Val); isC && !b {
						if _, isFV := st.Addr.(*ssa.FreeVar); isFV {
							clearsFlag = true
						}
					}
				}
			})
			if clearsFlag {
				r.Begin = an
			}
		}
		// no closure calls the handler: the state may be an object whose methods the parser calls - the commit method is the
		// method of an in-package struct type, called by the parser, that calls the handler; that type holds the cells
		if r.Commit == nil {
			instrs(r.Parser, func(in ssa.Instruction) {
				c, ok := in.(*ssa.Call)
				if !ok || c.Common().IsInvoke() {
					return
				}
				m := c.Common().StaticCallee()
				if m == nil || m.Pkg != w.Root || m.Signature.Recv() == nil || !callsHandler(m) {
					return
				}
				pt, isPtr := m.Signature.Recv().Type().Underlying().(*types.Pointer)
				if !isPtr {
					return
				}
				if _, isStruct := pt.Elem().Underlying().(*types.Struct); isStruct && !typeIs(pt.Elem(), rootPath, "Streamer") {
					r.Commit, r.StateT = m, pt.Elem()
				}
			})
		}
		if r.StateT != nil {
			st := r.StateT.Underlying().(*types.Struct)
			fns := w.srcFuncs(w.Root)
			for i := 0; i < st.NumFields(); i++ {
				ft := st.Field(i).Type()
				switch {
				case namedIs(ft, rootPath, "Position"):
					r.Pos = newFieldCell(r.StateT, i, fns, r.Parser)
				case types.Identical(ft, types.Typ[types.Bool]):
					r.Auto = newFieldCell(r.StateT, i, fns, r.Parser)
				default:
					if sl, ok := ft.Underlying().(*types.Slice); ok && typeIs(sl.Elem(), rootPath, "StreamEvent") {
						r.Tran = newFieldCell(r.StateT, i, fns, r.Parser)
					}
				}
			}
			// begin: a niladic method of the state type that stores false into the flag
			for _, f := range fns {
				if f.Signature.Recv() == nil || f == r.Commit || f.Signature.Params().Len() != 0 || f.Signature.Results().Len() != 0 {
					continue
				}
				if pt, ok := f.Signature.Recv().Type().Underlying().(*types.Pointer); !ok || !types.Identical(pt.Elem(), r.StateT) {
					continue
				}
				instrs(f, func(in ssa.Instruction) {
					if st, ok := in.(*ssa.Store); ok && r.Auto != nil && r.Auto.isAddr(st.Addr) {
						if b, isC := constBool(st.Val); isC && !b {
							r.Begin = f
						}
					}
				})
			}
			cellKeepFns[r.Commit] = true
			if r.Begin != nil {
				cellKeepFns[r.Begin] = true
			}
			if !a.need(r.Pos != nil, rule, "position field of the transaction state object") ||
				!a.need(r.Tran != nil, rule, "buffer field ([]*StreamEvent) of the transaction state object") ||
				!a.need(r.Auto != nil, rule, "flag field (bool) of the transaction state object") {
				return nil
			}
			// exactly one state object per parser run: one allocation site of the type, in the parser or in a constructor the
			// parser calls once before its loop
			nAlloc := 0
			for _, f := range fns {
				instrs(f, func(in ssa.Instruction) {
					if al, ok := in.(*ssa.Alloc); ok && types.Identical(al.Type().(*types.Pointer).Elem(), r.StateT) {
						nAlloc++
					}
				})
			}
			if !a.need(nAlloc == 1, rule, "a single allocation site of the transaction state object") {
				return nil
			}
			// position getter: the initial value of the position field
			for _, s := range r.Pos.stores() {
				if s.Field == "" {
					if c, ok := s.val().(*ssa.Call); ok {
						if f := c.Common().StaticCallee(); f != nil && f.Pkg == w.Root && f != r.Commit {
							r.GetPos = f
						}
					}
				}
			}
			if !a.need(r.GetPos != nil, rule, "position getter (initialiser of the position field)") {
				return nil
			}
		} else {
			// the begin closure is optional: its two statements may be written out in the BEGIN arm instead
			if !a.need(r.Commit != nil, rule, "commit closure (closure of the parser that calls the handler)") {
				return nil
			}
			instrs(r.Parser, func(in ssa.Instruction) {
				switch x := in.(type) {
				case *ssa.MakeClosure:
					if x.Fn == r.Commit {
						r.CommitMC = x
					}
					if x.Fn == r.Begin {
						r.BeginMC = x
					}
				}
			})
			if !a.need(r.CommitMC != nil && (r.BeginMC != nil || r.Begin == nil), rule, "closure construction sites") {
				return nil
			}
			// cells captured by the commit closure, by type
			for _, b := range r.CommitMC.Bindings {
				al, ok := b.(*ssa.Alloc)
				if !ok {
					continue
				}
				et := al.Type().(*types.Pointer).Elem()
				switch {
				case namedIs(et, rootPath, "Position"):
					r.Pos = newCell(al)
				case types.Identical(et, types.Typ[types.Bool]):
					r.Auto = newCell(al)
				case types.Identical(et, types.Universe.Lookup("error").Type()):
					r.Err = newCell(al)
				default:
					if sl, ok := et.Underlying().(*types.Slice); ok && typeIs(sl.Elem(), rootPath, "StreamEvent") {
						r.Tran = newCell(al)
					}
				}
			}
			if !a.need(r.Pos != nil, rule, "position cell (Position variable captured by the commit closure)") ||
				!a.need(r.Tran != nil, rule, "transaction buffer cell ([]*StreamEvent captured by the commit closure)") ||
				!a.need(r.Auto != nil, rule, "autocommit cell (bool captured by the commit closure)") {
				return nil
			}
			// the position cell is initialised from a method that loads nowPos
			for _, s := range r.Pos.stores() {
				if s.Fn == r.Parser && s.Field == "" {
					if c, ok := s.Store.Val.(*ssa.Call); ok {
						if f := c.Common().StaticCallee(); f != nil && f.Pkg == w.Root {
							r.GetPos = f
						}
					}
				}
			}
			if !a.need(r.GetPos != nil, rule, "position getter (initialiser of the position cell)") {
				return nil
			}
		} // closures
	} // txn
	if want("p") {
		instrs(r.Parser, func(in ssa.Instruction) {
			switch x := in.(type) {
			case *ssa.Select:
				if r.Select == nil {
					r.Select = x
				}
			case *ssa.MakeMap:
				if m, ok := x.Type().Underlying().(*types.Map); ok && typeIs(m.Elem(), rootPath, "tableCache") {
					r.Tables = x
				}
			}
		})
		if r.Select == nil {
			// the receive lives in a helper ("next event or stop"): an in-package function the parser calls that holds the
			// one blocking select over the event channel and returns the event together with a bool
			instrs(r.Parser, func(in ssa.Instruction) {
				c, ok := in.(*ssa.Call)
				if !ok || r.RecvCall != nil {
					return
				}
				g := c.Common().StaticCallee()
				if g == nil || g.Blocks == nil || g.Pkg != w.Root {
					return
				}
				res := g.Signature.Results()
				evIdx, okIdx := -1, -1
				for i := 0; i < res.Len(); i++ {
					if namedIs(res.At(i).Type(), replPath, "BinlogEvent") {
						evIdx = i
					}
					if isBoolType(res.At(i).Type()) {
						okIdx = i
					}
				}
				nSel := 0
				recvs := false
				instrs(g, func(i2 ssa.Instruction) {
					if s, ok := i2.(*ssa.Select); ok && s.Blocking {
						nSel++
						for _, st := range s.States {
							if st.Dir == types.RecvOnly && isBinlogEventChan(st.Chan.Type()) {
								recvs = true
							}
						}
					}
				})
				if res.Len() == 2 && evIdx >= 0 && okIdx >= 0 && nSel == 1 && recvs {
					r.RecvCall, r.recvOK = c, okIdx
					for _, ref := range *c.Referrers() {
						if ex, ok := ref.(*ssa.Extract); ok && ex.Index == evIdx {
							r.RawEv = ex
						}
					}
				}
			})
		}
		if !a.need(r.Select != nil || r.RecvCall != nil, rule, "parser select") || !a.need(r.Tables != nil, rule, "table cache map") {
			return nil
		}
		// select → raw event → IsValid → StripChecksum
		if r.Select != nil {
			r.LoopHead = r.Select.Block()
			for _, ref := range *r.Select.Referrers() {
				if ex, ok := ref.(*ssa.Extract); ok && namedIs(ex.Type(), replPath, "BinlogEvent") {
					r.RawEv = ex
				}
			}
		} else {
			r.LoopHead = r.RecvCall.Block()
		}
		// `var ev Event` assigned in one select case and used after the select: the uses see a phi of the received event
		// and zero constants
		if ex, ok := r.RawEv.(*ssa.Extract); ok && ex.Referrers() != nil {
			var phis []*ssa.Phi
			other := 0
			for _, ref := range *ex.Referrers() {
				switch x := ref.(type) {
				case *ssa.Phi:
					if len(phis) == 0 || phis[len(phis)-1] != x {
						phis = append(phis, x)
					}
				case *ssa.DebugRef:
				default:
					other++
				}
			}
			if other == 0 && len(phis) == 1 {
				okPhi := true
				for _, e := range phis[0].Edges {
					if e == ssa.Value(ex) {
						continue
					}
					if c, isC := e.(*ssa.Const); !isC || c.Value != nil {
						okPhi = false
					}
				}
				if okPhi {
					r.RawEv = phis[0]
				}
			}
		}
		if !a.need(r.RawEv != nil, rule, "received event (extract of the parser select)") {
			return nil
		}
		instrs(r.Parser, func(in ssa.Instruction) {
			c, ok := in.(*ssa.Call)
			if !ok || !c.Common().IsInvoke() {
				return
			}
			switch c.Common().Method.Name() {
			case "IsValid":
				if c.Common().Value == r.RawEv && r.IsValidCall == nil {
					r.IsValidCall = c
				}
			case "StripChecksum":
				if r.StripCall == nil {
					r.StripCall = c
				}
			}
		})
		if !a.need(r.IsValidCall != nil, rule, "IsValid() call on the received event") ||
			!a.need(r.StripCall != nil, rule, "StripChecksum call in the parser") {
			return nil
		}
		for _, ref := range *r.StripCall.Referrers() {
			if ex, ok := ref.(*ssa.Extract); ok && ex.Index == 0 {
				r.StrippedEv = ex
			}
		}
		if !a.need(r.StrippedEv != nil, rule, "stripped event (result 0 of StripChecksum)") {
			return nil
		}
		if len(r.StripCall.Common().Args) == 1 {
			r.FormatPhi = r.StripCall.Common().Args[0]
		}
		if !a.need(r.FormatPhi != nil, rule, "format variable (argument of StripChecksum)") {
			return nil
		}
	} // parser core

	if want("c") || want("r") {
		// connection side
		instrs(r.StartDump, func(in ssa.Instruction) {
			switch x := in.(type) {
			case *ssa.Go:
				if r.GoInstr == nil {
					r.GoInstr = x
				}
			case *ssa.MakeChan:
				if isBinlogEventChan(x.Type()) {
					r.EventChan = x
				}
			}
		})
		if r.GoInstr == nil {
			// the goroutine is started by a step function the dump starter calls
			for f := range reachableInPkg([]*ssa.Function{r.StartDump}, w.Root) {
				if f == r.StartDump || f.Parent() != nil {
					continue
				}
				instrs(f, func(in ssa.Instruction) {
					switch x := in.(type) {
					case *ssa.Go:
						if r.GoInstr == nil {
							r.GoInstr = x
						}
					case *ssa.MakeChan:
						if isBinlogEventChan(x.Type()) && r.EventChan == nil {
							r.EventChan = x
						}
					}
				})
			}
		}
		if a.need(r.GoInstr != nil, rule, "go statement in the dump starter") {
			switch v := r.GoInstr.Call.Value.(type) {
			case *ssa.MakeClosure:
				r.Reader = v.Fn.(*ssa.Function)
			case *ssa.Function:
				r.Reader = v
			}
		}
		if !a.need(r.Reader != nil, rule, "reader goroutine body") || !a.need(r.EventChan != nil, rule, "event channel make") {
			return nil
		}
		// the packet decoder: the function reachable from the reader that itself calls ReadPacket (not the reader's own body)
		for f := range reachableIn(w.Root, r.Reader) {
			if f == r.Reader {
				continue
			}
			calls := false
			instrs(f, func(i2 ssa.Instruction) {
				if cc := callCommon(i2); cc != nil && isInvokeOf(cc, "ReadPacket") {
					calls = true
				}
			})
			if calls && (r.ReadEvent == nil || f.Pos() < r.ReadEvent.Pos()) {
				r.ReadEvent = f
			}
		}
		if !a.need(r.ReadEvent != nil, rule, "packet decoder (reader's callee that calls ReadPacket)") {
			return nil
		}
		if !want("c") {
			a.touch(r.Stream, r.StartDump, r.Reader, r.ReadEvent)
			return r
		}
		instrs(r.NewConn, func(in ssa.Instruction) {
			if c, ok := in.(*ssa.Call); ok {
				if f := c.Common().StaticCallee(); f != nil && f.Pkg == w.Root {
					instrs(f, func(i2 ssa.Instruction) {
						if cc := callCommon(i2); cc != nil && isInvokeOf(cc, "Exec") {
							r.Prepare = f
						}
					})
				}
			}
		})
		sc := w.namedType(w.Root, "slaveConnection")
		if a.need(sc != nil, rule, "slaveConnection type") {
			st := sc.Underlying().(*types.Struct)
			for i := 0; i < st.NumFields(); i++ {
				f := st.Field(i)
				if ch, ok := f.Type().Underlying().(*types.Chan); ok && typeIs(ch.Elem(), rootPath, "Error") {
					r.ConnErrChan = f
				}
				if namedIs(f.Type(), rootPath, "dumpConn") {
					r.ConnDC = f
				}
			}
		}
		// close: method of *slaveConnection deferred in Stream
		instrs(r.Stream, func(in ssa.Instruction) {
			if d, ok := in.(*ssa.Defer); ok {
				if f := d.Call.StaticCallee(); f != nil && f.Pkg == w.Root && f.Signature.Recv() != nil &&
					typeIs(f.Signature.Recv().Type(), rootPath, "slaveConnection") {
					r.CloseConn = f
				}
			}
		})
		if r.CloseConn == nil {
			// fall back: the method that reaches dc.Close
			r.CloseConn = w.method(w.Root, "slaveConnection", "close")
		}
		if r.Prepare == nil {
			// not reachable from the constructor: any function of the package that calls Exec (C07 decides whether it runs)
			for _, f := range w.srcFuncs(w.Root) {
				instrs(f, func(i2 ssa.Instruction) {
					if cc := callCommon(i2); cc != nil && isInvokeOf(cc, "Exec") && r.Prepare == nil {
						r.Prepare = f
					}
				})
			}
		}
		if !a.need(r.ConnErrChan != nil && r.ConnDC != nil, rule, "slaveConnection fields (chan *Error, dumpConn)") ||
			!a.need(r.CloseConn != nil, rule, "connection close method") {
			return nil
		}
	} // conn
	a.touch(r.Stream, r.ErrorM, r.SetPos, r.NewStreamer, r.GetPos, r.Parser, r.Commit, r.Begin,
		r.NewConn, r.StartDump, r.Reader, r.ReadEvent, r.CloseConn)
	if r.Prepare != nil {
		a.touch(r.Prepare)
	}
	return r
}

// loadOfField: v is `*(&base.field)` for the given struct field; returns base.
func loadOfField(v ssa.Value, field *types.Var) (ssa.Value, bool) {
	u, ok := v.(*ssa.UnOp)
	if !ok || u.Op != token.MUL {
		return nil, false
	}
	fa, ok := u.X.(*ssa.FieldAddr)
	if !ok {
		return nil, false
	}
	st := fa.X.Type().Underlying().(*types.Pointer).Elem().Underlying().(*types.Struct)
	if st.Field(fa.Field) != field {
		return nil, false
	}
	return fa.X, true
}

func isFieldAddrOf(v ssa.Value, field *types.Var) bool {
	fa, ok := v.(*ssa.FieldAddr)
	if !ok {
		return false
	}
	st := fa.X.Type().Underlying().(*types.Pointer).Elem().Underlying().(*types.Struct)
	return st.Field(fa.Field) == field
}

// commitCalls / beginCalls: the calls of the commit / begin role in the parser (and its closures): calls of the closure
// value, or static calls of the method when the state is an object.
func (r *Roles) commitCalls() []*ssa.Call { return r.roleCalls(r.Commit, r.CommitMC) }
func (r *Roles) beginCalls() []*ssa.Call  { return r.roleCalls(r.Begin, r.BeginMC) }

func (r *Roles) roleCalls(fn *ssa.Function, mc *ssa.MakeClosure) []*ssa.Call {
	var out []*ssa.Call
	if mc != nil {
		for _, ref := range *mc.Referrers() {
			if c, ok := ref.(*ssa.Call); ok && c.Common().Value == ssa.Value(mc) {
				out = append(out, c)
			}
		}
		return out
	}
	if fn == nil || r.Parser == nil {
		return nil
	}
	fns := append([]*ssa.Function{r.Parser}, r.Parser.AnonFuncs...)
	for _, f := range fns {
		instrs(f, func(in ssa.Instruction) {
			if c, ok := in.(*ssa.Call); ok && c.Common().StaticCallee() == fn && !c.Common().IsInvoke() {
				out = append(out, c)
			}
		})
	}
	return out
}

// isRoleCall: x calls the commit (or begin) role.
func (r *Roles) isRoleCall(x *ssa.Call, fn *ssa.Function, mc *ssa.MakeClosure) bool {
	if mc != nil {
		return x.Common().Value == ssa.Value(mc)
	}
	return fn != nil && x.Common().StaticCallee() == fn && !x.Common().IsInvoke()
}

// isFormat: v is the parser's current format - the loop variable itself or, when a closure captures `format` and go/ssa
// therefore keeps it in memory, a load of that variable's cell.
func (r *Roles) isFormat(v ssa.Value) bool {
	if v == r.FormatPhi {
		return true
	}
	cell := func(x ssa.Value) ssa.Value {
		if u, ok := x.(*ssa.UnOp); ok && u.Op == token.MUL {
			if al, ok := u.X.(*ssa.Alloc); ok {
				return al
			}
		}
		return nil
	}
	c := cell(r.FormatPhi)
	return c != nil && cell(v) == c
}
