package main

import (
	"fmt"
	"go/token"
	"regexp"

	"golang.org/x/tools/go/ssa"
)

func init() {
	register("C07", propMeta{
		Explanation: "Decided almost entirely, because the property is about which values reach two driver calls, in which order and how often: (R1) the Exec call whose constant argument sets " +
			"@master_binlog_checksum is passed on every path from Stream's entry to the dump request, and its failure edge returns without dumping; (R2) the set of driver-connection calls in the " +
			"library is exactly {Exec, NoticeDump, ReadPacket, HandleErrorPacket, Close}, with one NoticeDump site, outside any loop, reached once per Stream call; (R3) NoticeDump's server id is " +
			"Streamer.serverID as stored by NewStreamer from its parameter (no conversion), its offset is uint32(P.Offset) and its file P.Filename of the same Position P = the stored position read in " +
			"this Stream call, and its flags argument is the constant 0 (blocking). Not decided: the driver's packet encoding (read, trusted).",
		Rule:        "instances = dumpConn call sites in the library, arguments of NoticeDump, stores of Streamer.serverID",
		Trusted:     append([]string{"driver: NoticeDump(serverID, offset uint32, filename string, flags uint16) encodes COM_BINLOG_DUMP with these values"}, commonTrusted...),
		Assumptions: []string{"the analysers see non-test files only"},
	}, runC07)

	addVariants(
		Variant{ID: "c07-r1-no-checksum-announce", Prop: "C07", File: "slave_connection.go",
			Old: "\tif err := s.prepareForReplication(); err != nil {\n\t\ts.close()\n\t\treturn nil, err\n\t}\n", New: "",
			Expect: "C07-R1 announce-path@"},
		Variant{ID: "c07-r1-wrong-variable", Prop: "C07", File: "slave_connection.go",
			Old: "s.dc.Exec(\"SET @master_binlog_checksum=@@global.binlog_checksum\")", New: "s.dc.Exec(\"SET @master_heartbeat_period=30000000000\")",
			Expect: "C07-R1 announce@"},
		Variant{ID: "c07-r1-failure-ignored", Prop: "C07", File: "slave_connection.go",
			Old: "\tif err := s.prepareForReplication(); err != nil {\n\t\ts.close()\n\t\treturn nil, err\n\t}\n", New: "\tif err := s.prepareForReplication(); err != nil {\n\t\t_log.Errorf(\"%v\", err)\n\t}\n",
			Expect: "C07-R1"},
		Variant{ID: "c07-r3-swapped-u32", Prop: "C07", File: "slave_connection.go",
			Old: "s.dc.NoticeDump(serverID, uint32(pos.Offset), pos.Filename, 0)", New: "s.dc.NoticeDump(uint32(pos.Offset), serverID, pos.Filename, 0)",
			Expect: "C07-R3 dump-arg@"},
		Variant{ID: "c07-r3-nonblocking", Prop: "C07", File: "slave_connection.go",
			Old: "s.dc.NoticeDump(serverID, uint32(pos.Offset), pos.Filename, 0)", New: "s.dc.NoticeDump(serverID, uint32(pos.Offset), pos.Filename, 1)",
			Expect: "C07-R3 dump-arg@"},
		Variant{ID: "c07-r3-offset-4", Prop: "C07", File: "slave_connection.go",
			Old: "s.dc.NoticeDump(serverID, uint32(pos.Offset), pos.Filename, 0)", New: "s.dc.NoticeDump(serverID, uint32(4), pos.Filename, 0)",
			Expect: "C07-R3 dump-arg@"},
		Variant{ID: "c07-r3-serverid-mangled", Prop: "C07", File: "streamer.go",
			Old: "\t\tserverID:    serverID,\n", New: "\t\tserverID:    serverID & 0xffff,\n",
			Expect: "C07-R3 serverid@"},
	)
}

var checksumRe = regexp.MustCompile(`(?i)^\s*set\s+@master_binlog_checksum\s*=\s*@@global\.binlog_checksum\s*;?\s*$`)

func runC07(a *A) {
	r := resolveRolesG(a, "C07-R0", "c")
	if r == nil {
		return
	}
	c07R1(a, r)
	c07R2(a, r)
	c07R3(a, r)
}

func c07R1(a *A, r *Roles) {
	const rule = "C07-R1"
	w := a.W
	if r.Prepare == nil {
		a.viol(rule, "announce@missing", w.pos(r.NewConn.Pos()), "no function of the package issues an Exec on the driver connection: the checksum announcement is gone")
		return
	}
	// the announcing Exec in the preparation function
	var exec *ssa.Call
	instrs(r.Prepare, func(in ssa.Instruction) {
		if c, ok := in.(*ssa.Call); ok && isInvokeOf(c.Common(), "Exec") && len(c.Common().Args) == 1 {
			if s, ok := constString(c.Common().Args[0]); ok && checksumRe.MatchString(s) {
				exec = c
			}
		}
	})
	if exec == nil {
		a.viol(rule, "announce@"+r.Prepare.Name(), w.pos(r.Prepare.Pos()), "no Exec call sets @master_binlog_checksum from the master's global: the master sends checksummed events to a client it believes is checksum-unaware, or refuses the dump")
		return
	}
	a.hold(rule, "announce@"+r.Prepare.Name(), w.posOf(exec), "Exec(SET @master_binlog_checksum=@@global.binlog_checksum)")
	if r.Prepare == r.NewConn {
		// the constructor announces by itself: a connection is handed out only on the nil edge of the Exec's error
		ok := handsOutOnlyAfter(r.NewConn, exec)
		a.check(ok, rule, "announce-path@"+r.NewConn.Name(), w.posOf(exec), "a connection is handed out only after the announcement succeeded", "a connection can be handed out without (or despite a failed) checksum announcement: the dump is requested anyway")
		c07DumpAfterCtor(a, r)
		return
	}
	// its failure edge returns a non-nil error; the call dominates every return
	okDom := true
	for _, ret := range returnsOf(r.Prepare) {
		if !instrDominates(exec, ret) {
			okDom = false
		}
		if isNilConst(ret.Results[0]) {
			// success return: dominated by nil edge of exec's error
			good := false
			for _, ce := range dominatingConds(ret.Block()) {
				x, nonNilOnTrue, ok := nilTest(ce.Cond)
				if ok && x == ssa.Value(exec) && ce.Val != nonNilOnTrue {
					good = true
				}
			}
			if !good {
				okDom = false
			}
		}
	}
	a.check(okDom, rule, "announce-checked@"+r.Prepare.Name(), w.posOf(exec), "announcement precedes every exit; success only when it succeeded", "the announcement can be skipped or its failure ignored")
	// constructor: the preparation call dominates the success return, failure returns no connection
	var prep *ssa.Call
	instrs(r.NewConn, func(in ssa.Instruction) {
		if c, ok := in.(*ssa.Call); ok && c.Common().StaticCallee() == r.Prepare {
			prep = c
		}
	})
	if prep == nil {
		// alternative shape: Stream itself runs the announcement, unconditionally, before the dump
		var sp *ssa.Call
		instrs(r.Stream, func(in ssa.Instruction) {
			if c, ok := in.(*ssa.Call); ok && c.Common().StaticCallee() == r.Prepare {
				sp = c
			}
		})
		okStream := false
		if sp != nil && instrDominates(sp, r.StartDumpCall) {
			for _, ce := range dominatingConds(r.StartDumpCall.Block()) {
				x, nonNilOnTrue, isT := nilTest(ce.Cond)
				if isT && x == ssa.Value(sp) && ce.Val != nonNilOnTrue {
					okStream = true
				}
			}
		}
		a.check(okStream, rule, "announce-path@Stream", w.pos(r.Stream.Pos()), "Stream runs the announcement on every call before the dump and aborts on its failure",
			"neither the connection constructor nor Stream runs the checksum announcement on every path to the dump request (skipped, conditional, or its failure ignored): the master is asked to dump to a connection that never announced checksum awareness")
		return
	}
	ok := handsOutOnlyAfter(r.NewConn, prep)
	a.check(ok, rule, "announce-path@"+r.NewConn.Name(), w.posOf(prep), "a connection is handed out only after the announcement succeeded", "a connection can be handed out without (or despite a failed) checksum announcement: the dump is requested anyway")
	c07DumpAfterCtor(a, r)
}

func c07DumpAfterCtor(a *A, r *Roles) {
	const rule = "C07-R1"
	w := a.W
	// Stream: the constructor call dominates the dump start, which is on its success edge
	var cerr ssa.Value
	for _, ref := range *r.NewConnCall.Referrers() {
		if ex, ok := ref.(*ssa.Extract); ok && isErrType(ex.Type()) {
			cerr = ex
		}
	}
	good := false
	for _, ce := range dominatingConds(r.StartDumpCall.Block()) {
		x, nonNilOnTrue, isT := nilTest(ce.Cond)
		if isT && cerr != nil && x == cerr && ce.Val != nonNilOnTrue {
			good = true
		}
	}
	// the dump runs on the connection that was prepared
	sameConn := false
	if len(r.StartDumpCall.Common().Args) > 0 {
		if ex, ok := r.StartDumpCall.Common().Args[0].(*ssa.Extract); ok && ex.Tuple == ssa.Value(r.NewConnCall) {
			sameConn = true
		}
	}
	a.check(good && sameConn && instrDominates(r.NewConnCall, r.StartDumpCall), rule, "announce-before-dump@Stream", w.posOf(r.StartDumpCall),
		"the dump is requested only on the success edge of the constructor, on that connection", "the dump can be requested without a successfully prepared connection")
}

func c07R2(a *A, r *Roles) {
	const rule = "C07-R2"
	w := a.W
	where := map[string]*ssa.Function{"Exec": r.Prepare, "NoticeDump": r.StartDump, "ReadPacket": r.ReadEvent, "HandleErrorPacket": r.ReadEvent, "Close": nil}
	n := 0
	nd := 0
	for _, f := range w.srcFuncs(w.Root) {
		instrs(f, func(in ssa.Instruction) {
			c := callCommon(in)
			if c == nil || !c.IsInvoke() || !namedIs(c.Value.Type(), rootPath, "dumpConn") {
				return
			}
			a.Calls++
			n++
			m := c.Method.Name()
			key := fmt.Sprintf("conn-call@%s[%s#%d]", f.Name(), m, n)
			want, known := where[m]
			if !known {
				a.viol(rule, key, w.posOf(in), "unexpected driver call %s", m)
				return
			}
			if m == "Close" {
				a.check(f == r.CloseConn || onceBodies(w, r.CloseConn)[f], rule, key, w.posOf(in), "Close in close()", "the driver connection is closed outside close()")
				return
			}
			okLoop := true
			if m == "NoticeDump" || m == "Exec" {
				okLoop = !inCycle(in.Block())
			}
			if m == "NoticeDump" {
				nd++
			}
			inPlace := f == want
			if !inPlace && want != nil && (m == "ReadPacket" || m == "HandleErrorPacket") {
				// ... or in a function that only the packet decoder's code calls
				inPlace = readerPrivate(w, want)[f]
			}
			a.check(inPlace && okLoop, rule, key, w.posOf(in), "in its designated function, not repeated", fmt.Sprintf("driver call %s appears in %s (loop=%v): the handshake sends more than the one announcement and the one dump request", m, f.Name(), !okLoop))
		})
	}
	a.check(nd == 1, rule, "one-dump-request", w.pos(r.StartDump.Pos()), "exactly one NoticeDump call site", fmt.Sprintf("%d NoticeDump call sites", nd))
	// the dump starter and the constructor are each called once in Stream, outside loops
	for name, call := range map[string]*ssa.Call{"dump-start": r.StartDumpCall, "constructor": r.NewConnCall} {
		cnt := 0
		instrs(r.Stream, func(in ssa.Instruction) {
			if c, ok := in.(*ssa.Call); ok && c.Common().StaticCallee() == call.Common().StaticCallee() {
				cnt++
			}
		})
		a.check(cnt == 1 && !inCycle(call.Block()), rule, "once@Stream["+name+"]", w.posOf(call), "called once per Stream call", "called more than once per Stream call")
	}
}

func c07R3(a *A, r *Roles) {
	const rule = "C07-R3"
	w := a.W
	var nd *ssa.Call
	instrs(r.StartDump, func(in ssa.Instruction) {
		if c, ok := in.(*ssa.Call); ok && isInvokeOf(c.Common(), "NoticeDump") {
			nd = c
		}
	})
	if !a.need(nd != nil && len(nd.Common().Args) == 4, rule, "NoticeDump call with 4 arguments") {
		return
	}
	args := nd.Common().Args
	// parameters of the dump starter
	var pID, pPos *ssa.Parameter
	for _, p := range r.StartDump.Params {
		if b := p.Type().Underlying().String(); b == "uint32" {
			pID = p
		}
		if namedIs(p.Type(), rootPath, "Position") {
			pPos = p
		}
	}
	if !a.need(pID != nil && pPos != nil, rule, "serverID and Position parameters of the dump starter") {
		return
	}
	// arg0: the serverID parameter, unconverted
	a.check(resolve(args[0]) == ssa.Value(pID), rule, "dump-arg@server-id", w.posOf(nd), "server id = the serverID parameter, unconverted", "the dump request's server id is "+describe(resolve(args[0]))+", not the configured server id")
	// arg1: uint32(pos.Offset), arg2: pos.Filename of the same Position parameter
	fieldOfParam := func(v ssa.Value, field string) bool {
		v = strip(v)
		switch x := v.(type) {
		case *ssa.Field:
			return fieldNameV(x) == field && resolve(x.X) == ssa.Value(pPos)
		case *ssa.UnOp:
			if x.Op != token.MUL {
				return false
			}
			fa, ok := x.X.(*ssa.FieldAddr)
			if !ok || fieldName(fa) != field {
				return false
			}
			// fa.X is the local copy of the parameter: its only whole store is the parameter
			al, ok := fa.X.(*ssa.Alloc)
			if !ok {
				return false
			}
			okCopy, n := false, 0
			for _, ref := range *al.Referrers() {
				if st, ok := ref.(*ssa.Store); ok && st.Addr == ssa.Value(al) {
					n++
					okCopy = st.Val == ssa.Value(pPos)
				}
				if fa2, ok := ref.(*ssa.FieldAddr); ok {
					for _, rr := range *fa2.Referrers() {
						if st, ok := rr.(*ssa.Store); ok && st.Addr == ssa.Value(fa2) {
							n += 10
						}
					}
				}
			}
			return okCopy && n == 1
		}
		return false
	}
	cs, org := convsBack(args[1])
	okConv := len(cs) == 1 && cs[0].Type().Underlying().String() == "uint32" && cs[0].X.Type().Underlying().String() == "int64"
	a.check(okConv && fieldOfParam(org, "Offset"), rule, "dump-arg@offset", w.posOf(nd), "offset = uint32(P.Offset)", "the dump request's offset is "+describe(org)+", not the Offset of the position passed by Stream")
	a.check(fieldOfParam(args[2], "Filename"), rule, "dump-arg@filename", w.posOf(nd), "file = P.Filename", "the dump request's file name is "+describe(resolve(args[2]))+", not the Filename of the position passed by Stream")
	k, isK := constInt(args[3])
	a.check(isK && k == 0, rule, "dump-arg@flags", w.posOf(nd), "flags = 0 (blocking dump)", "the dump request's flags are not the constant 0: a non-blocking dump ends at the current end of the log")
	// Stream passes s.serverID and the stored position
	sargs := r.StartDumpCall.Common().Args
	var sidField, posOK bool
	for i, p := range r.StartDump.Params {
		if i >= len(sargs) {
			break
		}
		switch p {
		case pID:
			if u, ok := strip(sargs[i]).(*ssa.UnOp); ok && u.Op == token.MUL {
				if fa, ok := u.X.(*ssa.FieldAddr); ok && typeIs(fa.X.Type(), rootPath, "Streamer") && fa.Type().Underlying().String() == "*uint32" {
					sidField = true
					// stores of that field: only in NewStreamer, from its parameter
					c07ServerIDStores(a, r, fa.Field)
				}
			}
		case pPos:
			if c, ok := resolve(sargs[i]).(*ssa.Call); ok && isPositionGetter(w, c.Common().StaticCallee()) {
				posOK = true
			}
		}
	}
	a.check(sidField, rule, "dump-arg@Stream[server-id]", w.posOf(r.StartDumpCall), "Stream passes Streamer.serverID", "Stream does not pass the configured server id to the dump starter")
	a.check(posOK, rule, "dump-arg@Stream[position]", w.posOf(r.StartDumpCall), "Stream passes the stored position read in this call", "Stream does not pass the stored position to the dump starter")
}

func c07ServerIDStores(a *A, r *Roles, fieldIdx int) {
	const rule = "C07-R3"
	w := a.W
	n := 0
	for _, f := range w.srcFuncs(w.Root) {
		instrs(f, func(in ssa.Instruction) {
			st, ok := in.(*ssa.Store)
			if !ok {
				return
			}
			fa, ok := st.Addr.(*ssa.FieldAddr)
			if !ok || fa.Field != fieldIdx || !typeIs(fa.X.Type(), rootPath, "Streamer") {
				return
			}
			n++
			p, isP := st.Val.(*ssa.Parameter)
			a.check(f == r.NewStreamer && isP && p.Type().Underlying().String() == "uint32", rule, fmt.Sprintf("serverid@%s#%d", f.Name(), n), w.posOf(st),
				"server id stored by NewStreamer from its parameter", "the configured server id is altered before it is stored ("+describe(st.Val)+") or stored outside NewStreamer")
		})
	}
	if n == 0 {
		a.viol(rule, "serverid@missing", w.pos(r.NewStreamer.Pos()), "the server id field is never stored")
	}
}

// isPositionGetter: f is a niladic method of *Streamer returning a Position all of whose returns are loads of one and the
// same Position field of the receiver (the stored resume position).
func isPositionGetter(w *World, f *ssa.Function) bool {
	if f == nil || f.Pkg != w.Root || f.Signature.Recv() == nil || !typeIs(f.Signature.Recv().Type(), rootPath, "Streamer") ||
		f.Signature.Params().Len() != 0 || f.Signature.Results().Len() != 1 || !namedIs(f.Signature.Results().At(0).Type(), rootPath, "Position") {
		return false
	}
	field := ""
	rets := returnsOf(f)
	for _, ret := range rets {
		v := resolve(ret.Results[0])
		if ta, ok := v.(*ssa.TypeAssert); ok {
			v = resolve(ta.X)
		}
		var fa *ssa.FieldAddr
		switch x := v.(type) {
		case *ssa.UnOp:
			if x.Op == token.MUL {
				fa, _ = x.X.(*ssa.FieldAddr)
			}
		case *ssa.Call: // (*atomic.Value).Load(&recv.field)
			if staticCalleeIs(x.Common(), "(*sync/atomic.Value).Load") && len(x.Common().Args) == 1 {
				fa, _ = x.Common().Args[0].(*ssa.FieldAddr)
			}
		}
		if fa == nil || fa.X != ssa.Value(f.Params[0]) {
			return false
		}
		if field != "" && field != fieldName(fa) {
			return false
		}
		field = fieldName(fa)
	}
	return len(rets) > 0
}

// handsOutOnlyAfter: every way a return of f yields a non-nil first result (directly, or as an alternative of a phi) is
// reached on the nil edge of a nil test of gate (the error of the announcement).
func handsOutOnlyAfter(f *ssa.Function, gate ssa.Value) bool {
	okAll := true
	onNilEdge := func(b *ssa.BasicBlock, succ *ssa.BasicBlock) bool {
		conds := dominatingConds(b)
		if iff, ok := lastInstr(b).(*ssa.If); ok && succ != nil && b.Succs[0] != b.Succs[1] {
			c, val := iff.Cond, b.Succs[0] == succ
			for {
				u, isNot := c.(*ssa.UnOp)
				if !isNot || u.Op != token.NOT {
					break
				}
				c, val = u.X, !val
			}
			conds = append(conds, condEdge{iff, c, val})
		}
		for _, ce := range conds {
			x, nonNilOnTrue, isT := nilTest(ce.Cond)
			if isT && x == gate && ce.Val != nonNilOnTrue {
				return true
			}
		}
		return false
	}
	var walk func(v ssa.Value, at *ssa.BasicBlock, succ *ssa.BasicBlock, d int)
	walk = func(v ssa.Value, at *ssa.BasicBlock, succ *ssa.BasicBlock, d int) {
		if isNilConst(v) {
			return
		}
		if phi, ok := v.(*ssa.Phi); ok && d < 4 {
			for i, e := range phi.Edges {
				walk(e, phi.Block().Preds[i], phi.Block(), d+1)
			}
			return
		}
		if !onNilEdge(at, succ) {
			okAll = false
		}
	}
	for _, ret := range returnsOf(f) {
		walk(ret.Results[0], ret.Block(), nil, 0)
	}
	return okAll
}
