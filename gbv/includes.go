package main

import "strings"

// Rules decided by one property that are necessary conditions of another property's statement as well. The including
// check runs them (quick tier) and reports their instances under their own rule ids, so that a change which breaks the
// shared condition is reported by every property whose statement it breaks, not only by the rule's home property.
//
//	C01 (the handler sees exactly the committed transactions with every column's name, type and value text; v1/v2 rows,
//	     4/6-byte ids, partial images, GTID on/off, CRC on/off) is the conjunction of the clause properties: it includes
//	    <- C02 (grouping), C09 (row splitting), C10-C14 (value text per column type), C15 (table map and metadata),
//	       C16 (checksum stripping, header and body layouts) whole, C04 R6 (no accepted event skips the dispatch),
//	       C08 R2/R4 (values are not shared storage)
//	C03 (labels chain, exact resume points) <- C04 R2/R3/R6 (the cell moves only at an accepted commit and at a rotation; no accepted event skips the dispatch)
//	C08 (delivered data is private)         <- C02 R4 (the buffer handed to the handler is replaced, not re-sliced)
//	C03, C04 (labels are resume points; the next attempt starts at the kept position) <- C07 R3 (the request carries the stored file and offset)
//	C10-C14 (value text of a column type)   <- C15 R5 and C09 R2 for the column types of that property (per-type metadata
//	                                           layout; the length rule agrees with the value decoder)
//	C12 (timestamp text)                    <- C08 R2 (a returned value aliases only the event buffer or fresh memory)
//	C13 (NULL / empty / absent)             <- C09 R3 of the streamer's image decoders (ordinal / NULL index / offset bookkeeping)
var propIncludes = map[string][]inc{
	"C01": {
		{"C02", nil}, {"C09", nil}, {"C10", nil}, {"C11", nil}, {"C12", nil}, {"C13", nil}, {"C14", nil}, {"C15", nil}, {"C16", nil},
		{"C04", map[string]func(string) bool{"C04-R6": nil}},
		{"C08", map[string]func(string) bool{"C08-R2": nil, "C08-R4": nil}},
	},
	"C03": {
		{"C04", map[string]func(string) bool{"C04-R2": nil, "C04-R3": nil, "C04-R6": nil}},
		{"C07", map[string]func(string) bool{"C07-R3": resumeArgs}},
	},
	"C04": {{"C07", map[string]func(string) bool{"C07-R3": resumeArgs}}},
	"C08": {{"C02", map[string]func(string) bool{"C02-R4": nil}}},
	"C10": {{"C15", map[string]func(string) bool{"C15-R5": metaTypes(typesC10...)}}, {"C09", map[string]func(string) bool{"C09-R2": cellTypes(typesC10...)}}},
	"C11": {{"C15", map[string]func(string) bool{"C15-R5": metaTypes(typesC11...)}}, {"C09", map[string]func(string) bool{"C09-R2": cellTypes(typesC11...)}}},
	"C12": {
		{"C15", map[string]func(string) bool{"C15-R5": metaTypes(typesC12...)}},
		{"C09", map[string]func(string) bool{"C09-R2": cellTypes(typesC12...)}},
		{"C08", map[string]func(string) bool{"C08-R2": nil}},
	},
	"C13": {
		{"C15", map[string]func(string) bool{"C15-R5": metaTypes(typesC13...)}},
		{"C09", map[string]func(string) bool{"C09-R2": cellTypes(typesC13...), "C09-R3": func(key string) bool { return !strings.HasPrefix(key, "skeleton@Rows[") }}},
	},
	"C14": {{"C15", map[string]func(string) bool{"C15-R5": metaTypes("TypeJSON")}}, {"C09", map[string]func(string) bool{"C09-R2": cellTypes("TypeJSON")}}},
}

var (
	typesC10 = []string{"TypeTiny", "TypeShort", "TypeInt24", "TypeLong", "TypeLongLong", "TypeYear", "TypeFloat", "TypeDouble", "TypeBit", "TypeEnum", "TypeSet", "TypeString"}
	typesC11 = []string{"TypeDecimal", "TypeNewDecimal"}
	typesC12 = []string{"TypeDate", "TypeNewDate", "TypeTime", "TypeDateTime", "TypeTimestamp", "TypeTimestamp2", "TypeDateTime2", "TypeTime2"}
	typesC13 = []string{"TypeVarchar", "TypeVarString", "TypeString", "TypeTinyBlob", "TypeMediumBlob", "TypeLongBlob", "TypeBlob", "TypeGeometry"}
)

// resumeArgs: the instances of C07-R3 that say the dump request carries the stored position (file and offset).
func resumeArgs(key string) bool {
	return key == "dump-arg@offset" || key == "dump-arg@filename" || strings.HasPrefix(key, "dump-arg@Stream[position]")
}

// cellTypes selects the instances of C09-R2 (length rule = value decoder) of the given column types.
func cellTypes(names ...string) func(string) bool {
	return func(key string) bool {
		for _, n := range names {
			if strings.HasPrefix(key, "agree@cell["+n+"]") || strings.HasPrefix(key, "agree@cell["+n+",") {
				return true
			}
		}
		return false
	}
}

type inc struct {
	prop  string
	rules map[string]func(string) bool
}

func metaTypes(names ...string) func(string) bool {
	return func(key string) bool {
		if key == "metadata@all" {
			return true
		}
		for _, n := range names {
			if key == "metadata@"+n {
				return true
			}
		}
		return false
	}
}

func runProp(id string, a *A) {
	props[id].run(a)
	for _, i := range propIncludes[id] {
		a.include(i.prop, i.rules)
	}
}
