package main

import "strings"

// Rules decided by one property that are necessary conditions of another property's statement as well. The including
// check runs them (quick tier) and reports their instances under their own rule ids, so that a change which breaks the
// shared condition is reported by every property whose statement it breaks, not only by the rule's home property.
// The table below is the whole policy; DESIGN.md 9.4/9.5 gives the reason for each line.
var propIncludes = map[string][]inc{
	"C01": {
		{"C02", nil}, {"C09", nil}, {"C10", nil}, {"C11", nil}, {"C12", nil}, {"C13", nil}, {"C14", nil}, {"C15", nil}, {"C16", nil},
		{"C04", rules("C04-R6", "C04-R7")},
		{"C08", nil},
	},
	// grouping needs every event to reach its arm and the statement text to be the master's
	"C02": {{"C04", rules("C04-R6", "C04-R7")}, {"C16", map[string]func(string) bool{"C16-R4": prefix("layout@Query", "endian@Query"), "C16-R5": nil, "C16-R6": nil}}},
	"C03": {
		{"C04", rules("C04-R2", "C04-R3", "C04-R6", "C04-R7")},
		{"C07", map[string]func(string) bool{"C07-R3": resumeArgs}},
		{"C16", map[string]func(string) bool{"C16-R1": nil, "C16-R2": nil, "C16-R3": prefix("header@NextPosition"), "C16-R4": prefix("layout@Rotate", "endian@Rotate")}},
	},
	// a failure inside the parser (handler, table lookup, decode) must end the attempt: if it is swallowed the loop goes on
	// and a later commit moves the kept position past a transaction that was never accepted (C06-R3, parser and commit)
	"C04": {{"C07", map[string]func(string) bool{"C07-R3": resumeArgs}}, {"C06", map[string]func(string) bool{"C06-R3": prefix("errcheck@parseEvents")}}},
	// a decode failure can be reported only if the decode is attempted: every format description is decoded (C16-R6)
	"C06": {{"C16", rules("C16-R6")}},
	"C08": {{"C02", rules("C02-R4")}},
	"C09": {{"C15", rules("C15-R1", "C15-R3", "C15-R5")}, {"C08", rules("C08-R1")}, {"C16", rules("C16-R1", "C16-R6")}},
	"C10": append(chain(typesC10)[:3:3], inc{"C15", rules("C15-R2")}), // C10-R4 is its own rule
	"C11": chain(typesC11),
	"C12": chain(typesC12),
	"C13": chain(typesC13),
	"C14": chain([]string{"TypeJSON"}),
	"C15": {{"C10", rules("C10-R1")}, {"C08", rules("C08-R1")}},
	"C17": {{"C16", map[string]func(string) bool{"C16-R3": prefix("header@")}}},
	// sets "in the canonical form MySQL emits" reach the library as text and as the SID block of PREVIOUS_GTIDS events: the
	// block reader must keep every interval it reads (C19-R4) for the set operations to be about the master's set
	"C18": {{"C19", map[string]func(string) bool{"C19-R4": prefix("keep-all@")}}},
	"C19": {{"C16", map[string]func(string) bool{"C16-R4": prefix("layout@mariadbBinlogEvent.GTID", "layout@mysql56BinlogEvent.GTID", "endian@mariadbBinlogEvent.GTID", "endian@mysql56BinlogEvent.GTID")}}, {"C18", rules("C18-R3")}},
	"C20": {{"C13", map[string]func(string) bool{"C13-R2": prefix("three-way@")}}},
}

// chain: what the value text of a column type depends on before the cell decoder runs - the right table map for the
// rows (C15 R1/R3), its per-type metadata (C15 R5), the packet copied into a private buffer (C08 R1: table-map types and
// string values are windows of it), cells found at the right offsets (C09 R2 for the types, R3-R5), no history dependence
// (C09 R7), no returned value in shared storage (C08 R2).
func chain(types []string) []inc {
	return []inc{
		{"C15", map[string]func(string) bool{"C15-R1": nil, "C15-R3": nil, "C15-R5": metaTypes(types...)}},
		{"C09", map[string]func(string) bool{"C09-R2": cellTypes(types...), "C09-R3": nil, "C09-R4": nil, "C09-R5": nil, "C09-R7": nil}},
		{"C08", rules("C08-R1", "C08-R2")},
		{"C10", map[string]func(string) bool{"C10-R4": flagTypes(types...)}},
	}
}

// flagTypes selects the instances of C10-R4 (no use of the unsigned flag) of the given column types.
func flagTypes(names ...string) func(string) bool {
	return func(key string) bool {
		for _, n := range names {
			if key == "flag-scope@"+n {
				return true
			}
		}
		return false
	}
}

func rules(ids ...string) map[string]func(string) bool {
	m := map[string]func(string) bool{}
	for _, id := range ids {
		m[id] = nil
	}
	return m
}

func prefix(ps ...string) func(string) bool {
	return func(key string) bool {
		for _, p := range ps {
			if strings.HasPrefix(key, p) {
				return true
			}
		}
		return false
	}
}

var (
	typesC10 = []string{"TypeTiny", "TypeShort", "TypeInt24", "TypeLong", "TypeLongLong", "TypeYear", "TypeFloat", "TypeDouble", "TypeBit", "TypeEnum", "TypeSet", "TypeString"}
	typesC11 = []string{"TypeDecimal", "TypeNewDecimal"}
	typesC12 = []string{"TypeDate", "TypeNewDate", "TypeTime", "TypeDateTime", "TypeTimestamp", "TypeTimestamp2", "TypeDateTime2", "TypeTime2"}
	typesC13 = []string{"TypeVarchar", "TypeVarString", "TypeString", "TypeTinyBlob", "TypeMediumBlob", "TypeLongBlob", "TypeBlob", "TypeGeometry"}
)

// resumeArgs: the instances of C07-R3 that say the dump request carries the stored position (file and offset).
func resumeArgs(key string) bool {
	return key == "dump-arg@offset" || key == "dump-arg@filename" || strings.HasPrefix(key, "dump-arg@Stream[position]")
}

// cellTypes selects the instances of C09-R2 (length rule = value decoder) of the given column types.
func cellTypes(names ...string) func(string) bool {
	return func(key string) bool {
		for _, n := range names {
			if strings.HasPrefix(key, "agree@cell["+n+"]") || strings.HasPrefix(key, "agree@cell["+n+",") {
				return true
			}
		}
		return false
	}
}

type inc struct {
	prop  string
	rules map[string]func(string) bool
}

func metaTypes(names ...string) func(string) bool {
	return func(key string) bool {
		if key == "metadata@all" {
			return true
		}
		for _, n := range names {
			if key == "metadata@"+n {
				return true
			}
		}
		return false
	}
}

func runProp(id string, a *A) {
	props[id].run(a)
	for _, i := range propIncludes[id] {
		a.include(i.prop, i.rules)
	}
}
