package main

import (
	"fmt"
	"go/token"
	"go/types"
	"sort"
	"strings"

	"golang.org/x/tools/go/ssa"
)

func init() {
	register("C06", propMeta{
		Explanation: "Decides the reporting discipline structurally: (R1) the parser returns a nil error only on the 'events channel closed' and 'ctx.Done' edges, every other exit returns a " +
			"provably non-nil *Error; (R2) in Stream every *Error converted to error is provably non-nil (no typed nil) and the untyped nil return is dominated by the nil edge of the parser's error; " +
			"(R3) every error-typed result of a call on the stream path (root package, reachable from Stream or the reader) is tested and its non-nil edge ends in a return whose error derives from it " +
			"(one named exception: the best-effort dc.Close()); (R4) the packet decoder wraps exactly the ReadPacket error, the master's error packet (HandleErrorPacket) under buf[0]==PacketERR, and produces " +
			"the EOF sentinel only under buf[0]==PacketEOF; the sentinel is referenced nowhere else but Error(); (R5) the reader sends its reason before closing either channel; (R6) Error() returns nil on " +
			"the received-value path only through equality tests against the sentinels context.Canceled / errStreamEOF, otherwise the received error itself; (R7) the context that filter inspects is the caller's own (Stream's parameter), never one Stream derives and cancels. " +
			"Not decided: timing - Error() also filters when the caller's context is found cancelled at call time even if the stream had ended earlier for another reason (pinned by TestStreamer_Error).",
		Rule:        "instances = exits of the parser and of Stream, error-returning call sites on the stream path, exits of the packet decoder, nil-returning paths of Error()",
		Trusted:     append([]string{"driver facts (DESIGN 2): ReadPacket never returns an empty slice with a nil error; HandleErrorPacket decodes the master's code and message"}, commonTrusted...),
		Assumptions: []string{"the analysers see non-test files only"},
	}, runC06)

	addVariants(
		Variant{ID: "c06-r1-swallow-handler-error", Prop: "C06", File: "streamer.go",
			Old: "\t\t\t\treturn pos, newError(err).msgf(\"parseEvents commit fail in XID event\")", New: "\t\t\t\treturn pos, nil",
			Expect: "C06-R1 nil-exit@parser[arm=IsXID"},
		Variant{ID: "c06-r2-typed-nil", Prop: "C06", File: "streamer.go",
			Old: "\tif err != nil {\n\t\treturn err.msgf(\"parseEvents fail in pos: %+v\", err)\n\t}\n\treturn nil\n", New: "\treturn err\n",
			Expect: "C06-R2"},
		Variant{ID: "c06-r3-ignored-rows-error", Prop: "C06", File: "streamer.go",
			Old:    "\t\t\ttranEvent, err := appendInsertEventFromRows(tc, &rows, int64(ev.Timestamp()))\n\t\t\tif err != nil {\n\t\t\t\treturn pos, newError(err)\n\t\t\t}\n",
			New:    "\t\t\ttranEvent, _ := appendInsertEventFromRows(tc, &rows, int64(ev.Timestamp()))\n",
			Expect: "C06-R3 errcheck@parseEvents"},
		Variant{ID: "c06-r3-logged-not-returned", Prop: "C06", File: "streamer.go",
			Old:    "\t\t\tif info, err = s.tableMapper.MysqlTable(name); err != nil {\n\t\t\t\treturn pos, newError(err).msgf(\"parseEvents MysqlTable fail. table: %v\", err)\n\t\t\t}\n",
			New:    "\t\t\tif info, err = s.tableMapper.MysqlTable(name); err != nil {\n\t\t\t\t_log.Errorf(\"parseEvents MysqlTable fail. table: %v\", err)\n\t\t\t\tcontinue\n\t\t\t}\n",
			Expect: "C06-R3 errcheck@parseEvents"},
		Variant{ID: "c06-r4-err-packet-as-eof", Prop: "C06", File: "slave_connection.go",
			Old: "\t\treturn nil, newError(s.dc.HandleErrorPacket(buf)).msgf(\"fetch error packet\")", New: "\t\t_ = s.dc.HandleErrorPacket(buf)\n\t\treturn nil, newError(errStreamEOF).msgf(\"fetch error packet\")",
			Expect: "C06-R4"},
		Variant{ID: "c06-r4-readerr-as-eof", Prop: "C06", File: "slave_connection.go",
			Old: "\t\treturn nil, newError(err).msgf(\"readPacket fail.\")", New: "\t\t_ = err\n\t\treturn nil, newError(errStreamEOF).msgf(\"readPacket fail.\")",
			Expect: "C06-R4"},
		Variant{ID: "c06-r5-close-before-publish", Prop: "C06", File: "slave_connection.go",
			Old:    "\t\t\t\t_log.Errorf(\"startDumpFromBinlogPosition readBinlogEvent fail. reason: %v\", err)\n\t\t\t\ts.errChan <- err\n\t\t\t\tclose(s.errChan)\n",
			New:    "\t\t\t\t_log.Errorf(\"startDumpFromBinlogPosition readBinlogEvent fail. reason: %v\", err)\n\t\t\t\tclose(eventChan)\n\t\t\t\ts.errChan <- err\n\t\t\t\tclose(s.errChan)\n",
			Expect: "C06-R5 close-order@"},
		Variant{ID: "c06-r7-derived-ctx-kept", Prop: "C06", File: "streamer.go",
			Old: "\ts.ctx = ctx\n\tctx, cancel := context.WithCancel(ctx)\n\tdefer cancel()\n", New: "\tctx, cancel := context.WithCancel(ctx)\n\tdefer cancel()\n\ts.ctx = ctx\n",
			Expect: "C06-R7 filter-ctx@Stream"},
		Variant{ID: "c06-r6-filter-all-after-cancel", Prop: "C06", File: "streamer.go",
			Old: "\t\t\tcase err.Original() == context.Canceled,\n\t\t\t\terr.Original() == errStreamEOF:", New: "\t\t\tcase err.Original() == context.Canceled,\n\t\t\t\terr.Original() == errStreamEOF, err.Original() != nil && len(err.msg) > 64:",
			Expect: "C06-R6 nil-path@Error"},
	)
}

func runC06(a *A) {
	r := resolveRoles(a, "C06-R0")
	if r == nil {
		return
	}
	ar := armAnalysis(a.W, r)
	c06R1(a, r, ar)
	c06R2(a, r)
	c06R3(a, r)
	c06R4(a, r)
	c05R4(a, r, "C06-R5")
	c06R6(a, r)
	c06R7(a, r)
	c06R8(a, r)
}

// R8: (a) the EOF sentinel is a value of its own - initialised by errors.New / fmt.Errorf in the package initialiser, not
// an alias of another package's error (io.EOF is what a dropped connection returns: it would be filtered as a clean end);
// (b) the reader's exit reason is received from its channel only by Error() (and functions only Error() calls): anything
// else that receives from it - a drain in close(), a logger - consumes the reason before it can be reported.
func c06R8(a *A, r *Roles) {
	const rule = "C06-R8"
	w := a.W
	sentinel := w.Root.Var("errStreamEOF")
	if a.need(sentinel != nil, rule, "EOF sentinel errStreamEOF") {
		var init *ssa.Store
		n := 0
		for _, fn := range w.srcFuncs(w.Root) {
			instrs(fn, func(in ssa.Instruction) {
				if st, ok := in.(*ssa.Store); ok && st.Addr == ssa.Value(sentinel) {
					n++
					init = st
				}
			})
		}
		if init == nil {
			// a package initialiser synthesised by go/ssa
			if pi := w.Root.Func("init"); pi != nil {
				instrs(pi, func(in ssa.Instruction) {
					if st, ok := in.(*ssa.Store); ok && st.Addr == ssa.Value(sentinel) {
						n++
						init = st
					}
				})
			}
		}
		switch {
		case init == nil:
			a.undecided(rule, "sentinel-own@errStreamEOF", "-", "initialisation of the EOF sentinel not found")
		case n != 1:
			a.viol(rule, "sentinel-own@errStreamEOF", w.posOf(init), "the EOF sentinel is assigned %d times", n)
		default:
			c, _ := strip(init.Val).(*ssa.Call)
			if mi, isMI := strip(init.Val).(*ssa.MakeInterface); isMI {
				c, _ = strip(mi.X).(*ssa.Call)
			}
			fresh := false
			if c != nil {
				if cal := c.Common().StaticCallee(); cal != nil && cal.Pkg != nil {
					pp, nm := cal.Pkg.Pkg.Path(), cal.Name()
					fresh = pp == "errors" && nm == "New" || pp == "fmt" && nm == "Errorf"
				}
			}
			a.check(fresh, rule, "sentinel-own@errStreamEOF", w.posOf(init), "a value of its own (errors.New / fmt.Errorf)",
				"the EOF sentinel is "+describe(strip(init.Val))+", not a value of its own: an error of the transport that equals it (a dropped connection returns io.EOF) is filtered by Error() as if the master had ended the stream")
		}
	}
	errPrivate := readerPrivate(w, r.ErrorM)
	isReasonChan := func(v ssa.Value) bool {
		ch, ok := v.Type().Underlying().(*types.Chan)
		return ok && typeIs(ch.Elem(), rootPath, "Error")
	}
	nRecv, bad := 0, 0
	for _, fn := range w.srcFuncs(w.Root) {
		instrs(fn, func(in ssa.Instruction) {
			recv := false
			switch x := in.(type) {
			case *ssa.UnOp:
				recv = x.Op == token.ARROW && isReasonChan(x.X)
			case *ssa.Select:
				for _, st := range x.States {
					if st.Dir == types.RecvOnly && isReasonChan(st.Chan) {
						recv = true
					}
				}
			}
			if !recv {
				return
			}
			nRecv++
			if fn != r.ErrorM && !errPrivate[fn] {
				bad++
				a.viol(rule, fmt.Sprintf("reason-receiver@%s#%d", fn.Name(), bad), w.posOf(in), "%s receives from the channel that carries the reader's exit reason: the reason is consumed before Error() can report it, so a lost connection or a master error ends with Error()==nil", fnName(fn))
			}
		})
	}
	if nRecv == 0 {
		a.undecided(rule, "reason-receiver@Error", w.pos(r.ErrorM.Pos()), "no receive from the reason channel found")
	} else if bad == 0 {
		a.hold(rule, "reason-receiver@Error", w.pos(r.ErrorM.Pos()), "the reason channel is received from only by Error() (%d receive(s))", nRecv)
	}
}

func c06R1(a *A, r *Roles, ar *Arms) {
	const rule = "C06-R1"
	w := a.W
	ord := map[string]int{}
	for _, ret := range returnsOf(r.Parser) {
		lab := ar.label(ret.Block())
		ord[lab]++
		if len(ret.Results) != 2 {
			continue
		}
		ev := ret.Results[1]
		clean := subset(ar.set(ret.Block()), map[string]bool{"closed": true, "done": true})
		if isNilConst(ev) {
			key := fmt.Sprintf("nil-exit@parser[arm=%s#%d]", lab, ord[lab])
			a.check(clean, rule, key, w.posOf(ret), "clean end (channel closed / context done)",
				"the parser reports success on a path that is not a clean end: a handler, decode or lookup failure makes Stream return nil")
			continue
		}
		key := fmt.Sprintf("err-exit@parser[arm=%s#%d]", lab, ord[lab])
		a.check(provablyNonNilErr(ev) || nonNilAt(ev, ret.Block()), rule, key, w.posOf(ret), "returns a provably non-nil *Error", "the parser's error result on this exit may be nil ("+describe(resolve(ev))+")")
	}
	a.atLeast(rule, "err-exit@parser", 3)
	a.atLeast(rule, "nil-exit@parser", 1)
}

func c06R2(a *A, r *Roles) {
	const rule = "C06-R2"
	w := a.W
	n := 0
	instrs(r.Stream, func(in ssa.Instruction) {
		mi, ok := in.(*ssa.MakeInterface)
		if !ok || !typeIs(mi.X.Type(), rootPath, "Error") || !types.Identical(mi.Type(), types.Universe.Lookup("error").Type()) {
			return
		}
		n++
		a.check(nonNilAt(mi.X, mi.Block()), rule, fmt.Sprintf("iface@Stream#%d", n), w.posOf(mi), "converted *Error is non-nil here",
			"a possibly-nil *Error is converted to error: Stream returns a non-nil error interface holding a nil pointer (or a success is reported as failure)")
	})
	// returns
	var perr ssa.Value
	for _, ref := range *r.ParserCall.Referrers() {
		if ex, ok := ref.(*ssa.Extract); ok && isErrType(ex.Type()) {
			perr = ex
		}
	}
	if !a.need(perr != nil, rule, "error result of the parser call in Stream") {
		return
	}
	m := 0
	for _, ret := range returnsOf(r.Stream) {
		m++
		v := resolve(ret.Results[0])
		key := fmt.Sprintf("ret@Stream#%d", m)
		if isNilConst(v) {
			ok := false
			for _, ce := range dominatingConds(ret.Block()) {
				x, nonNilOnTrue, isT := nilTest(ce.Cond)
				if isT && x == perr && ce.Val != nonNilOnTrue {
					ok = true
				}
			}
			a.check(ok, rule, key, w.posOf(ret), "nil only after the parser returned nil", "Stream returns nil on a path where the parser's error was not checked to be nil")
			continue
		}
		_, isMI := ret.Results[0].(*ssa.MakeInterface)
		_, isMI2 := v.(*ssa.MakeInterface)
		a.check(isMI || isMI2 || typeIs(v.Type(), rootPath, "Error") || nonNilAt(v, ret.Block()), rule, key, w.posOf(ret), "returns a wrapped error", "Stream returns "+describe(v)+" whose nil-ness is not established")
	}
	a.atLeast(rule, "ret@Stream", 2)
}

// R3: error discipline on the stream path.
func c06R3(a *A, r *Roles) {
	const rule = "C06-R3"
	w := a.W
	fns := reachableIn(w.Root, r.Stream, r.Reader)
	n := 0
	for f := range fns {
		a.touch(f)
		instrs(f, func(in ssa.Instruction) {
			ci, ok := in.(ssa.CallInstruction)
			if !ok {
				return
			}
			c := ci.Common()
			if _, isB := c.Value.(*ssa.Builtin); isB {
				return
			}
			if ci.Value() == nil { // go / defer
				return
			}
			errs := errResultsOf(ci)
			if len(errs) == 0 {
				// tuple with an unextracted error result
				if tup, ok := ci.Value().Type().(*types.Tuple); ok {
					for i := 0; i < tup.Len(); i++ {
						if isErrType(tup.At(i).Type()) {
							errs = append(errs, nil)
						}
					}
				}
				if len(errs) == 0 {
					return
				}
			}
			a.Calls++
			// constructors of errors are not fallible calls
			if cal := c.StaticCallee(); cal != nil {
				if cal.Pkg != nil && (cal.Pkg.Pkg.Path() == "fmt" || cal.Pkg.Pkg.Path() == "errors") {
					return
				}
				if cal.Pkg == w.Root && (len(returnsOf(cal)) > 0 && (provablyNonNilCtor(cal) || returnsReceiver(cal))) {
					return
				}
			}
			if c.IsInvoke() && (c.Method.Name() == "Err" || c.Method.Name() == "Error") {
				return
			}
			if cal := c.StaticCallee(); cal != nil && infallible[cal.String()] {
				return
			}
			for _, e := range errs {
				n++
				key := fmt.Sprintf("errcheck@%s[%s#%d]", f.Name(), shortCallee(c), n)
				if c.IsInvoke() && c.Method.Name() == "Close" && onceBodies(w, r.CloseConn)[f] {
					a.hold(rule, key, w.posOf(in), "exception: best-effort dc.Close(), result has no consumer")
					continue
				}
				if e == nil || liveRefs(e) == 0 {
					a.viol(rule, key, w.posOf(in), "the error result of %s is dropped: a failure on the stream path is swallowed", shortCallee(c))
					continue
				}
				a.check(errHandled(e, f), rule, key, w.posOf(in), "tested; the failure edge returns an error derived from it",
					fmt.Sprintf("the error of %s is not propagated: its failure edge does not end in a return carrying it", shortCallee(c)))
			}
		})
	}
	a.atLeast(rule, "errcheck@", 8)
}

// documented never to return a non-nil error ("err is always nil")
var infallible = map[string]bool{
	"(*bytes.Buffer).Write": true, "(*bytes.Buffer).WriteString": true, "(*bytes.Buffer).WriteByte": true, "(*bytes.Buffer).WriteRune": true,
	"(*strings.Builder).Write": true, "(*strings.Builder).WriteString": true, "(*strings.Builder).WriteByte": true, "(*strings.Builder).WriteRune": true,
}

func provablyNonNilCtor(f *ssa.Function) bool {
	for _, ret := range returnsOf(f) {
		if len(ret.Results) != 1 {
			return false
		}
		if _, ok := resolve(ret.Results[0]).(*ssa.Alloc); !ok {
			return false
		}
	}
	return true
}

// errHandled: e is returned directly, or tested against nil and every feasible path from the failure edge consumes it -
// a return whose error operand derives from e, a channel send of a value deriving from e (goroutine bodies report through a
// channel), or a call handing it to an in-package function that consumes that parameter on all its paths - before the
// function exits or the fallible call is executed again (which would mean the loop went on as if nothing had happened).
// Feasibility: e is non-nil on the failure edge, and so is every phi that takes e's value on the edge walked; nil tests of
// such values are followed only in the direction they can take.
func errHandled(e ssa.Value, f *ssa.Function) bool {
	direct := false
	for _, ret := range returnsOf(f) {
		for _, res := range ret.Results {
			if isErrType(res.Type()) && derivesFrom(res, e, 0) {
				direct = true
			}
		}
	}
	var origin ssa.Instruction
	if ex, ok := e.(*ssa.Extract); ok {
		origin, _ = ex.Tuple.(ssa.Instruction)
	} else if c, ok := e.(*ssa.Call); ok {
		origin = c
	}
	tested := false
	okAll := true
	for _, b := range f.Blocks {
		iff, ok := lastInstr(b).(*ssa.If)
		if !ok {
			continue
		}
		x, nonNilOnTrue, ok := nilTest(iff.Cond)
		if !ok || x != e {
			continue
		}
		tested = true
		k := 1
		if nonNilOnTrue {
			k = 0
		}
		if !consumedOnAllPaths(b, b.Succs[k], e, origin, 0) {
			okAll = false
		}
	}
	if tested {
		return okAll
	}
	return direct
}

// consumedOnAllPaths walks every feasible path that starts with the edge from->to.
func consumedOnAllPaths(from, to *ssa.BasicBlock, e ssa.Value, origin ssa.Instruction, depth int) bool {
	type key struct {
		b     *ssa.BasicBlock
		facts string
	}
	seen := map[key]bool{}
	ok := true
	var walk func(p, x *ssa.BasicBlock, facts map[ssa.Value]bool)
	walk = func(p, x *ssa.BasicBlock, facts map[ssa.Value]bool) {
		if !ok {
			return
		}
		// phis taking a known non-nil value along this edge
		nf := map[ssa.Value]bool{}
		for v := range facts {
			nf[v] = true
		}
		for i, pr := range x.Preds {
			if pr != p {
				continue
			}
			for _, in := range x.Instrs {
				phi, isPhi := in.(*ssa.Phi)
				if !isPhi {
					break
				}
				if nf[resolve(phi.Edges[i])] || provablyNonNilErr(resolve(phi.Edges[i])) {
					nf[phi] = true
				} else {
					delete(nf, phi)
				}
			}
		}
		var names []string
		for v := range nf {
			names = append(names, v.Name())
		}
		sort.Strings(names)
		kk := key{x, strings.Join(names, ",")}
		if seen[kk] || len(seen) > 5000 {
			return
		}
		seen[kk] = true
		for _, in := range x.Instrs {
			if in == origin {
				ok = false // the fallible call runs again: the failure was swallowed
				return
			}
			switch y := in.(type) {
			case *ssa.Send:
				if derivesFrom(y.X, e, 0) {
					return
				}
			case *ssa.Return:
				for _, res := range y.Results {
					if isErrType(res.Type()) && derivesFrom(res, e, 0) {
						return
					}
				}
				ok = false
				return
			case *ssa.Panic:
				return
			case *ssa.Call:
				cal := y.Common().StaticCallee()
				if cal != nil && cal.Blocks != nil && cal.Pkg == x.Parent().Pkg && depth < 2 {
					for i, arg := range y.Common().Args {
						if i < len(cal.Params) && isErrType(arg.Type()) && derivesFrom(arg, e, 0) && len(cal.Blocks) > 0 {
							if consumesParam(cal, cal.Params[i], depth+1) {
								return
							}
						}
					}
				}
			}
		}
		if iff, isIf := lastInstr(x).(*ssa.If); isIf {
			if v, nonNilOnTrue, isNT := nilTest(iff.Cond); isNT && (nf[v] || v == e) {
				k := 1
				if nonNilOnTrue {
					k = 0
				}
				walk(x, x.Succs[k], nf)
				return
			}
		}
		if len(x.Succs) == 0 {
			ok = false // falls off the function without consuming the error
			return
		}
		for _, s := range x.Succs {
			walk(x, s, nf)
		}
	}
	walk(from, to, map[ssa.Value]bool{resolve(e): true})
	return ok
}

// consumesParam: every path through f sends p on a channel, returns it, or hands it on to a function that does.
func consumesParam(f *ssa.Function, p *ssa.Parameter, depth int) bool {
	if len(f.Blocks) == 0 {
		return false
	}
	// a virtual edge into the entry block
	return consumedOnAllPaths(nil, f.Blocks[0], p, nil, depth)
}

func c06R4(a *A, r *Roles) {
	const rule = "C06-R4"
	w := a.W
	f := r.ReadEvent
	var rp *ssa.Call
	var hep *ssa.Call
	instrs(f, func(in ssa.Instruction) {
		if c, ok := in.(*ssa.Call); ok && c.Common().IsInvoke() {
			switch c.Common().Method.Name() {
			case "ReadPacket":
				rp = c
			case "HandleErrorPacket":
				hep = c
			}
		}
	})
	if !a.need(rp != nil, rule, "ReadPacket call") {
		return
	}
	var buf, rerr ssa.Value
	for _, ref := range *rp.Referrers() {
		if ex, ok := ref.(*ssa.Extract); ok {
			if ex.Index == 0 {
				buf = ex
			} else {
				rerr = ex
			}
		}
	}
	sentinel := w.Root.Var("errStreamEOF")
	if !a.need(buf != nil && rerr != nil, rule, "results of ReadPacket") || !a.need(sentinel != nil, rule, "EOF sentinel errStreamEOF") {
		return
	}
	// classification predicates: buf[0] == <driver constant>
	var classOfBuf func(b *ssa.BasicBlock, buf ssa.Value) map[string]bool
	classOf := func(b *ssa.BasicBlock) map[string]bool { return classOfBuf(b, buf) }
	classOfBuf = func(b *ssa.BasicBlock, buf ssa.Value) map[string]bool {
		out := map[string]bool{}
		for _, ce := range dominatingConds(b) {
			bo, ok := ce.Cond.(*ssa.BinOp)
			if !ok || bo.Op != token.EQL {
				if x, nonNilOnTrue, ok := nilTest(ce.Cond); ok && x == rerr {
					if ce.Val == nonNilOnTrue {
						out["readerr"] = true
					} else {
						out["readok"] = true
					}
				}
				continue
			}
			var g *ssa.Global
			var other ssa.Value
			for _, pair := range [][2]ssa.Value{{bo.X, bo.Y}, {bo.Y, bo.X}} {
				if u, ok := pair[0].(*ssa.UnOp); ok && u.Op == token.MUL {
					if gg, ok := u.X.(*ssa.Global); ok && gg.Pkg != nil && gg.Pkg.Pkg.Path() == drvPath {
						g, other = gg, pair[1]
					}
				}
			}
			if g == nil {
				continue
			}
			// other must be buf[0]
			isFirst := false
			other = resolve(other)
			if u, ok := other.(*ssa.UnOp); ok && u.Op == token.MUL {
				if ia, ok := u.X.(*ssa.IndexAddr); ok && ia.X == buf {
					if k, ok := constInt(ia.Index); ok && k == 0 {
						isFirst = true
					}
				}
			}
			if !isFirst {
				out["?"] = true
				continue
			}
			if ce.Val {
				out[g.Name()] = true
			} else {
				out["!"+g.Name()] = true
			}
		}
		return out
	}
	// a classification helper: an in-package function that is handed the packet and returns the error to report (nil for
	// an event packet). Its returns are the decoder's exits; the classes that hold at its nil returns hold wherever the
	// decoder continues on the nil edge of its result.
	type exit struct {
		ret *ssa.Return
		ev  ssa.Value
		cl  map[string]bool
	}
	var exits []exit
	helperNil := map[ssa.Value]map[string]bool{} // helper call -> classes common to its nil returns
	helperOf := func(v ssa.Value) (*ssa.Call, *ssa.Function, ssa.Value) {
		c, ok := resolve(v).(*ssa.Call)
		if !ok || c.Common().IsInvoke() {
			return nil, nil, nil
		}
		cal := c.Common().StaticCallee()
		if cal == nil || cal.Pkg != w.Root || cal.Blocks == nil || cal.Signature.Results().Len() != 1 || !typeIs(cal.Signature.Results().At(0).Type(), rootPath, "Error") {
			return nil, nil, nil
		}
		for i, arg := range c.Common().Args {
			if arg == buf && i < len(cal.Params) {
				return c, cal, cal.Params[i]
			}
		}
		return nil, nil, nil
	}
	instrs(f, func(in ssa.Instruction) {
		c, ok := in.(*ssa.Call)
		if !ok {
			return
		}
		hc, cal, pbuf := helperOf(c)
		if hc == nil {
			return
		}
		a.touch(cal)
		var common map[string]bool
		for _, r2 := range returnsOf(cal) {
			if !isNilConst(r2.Results[0]) {
				continue
			}
			cl := classOfBuf(r2.Block(), pbuf)
			if common == nil {
				common = cl
			} else {
				for k := range common {
					if !cl[k] {
						delete(common, k)
					}
				}
			}
		}
		helperNil[hc] = common
		// HandleErrorPacket inside the helper, on the packet
		instrs(cal, func(i2 ssa.Instruction) {
			if c2, ok := i2.(*ssa.Call); ok && c2.Common().IsInvoke() && c2.Common().Method.Name() == "HandleErrorPacket" {
				hep = c2
			}
		})
	})
	withHelperNil := func(b *ssa.BasicBlock, cl map[string]bool) map[string]bool {
		for _, ce := range dominatingConds(b) {
			x, nonNilOnTrue, ok := nilTest(ce.Cond)
			if !ok || ce.Val == nonNilOnTrue {
				continue
			}
			if common, isH := helperNil[resolve(x)]; isH {
				for k := range common {
					cl[k] = true
				}
			}
		}
		return cl
	}
	for _, ret := range returnsOf(f) {
		ev := ret.Results[1]
		if hc, cal, pbuf := helperOf(ev); hc != nil {
			base := classOf(ret.Block())
			for _, r2 := range returnsOf(cal) {
				if isNilConst(r2.Results[0]) {
					continue
				}
				cl := classOfBuf(r2.Block(), pbuf)
				for k := range base {
					cl[k] = true
				}
				exits = append(exits, exit{r2, r2.Results[0], cl})
			}
			continue
		}
		exits = append(exits, exit{ret, ev, withHelperNil(ret.Block(), classOf(ret.Block()))})
	}
	isHelperBuf := func(v ssa.Value) bool {
		p, ok := v.(*ssa.Parameter)
		if !ok {
			return false
		}
		for hc := range helperNil {
			_, cal, pbuf := helperOf(hc)
			if cal == p.Parent() && pbuf == ssa.Value(p) {
				return true
			}
		}
		return false
	}
	n := 0
	for _, ex := range exits {
		ret := ex.ret
		n++
		cl := ex.cl
		key := fmt.Sprintf("classify@%s[ret#%d]", ret.Parent().Name(), n)
		ev := ex.ev
		switch {
		case cl["readerr"]:
			a.check(derivesFrom(ev, rerr, 0) && !derivesFrom(ev, sentinel, 0), rule, key, w.posOf(ret), "transport failure wrapped as is", "a failed ReadPacket is not reported with its own error (lost connection reported as something else)")
		case cl["PacketEOF"]:
			a.check(derivesFrom(ev, sentinel, 0), rule, key, w.posOf(ret), "EOF packet -> EOF sentinel", "an EOF packet does not produce the EOF sentinel")
		case cl["PacketERR"]:
			a.check(hep != nil && derivesFrom(ev, hep, 0) && !derivesFrom(ev, sentinel, 0) && len(hep.Common().Args) == 1 && (hep.Common().Args[0] == buf || isHelperBuf(hep.Common().Args[0])), rule, key, w.posOf(ret),
				"master error packet decoded by HandleErrorPacket(buf) and wrapped", "a master error packet is not reported with the master's code and message (or is reported as EOF)")
		case isNilConst(ev):
			a.check(cl["readok"] && cl["!PacketEOF"] && cl["!PacketERR"], rule, key, w.posOf(ret), "event returned only for packets that are neither EOF nor ERR", "a packet is treated as an event without excluding EOF and ERR packets")
		default:
			a.viol(rule, key, w.posOf(ret), "unclassified exit of the packet decoder returning %s", describe(resolve(ev)))
		}
	}
	a.atLeast(rule, "classify@", 4)
	// sentinel referenced only by the decoder (under EOF), Error() (and functions only Error() calls) and init
	errPrivate := readerPrivate(w, r.ErrorM)
	m := 0
	for _, fn := range w.srcFuncs(w.Root) {
		instrs(fn, func(in ssa.Instruction) {
			var ops []*ssa.Value
			for _, op := range in.Operands(ops) {
				if *op == ssa.Value(sentinel) {
					m++
					ok := fn == r.ErrorM || errPrivate[fn] || fn.Name() == "init" || (fn == f && classOf(in.Block())["PacketEOF"])
					// in a classification helper, under its own EOF test of the packet
					for hc := range helperNil {
						if _, cal, pbuf := helperOf(hc); cal == fn && classOfBuf(in.Block(), pbuf)["PacketEOF"] {
							ok = true
						}
					}
					a.check(ok, rule, fmt.Sprintf("sentinel-use@%s#%d", fn.Name(), m), w.posOf(in), "sentinel used by the EOF classification / the filter", "the EOF sentinel is produced or compared somewhere else: another ending can masquerade as the master's EOF")
				}
			}
		})
	}
}

// R7: the cancellation filter of Error() looks at the caller's context, not at one Stream itself cancels.
func c06R7(a *A, r *Roles) {
	const rule = "C06-R7"
	w := a.W
	st := w.namedType(w.Root, "Streamer").Underlying().(*types.Struct)
	var ctxField *types.Var
	for i := 0; i < st.NumFields(); i++ {
		if namedIs(st.Field(i).Type(), "context", "Context") {
			ctxField = st.Field(i)
		}
	}
	if ctxField == nil {
		a.info(rule, "filter-ctx", "-", "Streamer keeps no context: Error() cannot filter on it")
		return
	}
	n := 0
	for _, f := range w.srcFuncs(w.Root) {
		instrs(f, func(in ssa.Instruction) {
			s, ok := in.(*ssa.Store)
			if !ok || !isFieldAddrOf(s.Addr, ctxField) {
				return
			}
			n++
			v := resolve(s.Val)
			p, isParam := v.(*ssa.Parameter)
			okv := f == r.Stream && isParam && p.Parent() == r.Stream
			desc := describe(v)
			if _, der := ctxDerivation(v); der {
				desc = "a context derived (and cancelled) by Stream itself"
			}
			a.check(okv, rule, fmt.Sprintf("filter-ctx@%s#%d", f.Name(), n), w.posOf(s), "Error()'s cancellation filter sees the caller's own context",
				"the context Error() inspects is "+desc+", not the caller's: Stream cancels its derived context on every return, so Error() then treats every ending - lost connection, master error - as a caller cancellation and returns nil")
		})
	}
}

func c06R6(a *A, r *Roles) {
	const rule = "C06-R6"
	w := a.W
	f := r.ErrorM
	sentinel := w.Root.Var("errStreamEOF")
	isSentinelLoad := func(v ssa.Value) bool {
		u, ok := v.(*ssa.UnOp)
		if !ok || u.Op != token.MUL {
			return false
		}
		g, ok := u.X.(*ssa.Global)
		if !ok {
			return false
		}
		if g == sentinel {
			return true
		}
		return g.Pkg != nil && g.Pkg.Pkg.Path() == "context" && g.Name() == "Canceled"
	}
	// the received value and ok
	var recv, okv ssa.Value
	instrs(f, func(in ssa.Instruction) {
		if ex, ok := in.(*ssa.Extract); ok {
			if u, isU := ex.Tuple.(*ssa.UnOp); isU && u.Op == token.ARROW {
				if ex.Index == 0 {
					recv = ex
				} else {
					okv = ex
				}
			}
			if s, isS := ex.Tuple.(*ssa.Select); isS {
				_ = s
				if typeIs(ex.Type(), rootPath, "Error") {
					recv = ex
				}
				if ex.Index == 1 {
					okv = ex
				}
			}
		}
		if u, ok := in.(*ssa.UnOp); ok && u.Op == token.ARROW && !u.CommaOk {
			recv = u
		}
	})
	if !a.need(recv != nil, rule, "received reason in Error()") {
		return
	}
	// allowed edges into nil returns
	var sentinelPred func(p *ssa.Function, depth int) bool
	allowed := func(b *ssa.BasicBlock, k int) bool {
		iff, ok := lastInstr(b).(*ssa.If)
		if !ok {
			return false
		}
		if okv != nil && iff.Cond == okv && k == 1 {
			return true // channel closed without a value
		}
		if x, nonNilOnTrue, ok := nilTest(iff.Cond); ok && loadsField(x, r.ErrChanField) {
			return (k == 0) != nonNilOnTrue // nil channel
		}
		if bo, ok := iff.Cond.(*ssa.BinOp); ok && bo.Op == token.EQL && k == 0 {
			return isSentinelLoad(bo.X) || isSentinelLoad(bo.Y)
		}
		// a predicate of the package that is true only through such equalities
		if c, ok := iff.Cond.(*ssa.Call); ok && k == 0 {
			if cal := c.Common().StaticCallee(); cal != nil && cal.Pkg == w.Root && cal.Blocks != nil && !c.Common().IsInvoke() && sentinelPred != nil {
				return sentinelPred(cal, 0)
			}
		}
		return false
	}
	sentinelPred = func(p *ssa.Function, depth int) bool {
		if depth > 1 {
			return false
		}
		a.touch(p)
		eqAllowed := func(b *ssa.BasicBlock, k int) bool {
			iff, ok := lastInstr(b).(*ssa.If)
			if !ok {
				return false
			}
			bo, ok := iff.Cond.(*ssa.BinOp)
			return ok && bo.Op == token.EQL && k == 0 && (isSentinelLoad(bo.X) || isSentinelLoad(bo.Y))
		}
		viaAllowed := func(b *ssa.BasicBlock) bool {
			return b != p.Blocks[0] && !reachesAvoiding(p.Blocks[0], b, nil, eqAllowed)
		}
		var okVal func(v ssa.Value, at *ssa.BasicBlock, d int) bool
		okVal = func(v ssa.Value, at *ssa.BasicBlock, d int) bool {
			if d > 4 {
				return false
			}
			if b, isC := constBool(v); isC {
				return !b || viaAllowed(at)
			}
			if bo, ok := v.(*ssa.BinOp); ok && bo.Op == token.EQL {
				return isSentinelLoad(bo.X) || isSentinelLoad(bo.Y)
			}
			if phi, ok := v.(*ssa.Phi); ok {
				for i, e := range phi.Edges {
					pred := phi.Block().Preds[i]
					if b, isC := constBool(e); isC && b {
						edgeOK := false
						for k, sc := range pred.Succs {
							if sc == phi.Block() && eqAllowed(pred, k) {
								edgeOK = true
							}
						}
						if !edgeOK && !viaAllowed(pred) {
							return false
						}
						continue
					}
					if !okVal(e, pred, d+1) {
						return false
					}
				}
				return true
			}
			return false
		}
		rets := returnsOf(p)
		for _, ret := range rets {
			if len(ret.Results) != 1 || !okVal(ret.Results[0], ret.Block(), 0) {
				return false
			}
		}
		return len(rets) > 0
	}
	n := 0
	sawDefault := false
	for _, ret := range returnsOf(f) {
		v := ret.Results[0]
		if !isNilConst(v) {
			if mi, ok := v.(*ssa.MakeInterface); ok && mi.X == recv {
				sawDefault = true
			}
			continue
		}
		n++
		// reachable from entry without crossing an allowed edge?
		bad := reachesAvoiding(f.Blocks[0], ret.Block(), nil, allowed) && f.Blocks[0] != ret.Block()
		a.check(!bad, rule, fmt.Sprintf("nil-path@Error[ret#%d]", n), w.posOf(ret), "nil only via closed/nil channel or a sentinel equality (context.Canceled, errStreamEOF)",
			"Error() can return nil for a received reason that is neither caller cancellation nor the master's EOF: a lost connection or master error is reported as a clean end")
	}
	a.check(sawDefault, rule, "default@Error", w.pos(f.Pos()), "otherwise the received error is returned", "Error() never returns the received reason itself")
	a.atLeast(rule, "nil-path@Error", 1)
}
