package main

import (
	"go/token"
	"go/types"

	"golang.org/x/tools/go/callgraph"
	"golang.org/x/tools/go/ssa"
)

// helpers shared by the lifecycle rules (C05, C06, C07).

// reachableIn returns the functions of pkg reachable from roots through static
// calls, closure creation, go and defer.
func reachableIn(pkg *ssa.Package, roots ...*ssa.Function) map[*ssa.Function]bool {
	seen := map[*ssa.Function]bool{}
	var visit func(f *ssa.Function)
	visit = func(f *ssa.Function) {
		if f == nil || seen[f] || f.Blocks == nil {
			return
		}
		if f.Pkg != pkg && !(f.Parent() != nil && enclosingPkg(f) == pkg) {
			return
		}
		seen[f] = true
		instrs(f, func(in ssa.Instruction) {
			switch x := in.(type) {
			case *ssa.MakeClosure:
				visit(x.Fn.(*ssa.Function))
			case ssa.CallInstruction:
				if cal := x.Common().StaticCallee(); cal != nil {
					visit(cal)
				}
			}
			// function values used as operands
			var ops []*ssa.Value
			for _, op := range in.Operands(ops) {
				if fn, ok := (*op).(*ssa.Function); ok {
					visit(fn)
				}
			}
		})
	}
	for _, r := range roots {
		visit(r)
	}
	return seen
}

func enclosingPkg(f *ssa.Function) *ssa.Package {
	for f.Parent() != nil {
		f = f.Parent()
	}
	return f.Pkg
}

// vtaReaches reports whether `to` is reachable from `from` in the VTA call graph.
func vtaReaches(cg *callgraph.Graph, from, to *ssa.Function) bool {
	start := cg.Nodes[from]
	if start == nil {
		return false
	}
	seen := map[*callgraph.Node]bool{}
	stack := []*callgraph.Node{start}
	for len(stack) > 0 {
		n := stack[len(stack)-1]
		stack = stack[:len(stack)-1]
		if seen[n] {
			continue
		}
		seen[n] = true
		if n.Func == to {
			return true
		}
		for _, e := range n.Out {
			stack = append(stack, e.Callee)
		}
	}
	return false
}

// chanField: v is a load of the given struct field (a channel stored in a struct).
func loadsField(v ssa.Value, field *types.Var) bool {
	v = strip(v)
	_, ok := loadOfField(v, field)
	return ok
}

// isDoneOf: v is `invoke X.Done()` on a context.Context.
func isDoneCall(v ssa.Value) (*ssa.Call, bool) {
	c, ok := v.(*ssa.Call)
	if !ok || !c.Common().IsInvoke() || c.Common().Method.Name() != "Done" {
		return nil, false
	}
	if !namedIs(c.Common().Value.Type(), "context", "Context") {
		return nil, false
	}
	return c, true
}

// derivesFrom: backward slice from v reaches target through wrappers, calls
// (any argument), variadic slices and forwarded loads.
func derivesFrom(v, target ssa.Value, depth int) bool {
	return derivesFromS(v, target, map[ssa.Value]bool{})
}

func derivesFromS(v, target ssa.Value, seen map[ssa.Value]bool) bool {
	if v == nil {
		return false
	}
	v = resolve(v)
	if v == target || strip(v) == target {
		return true
	}
	if seen[v] {
		return false
	}
	seen[v] = true
	if len(seen) > 4000 {
		return false
	}
	switch x := v.(type) {
	case *ssa.Call:
		for _, arg := range x.Common().Args {
			if derivesFromS(arg, target, seen) {
				return true
			}
		}
		if x.Common().IsInvoke() && derivesFromS(x.Common().Value, target, seen) {
			return true
		}
	case *ssa.Extract:
		return derivesFromS(x.Tuple, target, seen)
	case *ssa.Slice:
		if al, ok := x.X.(*ssa.Alloc); ok && al.Referrers() != nil {
			for _, r := range *al.Referrers() {
				ia, ok := r.(*ssa.IndexAddr)
				if !ok || ia.Referrers() == nil {
					continue
				}
				for _, rr := range *ia.Referrers() {
					if st, ok := rr.(*ssa.Store); ok && derivesFromS(st.Val, target, seen) {
						return true
					}
				}
			}
		}
		return derivesFromS(x.X, target, seen)
	case *ssa.Phi:
		for _, e := range x.Edges {
			if derivesFromS(e, target, seen) {
				return true
			}
		}
	case *ssa.UnOp:
		if x.Op == token.MUL {
			// unresolved load: of a global sentinel?
			return x.X == target
		}
		return derivesFromS(x.X, target, seen)
	case *ssa.Convert:
		return derivesFromS(x.X, target, seen)
	case *ssa.TypeAssert:
		return derivesFromS(x.X, target, seen)
	}
	return false
}

// nonNilAt: value v is known non-nil in block b (b is dominated by the
// non-nil edge of a nil test on v), or v is non-nil by construction.
func nonNilAt(v ssa.Value, b *ssa.BasicBlock) bool {
	v = resolve(v)
	if provablyNonNilErr(v) {
		return true
	}
	for _, ce := range dominatingConds(b) {
		x, nonNilOnTrue, ok := nilTest(ce.Cond)
		if ok && x == v && ce.Val == nonNilOnTrue {
			return true
		}
	}
	// msgf(recv, ...) returns its receiver
	if c, ok := v.(*ssa.Call); ok {
		if f := c.Common().StaticCallee(); f != nil && len(c.Common().Args) > 0 && returnsReceiver(f) {
			return nonNilAt(c.Common().Args[0], b)
		}
	}
	return false
}

func returnsReceiver(f *ssa.Function) bool {
	if f.Signature.Recv() == nil || len(f.Params) == 0 {
		return false
	}
	rets := returnsOf(f)
	if len(rets) == 0 {
		return false
	}
	for _, r := range rets {
		if len(r.Results) != 1 || resolve(r.Results[0]) != ssa.Value(f.Params[0]) {
			return false
		}
	}
	return true
}

// inCycle: block b can reach itself.
func inCycle(b *ssa.BasicBlock) bool {
	seen := map[*ssa.BasicBlock]bool{}
	var dfs func(x *ssa.BasicBlock) bool
	dfs = func(x *ssa.BasicBlock) bool {
		for _, s := range x.Succs {
			if s == b {
				return true
			}
			if !seen[s] {
				seen[s] = true
				if dfs(s) {
					return true
				}
			}
		}
		return false
	}
	return dfs(b)
}

// errResults lists the error-typed results of a call: (value, description).
func isErrType(t types.Type) bool {
	if types.Identical(t, types.Universe.Lookup("error").Type()) {
		return true
	}
	return typeIs(t, rootPath, "Error") && func() bool { _, ok := t.(*types.Pointer); return ok }()
}

func errResultsOf(c ssa.CallInstruction) []ssa.Value {
	v := c.Value()
	if v == nil {
		return nil
	}
	var out []ssa.Value
	if tup, ok := v.Type().(*types.Tuple); ok {
		for i := 0; i < tup.Len(); i++ {
			if isErrType(tup.At(i).Type()) {
				var ex ssa.Value
				if refs := v.Referrers(); refs != nil {
					for _, r := range *refs {
						if e, ok := r.(*ssa.Extract); ok && e.Index == i {
							ex = e
						}
					}
				}
				out = append(out, ex) // nil = never extracted
			}
		}
		return out
	}
	if isErrType(v.Type()) {
		out = append(out, v)
	}
	return out
}

func liveRefs(v ssa.Value) int {
	n := 0
	if refs := v.Referrers(); refs != nil {
		for _, r := range *refs {
			if _, ok := r.(*ssa.DebugRef); !ok {
				n++
			}
		}
	}
	return n
}

// onceBodies: the functions whose body runs only as the argument of a (*sync.Once).Do in closeFn: the closure literal, or a
// method / function value whose target has no other call site or use in the package.
func onceBodies(w *World, closeFn *ssa.Function) map[*ssa.Function]bool {
	out := map[*ssa.Function]bool{}
	if closeFn == nil {
		return out
	}
	otherUse := func(target *ssa.Function, except *ssa.Function) bool {
		used := false
		for _, f := range w.srcFuncs(w.Root) {
			if f == except {
				continue
			}
			instrs(f, func(in ssa.Instruction) {
				for _, op := range in.Operands(nil) {
					if op != nil && *op == ssa.Value(target) {
						used = true
					}
				}
			})
		}
		return used
	}
	instrs(closeFn, func(in ssa.Instruction) {
		c := callCommon(in)
		if c == nil || !staticCalleeIs(c, "(*sync.Once).Do") || len(c.Args) < 2 {
			return
		}
		var fn *ssa.Function
		switch x := c.Args[1].(type) {
		case *ssa.MakeClosure:
			fn, _ = x.Fn.(*ssa.Function)
		case *ssa.Function:
			fn = x
		}
		if fn == nil {
			return
		}
		out[fn] = true
		if fn.Synthetic != "" { // bound-method wrapper: the method it forwards to
			instrs(fn, func(i2 ssa.Instruction) {
				if cc := callCommon(i2); cc != nil {
					if tgt := cc.StaticCallee(); tgt != nil && tgt.Pkg == w.Root && !otherUse(tgt, fn) {
						// the only other mention allowed is the method value in closeFn itself
						out[tgt] = true
					}
				}
			})
		}
	})
	return out
}
