// gbv: static verification of gobinlog properties (see /verif/DESIGN.md).
//
//	gbv check -prop C04 -tier quick|thorough [-repo /repo] [-verif /verif]
//	gbv replay <violation.json>
//	gbv variants -prop C04            run the in-memory variants of a property
package main

import (
	"encoding/json"
	"flag"
	"fmt"
	"os"
	"path/filepath"
	"runtime/debug"
	"sort"
	"strings"
	"time"
)

type propDef struct {
	meta propMeta
	run  func(a *A)
}

var props = map[string]*propDef{}

func register(id string, meta propMeta, run func(a *A)) {
	meta.ID = id
	props[id] = &propDef{meta, run}
}

var commonTrusted = []string{
	"go/types, go/ssa, go/packages of golang.org/x/tools v0.29.0 (type checking, SSA construction, dominators)",
	"this repository's own analysers in /verif/gbv (unverified; hence level 'other', not 'proof')",
	"the source normal forms of /verif/gbv/normalise*.go preserve behaviour (scalar replacement of local structs always; inlining of single-use functions and call-only closures only when the program as written does not come out clean)",
}

func main() {
	if len(os.Args) < 2 {
		usage()
	}
	switch os.Args[1] {
	case "check":
		os.Exit(cmdCheck(os.Args[2:]))
	case "replay":
		os.Exit(cmdReplay(os.Args[2:]))
	case "variants":
		os.Exit(cmdVariants(os.Args[2:]))
	case "variants-real":
		os.Exit(cmdVariantsReal(os.Args[2:]))
	case "debug-json":
		debugJSONTemporal()
	case "debug-values":
		debugValues(os.Args[2:])
	case "debug-reads":
		debugReads()
	case "debug-globals":
		debugGlobals(loadWorld("/repo", nil, ""))
	case "debug-sigs":
		debugSigs(loadWorld("/repo", nil, ""))
	case "list":
		var ids []string
		for id := range props {
			ids = append(ids, id)
		}
		sort.Strings(ids)
		fmt.Println(strings.Join(ids, " "))
	default:
		usage()
	}
}

func usage() {
	fmt.Fprintln(os.Stderr, "usage: gbv check -prop Cxx -tier quick|thorough | gbv replay <file> | gbv variants -prop Cxx | gbv list")
	os.Exit(2)
}

var listObs bool

type checkOpts struct {
	prop, tier, repo, verif string
	noEvidence              bool
	variant                 string
	only                    string
}

func cmdCheck(args []string) int {
	fs := flag.NewFlagSet("check", flag.ExitOnError)
	var o checkOpts
	fs.StringVar(&o.prop, "prop", "", "property id")
	fs.StringVar(&o.tier, "tier", "quick", "quick|thorough")
	fs.StringVar(&o.repo, "repo", "/repo", "repository working tree")
	fs.StringVar(&o.verif, "verif", "/verif", "verif dir")
	fs.BoolVar(&o.noEvidence, "no-evidence", false, "do not write evidence/violation files")
	fs.StringVar(&o.variant, "variant", "", "apply the named in-memory variant (self-test only)")
	fs.BoolVar(&listObs, "list", false, "print every decided instance")
	fs.Parse(args)
	if t := os.Getenv("VERIF_TIER"); t != "" && o.tier == "" {
		o.tier = t
	}
	return runCheck(o)
}

func runCheck(o checkOpts) (code int) {
	t0 := time.Now()
	def, ok := props[o.prop]
	if !ok {
		fmt.Fprintf(os.Stderr, "unknown property %q\n", o.prop)
		return 2
	}
	defer func() {
		if e := recover(); e != nil {
			if ie, ok := e.(infraError); ok {
				// Cannot analyse the tree at all (does not type-check, anchor packages missing):
				// this is a failed check, reported as such.
				fmt.Printf("gbv: cannot analyse %s: %s\n", o.repo, ie.msg)
				path := filepath.Join(o.verif, "out", "violations", o.prop, "infra.json")
				if !o.noEvidence {
					os.MkdirAll(filepath.Dir(path), 0o755)
					b, _ := json.Marshal(map[string]string{"property": o.prop, "rule": "load", "detail": ie.msg})
					os.WriteFile(path, b, 0o644)
				}
				fmt.Printf("VIOLATION property=%s replay=%s\n", o.prop, path)
				code = 1
				return
			}
			fmt.Printf("gbv: analyser panic: %v\n%s\n", e, debug.Stack())
			path := filepath.Join(o.verif, "out", "violations", o.prop, "panic.json")
			fmt.Printf("VIOLATION property=%s replay=%s\n", o.prop, path)
			code = 1
		}
	}()
	var overlay map[string][]byte
	if o.variant != "" {
		var err error
		overlay, err = variantOverlay(o.repo, o.prop, o.variant)
		if err != nil {
			fmt.Printf("variant %s: SKIP %v\n", o.variant, err)
			return 3
		}
	}
	w := loadWorld(o.repo, overlay, "")
	a := newA(w, o.prop, o.tier)
	safeRunProp(o.prop, a)
	if !a.clean(o.verif) && o.variant == "" { // (the in-memory variants are meant to fail: no second attempt for them)
		// Second attempt on the normal form with tail calls inlined (split functions glued together again). The
		// normalisation preserves behaviour, so a clean result there decides the property for the program as written;
		// anything else leaves the first result standing.
		seenForms := map[string]bool{}
		// levels: (functions inlined in, statement-level too, closures inlined in)
		type nf struct {
			fn    string
			stmts bool
			cl    string
			multi bool
		}
		for li, lv := range []nf{{rootPath, false, "", false}, {rootPath, true, "", false}, {"", false, rootPath, false}, {"", false, replPath, false}, {"all", true, "all", false}, {rootPath, true, "", true}, {replPath, true, "", true}, {"all", true, "all", true}} {
			level := fmt.Sprintf("functions:%s closures:%s multi:%v", lv.fn, lv.cl, lv.multi)
			normInline, normInlineStmts, normInlineClosures, normInlineMulti = lv.fn, lv.stmts, lv.cl, lv.multi
			lineOrigins = map[string][]lineOrigin{}
			normSignature = ""
			w2 := loadWorld(o.repo, overlay, "")
			if len(lineOrigins) == 0 || seenForms[normSignature] {
				continue // nothing rewritten, or the same normal form as an earlier level
			}
			seenForms[normSignature] = true
			a2 := newA(w2, o.prop, o.tier)
			safeRunProp(o.prop, a2)
			if os.Getenv("GBV_DEBUG_NORM") != "" {
				fmt.Printf("-- normal form level %d (%s, stmts=%v): clean=%v\n", li, level, normInlineStmts, a2.clean(o.verif))
				for _, ob := range a2.Obs {
					if ob.Status != "holds" && ob.Status != "info" {
						fmt.Printf("   %s %s [%s] %s %s\n", ob.Rule, ob.Key, ob.Status, ob.Pos, ob.Detail)
					}
				}
			}
			if a2.clean(o.verif) {
				a2.Notes = append(a2.Notes, fmt.Sprintf("decided on the normal form with inlining (%s; %d file(s) rewritten): the program as written has functions split in a way the rules do not follow", level, len(lineOrigins)))
				a = a2
				break
			}
		}
		if a.W == w {
			// keep reporting against the program as written
			normInline, normInlineStmts, normInlineClosures, normInlineMulti = "", false, "", false
			lineOrigins = map[string][]lineOrigin{}
			loadWorld(o.repo, overlay, "") // restores the package-level tables built at load time
		}
	}
	var vinfo map[string]interface{}
	if o.tier == "thorough" && o.variant == "" {
		vinfo = runVariants(o, a)
	}
	return a.finish(o.verif, def.meta, t0, !o.noEvidence, vinfo)
}

func cmdReplay(args []string) int {
	if len(args) < 1 {
		usage()
	}
	b, err := os.ReadFile(args[0])
	if err != nil {
		fmt.Fprintln(os.Stderr, err)
		return 2
	}
	var v struct {
		Property, Rule, Key, Repo string
	}
	json.Unmarshal(b, &v)
	if v.Property == "" {
		fmt.Fprintln(os.Stderr, "not a violation file")
		return 2
	}
	repo := v.Repo
	if repo == "" {
		repo = "/repo"
	}
	fmt.Printf("replaying %s %s %s on %s\n", v.Property, v.Rule, v.Key, repo)
	return runCheck(checkOpts{prop: v.Property, tier: "quick", repo: repo, verif: "/verif", noEvidence: true})
}

// safeRunProp runs the rules of a property; a panic of the analyser (a shape it did not foresee) becomes an undecided
// instance - which fails the check - instead of ending the run, so that the normal forms still get their turn.
func safeRunProp(id string, a *A) {
	defer func() {
		if e := recover(); e != nil {
			if _, isInfra := e.(infraError); isInfra {
				panic(e)
			}
			st := string(debug.Stack())
			where := ""
			for _, l := range strings.Split(st, "\n") {
				if strings.Contains(l, "/verif/gbv/rules_") || strings.Contains(l, "/gbv/rules_") {
					where = strings.TrimSpace(l)
					break
				}
			}
			a.undecided(id+"-R0", "analyser@panic", "-", "the analyser stopped on a shape it does not handle (%v at %s): nothing is concluded", e, where)
		}
	}()
	runProp(id, a)
}
