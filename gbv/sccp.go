package main

import (
	"go/constant"
	"go/token"
	"go/types"
	"math/big"

	"golang.org/x/tools/go/ssa"
)

// lattice
type kind uint8

const (
	bot kind = iota
	cst
	top
)

type lat struct {
	k    kind
	nilc bool           // the nil constant of a pointer/interface/slice/map/chan/func type
	v    constant.Value // for cst scalar
	// symbolic refs into constant tables
	tbl  *constTable // non-nil: value is the table slice (or element address when elem>=0)
	elem int         // -1: the slice itself
}

type constTable struct {
	name string
	vals []constant.Value          // slice / array tables, by index
	m    map[string]constant.Value // map tables, by key (constant.Value.ExactString of the key)
	isM  bool
	zero constant.Value // the element type's zero value (map miss, unset array element)
}

// defaultTables: the constant tables of all loaded packages (set by the loader); used when a caller passes none.
var defaultTables map[*ssa.Global]*constTable

func (a lat) eq(b lat) bool {
	if a.k != b.k {
		return false
	}
	if a.k != cst {
		return true
	}
	if a.nilc || b.nilc {
		return a.nilc && b.nilc
	}
	if a.tbl != nil || b.tbl != nil {
		return a.tbl == b.tbl && a.elem == b.elem
	}
	if a.v == nil || b.v == nil {
		return a.v == nil && b.v == nil
	}
	if a.v.Kind() == constant.Unknown || b.v.Kind() == constant.Unknown {
		return false
	}
	return constant.Compare(a.v, token.EQL, b.v)
}

func meet(a, b lat) lat {
	if a.k == bot {
		return b
	}
	if b.k == bot {
		return a
	}
	if a.k == top || b.k == top {
		return lat{k: top}
	}
	if a.eq(b) {
		return a
	}
	return lat{k: top}
}

type Result struct {
	Fn   *ssa.Function
	Exec map[*ssa.BasicBlock]bool
	Edge map[[2]int]bool // executable CFG edges (from.Index, to.Index)
	// when this result describes a callee reached by delegation (`return f(args...)`): terms of the arguments per parameter
	Subst   map[ssa.Value]aff
	SSub    map[ssa.Value]string
	FSub    map[fref]aff
	FSSub   map[fref]string
	Val     map[ssa.Value]lat
	Returns []*ssa.Return
	Steps   int
}

type sccp struct {
	fn       *ssa.Function
	val      map[ssa.Value]lat
	execEdge map[[2]int]bool
	execBlk  map[*ssa.BasicBlock]bool
	flowWL   [][2]*ssa.BasicBlock
	ssaWL    []ssa.Instruction
	tables   map[*ssa.Global]*constTable
	bound    map[ssa.Value]bool
	tuple    map[ssa.Value][]lat // per-index lattice of tuple-valued in-package calls
	depth    int
	steps    int
}

// Specialize runs sparse conditional constant propagation over fn with the
// given SSA values bound to constants (parameters, or any other value such as a
// call result or a field read that the caller treats as an atom). Unbound
// parameters, free variables, calls and loads are TOP. No input is supplied
// for the abstract values and no path is enumerated: this is partial
// evaluation over the finite discriminant domain chosen by the caller.
func Specialize(fn *ssa.Function, bind map[ssa.Value]constant.Value, tables map[*ssa.Global]*constTable) *Result {
	return specializeAt(fn, bind, tables, 0)
}

// maxInline bounds the depth of interprocedural (in-package, non-recursive) evaluation.
const maxInline = 3

func specializeAt(fn *ssa.Function, bind map[ssa.Value]constant.Value, tables map[*ssa.Global]*constTable, depth int) *Result {
	if tables == nil {
		tables = defaultTables
	}
	s := &sccp{depth: depth, tuple: map[ssa.Value][]lat{}, fn: fn, val: map[ssa.Value]lat{}, execEdge: map[[2]int]bool{}, execBlk: map[*ssa.BasicBlock]bool{}, tables: tables, bound: map[ssa.Value]bool{}}
	for _, p := range fn.Params {
		s.val[p] = lat{k: top}
	}
	for v, c := range bind {
		s.val[v] = lat{k: cst, v: c, elem: -1}
		s.bound[v] = true
	}
	for _, fv := range fn.FreeVars {
		s.val[fv] = lat{k: top}
	}
	s.flowWL = append(s.flowWL, [2]*ssa.BasicBlock{nil, fn.Blocks[0]})
	for len(s.flowWL) > 0 || len(s.ssaWL) > 0 {
		for len(s.flowWL) > 0 {
			e := s.flowWL[len(s.flowWL)-1]
			s.flowWL = s.flowWL[:len(s.flowWL)-1]
			s.visitEdge(e[0], e[1])
		}
		for len(s.ssaWL) > 0 {
			in := s.ssaWL[len(s.ssaWL)-1]
			s.ssaWL = s.ssaWL[:len(s.ssaWL)-1]
			if s.execBlk[in.Block()] {
				s.visitInstr(in)
			}
		}
	}
	r := &Result{Fn: fn, Exec: s.execBlk, Edge: s.execEdge, Val: s.val, Steps: s.steps}
	for _, b := range fn.Blocks {
		if !s.execBlk[b] {
			continue
		}
		if ret, ok := b.Instrs[len(b.Instrs)-1].(*ssa.Return); ok {
			r.Returns = append(r.Returns, ret)
		}
	}
	return r
}

func (s *sccp) visitEdge(from, to *ssa.BasicBlock) {
	if from != nil {
		key := [2]int{from.Index, to.Index}
		if s.execEdge[key] {
			return
		}
		s.execEdge[key] = true
	}
	first := !s.execBlk[to]
	s.execBlk[to] = true
	for _, in := range to.Instrs {
		if _, isPhi := in.(*ssa.Phi); isPhi || first {
			s.visitInstr(in)
		}
	}
}

func (s *sccp) get(v ssa.Value) lat {
	switch c := v.(type) {
	case *ssa.Const:
		if c.Value == nil {
			// nil / zero value of non-basic type
			if b, ok := c.Type().Underlying().(*types.Basic); ok {
				switch {
				case b.Info()&types.IsBoolean != 0:
					return lat{k: cst, v: constant.MakeBool(false), elem: -1}
				case b.Info()&types.IsString != 0:
					return lat{k: cst, v: constant.MakeString(""), elem: -1}
				case b.Info()&types.IsNumeric != 0:
					return lat{k: cst, v: constant.MakeInt64(0), elem: -1}
				}
			}
			return lat{k: cst, nilc: true, elem: -1} // nil marker
		}
		return lat{k: cst, v: c.Value, elem: -1}
	case *ssa.Global:
		return lat{k: top}
	case *ssa.Function, *ssa.Builtin:
		return lat{k: top}
	}
	return s.val[v]
}

func (s *sccp) set(v ssa.Value, n lat) {
	if s.bound[v] {
		return
	}
	old := s.val[v]
	m := meet(old, n)
	if old.k == m.k && old.eq(m) {
		return
	}
	s.val[v] = m
	if refs := v.Referrers(); refs != nil {
		s.ssaWL = append(s.ssaWL, *refs...)
	}
}

func (s *sccp) visitInstr(in ssa.Instruction) {
	s.steps++
	if v, ok := in.(ssa.Value); ok && s.bound[v] {
		// bound atom: keeps its constant; still notify referrers once
		return
	}
	switch x := in.(type) {
	case *ssa.Phi:
		var acc lat
		for i, e := range x.Edges {
			pred := x.Block().Preds[i]
			if !s.execEdge[[2]int{pred.Index, x.Block().Index}] {
				continue
			}
			acc = meet(acc, s.get(e))
		}
		s.set(x, acc)
	case *ssa.BinOp:
		s.set(x, s.binop(x))
	case *ssa.UnOp:
		s.set(x, s.unop(x))
	case *ssa.Convert:
		a := s.get(x.X)
		if a.k == cst && a.tbl == nil && !a.nilc && a.v != nil {
			if r, ok := convertConst(a.v, x.X.Type(), x.Type()); ok {
				s.set(x, lat{k: cst, v: r, elem: -1})
				return
			}
			s.set(x, lat{k: top})
			return
		}
		s.set(x, lat{k: a.k})
	case *ssa.ChangeType:
		s.set(x, s.get(x.X))
	case *ssa.IndexAddr:
		base := s.get(x.X)
		if g, isG := x.X.(*ssa.Global); isG { // element of a package-level array
			if t := s.tables[g]; t != nil && !t.isM {
				base = lat{k: cst, tbl: t, elem: -1}
			}
		}
		idx := s.get(x.Index)
		if base.k == cst && base.tbl != nil && base.elem == -1 && idx.k == cst {
			if i, ok := constant.Int64Val(idx.v); ok && i >= 0 && int(i) < len(base.tbl.vals) {
				s.set(x, lat{k: cst, tbl: base.tbl, elem: int(i)})
				return
			}
		}
		if base.k == bot || idx.k == bot {
			return
		}
		s.set(x, lat{k: top})
	case *ssa.If:
		c := s.get(x.Cond)
		b := x.Block()
		switch c.k {
		case cst:
			if constant.BoolVal(c.v) {
				s.flowWL = append(s.flowWL, [2]*ssa.BasicBlock{b, b.Succs[0]})
			} else {
				s.flowWL = append(s.flowWL, [2]*ssa.BasicBlock{b, b.Succs[1]})
			}
		case top:
			s.flowWL = append(s.flowWL, [2]*ssa.BasicBlock{b, b.Succs[0]}, [2]*ssa.BasicBlock{b, b.Succs[1]})
		}
	case *ssa.Jump:
		s.flowWL = append(s.flowWL, [2]*ssa.BasicBlock{x.Block(), x.Block().Succs[0]})
	case *ssa.Return, *ssa.Panic, *ssa.Store, *ssa.MapUpdate, *ssa.Send, *ssa.RunDefers, *ssa.Defer, *ssa.Go, *ssa.DebugRef:
	case *ssa.Call:
		s.visitCall(x)
	case *ssa.Lookup:
		base := s.get(x.X)
		idx := s.get(x.Index)
		if base.k == bot || idx.k == bot {
			return
		}
		if base.k == cst && base.tbl != nil && base.tbl.isM && base.elem == -1 && idx.k == cst && idx.tbl == nil && !idx.nilc && idx.v != nil {
			v, hit := base.tbl.m[idx.v.ExactString()]
			if !hit {
				v = base.tbl.zero
			}
			if v != nil {
				if x.CommaOk {
					res := []lat{{k: cst, v: v, elem: -1}, {k: cst, v: constant.MakeBool(hit), elem: -1}}
					old := s.tuple[x]
					s.tuple[x] = res
					if old == nil || !(old[0].eq(res[0]) && old[1].eq(res[1])) {
						s.val[x] = lat{k: top}
						if refs := x.Referrers(); refs != nil {
							s.ssaWL = append(s.ssaWL, *refs...)
						}
					}
					return
				}
				s.set(x, lat{k: cst, v: v, elem: -1})
				return
			}
		}
		s.set(x, lat{k: top})
	case *ssa.Extract:
		if tl, ok := s.tuple[x.Tuple]; ok && x.Index < len(tl) {
			s.set(x, tl[x.Index])
			return
		}
		if s.get(x.Tuple).k == bot {
			return
		}
		s.set(x, lat{k: top})
	default:
		if v, ok := in.(ssa.Value); ok {
			s.set(v, lat{k: top})
		}
	}
}

// visitCall evaluates calls of in-package functions with constant arguments by specialising the callee
// (bounded depth, no recursion); every other call is TOP.
func (s *sccp) visitCall(x *ssa.Call) {
	cal := x.Common().StaticCallee()
	if cal == nil || cal.Blocks == nil || cal.Pkg == nil || cal.Pkg != s.fn.Pkg || cal == s.fn || s.depth >= maxInline || x.Common().IsInvoke() {
		s.set(x, lat{k: top})
		return
	}
	bind := map[ssa.Value]constant.Value{}
	for i, a := range x.Common().Args {
		if i >= len(cal.Params) {
			break
		}
		l := s.get(a)
		if l.k == bot {
			return // wait for the argument
		}
		if l.k == cst && !l.nilc && l.tbl == nil && l.v != nil && l.v.Kind() != constant.Unknown {
			bind[cal.Params[i]] = l.v
		}
	}
	if len(bind) == 0 {
		s.set(x, lat{k: top})
		return
	}
	sub := specializeAt(cal, bind, s.tables, s.depth+1)
	s.steps += sub.Steps
	n := cal.Signature.Results().Len()
	if n == 0 {
		s.set(x, lat{k: top})
		return
	}
	res := make([]lat, n)
	for _, ret := range sub.Returns {
		for i := 0; i < n && i < len(ret.Results); i++ {
			res[i] = meet(res[i], sub.get(ret.Results[i]))
		}
	}
	for i := range res {
		if res[i].k == bot {
			res[i] = lat{k: top} // no reachable return (the callee panics on this input)
		}
		if res[i].tbl != nil {
			res[i] = lat{k: top}
		}
	}
	if n == 1 {
		s.set(x, res[0])
		return
	}
	old := s.tuple[x]
	same := old != nil
	for i := range res {
		if old == nil || !(old[i].k == res[i].k && old[i].eq(res[i])) {
			same = false
		}
	}
	s.tuple[x] = res
	if !same {
		s.val[x] = lat{k: top}
		if refs := x.Referrers(); refs != nil {
			s.ssaWL = append(s.ssaWL, *refs...)
		}
	}
}

func (s *sccp) unop(x *ssa.UnOp) lat {
	if x.Op == token.MUL { // load
		if g, ok := x.X.(*ssa.Global); ok {
			if t := s.tables[g]; t != nil {
				return lat{k: cst, tbl: t, elem: -1}
			}
			return lat{k: top}
		}
		a := s.get(x.X)
		if a.k == cst && a.tbl != nil && a.elem >= 0 {
			v := a.tbl.vals[a.elem]
			if v == nil {
				v = a.tbl.zero
			}
			if v == nil {
				return lat{k: top}
			}
			return lat{k: cst, v: v, elem: -1}
		}
		if a.k == bot {
			return lat{}
		}
		return lat{k: top}
	}
	a := s.get(x.X)
	if a.k != cst || a.tbl != nil || a.nilc || a.v == nil {
		if a.k == cst {
			return lat{k: top}
		}
		return lat{k: a.k}
	}
	switch x.Op {
	case token.NOT:
		return lat{k: cst, v: constant.MakeBool(!constant.BoolVal(a.v)), elem: -1}
	case token.SUB, token.XOR:
		r := constant.UnaryOp(x.Op, a.v, 0)
		if x.Op == token.XOR {
			// ^x == -x-1 in unbounded ints; wrap handles it
			r = constant.BinaryOp(constant.UnaryOp(token.SUB, a.v, 0), token.SUB, constant.MakeInt64(1))
		}
		return lat{k: cst, v: wrap(r, x.Type()), elem: -1}
	}
	return lat{k: top}
}

func (s *sccp) binop(x *ssa.BinOp) lat {
	a, b := s.get(x.X), s.get(x.Y)
	if a.k == bot || b.k == bot {
		return lat{}
	}
	if a.k == top || b.k == top || a.tbl != nil || b.tbl != nil {
		return lat{k: top}
	}
	if a.nilc || b.nilc {
		if a.nilc && b.nilc && (x.Op == token.EQL || x.Op == token.NEQ) {
			return lat{k: cst, v: constant.MakeBool(x.Op == token.EQL), elem: -1}
		}
		return lat{k: top}
	}
	if a.v == nil || b.v == nil || a.v.Kind() == constant.Unknown || b.v.Kind() == constant.Unknown {
		return lat{k: top}
	}
	switch x.Op {
	case token.EQL, token.NEQ, token.LSS, token.LEQ, token.GTR, token.GEQ:
		return lat{k: cst, v: constant.MakeBool(constant.Compare(a.v, x.Op, b.v)), elem: -1}
	case token.SHL, token.SHR:
		n, ok := constant.Uint64Val(constant.ToInt(b.v))
		if !ok || n > 200 {
			return lat{k: top}
		}
		return lat{k: cst, v: wrap(constant.Shift(constant.ToInt(a.v), x.Op, uint(n)), x.Type()), elem: -1}
	case token.QUO, token.REM:
		if isInt(x.Type()) {
			if constant.Sign(b.v) == 0 {
				return lat{k: top}
			}
			op := x.Op
			if op == token.QUO {
				op = token.QUO_ASSIGN // integer division
			}
			return lat{k: cst, v: wrap(constant.BinaryOp(constant.ToInt(a.v), op, constant.ToInt(b.v)), x.Type()), elem: -1}
		}
		return lat{k: top}
	case token.ADD, token.SUB, token.MUL, token.AND, token.OR, token.XOR, token.AND_NOT:
		if isInt(x.Type()) {
			return lat{k: cst, v: wrap(constant.BinaryOp(constant.ToInt(a.v), x.Op, constant.ToInt(b.v)), x.Type()), elem: -1}
		}
		if bt, ok := x.Type().Underlying().(*types.Basic); ok && bt.Info()&types.IsString != 0 && x.Op == token.ADD {
			return lat{k: cst, v: constant.BinaryOp(a.v, token.ADD, b.v), elem: -1}
		}
		return lat{k: top}
	case token.LAND, token.LOR:
		return lat{k: cst, v: constant.BinaryOp(a.v, x.Op, b.v), elem: -1}
	}
	return lat{k: top}
}

func isInt(t types.Type) bool {
	b, ok := t.Underlying().(*types.Basic)
	return ok && b.Info()&types.IsInteger != 0
}

var sizes = types.SizesFor("gc", "amd64")

func wrap(v constant.Value, t types.Type) constant.Value {
	b, ok := t.Underlying().(*types.Basic)
	if !ok || b.Info()&types.IsInteger == 0 {
		return v
	}
	bits := uint(sizes.Sizeof(t) * 8)
	iv := constant.ToInt(v)
	bi, ok := constant.Val(iv).(*big.Int)
	if !ok {
		i64, _ := constant.Int64Val(iv)
		bi = big.NewInt(i64)
	} else {
		bi = new(big.Int).Set(bi)
	}
	mod := new(big.Int).Lsh(big.NewInt(1), bits)
	bi.Mod(bi, mod) // now in [0, 2^bits)
	if b.Info()&types.IsUnsigned == 0 {
		half := new(big.Int).Lsh(big.NewInt(1), bits-1)
		if bi.Cmp(half) >= 0 {
			bi.Sub(bi, mod)
		}
	}
	return constant.Make(bi)
}

func convertConst(v constant.Value, from, to types.Type) (constant.Value, bool) {
	fb, ok1 := from.Underlying().(*types.Basic)
	tb, ok2 := to.Underlying().(*types.Basic)
	if !ok1 || !ok2 {
		return nil, false
	}
	if fb.Info()&types.IsInteger != 0 && tb.Info()&types.IsInteger != 0 {
		return wrap(v, to), true
	}
	return nil, false
}

func (r *Result) get(v ssa.Value) lat { return (&sccp{val: r.Val}).get(v) }

// constOf returns the int64 constant a value has under the specialisation.
func (r *Result) constOf(v ssa.Value) (int64, bool) {
	l := r.get(v)
	if l.k != cst || l.tbl != nil || l.v == nil || l.v.Kind() != constant.Int {
		return 0, false
	}
	return constant.Int64Val(l.v)
}

// isNil: v is the nil constant under the specialisation (syntactically, or through an in-package call that always returns nil).
func (r *Result) isNil(v ssa.Value) bool {
	if c, ok := v.(*ssa.Const); ok {
		return c.Value == nil
	}
	l := r.get(v)
	return l.k == cst && l.nilc
}

func (l lat) String() string {
	switch l.k {
	case bot:
		return "_"
	case top:
		return "T"
	}
	if l.nilc {
		return "nil"
	}
	if l.tbl != nil {
		return "tbl:" + l.tbl.name
	}
	if l.v == nil {
		return "?"
	}
	return l.v.String()
}

// edgeExec: the CFG edge pred->b is executable under the specialisation (nil result: every edge is).
func (r *Result) edgeExec(pred, b *ssa.BasicBlock) bool {
	if r == nil {
		return true
	}
	return r.Edge[[2]int{pred.Index, b.Index}]
}
