package main

import (
	"fmt"
	"go/types"

	"golang.org/x/tools/go/ssa"
)

// readerForwardsAll: every packet the master sends reaches the parser, in order, or ends the stream.
//
//	(a) the packet decoder reads at most one packet per call: no cycle of the decoder (or of the in-package functions it
//	    calls) contains the driver's ReadPacket - a loop there drops packets (skipped kinds) or retries for ever on a
//	    dead connection;
//	(b) in the reader loop, from the edge on which the decoder succeeded, every way back to the next read passes the
//	    select that hands the event to the parser: no filter between the read and the hand-off.
//
// It is a necessary condition of "the handler sees exactly the committed transactions" (C01/C02), of "the kept position
// never passes an undelivered transaction" (C04), of "the gate is applied to every event" (C17) and of "the reader always
// reaches one of its exits" (C05, part a).
func readerForwardsAll(a *A, rule string, r *Roles) {
	w := a.W
	if !a.need(r != nil && r.Reader != nil && r.ReadEvent != nil, rule, "reader goroutine and packet decoder") {
		return
	}
	a.touch(r.Reader, r.ReadEvent)
	// (a)
	fns := reachableInPkg([]*ssa.Function{r.ReadEvent}, w.Root)
	nRead, bad := 0, 0
	for f := range fns {
		instrs(f, func(in ssa.Instruction) {
			c, ok := in.(*ssa.Call)
			if !ok || !isInvokeOf(c.Common(), "ReadPacket") {
				return
			}
			nRead++
			if inCycle(c.Block()) {
				bad++
				a.viol(rule, fmt.Sprintf("one-packet@%s#%d", f.Name(), bad), w.posOf(c), "the packet decoder reads packets in a loop: a packet it decides to skip never reaches the parser (nor the validity gate), and a read that keeps failing the same way is retried for ever instead of ending the stream")
			}
		})
		// a decoder that calls itself is a loop too
		instrs(f, func(in ssa.Instruction) {
			if c, ok := in.(ssa.CallInstruction); ok && c.Common().StaticCallee() == r.ReadEvent && fns[f] && f != r.Reader {
				bad++
				a.viol(rule, fmt.Sprintf("one-packet@%s#%d", f.Name(), bad), w.posOf(c), "the packet decoder calls itself: packets can be skipped")
			}
		})
	}
	if nRead == 0 {
		a.undecided(rule, "one-packet@decoder", w.pos(r.ReadEvent.Pos()), "no ReadPacket call found in the packet decoder")
	} else if bad == 0 {
		a.hold(rule, "one-packet@decoder", w.pos(r.ReadEvent.Pos()), "one ReadPacket per call of the decoder, outside any loop")
	}
	// (b) - in whichever function of the reader goroutine calls the decoder (the loop itself, or a "read one and forward it"
	// step function the loop calls)
	var readCall *ssa.Call
	var home *ssa.Function
	for f := range reachableInPkg([]*ssa.Function{r.Reader}, w.Root) {
		if f == r.ReadEvent {
			continue
		}
		instrs(f, func(in ssa.Instruction) {
			if c, ok := in.(*ssa.Call); ok && c.Common().StaticCallee() == r.ReadEvent {
				readCall, home = c, f
			}
		})
	}
	if !a.need(readCall != nil, rule, "call of the packet decoder in the reader") {
		return
	}
	a.touch(home)
	// the hand-off: a select (or send) on the event channel, directly or inside an in-package function that is given the event
	direct := func(b *ssa.BasicBlock) bool {
		for _, in := range b.Instrs {
			switch x := in.(type) {
			case *ssa.Select:
				for _, st := range x.States {
					if st.Dir == types.SendOnly && isBinlogEventChan(st.Chan.Type()) {
						return true
					}
				}
			case *ssa.Send:
				if isBinlogEventChan(x.Chan.Type()) {
					return true
				}
			}
		}
		return false
	}
	memo := map[*ssa.Function]bool{}
	var sends func(f *ssa.Function, d int) bool
	sends = func(f *ssa.Function, d int) bool {
		if v, ok := memo[f]; ok {
			return v
		}
		memo[f] = false
		if f == nil || f.Blocks == nil || d > 4 || enclosingPkg(f) != w.Root {
			return false
		}
		for _, b := range f.Blocks {
			if direct(b) {
				memo[f] = true
				return true
			}
			for _, in := range b.Instrs {
				if c, ok := in.(*ssa.Call); ok {
					if cal := c.Common().StaticCallee(); cal != nil && cal != f && sends(cal, d+1) {
						memo[f] = true
						return true
					}
				}
			}
		}
		return false
	}
	isHandOff := func(b *ssa.BasicBlock) bool {
		if direct(b) {
			return true
		}
		for _, in := range b.Instrs {
			if c, ok := in.(*ssa.Call); ok {
				cal := c.Common().StaticCallee()
				if cal == nil || cal == r.ReadEvent || !sends(cal, 0) {
					continue
				}
				for _, arg := range c.Common().Args {
					if namedIs(arg.Type(), replPath, "BinlogEvent") {
						return true
					}
				}
			}
		}
		return false
	}
	// success edges: tests of the decoder's error result
	var errV ssa.Value
	for _, ref := range *readCall.Referrers() {
		if ex, ok := ref.(*ssa.Extract); ok && isErrType(ex.Type()) {
			errV = ex
		}
	}
	if !a.need(errV != nil, rule, "error result of the packet decoder") {
		return
	}
	n := 0
	for _, b := range home.Blocks {
		iff, ok := lastInstr(b).(*ssa.If)
		if !ok {
			continue
		}
		x, nonNilOnTrue, ok := nilTest(iff.Cond)
		if !ok || x != errV {
			continue
		}
		k := 0
		if nonNilOnTrue {
			k = 1
		}
		n++
		from := b.Succs[k]
		// ... back to the next read, or out of the step function (whose caller reads next), without a hand-off
		skip := false
		if !isHandOff(from) {
			if from == readCall.Block() || reachesAvoiding(from, readCall.Block(), isHandOff, nil) {
				skip = true
			}
			if home != r.Reader {
				for _, ret := range returnsOf(home) {
					if from == ret.Block() || reachesAvoiding(from, ret.Block(), isHandOff, nil) {
						skip = true
					}
				}
			}
		}
		a.check(!skip, rule, fmt.Sprintf("hand-off@reader#%d", n), w.posOf(iff), "every event read is handed to the parser before the next read",
			"the reader can go on to the next packet without handing the event it just read to the parser (a filter between read and hand-off): transactions are lost without an error, and the kept position moves past them")
	}
	if n == 0 {
		a.undecided(rule, "hand-off@reader", w.posOf(readCall), "no test of the decoder's error result found in the reader")
	}
}
