package main

// explainMore: rules added after a property's explanation text was first written (DESIGN 9.4-9.6); appended to the
// explanation in the evidence file. The rules included from other properties are listed in the evidence notes.
var explainMore = map[string]string{
	"C01": "The check is the conjunction of the clause properties: besides its own rules it runs all rules of C02, C08, C09-C16 and C04-R6/R7 (quick tier) and reports them under their own ids.",
	"C02": "Also: begin installs a freshly allocated buffer (make, literal or constructor), not a window of a live slice. Included: C04-R6/R7, C16-R4/R5 for QUERY_EVENT, C16-R6.",
	"C03": "Included: C04-R2/R3/R6/R7 (the cell moves only at an accepted commit and a rotation; every event reaches its arm), C07-R3 (the request carries the stored file and uint32 offset), C16-R1/R2 and the Rotate / NextPosition layouts.",
	"C04": "Also: (R2) every exit of commit after the accepted edge has advanced the cell; (R6) every accepted event reaches the dispatch - a way round the loop that skips the checksum stripping is only the format description's, under 'no format yet', or for a kind without an arm; (R7) one ReadPacket per decoder call, outside any loop, and every event read is handed to the parser before the next read. Included: C07-R3 (the dump request carries the stored position).",
	"C05": "Also: (R5) the constructor hands the connection out only with a nil error, and close() on its failure path finds the driver connection already stored (or the raw connection is closed); (R10) the packet decoder does not loop over ReadPacket and the reader does not bypass its hand-off.",
	"C06": "Also: (R8) the EOF sentinel is a value of its own (errors.New / fmt.Errorf), never an alias of another package's error, and the reason channel is received from only by Error().",
	"C08": "Also: (R4) no reference-typed field or element of a delivered object is set to memory read out of a delivered object; (R5) nothing on the streamer's conversion path changes package-level state. Included: C02-R4.",
	"C09": "Also: (R7) splitting and decoding change no package-level state and never write into the image they decode. Included: C15-R1/R3/R5, C08-R1, C16-R1/R6.",
	"C10": "Included (the decode chain): C15-R1/R3 and R5 for these types, C15-R2, C09-R2 for these types and R3-R5, R7, C08-R1/R2.",
	"C11": "Included (the decode chain): C15-R1/R3 and R5 for DECIMAL, C09-R2 for DECIMAL and R3-R5, R7, C08-R1/R2.",
	"C12": "Included (the decode chain): C15-R1/R3 and R5 for the temporal types, C09-R2 for them and R3-R5, R7, C08-R1/R2.",
	"C13": "Also: (R3) a string cell that fits the buffer is never rejected (failing exits must imply that prefix + announced length exceed the buffer); (R2 full-scan) the column loops leave towards success only when the ordinal reached the column count. Included (the decode chain): C15-R1/R3 and R5 for the string types, C09-R2 for them and R3-R5, R7, C08-R1/R2.",
	"C14": "Also: (R6) the entry printer never rejects an out-of-line value that starts inside the document. Included (the decode chain): C15-R1/R3/R5, C09-R2 for JSON and R3-R5, R7, C08-R1/R2.",
	"C15": "Also: (R6) no failing exit of TableMap depends on bytes remaining after the NULL bitmap; (R8) table-map parsing changes no package-level state. Included: C10-R1 (one ordinal for name, type, metadata, signedness), C08-R1.",
	"C16": "Also: (R6) every format description is decoded - no way round Format() in its arm; (R7) accessors and body parsers change no package-level state; (R8) HeaderSize(t) is entry t-1 of the described table, any other exit implies that t is not described.",
	"C17": "Also: (R4) the rejecting path returns a fresh load of the position cell; (R5) every packet reaches the gate (C04-R7's rule). Included: C16-R3 (header accessors read the exact header ranges).",
	"C18": "Also: (R5) the comparators used for sorting never decide by the sign of a difference that can wrap nor compare full-width unsigned words as signed numbers; (R6) Contains never decides on the number of intervals of the two sets nor accepts an interval by point lookups of its end points; (R7) set operations change no package-level state.",
	"C19": "Also: (R7) a walk over a MariaDB set never stops early on the order of domain ids; (R8) printing, parsing and set operations change no package-level state. Included: the GTID event layouts of C16-R4, C18-R3.",
	"C20": "Also: (R3) the name printed for wire type v is the name of replication.Type<X> with value v; (R5) marshalers and String methods change no package-level state. Included: C13-R2 (NULL / empty / absent stores of the streamer).",
}
