package main

import (
	"fmt"
	"go/ast"
	"go/token"
	"go/types"
	"os"
	"sort"
	"strings"

	"golang.org/x/tools/go/packages"
)

// Third source normalisation (second attempt only, after the inlining of functions): local closures that are only ever
// called. `rotate := func(ev Event) error {...}` next to `begin`/`commit`, `put := func(v interface{}) {...}` around four
// identical calls, `complement := func(frac, size int) int {...}` for a block repeated six times: each call that is a
// whole statement (expression statement, assignment, init of an if, sole result of a return) is replaced by the body,
// with parameters bound in a fresh scope and `return` turned into "assign the result temporaries; break" out of a
// labelled one-armed switch; the definition is blanked. The closure body sees the same variables at the call site as at
// its definition (checked by scope lookup), so the program's behaviour is unchanged.
func closureInlineOverlay(pkgs []*packages.Package, base map[string][]byte) map[string][]byte {
	out := map[string][]byte{}
	for _, p := range pkgs {
		if p.TypesInfo == nil {
			continue
		}
		info := p.TypesInfo
		off := func(pos token.Pos) int { return p.Fset.Position(pos).Offset }
		for _, file := range p.Syntax {
			fname := p.Fset.Position(file.Pos()).Filename
			src, ok := base[fname]
			if !ok {
				b, err := os.ReadFile(fname)
				if err != nil {
					continue
				}
				src = b
			}
			imported := map[string]string{}
			for _, im := range file.Imports {
				path := strings.Trim(im.Path.Value, `"`)
				name := path[strings.LastIndex(path, "/")+1:]
				if im.Name != nil {
					name = im.Name.Name
				}
				imported[name] = path
			}
			typeStr := func(t types.Type) (string, bool) {
				okT := true
				s := types.TypeString(t, func(other *types.Package) string {
					if other == p.Types {
						return ""
					}
					if imported[other.Name()] != other.Path() {
						okT = false
					}
					return other.Name()
				})
				return s, okT
			}
			pure := func(e ast.Expr) bool {
				okP := true
				ast.Inspect(e, func(m ast.Node) bool {
					if _, isCall := m.(*ast.CallExpr); isCall {
						okP = false
					}
					return okP
				})
				return okP
			}
			var edits []textEdit
			for _, decl := range file.Decls {
				fd, ok := decl.(*ast.FuncDecl)
				if !ok || fd.Body == nil {
					continue
				}
				// parent statements, to classify call sites
				parent := map[ast.Node]ast.Node{}
				var stack []ast.Node
				ast.Inspect(fd, func(n ast.Node) bool {
					if n == nil {
						stack = stack[:len(stack)-1]
						return true
					}
					if len(stack) > 0 {
						parent[n] = stack[len(stack)-1]
					}
					stack = append(stack, n)
					return true
				})
				type cdef struct {
					obj  *types.Var
					lit  *ast.FuncLit
					stmt ast.Stmt
				}
				var defs []cdef
				ast.Inspect(fd.Body, func(n ast.Node) bool {
					switch x := n.(type) {
					case *ast.AssignStmt:
						if x.Tok == token.DEFINE && len(x.Lhs) == 1 && len(x.Rhs) == 1 {
							if id, ok := x.Lhs[0].(*ast.Ident); ok {
								if lit, ok := x.Rhs[0].(*ast.FuncLit); ok {
									if v, ok := info.Defs[id].(*types.Var); ok {
										defs = append(defs, cdef{v, lit, x})
									}
								}
							}
						}
					}
					return true
				})
				doneOne := false
				for _, cd := range defs {
					if doneOne {
						break
					}
					sig, _ := cd.obj.Type().(*types.Signature)
					if sig == nil || sig.Variadic() || knownClosureNames[cd.obj.Name()] {
						continue
					}
					named := false
					for i := 0; i < sig.Results().Len(); i++ {
						if sig.Results().At(i).Name() != "" {
							named = true
						}
					}
					if named {
						continue
					}
					bad := false
					ast.Inspect(cd.lit.Body, func(m ast.Node) bool {
						switch x := m.(type) {
						case *ast.DeferStmt, *ast.LabeledStmt, *ast.GoStmt:
							bad = true
						case *ast.BranchStmt:
							if x.Tok == token.GOTO || x.Label != nil {
								bad = true
							}
						case *ast.Ident:
							if info.Uses[x] == types.Object(cd.obj) {
								bad = true // calls itself
							}
							if b, ok := info.Uses[x].(*types.Builtin); ok && b.Name() == "recover" {
								bad = true
							}
						}
						return !bad
					})
					if bad {
						if os.Getenv("GBV_DEBUG_CLOSURE") != "" {
							fmt.Fprintf(os.Stderr, "closure %s: body not eligible\n", cd.obj.Name())
						}
						continue
					}
					// free variables of the body
					type fv struct {
						name string
						obj  types.Object
					}
					var frees []fv
					ast.Inspect(cd.lit.Body, func(m ast.Node) bool {
						if id, ok := m.(*ast.Ident); ok {
							if o := info.Uses[id]; o != nil && o.Pos().IsValid() && (o.Pos() < cd.lit.Pos() || o.Pos() > cd.lit.End()) {
								// locals of the enclosing function (variables, constants, types declared in it)
								if o.Pkg() == p.Types && o.Parent() != nil && o.Parent() != p.Types.Scope() && o.Parent() != types.Universe {
									if v, isVar := o.(*types.Var); !isVar || !v.IsField() {
										frees = append(frees, fv{id.Name, o})
									}
								}
							}
						}
						return true
					})
					// uses of the closure variable
					type site struct {
						call *ast.CallExpr
						stmt ast.Stmt
						kind string // expr, assign, ifinit, return
						ifs  *ast.IfStmt
					}
					var sites []site
					okUses := true
					for id, o := range info.Uses {
						if o != types.Object(cd.obj) {
							continue
						}
						call, isCall := parent[id].(*ast.CallExpr)
						if !isCall || call.Fun != ast.Expr(id) || call.Ellipsis.IsValid() || len(call.Args) != sig.Params().Len() {
							okUses = false
							break
						}
						switch ps := parent[call].(type) {
						case *ast.ExprStmt:
							st := site{call, ps, "expr", nil}
							if ifs, isIf := parent[ps].(*ast.IfStmt); isIf && ifs.Init == ast.Stmt(ps) {
								st.kind, st.ifs = "ifinit", ifs
							}
							sites = append(sites, st)
						case *ast.AssignStmt:
							if len(ps.Rhs) != 1 || (ps.Tok != token.ASSIGN && ps.Tok != token.DEFINE) {
								okUses = false
								break
							}
							st := site{call, ps, "assign", nil}
							if ifs, isIf := parent[ps].(*ast.IfStmt); isIf && ifs.Init == ast.Stmt(ps) {
								st.kind, st.ifs = "ifinit", ifs
							}
							sites = append(sites, st)
						case *ast.ReturnStmt:
							if len(ps.Results) != 1 {
								okUses = false
								break
							}
							sites = append(sites, site{call, ps, "return", nil})
						default:
							okUses = false
						}
						if !okUses {
							break
						}
					}
					if !okUses || len(sites) == 0 {
						if os.Getenv("GBV_DEBUG_CLOSURE") != "" {
							fmt.Fprintf(os.Stderr, "closure %s: uses not all plain calls (ok=%v sites=%d)\n", cd.obj.Name(), okUses, len(sites))
						}
						continue
					}
					// call sites must not lie inside the closure, nor inside one another; the free variables must mean the same
					for _, st := range sites {
						if st.call.Pos() > cd.lit.Pos() && st.call.End() < cd.lit.End() {
							okUses = false
						}
						sc := p.Types.Scope().Innermost(st.call.Pos())
						for _, f := range frees {
							if sc == nil {
								okUses = false
								break
							}
							if _, o := sc.LookupParent(f.name, st.call.Pos()); o != f.obj {
								okUses = false
							}
						}
						for _, a := range st.call.Args {
							_ = a
						}
					}
					sort.Slice(sites, func(i, j int) bool { return sites[i].call.Pos() < sites[j].call.Pos() })
					for i := 1; i < len(sites); i++ {
						if sites[i].stmt.Pos() < sites[i-1].stmt.End() {
							okUses = false
						}
					}
					if !okUses {
						if os.Getenv("GBV_DEBUG_CLOSURE") != "" {
							fmt.Fprintf(os.Stderr, "closure %s: scope/overlap check failed\n", cd.obj.Name())
						}
						continue
					}
					nres := sig.Results().Len()
					b0 := off(cd.lit.Body.Lbrace) + 1
					var local []textEdit
					okAll := true
					for _, st := range sites {
						uid := off(st.call.Pos())
						label := fmt.Sprintf("inc%d", uid)
						pre, post := "", ""
						var tmps []string
						for i := 0; i < nres; i++ {
							ts, okT := typeStr(sig.Results().At(i).Type())
							if !okT {
								okAll = false
							}
							tmp := fmt.Sprintf("incR%d_%d", uid, i)
							pre += fmt.Sprintf("var %s %s; _ = %s; ", tmp, ts, tmp)
							tmps = append(tmps, tmp)
						}
						switch as := st.stmt.(type) {
						case *ast.AssignStmt:
							if len(as.Lhs) != nres {
								okAll = false
								break
							}
							var ls []string
							for _, l := range as.Lhs {
								if !pure(l) {
									okAll = false
								}
								ls = append(ls, string(src[off(l.Pos()):off(l.End())]))
							}
							op := " = "
							if as.Tok == token.DEFINE {
								op = " := "
							}
							post = "; " + strings.Join(ls, ", ") + op + strings.Join(tmps, ", ")
						case *ast.ReturnStmt:
							post = "; return " + strings.Join(tmps, ", ")
						}
						var binds, names []string
						for i := 0; i < sig.Params().Len(); i++ {
							pn := sig.Params().At(i).Name()
							arg := st.call.Args[i]
							if pn == "" || pn == "_" {
								if !pure(arg) {
									okAll = false
								}
								continue
							}
							ts, okT := typeStr(sig.Params().At(i).Type())
							if !okT {
								okAll = false
							}
							binds = append(binds, fmt.Sprintf("var %s %s = %s", pn, ts, string(src[off(arg.Pos()):off(arg.End())])))
							names = append(names, pn)
						}
						bt := ""
						if len(binds) > 0 {
							bt = strings.Join(binds, "; ") + "; " + strings.TrimSuffix(strings.Repeat("_, ", len(names)), ", ") + " = " + strings.Join(names, ", ") + ";"
						}
						body := string(src[b0:off(cd.lit.Body.Rbrace)])
						type rrep struct {
							s, e int
							text string
						}
						var reps []rrep
						ast.Inspect(cd.lit.Body, func(m ast.Node) bool {
							if _, isLit := m.(*ast.FuncLit); isLit {
								return false
							}
							ret, isRet := m.(*ast.ReturnStmt)
							if !isRet {
								return true
							}
							t := "break " + label
							if nres > 0 {
								if len(ret.Results) != nres && len(ret.Results) != 1 {
									okAll = false
									return true
								}
								var es []string
								for _, e := range ret.Results {
									es = append(es, string(src[off(e.Pos()):off(e.End())]))
								}
								t = "{ " + strings.Join(tmps, ", ") + " = " + strings.Join(es, ", ") + "; break " + label + " }"
							}
							reps = append(reps, rrep{off(ret.Pos()) - b0, off(ret.End()) - b0, t})
							return true
						})
						sort.Slice(reps, func(i, j int) bool { return reps[i].s > reps[j].s })
						for _, r := range reps {
							pad := strings.Repeat("\n", strings.Count(body[r.s:r.e], "\n"))
							body = body[:r.s] + r.text + pad + body[r.e:]
						}
						var text string
						if len(reps) == 0 {
							text = pre + "{ " + bt + body + "}" + post
						} else {
							text = pre + "{ " + bt + label + ": switch { default: " + body + "} }" + post
						}
						// origins: the closure body's lines
						bodyLine := p.Fset.Position(cd.lit.Body.Lbrace).Line
						nl := strings.Count(text, "\n") + 1
						orgs := make([]lineOrigin, nl)
						for k := 1; k < nl; k++ {
							of, ol := originOf(fname, bodyLine+k)
							orgs[k] = lineOrigin{of, ol}
						}
						if st.kind == "ifinit" {
							head := "{ " + text + "; if "
							local = append(local, textEdit{off(st.ifs.Pos()), off(st.ifs.Cond.Pos()), head, orgs})
							local = append(local, textEdit{off(st.ifs.End()), off(st.ifs.End()), " }", nil})
						} else {
							local = append(local, textEdit{off(st.stmt.Pos()), off(st.stmt.End()), text, orgs})
						}
					}
					if !okAll {
						if os.Getenv("GBV_DEBUG_CLOSURE") != "" {
							fmt.Fprintf(os.Stderr, "closure %s: text generation failed\n", cd.obj.Name())
						}
						continue
					}
					blank := strings.Repeat("\n", strings.Count(string(src[off(cd.stmt.Pos()):off(cd.stmt.End())]), "\n"))
					local = append(local, textEdit{off(cd.stmt.Pos()), off(cd.stmt.End()), blank, nil})
					edits = append(edits, local...)
					doneOne = true
				}
			}
			if len(edits) == 0 {
				continue
			}
			if nb, ok := applyEdits(fname, src, edits); ok {
				out[fname] = nb
			}
		}
	}
	if len(out) == 0 {
		return nil
	}
	return out
}
