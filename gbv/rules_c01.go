package main

import (
	"fmt"
	"go/token"
	"go/types"
	"strings"

	"golang.org/x/tools/go/ssa"
)

func init() {
	register("C01", propMeta{
		Explanation: "Whole-pipeline equality over all binlogs is a runtime quantity; its composition is covered clause-wise by C02 (grouping), C03 (labels), C09/C13/C15 (rows, cells, tables) and C16 (checksum " +
			"independence). Under C01 itself the routing facts are decided, because breaking any of them changes what the handler sees for every input that reaches it: (R1) kind routing - the write-rows arm " +
			"buffers an event built with StatementInsert carrying only values images, update-rows StatementUpdate with both images per row, delete-rows StatementDelete with only identify images, each event " +
			"built from the rows decoded in the same iteration, appended in row order, with the table name of the cached entry; query arms buffer {Type: the statement's category, Query: the decoded query}; " +
			"(R2) values come from getValuesFromRow (Data image family) and land in RowValues, identifies from getIdentifiesFromRow (Identify family) and land in RowIdentifies; (R3) every event timestamp is " +
			"int64(ev.Timestamp()) of the event being dispatched; (R4) packet framing - the event buffer has len(packet)-1 bytes copied from packet[1:], and classification reads packet[0]; (R5) the row " +
			"loop of each conversion visits every decoded row exactly once in order (range over rows.Rows, one append per image per row). " +
			"Not decided: equality of delivered values, names and order with the master's for all histories.",
		Rule:        "instances = buffered-event constructions per arm, image/list pairings, timestamp operands, framing operands, row-loop shape",
		Trusted:     commonTrusted,
		Assumptions: []string{"with C02, C03, C09, C13, C15, C16 for the clauses they decide"},
	}, runC01)

	addVariants(
		Variant{ID: "c01-r1-delete-as-update", Prop: "C01", File: "streamer.go",
			Old: "\tev := newStreamEvent(StatementDelete, timestamp, tc.table.Name())", New: "\tev := newStreamEvent(StatementUpdate, timestamp, tc.table.Name())",
			Expect: "C01-R1 kind@IsDeleteRows"},
		Variant{ID: "c01-r1-update-drops-before-image", Prop: "C01", File: "streamer.go",
			Old:    "\t\tidentifies, err := getIdentifiesFromRow(tc, rows, i)\n\t\tif err != nil {\n\t\t\treturn ev, err\n\t\t}\n\t\tev.RowIdentifies = append(ev.RowIdentifies, identifies)\n\n\t\tvalues, err := getValuesFromRow(tc, rows, i)",
			New:    "\t\tidentifies, err := getIdentifiesFromRow(tc, rows, i)\n\t\tif err != nil {\n\t\t\treturn ev, err\n\t\t}\n\t\tif i == 0 {\n\t\t\tev.RowIdentifies = append(ev.RowIdentifies, identifies)\n\t\t}\n\n\t\tvalues, err := getValuesFromRow(tc, rows, i)",
			Expect: "C01-R5 row-loop@appendUpdateEventFromRows"},
		Variant{ID: "c01-r2-images-crossed", Prop: "C01", File: "streamer.go",
			Old:    "\t\tev.RowIdentifies = append(ev.RowIdentifies, identifies)\n\n\t\tvalues, err := getValuesFromRow(tc, rows, i)\n\t\tif err != nil {\n\t\t\treturn ev, err\n\t\t}\n\t\tev.RowValues = append(ev.RowValues, values)",
			New:    "\t\tev.RowValues = append(ev.RowValues, identifies)\n\n\t\tvalues, err := getValuesFromRow(tc, rows, i)\n\t\tif err != nil {\n\t\t\treturn ev, err\n\t\t}\n\t\tev.RowIdentifies = append(ev.RowIdentifies, values)",
			Expect: "C01-R2 image-list@appendUpdateEventFromRows"},
		Variant{ID: "c01-r3-stale-timestamp", Prop: "C01", File: "streamer.go",
			Old: "\ttablesMaps := make(map[uint64]*tableCache)\n", New: "\ttablesMaps := make(map[uint64]*tableCache)\n\tvar lastTS int64\n",
			Old2: "\t\t\ttranEvent, err := appendInsertEventFromRows(tc, &rows, int64(ev.Timestamp()))", New2: "\t\t\tif lastTS == 0 {\n\t\t\t\tlastTS = int64(ev.Timestamp())\n\t\t\t}\n\t\t\ttranEvent, err := appendInsertEventFromRows(tc, &rows, lastTS)",
			Expect: "C01-R3 timestamp@IsWriteRows"},
		Variant{ID: "c01-r4-frame-offset", Prop: "C01", File: "slave_connection.go",
			Old: "\tdata := make([]byte, len(buf)-1)\n\tcopy(data, buf[1:])", New: "\tdata := make([]byte, len(buf)-1)\n\tcopy(data, buf[:len(buf)-1])",
			Expect: "C01-R4 framing@"},
		Variant{ID: "c01-r1-table-from-map", Prop: "C01", File: "streamer.go",
			Old: "\tev := newStreamEvent(StatementInsert, timestamp, tc.table.Name())", New: "\tev := newStreamEvent(StatementInsert, timestamp, NewMysqlTableName(tc.tableMap.Name, tc.tableMap.Database))",
			Expect: "C01-R1 table@IsWriteRows"},
		Variant{ID: "c01-r1-query-type", Prop: "C01", File: "streamer.go",
			Old: "\t\t\tcase StatementDelete, StatementInsert, StatementUpdate:\n\t\t\t\ttranEvents = append(tranEvents, &StreamEvent{\n\t\t\t\t\tType:      typ,", New: "\t\t\tcase StatementDelete, StatementInsert, StatementUpdate:\n\t\t\t\ttranEvents = append(tranEvents, &StreamEvent{\n\t\t\t\t\tType:      StatementInsert,",
			Expect: "C01-R1 query-event@"},
	)
}

func runC01(a *A) {
	if r := resolveRolesG(a, "C01-R0", "pt"); r != nil {
		ar := armAnalysis(a.W, r)
		c01Rows(a, r, ar)
		c01Query(a, r, ar)
	}
	if rc := resolveRolesG(a, "C01-R4", "r"); rc != nil {
		c01Framing(a, rc)
	}
}

// stmtConstName: the Statement* name of a constant operand.
func stmtConstName(w *World, v ssa.Value) string {
	k, ok := constInt(v)
	if !ok || !namedIs(v.Type(), rootPath, "StatementType") {
		return "?"
	}
	return statementNames(w)[k]
}

func isTimestampOf(v ssa.Value, ev ssa.Value) bool {
	cs, org := convsBack(v)
	if len(cs) != 1 || cs[0].Type().Underlying().String() != "int64" {
		return false
	}
	return isMethodOf(org, ev, "Timestamp")
}

func c01Rows(a *A, r *Roles, ar *Arms) {
	w := a.W
	want := map[string]struct {
		kind         string
		vals, idents bool
	}{"IsWriteRows": {"Insert", true, false}, "IsUpdateRows": {"Update", true, true}, "IsDeleteRows": {"Delete", false, true}}
	ctor := w.fn(w.Root, "newStreamEvent")
	if !a.need(ctor != nil, "C01-R1", "newStreamEvent") {
		return
	}
	a.touch(ctor)
	// constructor maps parameters to fields
	cmap := map[string]int{}
	instrs(ctor, func(in ssa.Instruction) {
		if st, ok := in.(*ssa.Store); ok {
			if fa, ok := st.Addr.(*ssa.FieldAddr); ok {
				if p, ok := st.Val.(*ssa.Parameter); ok {
					cmap[fieldName(fa)] = paramIndex(p)
				}
			}
		}
	})
	a.check(cmap["Type"] == 0 && cmap["Timestamp"] == 1 && cmap["Table"] == 2, "C01-R1", "ctor@newStreamEvent", w.pos(ctor.Pos()), "kind, timestamp, table stored into Type, Timestamp, Table",
		fmt.Sprintf("newStreamEvent stores its parameters as %v", cmap))
	for _, arm := range []string{"IsWriteRows", "IsUpdateRows", "IsDeleteRows"} {
		sp := want[arm]
		// the conversion call of the arm and what is appended to the buffer
		var conv, rowsCall *ssa.Call
		instrs(r.Parser, func(in ssa.Instruction) {
			if !ar.of[in.Block()][arm] {
				return
			}
			if c, ok := in.(*ssa.Call); ok {
				if f := c.Common().StaticCallee(); f != nil && f.Pkg == w.Root && len(f.Params) == 3 && typeIs(f.Params[0].Type(), rootPath, "tableCache") {
					conv = c
				}
				if c.Common().IsInvoke() && c.Common().Method.Name() == "Rows" {
					rowsCall = c
				}
			}
		})
		if conv == nil || rowsCall == nil {
			a.undecided("C01-R1", "kind@"+arm, "-", "row conversion call not found in arm")
			continue
		}
		f := conv.Common().StaticCallee()
		a.touch(f)
		// appended element = result 0 of conv
		appended := false
		for _, s := range r.Tran.stores() {
			if s.Fn != r.Parser || !ar.of[s.block()][arm] {
				continue
			}
			for _, v := range appendedElems(r, s) {
				if ex, ok := v.(*ssa.Extract); ok && ex.Tuple == ssa.Value(conv) && ex.Index == 0 {
					appended = true
				}
			}
		}
		a.check(appended, "C01-R1", "buffered@"+arm, w.posOf(conv), "the buffered event is the one converted from this event's rows", "the event appended to the transaction is not the result of converting this event's rows")
		// timestamp argument
		a.check(isTimestampOf(conv.Common().Args[2], r.StrippedEv), "C01-R3", "timestamp@"+arm, w.posOf(conv), "int64(ev.Timestamp()) of the event being dispatched", "the change's timestamp is not taken from the event being dispatched")
		// inside the conversion: kind constant, table, loops
		var mk *ssa.Call
		instrs(f, func(in ssa.Instruction) {
			if c, ok := in.(*ssa.Call); ok && c.Common().StaticCallee() == ctor {
				mk = c
			}
		})
		if mk == nil {
			a.undecided("C01-R1", "kind@"+arm, w.pos(f.Pos()), "conversion does not call newStreamEvent")
			continue
		}
		kn := stmtConstName(w, mk.Common().Args[0])
		a.check(kn == sp.kind, "C01-R1", "kind@"+arm, w.posOf(mk), "event kind Statement"+sp.kind, fmt.Sprintf("%s events are delivered with kind Statement%s instead of Statement%s", strings.TrimPrefix(arm, "Is"), kn, sp.kind))
		a.check(resolve(mk.Common().Args[1]) == ssa.Value(f.Params[2]), "C01-R3", "timestamp@"+arm+"[ctor]", w.posOf(mk), "timestamp parameter passed on", "the conversion does not pass its timestamp parameter to the event")
		// table: tc.table.Name()
		okTable := false
		if c, ok := mk.Common().Args[2].(*ssa.Call); ok && c.Common().IsInvoke() && c.Common().Method.Name() == "Name" {
			okTable = strings.HasSuffix(fieldPath(c.Common().Value), "table") && derivesFromParam(c.Common().Value, f.Params[0])
		}
		a.check(okTable, "C01-R1", "table@"+arm, w.posOf(mk), "table = the cached mapper table's Name()", "the event's table name is not the cached mapper table's name")
		// R2 + R5: appends inside the row loop
		c01RowLoop(a, f, mk, sp.vals, sp.idents)
	}
}

func derivesFromParam(v ssa.Value, p *ssa.Parameter) bool {
	for i := 0; i < 8; i++ {
		switch x := v.(type) {
		case *ssa.UnOp:
			v = x.X
		case *ssa.FieldAddr:
			v = x.X
		case *ssa.Parameter:
			return x == p
		default:
			return false
		}
	}
	return false
}

// c01RowLoop checks the conversion's loop: range over rows.Rows; per iteration one append per required image list,
// fed by the matching image decoder called with the loop index; no other appends; every iteration reaches them.
func c01RowLoop(a *A, f *ssa.Function, ev ssa.Value, wantVals, wantIdents bool) {
	w := a.W
	var hdr *ssa.BasicBlock
	for _, b := range f.Blocks {
		if isLoopHeader(b) {
			hdr = b
		}
	}
	key := "row-loop@" + f.Name()
	if hdr == nil {
		a.viol("C01-R5", key, w.pos(f.Pos()), "the conversion has no loop over the decoded rows")
		return
	}
	// loop bound: len(rows.Rows) and index from 0 step 1
	t := newTB(nil)
	var idx *ssa.Phi
	var idxVal ssa.Value // the row index used in the body (the phi, or phi+1 in go/ssa's rotated range loops)
	boundOK := false
	if iff, ok := lastInstr(hdr).(*ssa.If); ok {
		if bo, ok := iff.Cond.(*ssa.BinOp); ok && bo.Op == token.LSS {
			bt := t.term(bo.Y).String()
			boundOK = strings.Contains(bt, "len(") && strings.Contains(bt, "Rows")
			idxVal = bo.X
			switch x := bo.X.(type) {
			case *ssa.Phi:
				idx = x
			case *ssa.BinOp:
				if p, ok := x.X.(*ssa.Phi); ok {
					idx = p
				}
			}
		}
	}
	stepOK := false
	if idx != nil {
		t.names[idx] = "i"
		first, step := "", ""
		for i, pr := range idx.Block().Preds {
			e := t.term(idx.Edges[i]).String()
			if idx.Block().Dominates(pr) {
				step = e
			} else {
				first = e
			}
		}
		// first row index is 0 and it advances by one
		switch {
		case idxVal == ssa.Value(idx):
			stepOK = first == "0" && step == "i+1"
		default:
			stepOK = first == "-1" && step == "i+1" && t.term(idxVal).String() == "i+1"
		}
	}
	a.check(boundOK && stepOK, "C01-R5", key+"[range]", w.posOf(hdr.Instrs[0]), "visits rows.Rows[0..len) in order, one step at a time", "the conversion does not iterate over all decoded rows in order (bound or step differs)")
	// appends to ev.RowValues / ev.RowIdentifies
	type app struct {
		list, src string
		in        *ssa.Store
		inLoop    bool
		guarded   bool
		idxOK     bool
	}
	var apps []app
	// constant flags (a shared conversion inlined with `withValues = false`) decide some branches: code that cannot run
	// appends nothing, and a test that is constant guards nothing
	sp := Specialize(f, nil, nil)
	instrs(f, func(in ssa.Instruction) {
		st, ok := in.(*ssa.Store)
		if !ok || !sp.Exec[st.Block()] {
			return
		}
		fa, ok := st.Addr.(*ssa.FieldAddr)
		if !ok || fa.X != ev {
			return
		}
		name := fieldName(fa)
		if name != "RowValues" && name != "RowIdentifies" {
			return
		}
		c, ok := st.Val.(*ssa.Call)
		if !ok || !isBuiltin(c.Common(), "append") {
			return
		}
		ap := app{list: name, in: st, inLoop: hdr.Dominates(st.Block()) && inCycle(st.Block())}
		// base = same list
		if u, ok := c.Common().Args[0].(*ssa.UnOp); ok {
			if fb, ok := u.X.(*ssa.FieldAddr); !ok || fieldName(fb) != name || fb.X != ev {
				ap.src = "other-base"
			}
		}
		// appended element: produced by which image decoder, with which row index
		if sl, ok := c.Common().Args[1].(*ssa.Slice); ok {
			if al, ok := sl.X.(*ssa.Alloc); ok {
				for _, ref := range *al.Referrers() {
					if ia, ok := ref.(*ssa.IndexAddr); ok {
						for _, rr := range *ia.Referrers() {
							if s2, ok := rr.(*ssa.Store); ok {
								if ex, ok := resolve(s2.Val).(*ssa.Extract); ok {
									if pc, ok := ex.Tuple.(*ssa.Call); ok && pc.Common().StaticCallee() != nil {
										ap.src = roleName(pc.Common().StaticCallee())
										if len(pc.Common().Args) == 3 {
											ap.idxOK = pc.Common().Args[2] == idxVal
										}
									}
								}
							}
						}
					}
				}
			}
		}
		// guarded by anything other than the decoders' error tests?
		for _, ce := range dominatingConds(st.Block()) {
			if !hdr.Dominates(ce.If.Block()) || ce.If.Block() == hdr {
				continue
			}
			if l := sp.get(ce.Cond); l.k == cst {
				continue
			}
			if _, _, isNil := nilTest(ce.Cond); !isNil {
				ap.guarded = true
			}
		}
		apps = append(apps, ap)
	})
	wantList := map[string]string{}
	if wantVals {
		wantList["RowValues"] = "getValuesFromRow"
	}
	if wantIdents {
		wantList["RowIdentifies"] = "getIdentifiesFromRow"
	}
	seen := map[string]int{}
	for _, ap := range apps {
		seen[ap.list]++
		wsrc, wanted := wantList[ap.list]
		k2 := fmt.Sprintf("image-list@%s[%s]", f.Name(), ap.list)
		switch {
		case !wanted:
			a.viol("C01-R2", k2, w.posOf(ap.in), "this kind of rows event must not carry %s images, but the conversion appends to it", ap.list)
		case ap.src != wsrc:
			a.viol("C01-R2", k2, w.posOf(ap.in), "%s is filled from %s; it must hold the images decoded by %s", ap.list, ap.src, wsrc)
		default:
			a.hold("C01-R2", k2, w.posOf(ap.in), "%s <- %s", ap.list, ap.src)
		}
		a.check(ap.inLoop && !ap.guarded && ap.idxOK, "C01-R5", fmt.Sprintf("row-loop@%s[%s]", f.Name(), ap.list), w.posOf(ap.in), "one image per row, unconditionally, for the row of the loop index",
			fmt.Sprintf("the %s image is not appended exactly once for every row (in loop=%v, extra condition=%v, indexed by the loop row=%v): rows are dropped, duplicated or mis-paired", ap.list, ap.inLoop, ap.guarded, ap.idxOK))
	}
	for l := range wantList {
		if seen[l] != 1 {
			a.viol("C01-R5", fmt.Sprintf("row-loop@%s[%s]#count", f.Name(), l), w.pos(f.Pos()), "%s is appended at %d sites per iteration, expected exactly one", l, seen[l])
		}
	}
	// the image decoders' families (R2): getValuesFromRow reads Data, getIdentifiesFromRow reads Identify
	for fn, fam := range map[string]string{"getValuesFromRow": "Data", "getIdentifiesFromRow": "Identify"} {
		g := w.fn(w.Root, fn)
		if g == nil {
			continue
		}
		okFam := false
		isDec := func(f *ssa.Function) bool { return f.Name() == "CellBytes" && f.Pkg == w.Repl }
		for _, rl := range findRowLoopsDeep(w, g, isDec) {
			// the bytes handed to the decoder, seen from g (through the call site when the loop lives in a helper)
			dataArg := rl.Len.Common().Args[0]
			if p, isP := strip(dataArg).(*ssa.Parameter); isP && rl.Env != nil {
				if av, bound := rl.Env[p]; bound {
					dataArg = av
				}
			}
			okFam = lastField(fieldPath(resolve(dataArg))) == fam
			a.touch(rl.Fn)
		}
		a.check(okFam, "C01-R2", "image-source@"+fn, w.pos(g.Pos()), fn+" decodes the "+fam+" image", fn+" does not decode the "+fam+" image of the row")
	}
}

// query arms: &StreamEvent{Type: typ, Query: q, Timestamp: int64(ev.Timestamp())}
func c01Query(a *A, r *Roles, ar *Arms) {
	w := a.W
	var qcall, cat *ssa.Call
	instrs(r.Parser, func(in ssa.Instruction) {
		if c, ok := in.(*ssa.Call); ok {
			if c.Common().IsInvoke() && c.Common().Method.Name() == "Query" {
				qcall = c
			}
			if f := c.Common().StaticCallee(); f != nil && f.Name() == "GetStatementCategory" {
				cat = c
			}
		}
	})
	if !a.need(qcall != nil && cat != nil, "C01-R1", "Query() and GetStatementCategory calls in the parser") {
		return
	}
	a.check(qcall.Common().Value == r.StrippedEv && r.isFormat(qcall.Common().Args[0]), "C01-R1", "query-call@parser", w.posOf(qcall), "Query(format) on the stripped event", "Query is not decoded from the stripped current event")
	// category of q.SQL
	okCat := false
	if u, ok := cat.Common().Args[0].(*ssa.UnOp); ok {
		if fa, ok := u.X.(*ssa.FieldAddr); ok && fieldName(fa) == "SQL" {
			okCat = true
		}
	}
	a.check(okCat, "C01-R1", "query-category@parser", w.posOf(cat), "category of the decoded SQL text", "the statement category is not computed from the decoded query's SQL")
	n := 0
	good := map[ssa.Value]bool{}
	instrs(r.Parser, func(in ssa.Instruction) {
		al, ok := in.(*ssa.Alloc)
		if !ok || !typeIs(al.Type(), rootPath, "StreamEvent") {
			return
		}
		lab := ar.label(al.Block())
		if !strings.HasPrefix(lab, "Query/") {
			return
		}
		n++
		got := map[string]ssa.Value{}
		for _, ref := range *al.Referrers() {
			if fa, ok := ref.(*ssa.FieldAddr); ok {
				for _, rr := range *fa.Referrers() {
					if st, ok := rr.(*ssa.Store); ok {
						got[fieldName(fa)] = st.Val
					}
				}
			}
		}
		key := fmt.Sprintf("query-event@parser#%d", n)
		okType := got["Type"] == ssa.Value(cat)
		okTS := got["Timestamp"] != nil && isTimestampOf(got["Timestamp"], r.StrippedEv)
		okQ := false
		if u, ok := got["Query"].(*ssa.UnOp); ok {
			if ql, ok := u.X.(*ssa.Alloc); ok {
				for _, ref := range *ql.Referrers() {
					if st, ok := ref.(*ssa.Store); ok && st.Addr == ssa.Value(ql) {
						if ex, ok := st.Val.(*ssa.Extract); ok && ex.Tuple == ssa.Value(qcall) && ex.Index == 0 {
							okQ = true
						}
					}
				}
			}
		}
		if okType && okTS && okQ {
			good[al] = true
		}
		a.check(okType && okTS && okQ, "C01-R1", key, w.posOf(al), "{Type: category, Query: decoded query, Timestamp: this event's}",
			fmt.Sprintf("a statement event is buffered with Type ok=%v, Query ok=%v, Timestamp ok=%v: the delivered change does not describe the logged statement", okType, okQ, okTS))
	})
	if n < 1 {
		a.undecided("C01-R1", "query-event@parser", "-", "found %d statement-event constructions, expected at least 1", n)
		return
	}
	// every statement arm buffers one of these constructions before the next event is taken
	appendOf := map[*ssa.BasicBlock]bool{}
	for _, st := range r.Tran.stores() {
		if st.Fn != r.Parser || st.Field != "" {
			continue
		}
		es := appendedElems(r, st)
		if len(es) != 1 {
			continue
		}
		if good[es[0]] {
			appendOf[st.block()] = true
		}
	}
	for _, p := range ar.Preds {
		switch p.Name {
		case "Query/Create", "Query/Alter", "Query/Drop", "Query/Rename", "Query/Truncate", "Query/Set", "Query/Insert", "Query/Update", "Query/Delete":
			esc := reachesAvoiding(p.Entry, r.LoopHead, func(b *ssa.BasicBlock) bool { return appendOf[b] }, nil) && !appendOf[p.Entry]
			a.check(!esc, "C01-R1", "query-event@parser[arm="+p.Name+"]", w.posOf(p.Entry.Instrs[0]), "the statement is buffered as {category, query, timestamp} on every path of the arm",
				"a logged statement of this kind can pass without being buffered as a change built from its own category, query and timestamp")
		}
	}
}

func c01Framing(a *A, r *Roles) {
	const rule = "C01-R4"
	w := a.W
	f := r.ReadEvent
	var buf ssa.Value
	instrs(f, func(in ssa.Instruction) {
		if c, ok := in.(*ssa.Call); ok && isInvokeOf(c.Common(), "ReadPacket") {
			for _, ref := range *c.Referrers() {
				if ex, ok := ref.(*ssa.Extract); ok && ex.Index == 0 {
					buf = ex
				}
			}
		}
	})
	if !a.need(buf != nil, rule, "ReadPacket result") {
		return
	}
	t := newTB(nil)
	t.names[buf] = "buf"
	// the event value: the argument of the replication-package constructor called by the decoder
	var evArg ssa.Value
	var ctor *ssa.Call
	instrs(f, func(in ssa.Instruction) {
		if c, ok := in.(*ssa.Call); ok {
			if cal := c.Common().StaticCallee(); cal != nil && cal.Pkg == w.Repl && len(c.Common().Args) == 1 {
				evArg, ctor = c.Common().Args[0], c
			}
		}
	})
	if evArg == nil {
		a.undecided(rule, "framing@"+f.Name(), w.pos(f.Pos()), "construction of the event from the packet not found")
		return
	}
	ln, src, okc := freshCopyOf(t, evArg, 0)
	if !okc {
		a.undecided(rule, "framing@"+f.Name(), w.posOf(ctor), "allocation + copy of the event payload not found")
		return
	}
	a.check(ln == "len(buf)-1" && src == "buf[1:]", rule, "framing@"+f.Name(), w.posOf(ctor), "event = packet[1:] (the status byte is dropped), len(packet)-1 bytes",
		fmt.Sprintf("the event buffer has %s bytes filled from %s; a binlog packet is one status byte followed by the event", ln, src))
	// classification reads buf[0]
	ok := false
	firstByteRead := func(g *ssa.Function, b ssa.Value) {
		instrs(g, func(in ssa.Instruction) {
			if ia, isIA := in.(*ssa.IndexAddr); isIA && ia.X == b {
				if k, isK := constInt(ia.Index); isK && k == 0 {
					ok = true
				}
			}
		})
	}
	firstByteRead(f, buf)
	// ... or by an in-package function the packet is handed to
	instrs(f, func(in ssa.Instruction) {
		if c, isC := in.(*ssa.Call); isC && !c.Common().IsInvoke() {
			if cal := c.Common().StaticCallee(); cal != nil && cal.Pkg == w.Root && cal.Blocks != nil {
				for i, arg := range c.Common().Args {
					if arg == buf && i < len(cal.Params) {
						firstByteRead(cal, cal.Params[i])
					}
				}
			}
		}
	})
	a.check(ok, rule, "status-byte@"+f.Name(), w.pos(f.Pos()), "packet kind read from packet[0]", "the packet kind is not read from the first byte")
	_ = types.Typ
}

// freshCopyOf: v is a byte slice allocated with make and filled by exactly one copy (possibly inside an in-package helper
// whose single return is such a slice); returns the canonical terms of its length and of the copied source.
func freshCopyOf(t *tb, v ssa.Value, depth int) (string, string, bool) {
	switch x := strip(v).(type) {
	case *ssa.MakeSlice:
		var cps []*ssa.Call
		if refs := x.Referrers(); refs != nil {
			for _, r := range *refs {
				if c, ok := r.(*ssa.Call); ok && isBuiltin(c.Common(), "copy") && c.Common().Args[0] == ssa.Value(x) {
					cps = append(cps, c)
				}
			}
		}
		if len(cps) != 1 {
			return "", "", false
		}
		return t.term(x.Len).String(), t.sliceTerm(cps[0].Common().Args[1]), true
	case *ssa.Call:
		cal := x.Common().StaticCallee()
		home := x.Parent()
		if cal == nil || cal.Blocks == nil || x.Common().IsInvoke() || home == nil || cal.Pkg != enclosingPkg(home) || depth >= 2 {
			return "", "", false
		}
		rets := returnsOf(cal)
		if len(rets) != 1 || len(rets[0].Results) != 1 {
			return "", "", false
		}
		child := newTB(nil)
		child.depth, child.tables = t.depth+1, t.tables
		for i, arg := range x.Common().Args {
			if i >= len(cal.Params) {
				break
			}
			if isIntegerType(arg.Type()) {
				child.subst[cal.Params[i]] = t.term(arg)
			} else {
				child.ssub[cal.Params[i]] = t.sliceTerm(arg)
			}
		}
		return freshCopyOf(child, rets[0].Results[0], depth+1)
	}
	return "", "", false
}
