package main

import (
	"fmt"
	"go/constant"
	"go/token"
	"go/types"
	"reflect"
	"sort"
	"strings"

	"golang.org/x/tools/go/ssa"
)

func init() {
	register("C20", propMeta{
		Explanation: "Decides: (R1) marshalling cannot fail - from each json.Marshal call of the root package the static argument type is walked as encoding/json does: only bool / integer / string / []byte / struct / " +
			"slice / pointer / interface kinds (no float, complex, chan, func, map), no recursive type, interface-typed fields receive only string or nil, the only Marshalers reachable are the package's " +
			"three, each of which returns exactly the result of its own json.Marshal call (so by induction no error), and no reachable type implements TextMarshaler; (R2) structure preservation - " +
			"the effective JSON field set of each marshalled struct (tags, embedding, conflict rule) contains, visible and not omitempty, a field fed by each source field the statement lists " +
			"(positions, events, kind, table, SQL, row images, column name / type name / absent flag / data; Position and MysqlTableName tags); slices are passed whole; (R3) name tables are total - " +
			"a distinct non-empty name for every column-type constant (which mirror every replication.Type*) and every Statement* except Unknown; (R4) the data field is the nil interface exactly on the " +
			"c.Data == nil edge and string(c.Data) otherwise. Not decided: encoding/json's escaping and its replacement of invalid UTF-8 (trusted).",
		Rule:        "instances = types reachable from json.Marshal arguments, JSON fields per marshalled struct and branch, name-table entries",
		Trusted:     append([]string{"encoding/json field-selection rules (tags, embedding depth, name conflicts) as re-implemented in rules_c20.go"}, commonTrusted...),
		Assumptions: []string{"the analysers see non-test files only"},
	}, runC20)

	addVariants(
		Variant{ID: "c20-r3-swapped-type-constants", Prop: "C20", File: "mysql_types.go",
			Old: "\tcolumnTypeDateTime2             = replication.TypeDateTime2  //日期时间\n\tcolumnTypeTime2                 = replication.TypeTime2      //时间\n", New: "\tcolumnTypeTime2                 = replication.TypeDateTime2  //时间\n\tcolumnTypeDateTime2             = replication.TypeTime2      //日期时间\n",
			Expect: "C20-R3 name-of@columnType"},
		Variant{ID: "c20-r1-float-field", Prop: "C20", File: "transaction.go",
			Old: "\t\tTimestamp    string         `json:\"timestamp\"`\n\t\tEvents       []*StreamEvent `json:\"events\"`\n\t}{", New: "\t\tTimestamp    string         `json:\"timestamp\"`\n\t\tEvents       []*StreamEvent `json:\"events\"`\n\t\tLag          float64        `json:\"lag\"`\n\t}{",
			Expect: "C20-R1 kind@"},
		Variant{ID: "c20-r2-events-hidden", Prop: "C20", File: "transaction.go",
			Old: "\t\tEvents       []*StreamEvent `json:\"events\"`\n\t}{", New: "\t\tEvents       []*StreamEvent `json:\"events,omitempty\"`\n\t}{",
			Expect: "C20-R2 json-field@Transaction[events]"},
		Variant{ID: "c20-r2-shadowed-type", Prop: "C20", File: "transaction.go",
			Old: "\t\t\tbaseStreamEventJSON\n\t\t\tSQL string `json:\"sql\"`\n", New: "\t\t\tbaseStreamEventJSON\n\t\t\tSQL string `json:\"type\"`\n",
			Expect: "C20-R2 json-field@StreamEvent"},
		Variant{ID: "c20-r2-positions-swapped", Prop: "C20", File: "transaction.go",
			Old: "\t\tNowPosition:  t.NowPosition,\n\t\tNextPosition: t.NextPosition,\n\t\tTimestamp:    time.Unix", New: "\t\tNowPosition:  t.NextPosition,\n\t\tNextPosition: t.NowPosition,\n\t\tTimestamp:    time.Unix",
			Expect: "C20-R2 json-field@Transaction[nowPosition]"},
		Variant{ID: "c20-r2-identifies-as-values", Prop: "C20", File: "transaction.go",
			Old: "\t\tRowIdentifies:       s.RowIdentifies,\n", New: "\t\tRowIdentifies:       s.RowValues,\n",
			Expect: "C20-R2 json-field@StreamEvent[rowIdentifies"},
		Variant{ID: "c20-r3-missing-type-name", Prop: "C20", File: "mysql_types.go",
			Old: "\t\tcolumnTypeTime2:      \"Time2\",\n", New: "",
			Expect: "C20-R3 name@columnType"},
		Variant{ID: "c20-r3-duplicate-name", Prop: "C20", File: "mysql_types.go",
			Old: "\t\tcolumnTypeTime2:      \"Time2\",\n", New: "\t\tcolumnTypeTime2:      \"Time\",\n",
			Expect: "C20-R3 distinct@columnTypeStrings"},
		Variant{ID: "c20-r4-null-as-empty", Prop: "C20", File: "transaction.go",
			Old: "\tvar i interface{} = string(c.Data)\n\tif c.Data == nil {\n\t\ti = nil\n\t}\n", New: "\tvar i interface{} = string(c.Data)\n\tif c.Data == nil && c.IsEmpty {\n\t\ti = nil\n\t}\n",
			Expect: "C20-R4 null-vs-empty@ColumnData"},
		Variant{ID: "c20-r1-marshaler-swallows", Prop: "C20", File: "transaction.go",
			Old: "\treturn json.Marshal(notNullJSON)\n", New: "\tout, err := json.Marshal(notNullJSON)\n\tif err != nil || len(out) > 1<<20 {\n\t\treturn nil, fmt.Errorf(\"column too large: %v\", err)\n\t}\n\treturn out, nil\n",
			Old2: "import (\n\t\"encoding/json\"\n", New2: "import (\n\t\"encoding/json\"\n\t\"fmt\"\n",
			Expect: "C20-R1 marshaler@ColumnData"},
	)
}

type jsonField struct {
	Name      string
	Path      []string // Go field path inside the struct value
	Type      types.Type
	OmitEmpty bool
}

// jsonFields re-implements encoding/json's typeFields for a struct type.
func jsonFields(st *types.Struct) []jsonField {
	type cand struct {
		jsonField
		depth  int
		tagged bool
	}
	var all []cand
	var walk func(s *types.Struct, path []string, depth int, seen map[*types.Struct]bool)
	walk = func(s *types.Struct, path []string, depth int, seen map[*types.Struct]bool) {
		if seen[s] {
			return
		}
		seen[s] = true
		for i := 0; i < s.NumFields(); i++ {
			f := s.Field(i)
			tag := reflect.StructTag(s.Tag(i)).Get("json")
			if tag == "-" {
				continue
			}
			name, opts, _ := strings.Cut(tag, ",")
			ft := f.Type()
			if p, ok := ft.Underlying().(*types.Pointer); ok && f.Embedded() {
				ft = p.Elem()
			}
			sub, isStruct := ft.Underlying().(*types.Struct)
			if f.Embedded() {
				if !f.Exported() && !isStruct {
					continue
				}
			} else if !f.Exported() {
				continue
			}
			np := append(append([]string{}, path...), f.Name())
			if f.Embedded() && isStruct && name == "" {
				walk(sub, np, depth+1, seen)
				continue
			}
			c := cand{jsonField{Name: name, Path: np, Type: f.Type(), OmitEmpty: strings.Contains(","+opts+",", ",omitempty,")}, depth, name != ""}
			if c.Name == "" {
				c.Name = f.Name()
			}
			all = append(all, c)
		}
	}
	walk(st, nil, 0, map[*types.Struct]bool{})
	byName := map[string][]cand{}
	var order []string
	for _, c := range all {
		if _, ok := byName[c.Name]; !ok {
			order = append(order, c.Name)
		}
		byName[c.Name] = append(byName[c.Name], c)
	}
	var out []jsonField
	for _, n := range order {
		cs := byName[n]
		sort.SliceStable(cs, func(i, j int) bool {
			if cs[i].depth != cs[j].depth {
				return cs[i].depth < cs[j].depth
			}
			return cs[i].tagged && !cs[j].tagged
		})
		if len(cs) > 1 && cs[0].depth == cs[1].depth && cs[0].tagged == cs[1].tagged {
			continue // conflict: dropped silently by encoding/json
		}
		out = append(out, cs[0].jsonField)
	}
	return out
}

func runC20(a *A) {
	w := a.W
	// the json.Marshal calls of the root package
	var calls []*ssa.Call
	for _, f := range w.srcFuncs(w.Root) {
		instrs(f, func(in ssa.Instruction) {
			if c, ok := in.(*ssa.Call); ok && staticCalleeIs(c.Common(), "encoding/json.Marshal") {
				calls = append(calls, c)
			}
		})
	}
	if !a.need(len(calls) >= 3, "C20-R1", "json.Marshal calls in the root package") {
		return
	}
	marshalers := map[string]*ssa.Function{}
	for _, tn := range []string{"Transaction", "StreamEvent", "ColumnData"} {
		m := w.method(w.Root, tn, "MarshalJSON")
		if a.need(m != nil, "C20-R1", tn+".MarshalJSON") {
			marshalers[tn] = m
			a.touch(m)
		}
	}
	c20R1(a, calls, marshalers)
	c20R2(a, marshalers)
	c20R3(a)
	c20R4(a, marshalers["ColumnData"])
	// R5: serialisation is a function of the transaction alone (no memoised encodings)
	{
		var roots []*ssa.Function
		for _, f := range w.srcFuncs(w.Root) {
			if f.Signature.Recv() != nil && (f.Name() == "MarshalJSON" || f.Name() == "String" || f.Name() == "MarshalText") {
				roots = append(roots, f)
			}
		}
		statelessRule(a, "C20-R5", "the marshalers and String methods", roots, w.Root)
	}
}

func implementsNamed(t types.Type, pkgPath, iface string, w *World) bool {
	for _, p := range w.Pkgs {
		_ = p
	}
	var it *types.Interface
	for _, p := range w.Prog.AllPackages() {
		if p.Pkg.Path() == pkgPath {
			if o := p.Pkg.Scope().Lookup(iface); o != nil {
				it, _ = o.Type().Underlying().(*types.Interface)
			}
		}
	}
	if it == nil {
		return false
	}
	return types.Implements(t, it) || types.Implements(types.NewPointer(t), it)
}

func c20R1(a *A, calls []*ssa.Call, marshalers map[string]*ssa.Function) {
	const rule = "C20-R1"
	w := a.W
	seen := map[string]bool{}
	var visit func(t types.Type, path string, stack []types.Type, pos string)
	visit = func(t types.Type, path string, stack []types.Type, pos string) {
		for _, s := range stack {
			if types.Identical(s, t) {
				if _, isNamed := t.(*types.Named); isNamed {
					a.viol(rule, "kind@"+path, pos, "recursive type %s: encoding/json can loop or fail on cycles", t)
				}
				return
			}
		}
		key := t.String()
		if seen[key] {
			return
		}
		seen[key] = true
		// Marshaler / TextMarshaler
		if n, ok := derefNamed(t); ok {
			if implementsNamed(n, "encoding/json", "Marshaler", w) {
				m := marshalers[n.Obj().Name()]
				a.check(m != nil && n.Obj().Pkg().Path() == rootPath, rule, "marshaler-type@"+n.Obj().Name(), pos, "one of the package's own Marshalers", "a foreign Marshaler is reachable: its errors are not bounded here")
				return // its own Marshal call is walked separately
			}
			if implementsNamed(n, "encoding", "TextMarshaler", w) {
				a.viol(rule, "kind@"+path, pos, "%s implements TextMarshaler; its error is not bounded", n)
				return
			}
		}
		st2 := append(stack, t)
		switch u := t.Underlying().(type) {
		case *types.Basic:
			info := u.Info()
			ok := info&(types.IsBoolean|types.IsInteger|types.IsString) != 0
			a.check(ok, rule, "kind@"+path, pos, "kind "+u.String()+" always marshals", fmt.Sprintf("field of kind %s: encoding/json fails on NaN/Inf (float) or rejects the kind (complex)", u))
		case *types.Pointer:
			visit(u.Elem(), path, st2, pos)
		case *types.Slice:
			visit(u.Elem(), path+"[]", st2, pos)
		case *types.Array:
			visit(u.Elem(), path+"[]", st2, pos)
		case *types.Struct:
			for _, jf := range jsonFields(u) {
				visit(jf.Type, path+"."+jf.Name, st2, pos)
			}
		case *types.Interface:
			a.hold(rule, "kind@"+path, pos, "interface: dynamic values checked by R4 (string or nil)")
		case *types.Map:
			kb, ok := u.Key().Underlying().(*types.Basic)
			if ok && kb.Info()&types.IsString != 0 {
				visit(u.Elem(), path+"{}", st2, pos)
			} else {
				a.viol(rule, "kind@"+path, pos, "map with non-string keys")
			}
		default:
			a.viol(rule, "kind@"+path, pos, "kind %T (%s) cannot be marshalled", u, t)
		}
	}
	for _, c := range calls {
		var mis []*ssa.MakeInterface
		okArg := true
		var gather func(v ssa.Value, d int)
		gather = func(v ssa.Value, d int) {
			switch x := v.(type) {
			case *ssa.MakeInterface:
				mis = append(mis, x)
			case *ssa.Phi:
				if d > 3 {
					okArg = false
					return
				}
				for _, e := range x.Edges {
					gather(e, d+1)
				}
			default:
				okArg = false
			}
		}
		gather(c.Common().Args[0], 0)
		if !okArg || len(mis) == 0 {
			a.undecided(rule, "marshal-arg@"+c.Parent().Name(), w.posOf(c), "argument of json.Marshal is not a value of static type")
			continue
		}
		a.Calls++
		recv := "?"
		if c.Parent().Signature.Recv() != nil {
			if n, ok := derefNamed(c.Parent().Signature.Recv().Type()); ok {
				recv = n.Obj().Name()
			}
		}
		for _, mi := range mis {
			visit(mi.X.Type(), recv, nil, w.posOf(c))
		}
	}
	// each Marshaler returns exactly its own json.Marshal result
	for tn, m := range marshalers {
		var sites []marshalSite
		ok := exactMarshalResult(m, nil, 0, &sites)
		a.check(ok, rule, "marshaler@"+tn, w.pos(m.Pos()), "returns exactly the result of its own json.Marshal call", "the Marshaler can return an error of its own (or drop/alter the marshalled bytes): serialising a delivered transaction can fail")
	}
}

func derefNamed(t types.Type) (*types.Named, bool) {
	if p, ok := t.(*types.Pointer); ok {
		t = p.Elem()
	}
	n, ok := t.(*types.Named)
	return n, ok
}

// srcDesc renders where a marshalled field's value comes from, relative to the receiver.
func srcDesc(v ssa.Value, recv ssa.Value, depth int) string { return srcDescE(v, recv, nil, depth) }

// penv binds the parameters of a helper to the argument values at its call site (in the caller's environment).
type penv struct {
	vals   map[*ssa.Parameter]ssa.Value
	parent *penv
}

func srcDescE(v ssa.Value, recv ssa.Value, env *penv, depth int) string {
	if depth > 12 {
		return "..."
	}
	v = strip(v)
	switch x := v.(type) {
	case *ssa.Parameter:
		if env != nil {
			if av, ok := env.vals[x]; ok {
				return srcDescE(av, recv, env.parent, depth+1)
			}
			return "param:" + x.Name()
		}
		if x == recv {
			return "recv"
		}
		return "param:" + x.Name()
	case *ssa.UnOp:
		if x.Op == token.MUL {
			if fv := forwardLoad(x); fv != nil {
				return srcDescE(fv, recv, env, depth+1)
			}
			return srcDescE(x.X, recv, env, depth+1)
		}
	case *ssa.FieldAddr:
		return srcDescE(x.X, recv, env, depth+1) + "." + fieldName(x)
	case *ssa.Field:
		return srcDescE(x.X, recv, env, depth+1) + "." + fieldNameV(x)
	case *ssa.Call:
		c := x.Common()
		if f := c.StaticCallee(); f != nil {
			var as []string
			for _, arg := range c.Args {
				as = append(as, srcDescE(arg, recv, env, depth+1))
			}
			return f.Name() + "(" + strings.Join(as, ",") + ")"
		}
	case *ssa.Const:
		if x.Value == nil {
			return "nil"
		}
		return x.Value.String()
	case *ssa.Convert:
		return "conv(" + srcDescE(x.X, recv, env, depth+1) + ")"
	case *ssa.Phi:
		var as []string
		for _, e := range x.Edges {
			as = append(as, srcDescE(e, recv, env, depth+1))
		}
		sort.Strings(as)
		return "phi{" + strings.Join(as, "|") + "}"
	case *ssa.Alloc:
		return "local:" + x.Comment
	}
	return fmt.Sprintf("%T", v)
}

// structSources flattens the per-field sources of a struct value along Go field paths.
func structSources(v ssa.Value, recv ssa.Value, prefix []string, out map[string]string, depth int) {
	structSourcesE(v, recv, nil, prefix, out, depth)
}

func structSourcesE(v ssa.Value, recv ssa.Value, env *penv, prefix []string, out map[string]string, depth int) {
	if p, ok := strip(v).(*ssa.Parameter); ok && env != nil {
		if av, bound := env.vals[p]; bound {
			structSourcesE(av, recv, env.parent, prefix, out, depth)
			return
		}
	}
	st := structOf(v.Type())
	if st == nil || depth > 6 {
		return
	}
	// a struct built by an in-package function or method (e.g. s.baseJSON()): its fields are those of the returned value,
	// with the callee's parameters bound to the arguments
	if c, ok := strip(v).(*ssa.Call); ok {
		if cal := c.Common().StaticCallee(); cal != nil && cal.Blocks != nil && !c.Common().IsInvoke() && c.Parent() != nil && cal.Pkg == c.Parent().Pkg {
			if rets := returnsOf(cal); len(rets) == 1 && len(rets[0].Results) == 1 {
				sub := &penv{vals: map[*ssa.Parameter]ssa.Value{}, parent: env}
				for i, a := range c.Common().Args {
					if i < len(cal.Params) {
						sub.vals[cal.Params[i]] = a
					}
				}
				structSourcesE(rets[0].Results[0], recv, sub, prefix, out, depth+1)
				return
			}
		}
	}
	structFields(fieldsOfValue(v, 0), st, recv, env, prefix, out, depth)
}

func structFields(fs map[string]fsrc, st *types.Struct, recv ssa.Value, env *penv, prefix []string, out map[string]string, depth int) {
	for i := 0; i < st.NumFields(); i++ {
		f := st.Field(i)
		src, ok := fs[f.Name()]
		path := append(append([]string{}, prefix...), f.Name())
		if !ok {
			continue
		}
		sub, isStruct := f.Type().Underlying().(*types.Struct)
		if isStruct && f.Embedded() && src.Sub != nil {
			structFields(fieldsAt(src.Sub.Addr, src.Sub.B, src.Sub.Idx, depth+1), sub, recv, env, path, out, depth+1)
			continue
		}
		if isStruct && src.Val != nil && f.Embedded() {
			structSourcesE(src.Val, recv, env, path, out, depth+1)
			continue
		}
		switch {
		case src.Val != nil:
			out[strings.Join(path, ".")] = srcDescE(src.Val, recv, env, 0)
		case src.Of != nil:
			out[strings.Join(path, ".")] = srcDescE(src.Of, recv, env, 0) + "." + src.Name
		default:
			out[strings.Join(path, ".")] = src.String()
		}
	}
}

// marshalSite is one json.Marshal call reached from a Marshaler, directly or through in-package helper functions that the
// Marshaler returns the result of; Env binds the helper's parameters.
type marshalSite struct {
	Call *ssa.Call
	Env  *penv
	Arg  *ssa.MakeInterface // the marshalled value (one site per alternative when the argument is a phi of values)
}

// exactMarshalResult: every return of f yields exactly (bytes, error) of one json.Marshal call or of an in-package helper
// for which the same holds; the sites are collected.
func exactMarshalResult(f *ssa.Function, env *penv, depth int, sites *[]marshalSite) bool {
	ok := true
	n := 0
	for _, ret := range returnsOf(f) {
		n++
		if len(ret.Results) != 2 {
			return false
		}
		e0, ok0 := ret.Results[0].(*ssa.Extract)
		e1, ok1 := ret.Results[1].(*ssa.Extract)
		if !ok0 || !ok1 || e0.Tuple != e1.Tuple || e0.Index != 0 || e1.Index != 1 {
			ok = false
			continue
		}
		c, isC := e0.Tuple.(*ssa.Call)
		if !isC {
			ok = false
			continue
		}
		if staticCalleeIs(c.Common(), "encoding/json.Marshal") {
			var alts []*ssa.MakeInterface
			var gather func(v ssa.Value, d int) bool
			gather = func(v ssa.Value, d int) bool {
				switch x := v.(type) {
				case *ssa.MakeInterface:
					alts = append(alts, x)
					return true
				case *ssa.Phi:
					if d > 3 {
						return false
					}
					for _, e := range x.Edges {
						if !gather(e, d+1) {
							return false
						}
					}
					return true
				}
				return false
			}
			if gather(c.Common().Args[0], 0) {
				for _, mi := range alts {
					*sites = append(*sites, marshalSite{c, env, mi})
				}
			} else {
				*sites = append(*sites, marshalSite{c, env, nil})
			}
			continue
		}
		cal := c.Common().StaticCallee()
		if cal == nil || cal.Blocks == nil || cal.Pkg != f.Pkg || cal == f || depth >= 2 || c.Common().IsInvoke() {
			ok = false
			continue
		}
		sub := &penv{vals: map[*ssa.Parameter]ssa.Value{}, parent: env}
		for i, a := range c.Common().Args {
			if i < len(cal.Params) {
				sub.vals[cal.Params[i]] = a
			}
		}
		if !exactMarshalResult(cal, sub, depth+1, sites) {
			ok = false
		}
	}
	return ok && n > 0
}

func c20R2(a *A, marshalers map[string]*ssa.Function) {
	const rule = "C20-R2"
	w := a.W
	want := map[string][]map[string]string{
		"Transaction": {{"nowPosition": "recv.NowPosition", "nextPosition": "recv.NextPosition", "events": "recv.Events"}},
		"StreamEvent": {
			{"name": "recv.Table", "type": "String(recv.Type)", "sql": "recv.Query.SQL"},
			{"name": "recv.Table", "type": "String(recv.Type)", "rowValues": "recv.RowValues", "rowIdentifies": "recv.RowIdentifies"},
		},
		"ColumnData": {{"filed": "recv.Filed", "type": "String(recv.Type)", "isEmpty": "recv.IsEmpty", "data": "*"}},
	}
	for tn, m := range marshalers {
		var sites []marshalSite
		exactMarshalResult(m, nil, 0, &sites)
		sort.Slice(sites, func(i, j int) bool { return sites[i].Call.Pos() < sites[j].Call.Pos() })
		if len(sites) < len(want[tn]) {
			a.undecided(rule, "json-field@"+tn, w.pos(m.Pos()), "%d json.Marshal calls, expected %d", len(sites), len(want[tn]))
			continue
		}
		recv := ssa.Value(m.Params[0])
		matched := map[int]int{}
		for _, site := range sites {
			c := site.Call
			mi := site.Arg
			if mi == nil {
				a.undecided(rule, "json-field@"+tn, w.posOf(c), "the marshalled value is not a value of static type")
				continue
			}
			st := structOf(mi.X.Type())
			if st == nil {
				a.undecided(rule, "json-field@"+tn, w.posOf(c), "marshalled value is not a struct")
				continue
			}
			srcs := map[string]string{}
			structSourcesE(mi.X, recv, site.Env, nil, srcs, 0)
			jfs := map[string]jsonField{}
			for _, jf := range jsonFields(st) {
				jfs[jf.Name] = jf
			}
			// which documented form is this: the one sharing the most field names with the marshalled struct
			bi, best := 0, -1
			for i, wf := range want[tn] {
				k := 0
				for n := range wf {
					if _, ok := jfs[n]; ok {
						k++
					}
				}
				if k > best {
					bi, best = i, k
				}
			}
			matched[bi]++
			var names []string
			for n := range want[tn][bi] {
				names = append(names, n)
			}
			sort.Strings(names)
			for _, n := range names {
				ws := want[tn][bi][n]
				key := fmt.Sprintf("json-field@%s[%s]", tn, n)
				if len(want[tn]) > 1 {
					key = fmt.Sprintf("json-field@%s[%s,branch#%d]", tn, n, bi+1)
				}
				jf, visible := jfs[n]
				if !visible {
					a.viol(rule, key, w.posOf(c), "the JSON object has no visible field %q (missing, tagged '-', or dropped by a name conflict at the same embedding depth): %s is lost", n, ws)
					continue
				}
				if jf.OmitEmpty {
					a.viol(rule, key, w.posOf(c), "JSON field %q is omitempty: empty values (no events, empty SQL, false flag) disappear from the document", n)
					continue
				}
				got := srcs[strings.Join(jf.Path, ".")]
				a.check(ws == "*" || got == ws, rule, key, w.posOf(c), n+" <- "+got, fmt.Sprintf("JSON field %q carries %s instead of %s", n, got, ws))
			}
		}
		for i := range want[tn] {
			if matched[i] == 0 {
				a.viol(rule, fmt.Sprintf("json-field@%s[form#%d]", tn, i+1), w.pos(m.Pos()), "no json.Marshal call of %s.MarshalJSON produces the documented form #%d %v", tn, i+1, want[tn][i])
			}
		}
	}
	// Position and MysqlTableName: plain structs marshalled by tags
	for tn, fields := range map[string]map[string]string{"Position": {"Filename": "filename", "Offset": "offset"}, "MysqlTableName": {"DbName": "db", "TableName": "table"}} {
		nt := w.namedType(w.Root, tn)
		if !a.need(nt != nil, rule, tn) {
			continue
		}
		st := nt.Underlying().(*types.Struct)
		got := map[string]string{}
		for _, jf := range jsonFields(st) {
			if !jf.OmitEmpty {
				got[jf.Path[len(jf.Path)-1]] = jf.Name
			}
		}
		for gf, jn := range fields {
			a.check(got[gf] == jn, rule, "json-tag@"+tn+"."+gf, w.pos(nt.Obj().Pos()), gf+" -> \""+jn+"\"", fmt.Sprintf("%s.%s is serialised as %q (expected a visible, non-omitempty %q)", tn, gf, got[gf], jn))
		}
		a.check(!implementsNamed(nt, "encoding/json", "Marshaler", w), rule, "json-plain@"+tn, w.pos(nt.Obj().Pos()), "no custom marshaler", tn+" has a custom marshaler that this rule does not analyse")
	}
}

func c20R3(a *A) {
	const rule = "C20-R3"
	w := a.W
	// the names, as the String() methods produce them: each method is specialised on every constant of its type (switch,
	// table lookup and if-chain forms all evaluate the same way); the fallback text is what an unlisted value gives
	tables := map[string]map[int64]string{}
	fallback := map[string]string{}
	for tn, gn := range map[string]string{"ColumnType": "columnTypeStrings", "StatementType": "statementStrings"} {
		m := w.method(w.Root, tn, "String")
		if !a.need(m != nil, rule, tn+".String") {
			return
		}
		a.touch(m)
		eval := func(k int64) (string, bool) {
			res := Specialize(m, map[ssa.Value]constant.Value{m.Params[0]: constant.MakeInt64(k)}, nil)
			a.Evals++
			out, n := "", 0
			for _, ret := range res.Returns {
				l := res.get(ret.Results[0])
				if l.k != cst || l.v == nil || l.v.Kind() != constant.String {
					return "", false
				}
				sv := constant.StringVal(l.v)
				if n > 0 && sv != out {
					return "", false
				}
				out = sv
				n++
			}
			return out, n > 0
		}
		fb, okFB := eval(0x7fff)
		if !okFB {
			// the table is computed at start-up (e.g. by inverting another table): read it from the package initialiser
			if g := w.Root.Var(gn); g != nil {
				if t := intStringTable(w.Root.Func("init"), g, 0); len(t) > 0 {
					tables[gn], fallback[gn] = t, "unknown"
					continue
				}
			}
		}
		if !a.need(okFB, rule, "fallback text of "+tn+".String") {
			return
		}
		fallback[gn] = fb
		tables[gn] = map[int64]string{}
		for k := int64(-1); k < 256; k++ {
			if sv, ok := eval(k); ok && sv != fb {
				tables[gn][k] = sv
			}
		}
	}
	// column types: every replication.Type* has a columnType* constant of equal value with a name
	sc := w.Root.Pkg.Scope()
	colConst := map[int64]string{}
	for _, n := range sc.Names() {
		if c, ok := sc.Lookup(n).(*types.Const); ok && strings.HasPrefix(n, "columnType") {
			if v, ok := constIntVal(c); ok {
				colConst[v] = n
			}
		}
	}
	if !a.need(len(tables["columnTypeStrings"]) > 0 && len(tables["statementStrings"]) > 0, rule, "name tables columnTypeStrings / statementStrings") {
		return
	}
	for v, tn := range typeConsts(w) {
		cn, mirrored := colConst[v]
		name := tables["columnTypeStrings"][v]
		a.check(mirrored && name != "", rule, "name@columnType["+tn+"]", "-", fmt.Sprintf("%s = %s -> %q", cn, tn, name),
			fmt.Sprintf("replication.%s (=%d) has no column-type constant or no name in columnTypeStrings: such columns serialise as \"unknown\"", tn, v))
		// the name printed for wire type v is the name of that wire type (two constants with swapped values keep the
		// table total and distinct but label DATETIME columns as TIME)
		if mirrored && name != "" {
			norm := func(s string) string {
				return strings.Map(func(r rune) rune {
					if r == '_' || r == ' ' || r == '-' {
						return -1
					}
					return r
				}, strings.ToLower(s))
			}
			a.check(norm(name) == norm(strings.TrimPrefix(tn, "Type")), rule, "name-of@columnType["+tn+"]", "-", fmt.Sprintf("wire type %d (%s) is named %q", v, tn, name),
				fmt.Sprintf("a column of wire type %d (replication.%s) serialises with the type name %q: the name table is attached to the wrong constant (%s)", v, tn, name, cn))
		}
	}
	for v, sn := range statementNames(w) {
		if sn == "Unknown" {
			continue
		}
		name := tables["statementStrings"][v]
		a.check(name != "", rule, "name@Statement"+sn, "-", fmt.Sprintf("-> %q", name), "Statement"+sn+" has no name in statementStrings: such events serialise as \"unknown\"")
	}
	for gn, t := range tables {
		seen := map[string]int64{}
		ok := true
		var dup string
		for k, v := range t {
			if o, d := seen[v]; d && o != k {
				ok = false
				dup = v
			}
			seen[v] = k
			if v == fallback[gn] {
				ok = false
				dup = v
			}
		}
		a.check(ok, rule, "distinct@"+gn, "-", fmt.Sprintf("%d distinct names", len(t)), fmt.Sprintf("name %q is used twice (or equals the fallback): two kinds become indistinguishable in the JSON", dup))
	}
}

func constIntVal(c *types.Const) (int64, bool) {
	v := c.Val()
	if v.Kind().String() != "Int" {
		return 0, false
	}
	var k int64
	_, err := fmt.Sscan(v.String(), &k)
	return k, err == nil
}

func c20R4(a *A, m *ssa.Function) {
	const rule = "C20-R4"
	w := a.W
	if m == nil {
		return
	}
	var sites []marshalSite
	exactMarshalResult(m, nil, 0, &sites)
	if !a.need(len(sites) == 1 && sites[0].Env == nil, rule, "json.Marshal call in ColumnData.MarshalJSON") {
		return
	}
	mc := sites[0].Call
	_ = mc
	mi := sites[0].Arg
	if !a.need(mi != nil, rule, "marshalled struct") {
		return
	}
	st := structOf(mi.X.Type())
	var dataField string
	for _, jf := range jsonFields(st) {
		if jf.Name == "data" {
			dataField = jf.Path[len(jf.Path)-1]
			_, isIface := jf.Type.Underlying().(*types.Interface)
			a.check(isIface, rule, "data-type@ColumnData", w.posOf(mc), "the data field has interface type (can be JSON null)", "the data field is not interface-typed: SQL NULL cannot be rendered as JSON null")
		}
	}
	fs := fieldsOfValue(mi.X, 0)
	src := fs[dataField]
	recv := ssa.Value(m.Params[0])
	// the alternatives of the data field: a phi of values, or a field assigned on some of the paths into a join
	type alt struct {
		pred *ssa.BasicBlock
		val  ssa.Value
	}
	var alts []alt
	var join *ssa.BasicBlock
	if phi, isPhi := src.Val.(*ssa.Phi); isPhi {
		join = phi.Block()
		for i, e := range phi.Edges {
			alts = append(alts, alt{join.Preds[i], e})
		}
	} else if len(src.Alts) > 0 {
		join = src.Join
		for _, al := range src.Alts {
			alts = append(alts, alt{al.Pred, al.Src.Val})
		}
	}
	good := false
	why := "the data field is not chosen between nil and string(c.Data)"
	if len(alts) == 2 {
		var nilIdx, strIdx = -1, -1
		for i, al := range alts {
			e := al.val
			if e == nil {
				continue
			}
			if isNilConst(e) {
				nilIdx = i
			} else if mk, ok := e.(*ssa.MakeInterface); ok {
				if cv, ok := mk.X.(*ssa.Convert); ok && isStringType(cv.Type()) && srcDesc(cv.X, recv, 0) == "recv.Data" {
					strIdx = i
				}
			}
		}
		if nilIdx >= 0 && strIdx >= 0 {
			// the nil edge is exactly the `c.Data == nil` edge
			pred := alts[nilIdx].pred
			other := alts[strIdx].pred
			cls := func(b, succ *ssa.BasicBlock) (string, bool) {
				conds := dominatingConds(b)
				if iff, ok := lastInstr(b).(*ssa.If); ok && b.Succs[0] != b.Succs[1] {
					if b.Succs[0] == succ {
						conds = append(conds, condEdge{iff, iff.Cond, true})
					} else if b.Succs[1] == succ {
						conds = append(conds, condEdge{iff, iff.Cond, false})
					}
				}
				if len(conds) != 1 {
					return fmt.Sprintf("%d conditions", len(conds)), false
				}
				x, nonNilOnTrue, ok := nilTest(conds[0].Cond)
				if !ok || srcDesc(x, recv, 0) != "recv.Data" {
					return "not a nil test of c.Data", false
				}
				if conds[0].Val == nonNilOnTrue {
					return "nonnil", true
				}
				return "nil", true
			}
			c1, ok1 := cls(pred, join)
			c2, ok2 := cls(other, join)
			good = ok1 && ok2 && c1 == "nil" && c2 == "nonnil"
			if !good {
				why = fmt.Sprintf("JSON null is produced under [%s] and the string under [%s]; it must be null exactly when c.Data == nil", c1, c2)
			}
		}
	}
	a.check(good, rule, "null-vs-empty@ColumnData", w.posOf(mc), "data = null iff c.Data == nil, else string(c.Data)", why+": SQL NULL and the empty string (or absent columns) become indistinguishable in the JSON")
}

// intStringTable evaluates the package-level map g (integer kind -> name) from the package initialiser: constant map updates
// of a literal, or the result of an in-package function that inverts another literal table (name -> kind) by ranging over it.
func intStringTable(initFn *ssa.Function, g *ssa.Global, depth int) map[int64]string {
	out := map[int64]string{}
	instrs(initFn, func(in ssa.Instruction) {
		if mu, ok := in.(*ssa.MapUpdate); ok && mapIsGlobal(mu.Map, g) {
			k, ok1 := constInt(mu.Key)
			v, ok2 := constString(mu.Value)
			if ok1 && ok2 {
				out[k] = v
			}
		}
	})
	if len(out) > 0 || depth > 0 {
		return out
	}
	// g = invert(other)
	instrs(initFn, func(in ssa.Instruction) {
		st, ok := in.(*ssa.Store)
		if !ok || st.Addr != ssa.Value(g) {
			return
		}
		c, ok := st.Val.(*ssa.Call)
		if !ok {
			return
		}
		cal := c.Common().StaticCallee()
		if cal == nil || cal.Blocks == nil || cal.Pkg != initFn.Pkg || len(c.Common().Args) != 1 || len(cal.Params) != 1 {
			return
		}
		src, ok := c.Common().Args[0].(*ssa.UnOp)
		if !ok {
			return
		}
		sg, ok := src.X.(*ssa.Global)
		if !ok || !isMapInverter(cal) {
			return
		}
		// the source table: constant name -> kind; it must not be written elsewhere before (init order is source order
		// for dependent initialisers, and the compiler orders g after the table it depends on)
		inv := map[int64]string{}
		dup := false
		instrs(initFn, func(in2 ssa.Instruction) {
			if mu, ok := in2.(*ssa.MapUpdate); ok && mapIsGlobal(mu.Map, sg) {
				k, ok1 := constString(mu.Key)
				v, ok2 := constInt(mu.Value)
				if ok1 && ok2 {
					if _, seen := inv[v]; seen {
						dup = true // not one-to-one: which name survives depends on map iteration order
					}
					inv[v] = k
				}
			}
		})
		if !dup {
			out = inv
		}
	})
	return out
}

// isMapInverter: f(m) returns a new map n with n[v] = k for every (k, v) of m and nothing else.
func isMapInverter(f *ssa.Function) bool {
	var mk *ssa.MakeMap
	var rng *ssa.Range
	nUpd, good := 0, true
	instrs(f, func(in ssa.Instruction) {
		switch x := in.(type) {
		case *ssa.MakeMap:
			if mk != nil {
				good = false
			}
			mk = x
		case *ssa.Range:
			if rng != nil || x.X != ssa.Value(f.Params[0]) {
				good = false
			}
			rng = x
		}
	})
	if mk == nil || rng == nil || !good {
		return false
	}
	instrs(f, func(in ssa.Instruction) {
		mu, ok := in.(*ssa.MapUpdate)
		if !ok {
			return
		}
		nUpd++
		k, ok1 := mu.Key.(*ssa.Extract)
		v, ok2 := mu.Value.(*ssa.Extract)
		if mu.Map != ssa.Value(mk) || !ok1 || !ok2 || k.Index != 2 || v.Index != 1 || k.Tuple != v.Tuple {
			good = false
			return
		}
		nx, ok := k.Tuple.(*ssa.Next)
		if !ok || nx.Iter != ssa.Value(rng) {
			good = false
			return
		}
		// unconditional inside the loop: the update's block is entered whenever the iteration yields an element
		for _, ce := range dominatingConds(mu.Block()) {
			if e, isE := ce.Cond.(*ssa.Extract); !(isE && e.Tuple == ssa.Value(nx) && e.Index == 0) {
				good = false
			}
		}
	})
	for _, r := range returnsOf(f) {
		if len(r.Results) != 1 || r.Results[0] != ssa.Value(mk) {
			good = false
		}
	}
	return good && nUpd == 1
}
