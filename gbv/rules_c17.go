package main

import (
	"fmt"
	"go/constant"
	"go/token"
	"go/types"
	"sort"
	"strings"

	"golang.org/x/tools/go/ssa"
)

func init() {
	register("C17", propMeta{
		Explanation: "Decides the validity gate for packets that fail it and the safety of header accessors on accepted buffers: (R1) the accept-set of IsValid, obtained by " +
			"constant-propagating its CFG over the order regions of (buffer length, length field) that its comparisons can distinguish, equals {len >= 19 and length field == len}; " +
			"(R2) every index/slice bound in the six header accessors is a constant inside the 19 guaranteed bytes (indices <= 14 so they are also safe on checksum-stripped events, slice bounds <= 19); " +
			"(R3) every method invoked on a received event in the parser is dominated by the true edge of IsValid() on that event, and the event type built by the reader does not override IsValid; " +
			"(R4) the rejecting edge returns a non-nil error and the position cell with no commit/begin/buffer effect. " +
			"Not decided: body parsers on buffers that pass the gate but have a malformed body (outside the statement).",
		Rule:        "instances = order regions of IsValid's atoms (exhaustive for its comparison constants), index/slice operands of header accessors, invokes on received events, instructions on the rejecting path",
		Trusted:     commonTrusted,
		Assumptions: []string{"buffers shorter than 2^31 bytes (uint32 conversion of the length is exact)"},
	}, runC17)

	addVariants(
		Variant{ID: "c17-r1-off-by-one", Prop: "C17", File: "replication/binlog_event_common.go",
			Old: "\tif bufLen < 19 {\n\t\treturn false\n\t}\n", New: "\tif bufLen < 18 {\n\t\treturn false\n\t}\n",
			Old2: "evLen < 19 || evLen != uint32(bufLen)", New2: "evLen < 18 || evLen != uint32(bufLen)",
			Expect: "C17-R1 accept@IsValid"},
		Variant{ID: "c17-r1-overlong-accepted", Prop: "C17", File: "replication/binlog_event_common.go",
			Old: "evLen != uint32(bufLen)", New: "evLen > uint32(bufLen)",
			Expect: "C17-R1 accept@IsValid"},
		Variant{ID: "c17-r1-length-before-check", Prop: "C17", File: "replication/binlog_event_common.go",
			Old: "\tbufLen := len(ev.Bytes())\n", New: "\tbufLen := len(ev.Bytes())\n\tif bufLen > 0 && ev.Length() == 0 {\n\t\treturn false\n\t}\n",
			Expect: "C17-R1 short-access@IsValid"},
		Variant{ID: "c17-r2-accessor-offset", Prop: "C17", File: "replication/binlog_event_common.go",
			Old: "binary.LittleEndian.Uint16(ev.Bytes()[17 : 17+2])", New: "binary.LittleEndian.Uint16(ev.Bytes()[18 : 18+2])",
			Expect: "C17-R2 bound@"},
		Variant{ID: "c17-r3-use-before-gate", Prop: "C17", File: "streamer.go",
			Old: "\t\t// Validate the buffer before reading fields from it.\n", New: "\t\tif ev.IsRotate() && ev.NextPosition() == 0 {\n\t\t\tcontinue\n\t\t}\n",
			Expect: "C17-R3 gated@parser"},
		Variant{ID: "c17-r4-commit-on-reject", Prop: "C17", File: "streamer.go",
			Old: "\t\tif !ev.IsValid() {\n", New: "\t\tif !ev.IsValid() {\n\t\t\ttranEvents = nil\n",
			Expect: "C17-R4 reject-effect@parser"},
		Variant{ID: "c17-r4-reject-returns-start-position", Prop: "C17", File: "streamer.go",
			Old: "\t\tif !ev.IsValid() {\n\t\t\treturn pos, ", New: "\t\tif !ev.IsValid() {\n\t\t\treturn s.binlogPosition(), ",
			Expect: "C17-R4 reject-pos@parser"},
	)
}

func runC17(a *A) {
	c17R1(a)
	c17R2(a)
	if r := resolveRolesG(a, "C17-R0", "p"); r != nil {
		c17R3(a, r)
		if rc := resolveRolesG(a, "C17-R3", "r"); rc != nil {
			c17R3Ctor(a, rc)
			// R5: the gate sees every packet: nothing is filtered or skipped between the socket and the parser
			readerForwardsAll(a, "C17-R5", rc)
		}
	}
	if rt := resolveRolesG(a, "C17-R4", "pt"); rt != nil {
		c17R4(a, rt, armAnalysis(a.W, rt))
	}
}

// R1: accept-set of IsValid.
func c17R1(a *A) {
	const rule = "C17-R1"
	w := a.W
	f := w.method(w.Repl, "binlogEvent", "IsValid")
	if !a.need(f != nil, rule, "binlogEvent.IsValid") {
		return
	}
	a.touch(f)
	// atoms: A = len(<bytes of the receiver>), B = result of Length()
	var atomA, atomB ssa.Value
	consts := map[int64]bool{19: true}
	instrs(f, func(in ssa.Instruction) {
		switch x := in.(type) {
		case *ssa.Call:
			c := x.Common()
			if isBuiltin(c, "len") && atomA == nil {
				atomA = x
			}
			if cal := c.StaticCallee(); cal != nil && cal.Name() == "Length" && cal.Signature.Recv() != nil {
				atomB = x
			}
		case *ssa.BinOp:
			for _, o := range []ssa.Value{x.X, x.Y} {
				if k, ok := constInt(o); ok {
					consts[k] = true
				}
			}
		}
	})
	if !a.need(atomA != nil, rule, "len() of the buffer in IsValid") || !a.need(atomB != nil, rule, "Length() call in IsValid") {
		return
	}
	// representative points of every order region the comparisons can distinguish
	pts := map[int64]bool{0: true, 1: true, 1 << 20: true}
	// constants of the comparisons, their pairwise sums and differences (a comparison such as
	// lengthField+4 == len distinguishes the region len-lengthField = 4), each with its neighbours
	base := map[int64]bool{}
	for k := range consts {
		base[k] = true
	}
	for k1 := range consts {
		for k2 := range consts {
			base[k1+k2] = true
			if k1-k2 >= 0 {
				base[k1-k2] = true
			}
		}
	}
	for k := range base {
		for d := int64(-1); d <= 1; d++ {
			if k+d >= 0 {
				pts[k+d] = true
			}
		}
	}
	var ps []int64
	for p := range pts {
		ps = append(ps, p)
	}
	sort.Slice(ps, func(i, j int) bool { return ps[i] < ps[j] })
	n, bad := 0, 0
	for _, A := range ps {
		for _, B := range ps {
			bind := map[ssa.Value]constant.Value{atomA: constant.MakeInt64(A), atomB: constant.MakeInt64(B)}
			res := Specialize(f, bind, nil)
			a.Evals++
			n++
			key := fmt.Sprintf("accept@IsValid[len=%d,lengthField=%d]", A, B)
			if len(res.Returns) != 1 {
				a.undecided(rule, key, w.pos(f.Pos()), "IsValid's verdict is not determined by (buffer length, length field): %d reachable returns", len(res.Returns))
				bad++
				continue
			}
			got, ok := constBoolLat(res.get(res.Returns[0].Results[0]))
			if !ok {
				a.undecided(rule, key, w.posOf(res.Returns[0]), "IsValid returns a non-constant verdict for this region")
				bad++
				continue
			}
			want := A >= 19 && A == B
			if got != want {
				bad++
				a.viol(rule, key, w.posOf(res.Returns[0]), "IsValid answers %v for a %d-byte buffer whose length field says %d; the gate must accept exactly buffers with a full 19-byte header whose length field equals the buffer length", got, A, B)
			}
		}
	}
	// no buffer access while the length is still unknown to be >= 19
	for A := int64(0); A < 19; A++ {
		res := Specialize(f, map[ssa.Value]constant.Value{atomA: constant.MakeInt64(A)}, nil)
		a.Evals++
		instrs(f, func(in ssa.Instruction) {
			if !res.Exec[in.Block()] {
				return
			}
			touches := false
			switch x := in.(type) {
			case *ssa.IndexAddr, *ssa.Slice, *ssa.Index:
				touches = true
			case *ssa.Call:
				if cal := x.Common().StaticCallee(); cal != nil && cal.Signature.Recv() != nil && cal.Name() != "Bytes" {
					touches = true
				}
			}
			if touches {
				bad++
				a.viol(rule, fmt.Sprintf("short-access@IsValid[len=%d]", A), w.posOf(in), "IsValid touches the buffer (%s) although it is only %d bytes long: a truncated packet panics inside the gate", in.String(), A)
			}
		})
	}
	if bad == 0 {
		a.hold(rule, "short-access@IsValid", w.pos(f.Pos()), "no header access is reachable while len < 19")
		a.hold(rule, "accept@IsValid", w.pos(f.Pos()), "verdict equals (len>=19 && lengthField==len) on all %d order regions of its comparison constants %v", n, ps)
	}
	a.exhaustive = true
}

func constBoolLat(l lat) (bool, bool) {
	if l.k != cst || l.v == nil || l.v.Kind() != constant.Bool {
		return false, false
	}
	return constant.BoolVal(l.v), true
}

var headerAccessors = []string{"Type", "Flags", "Timestamp", "ServerID", "Length", "NextPosition"}

// R2: header accessors index only the guaranteed header.
func c17R2(a *A) {
	const rule = "C17-R2"
	w := a.W
	for _, name := range headerAccessors {
		f := w.method(w.Repl, "binlogEvent", name)
		if !a.need(f != nil, rule, "binlogEvent."+name) {
			continue
		}
		a.touch(f)
		// the value returned, as a canonical term over the event buffer (helpers inlined): every byte it is made of must lie
		// within the 19 bytes the gate guarantees
		t := newTB(nil)
		t.names[f.Params[0]] = "buf"
		instrs(f, func(in ssa.Instruction) {
			if c, ok := in.(*ssa.Call); ok {
				if cal := c.Common().StaticCallee(); cal != nil && cal.Name() == "Bytes" && len(c.Common().Args) == 1 && strip(c.Common().Args[0]) == ssa.Value(f.Params[0]) {
					t.names[c] = "buf"
				}
			}
		})
		termOK := len(returnsOf(f)) > 0
		var terms []string
		for _, ret := range returnsOf(f) {
			ts := t.term(ret.Results[0]).String()
			terms = append(terms, ts)
			var k, nb int64
			switch {
			case scan2(ts, "LE(%d,buf[%d])", &nb, &k), scan2(ts, "BE(%d,buf[%d])", &nb, &k):
			case scan1(ts, "buf[%d]", &k):
				nb = 1
			default:
				termOK = false
				continue
			}
			if k < 0 || k+nb > 19 {
				termOK = false
			}
		}
		n := 0
		instrs(f, func(in ssa.Instruction) {
			switch x := in.(type) {
			case *ssa.IndexAddr:
				n++
				k, ok := constInt(x.Index)
				key := fmt.Sprintf("bound@%s[index#%d]", name, n)
				if !ok {
					a.check(termOK, rule, key, w.posOf(x), "computed offset, but the value read is "+strings.Join(terms, "|"), "header accessor indexes the buffer with a computed offset")
					return
				}
				a.check(k >= 0 && k <= 14, rule, key, w.posOf(x), fmt.Sprintf("index %d <= 14", k), fmt.Sprintf("index %d is outside the bytes guaranteed after validation (and checksum stripping)", k))
			case *ssa.Slice:
				n++
				key := fmt.Sprintf("bound@%s[slice#%d]", name, n)
				for _, b := range []ssa.Value{x.Low, x.High, x.Max} {
					if b == nil {
						continue
					}
					k, ok := constInt(b)
					if !ok {
						a.check(termOK, rule, key, w.posOf(x), "computed bound, but the value read is "+strings.Join(terms, "|"), "header accessor slices the buffer with a computed bound")
						return
					}
					if k < 0 || k > 19 {
						a.viol(rule, key, w.posOf(x), "slice bound %d exceeds the 19 guaranteed header bytes: the accessor can panic on an accepted buffer", k)
						return
					}
				}
				a.hold(rule, key, w.posOf(x), "constant bounds within [0,19]")
			case *ssa.Index, *ssa.Lookup:
				n++
				a.undecided(rule, fmt.Sprintf("bound@%s[other#%d]", name, n), w.posOf(in), "unrecognised indexing form %T", in)
			}
		})
		if n == 0 {
			// all reading is done by helpers
			a.check(termOK, rule, "bound@"+name+"[value]", w.pos(f.Pos()), "reads "+strings.Join(terms, "|")+", within the 19 guaranteed bytes",
				fmt.Sprintf("%s() returns %v: not a read of header bytes within [0,19)", name, terms))
		}
	}
	// the Is* predicates only call Type()
	bev := w.namedType(w.Repl, "BinlogEvent")
	if a.need(bev != nil, rule, "BinlogEvent interface") {
		it := bev.Underlying().(*types.Interface)
		for i := 0; i < it.NumMethods(); i++ {
			m := it.Method(i)
			sig := m.Type().(*types.Signature)
			if sig.Params().Len() != 0 || sig.Results().Len() != 1 || !types.Identical(sig.Results().At(0).Type(), types.Typ[types.Bool]) || m.Name() == "IsValid" {
				continue
			}
			for _, tn := range []string{"binlogEvent", "mysql56BinlogEvent", "mariadbBinlogEvent"} {
				f := w.method(w.Repl, tn, m.Name())
				if f == nil || f.Signature.Recv() == nil || !typeIs(f.Signature.Recv().Type(), replPath, tn) {
					continue
				}
				a.touch(f)
				ok := onlyReadsType(f, 0)
				a.check(ok, rule, "predicate@"+tn+"."+m.Name(), w.pos(f.Pos()), "reads only the type byte via Type()", "predicate touches the buffer other than through Type()")
			}
		}
	}
	a.atLeast(rule, "bound@", 6)
}

// onlyReadsType: the function touches the event only through Type() (directly or via in-package helpers that do the same).
func onlyReadsType(f *ssa.Function, depth int) bool {
	ok := true
	instrs(f, func(in ssa.Instruction) {
		switch x := in.(type) {
		case *ssa.IndexAddr, *ssa.Slice, *ssa.Index:
			ok = false
		case *ssa.Call:
			cal := x.Common().StaticCallee()
			switch {
			case cal == nil:
				ok = false
			case cal.Name() == "Type":
			case cal.Pkg == f.Pkg && cal.Blocks != nil && depth < 2 && cal != f:
				if !onlyReadsType(cal, depth+1) {
					ok = false
				}
			default:
				ok = false
			}
		}
	})
	return ok
}

// R3: gate first.
func c17R3(a *A, r *Roles) {
	const rule = "C17-R3"
	w := a.W
	// true edge of IsValid
	var gateBlock *ssa.BasicBlock
	gateK := -1
	for _, b := range r.Parser.Blocks {
		if iff, ok := lastInstr(b).(*ssa.If); ok && iff.Cond == ssa.Value(r.IsValidCall) {
			gateBlock, gateK = b, 0
		}
	}
	if gateBlock == nil {
		// negated form
		for _, b := range r.Parser.Blocks {
			if iff, ok := lastInstr(b).(*ssa.If); ok {
				if u, ok := iff.Cond.(*ssa.UnOp); ok && u.Op == token.NOT && u.X == ssa.Value(r.IsValidCall) {
					gateBlock, gateK = b, 1
				}
			}
		}
	}
	if !a.need(gateBlock != nil, rule, "branch on IsValid()") {
		return
	}
	n := 0
	derived := map[ssa.Value]bool{r.RawEv: true, r.StrippedEv: true}
	instrs(r.Parser, func(in ssa.Instruction) {
		c, ok := in.(*ssa.Call)
		if !ok || !c.Common().IsInvoke() || !derived[c.Common().Value] || c == r.IsValidCall {
			return
		}
		a.Calls++
		n++
		key := fmt.Sprintf("gated@parser[%s#%d]", c.Common().Method.Name(), n)
		a.check(edgeDominated(gateBlock, gateK, c.Block()), rule, key, w.posOf(c), "dominated by the accepting edge of IsValid()",
			"a field of the received event is read before (or regardless of) the validity test: a truncated packet makes this call index out of range")
	})
	// events handed to the closures are the stripped event (checked in C03-R3); uses inside the commit closure are on its parameter
	a.atLeast(rule, "gated@parser", 10)
}

// the reader builds a type whose IsValid is binlogEvent.IsValid
func c17R3Ctor(a *A, r *Roles) {
	const rule = "C17-R3"
	w := a.W
	var ctor *ssa.Function
	instrs(r.ReadEvent, func(in ssa.Instruction) {
		if c, ok := in.(*ssa.Call); ok {
			if f := c.Common().StaticCallee(); f != nil && f.Pkg == w.Repl && f.Signature.Results().Len() == 1 && namedIs(f.Signature.Results().At(0).Type(), replPath, "BinlogEvent") {
				ctor = f
			}
		}
	})
	if a.need(ctor != nil, rule, "event constructor called by the packet decoder") {
		a.touch(ctor)
		for _, ret := range returnsOf(ctor) {
			mi, ok := ret.Results[0].(*ssa.MakeInterface)
			if !ok {
				a.undecided(rule, "event-type@"+ctor.Name(), w.posOf(ret), "constructor does not return a concrete event")
				continue
			}
			obj, _, _ := types.LookupFieldOrMethod(mi.X.Type(), false, w.Repl.Pkg, "IsValid")
			fn, _ := obj.(*types.Func)
			ok = fn != nil && typeIs(fn.Type().(*types.Signature).Recv().Type(), replPath, "binlogEvent")
			a.check(ok, rule, "event-type@"+ctor.Name(), w.posOf(ret), "IsValid resolves to binlogEvent.IsValid", "the event type overrides IsValid: the gate analysed in R1 is not the gate that runs")
		}
	}
}

// R4: clean rejection.
func c17R4(a *A, r *Roles, ar *Arms) {
	const rule = "C17-R4"
	w := a.W
	n := 0
	for _, b := range r.Parser.Blocks {
		if !ar.of[b]["invalid"] {
			continue
		}
		for _, in := range b.Instrs {
			switch x := in.(type) {
			case *ssa.Store:
				if r.Pos.isAddr(x.Addr) || r.Tran.isAddr(x.Addr) || r.Auto.isAddr(x.Addr) {
					n++
					a.viol(rule, fmt.Sprintf("reject-effect@parser#%d", n), w.posOf(x), "the rejecting path writes parser state (%s)", describe(x.Addr))
				}
				if fa, ok := x.Addr.(*ssa.FieldAddr); ok && r.Pos.isAddr(fa.X) {
					n++
					a.viol(rule, fmt.Sprintf("reject-effect@parser#%d", n), w.posOf(x), "the rejecting path moves the position")
				}
			case *ssa.Call:
				if r.isRoleCall(x, r.Commit, r.CommitMC) || r.isRoleCall(x, r.Begin, r.BeginMC) {
					n++
					a.viol(rule, fmt.Sprintf("reject-effect@parser#%d", n), w.posOf(x), "the rejecting path calls begin/commit: a partial transaction is delivered")
				}
			case *ssa.MapUpdate:
				n++
				a.viol(rule, fmt.Sprintf("reject-effect@parser#%d", n), w.posOf(x), "the rejecting path updates a map")
			case *ssa.Return:
				n++
				okErr := len(x.Results) == 2 && provablyNonNilErr(x.Results[1])
				a.check(okErr, rule, fmt.Sprintf("reject-return@parser#%d", n), w.posOf(x), "rejection returns a non-nil error", "a packet that fails the gate ends the stream without an error")
				if len(x.Results) >= 1 {
					okPos, why := freshPosLoad(r, x)
					a.check(okPos, rule, fmt.Sprintf("reject-pos@parser#%d", n), w.posOf(x), "rejection returns the position cell (the last accepted commit boundary)",
						"on a packet that fails the gate "+why+": the resume position is not the last accepted commit boundary")
				}
			}
		}
		// must end in a return, not continue the loop
		if reachesAvoiding(b, r.LoopHead, nil, nil) {
			n++
			a.viol(rule, fmt.Sprintf("reject-continues@parser#%d", n), w.posOf(b.Instrs[0]), "after a failed validity test the loop continues instead of ending the stream")
		}
	}
	a.atLeast(rule, "reject-return@parser", 1)
}

// provablyNonNilErr: v is a *Error that cannot be nil: result of newError (fresh
// allocation) or of msgf (returns its receiver) applied to such a value.
func provablyNonNilErr(v ssa.Value) bool {
	v = resolve(v)
	c, ok := v.(*ssa.Call)
	if !ok {
		_, isAlloc := v.(*ssa.Alloc)
		return isAlloc
	}
	f := c.Common().StaticCallee()
	if f == nil || f.Pkg == nil || f.Pkg.Pkg.Path() != rootPath {
		return false
	}
	// constructor: every return is a fresh allocation
	allFresh := len(returnsOf(f)) > 0
	retRecv := len(returnsOf(f)) > 0
	for _, ret := range returnsOf(f) {
		if len(ret.Results) != 1 {
			return false
		}
		rv := resolve(ret.Results[0])
		if _, isAlloc := rv.(*ssa.Alloc); !isAlloc {
			allFresh = false
		}
		if len(f.Params) == 0 || rv != ssa.Value(f.Params[0]) {
			retRecv = false
		}
	}
	if allFresh {
		return true
	}
	if retRecv && len(c.Common().Args) > 0 {
		return provablyNonNilErr(c.Common().Args[0])
	}
	return false
}

func scan1(s, format string, a *int64) bool {
	n, err := fmt.Sscanf(s, format, a)
	return err == nil && n == 1 && fmt.Sprintf(format, *a) == s
}

func scan2(s, format string, a, b *int64) bool {
	n, err := fmt.Sscanf(s, format, a, b)
	return err == nil && n == 2 && fmt.Sprintf(format, *a, *b) == s
}
