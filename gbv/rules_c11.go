package main

import (
	"fmt"
	"go/token"
	"regexp"
	"sort"
	"strings"
	"sync"

	"golang.org/x/tools/go/ssa"
)

func init() {
	register("C11", propMeta{
		Explanation: "The digit arithmetic is not decided. Decided, for each of the 1580 valid (precision, scale) pairs with CellBytes specialised on it: (R1) never empty - on every path to a success " +
			"return the text buffer is definitely written (a must-analysis that also tracks guarded facts 'flag => written', which is what lets the decoder's own flag justify the return after " +
			"'if !flag { write 0 }'); (R2) no space padding - no reachable fmt verb has a width without the 0 flag; (R3) exactly s fraction digits, verb-wise - after the '.' the reachable verbs are %09d " +
			"(iff s/9 > 0, in a loop bounded by the constant s/9) and %0Nd with N = s mod 9 (iff N > 0), fed by a big-endian read of dig2bytes[N] bytes; before the '.' integer groups are printed " +
			"only by %09d / %d / strconv and the integer loop is bounded by (p-s)/9; the leftover integer digits are a big-endian read of dig2bytes[(p-s) mod 9] bytes at offset 0; (R4) the consumed " +
			"length equals the length rule's (C09-R2) and the dig2bytes table is never written after initialisation. Not decided: the numeric value of the digits; negative-number inversion.",
		Rule:        "instances = (p,s) specialisations x {definite-write at each success return, reachable fmt verbs, loop bounds, leftover reads}",
		Trusted:     append([]string{"fmt verb semantics (%0Nd pads with zeros to N, %Nd with spaces)", "H-sccp / H-term"}, commonTrusted...),
		Assumptions: []string{"strconv.AppendUint produces at least one digit"},
	}, runC11)

	addVariants(
		Variant{ID: "c11-r3-frac-verb", Prop: "C11", File: "replication/binlog_event_rbr.go",
			Old: "\t\t\tif frac0x == 3 {\n\t\t\t\tfmt.Fprintf(txt, \"%03d\", val)", New: "\t\t\tif frac0x == 3 {\n\t\t\t\tfmt.Fprintf(txt, \"%04d\", val)",
			Expect: "C11-R3 frac-verbs@decimal"},
		Variant{ID: "c11-r3-frac-group-unpadded", Prop: "C11", File: "replication/binlog_event_rbr.go",
			Old: "\t\tfor i := 0; i < frac0; i++ {\n\t\t\tval = binary.BigEndian.Uint32(d[pos : pos+4])\n\t\t\tfmt.Fprintf(txt, \"%09d\", val)", New: "\t\tfor i := 0; i < frac0; i++ {\n\t\t\tval = binary.BigEndian.Uint32(d[pos : pos+4])\n\t\t\tfmt.Fprintf(txt, \"%d\", val)",
			Expect: "C11-R3 frac-verbs@decimal"},
		Variant{ID: "c11-r3-frac-loop-bound", Prop: "C11", File: "replication/binlog_event_rbr.go",
			Old: "\t\tfor i := 0; i < frac0; i++ {\n\t\t\tval = binary.BigEndian.Uint32(d[pos : pos+4])", New: "\t\tfor i := 1; i < frac0; i++ {\n\t\t\tval = binary.BigEndian.Uint32(d[pos : pos+4])",
			Expect: "C11-R3 frac-loop@decimal"},
		Variant{ID: "c11-r3-leftover-width", Prop: "C11", File: "replication/binlog_event_rbr.go",
			Old: "\t\tcase 2:\n\t\t\t// two bytes, 3 or 4 digits\n\t\t\tval = uint32(d[pos])<<8 +\n\t\t\t\tuint32(d[pos+1])", New: "\t\tcase 2:\n\t\t\t// two bytes, 3 or 4 digits\n\t\t\tval = uint32(d[pos]) +\n\t\t\t\tuint32(d[pos+1])<<8",
			Expect: "C11-R3 frac-leftover@decimal"},
		Variant{ID: "c11-r1-dot-without-zero", Prop: "C11", File: "replication/binlog_event_rbr.go",
			Old:    "\t\tif !flag {\n\t\t\ttxt.WriteByte('0')\n\t\t}\n\n\t\t// now see if we have a fraction\n\t\tif scale == 0 {\n\t\t\treturn txt.Bytes(), l, nil\n\t\t}\n",
			New:    "\t\t// now see if we have a fraction\n\t\tif scale == 0 {\n\t\t\treturn txt.Bytes(), l, nil\n\t\t}\n\n\t\tif !flag {\n\t\t\ttxt.WriteByte('0')\n\t\t}\n",
			Expect: "C11-R1 written@decimal"},
		Variant{ID: "c11-r2-space-padding", Prop: "C11", File: "replication/binlog_event_rbr.go",
			Old: "\t\t\t\tfmt.Fprintf(txt, \"%d\", val)\n\t\t\t\tflag = true", New: "\t\t\t\tfmt.Fprintf(txt, \"%9d\", val)\n\t\t\t\tflag = true",
			Expect: "C11-R2 padding@decimal"},
		Variant{ID: "c11-r1-zero-only-when-negative", Prop: "C11", File: "replication/binlog_event_rbr.go",
			Old: "\t\tif !flag {\n\t\t\ttxt.WriteByte('0')\n\t\t}\n", New: "\t\tif !flag && !isNegative {\n\t\t\ttxt.WriteByte('0')\n\t\t}\n",
			Expect: "C11-R1 written@decimal"},
		Variant{ID: "c11-r3-int-loop-skip-without-advance", Prop: "C11", File: "replication/binlog_event_rbr.go",
			Old: "\t\t\t//fmt.Fprintf(txt, \"%9d\", val) 中间有0的情况已经处理\n", New: "\t\t\tif !flag && val == 0 {\n\t\t\t\tcontinue\n\t\t\t}\n",
			Expect: "C11-R3 int-loop@decimal"},
	)
}

var padVerb = regexp.MustCompile(`%[-+# ]*[1-9][0-9]*(\.[0-9]+)?[a-zA-Z]`)
var zeroVerb = regexp.MustCompile(`^%0([1-9])d$`)

type decWrite struct {
	In     *ssa.Call
	Kind   string // byte | write | str | printf
	Format string
	Arg    string // term of the (first) argument
	ByteK  int64
}

// decimalBuffer finds the text buffer of the decimal case: the Alloc whose Bytes() is returned.
func decimalBuffer(rv *Result) ssa.Value {
	for _, ret := range successReturns(rv, 2) {
		if c, ok := ret.Results[0].(*ssa.Call); ok && staticCalleeIs(c.Common(), "(*bytes.Buffer).Bytes") {
			return strip(c.Common().Args[0])
		}
	}
	return nil
}

func decimalWrites(cd *codec, rv *Result, buf ssa.Value) []decWrite {
	t := newTB(rv)
	t.names[cd.valFn.Params[0]] = "data"
	t.names[cd.valFn.Params[1]] = "pos"
	var calls []*ssa.Call
	add := func(c *ssa.Call) {
		if rv.Exec[c.Block()] {
			calls = append(calls, c)
		}
	}
	if refs := buf.Referrers(); refs != nil {
		for _, ref := range *refs {
			switch y := ref.(type) {
			case *ssa.Call:
				add(y)
			case *ssa.MakeInterface:
				for _, rr := range *y.Referrers() {
					if c, ok := rr.(*ssa.Call); ok {
						add(c)
					}
				}
			}
		}
	}
	sort.SliceStable(calls, func(i, j int) bool { return calls[i].Pos() < calls[j].Pos() })
	var out []decWrite
	for _, c := range calls {
		f := c.Common().StaticCallee()
		if f == nil {
			continue
		}
		args := c.Common().Args
		switch f.String() {
		case "(*bytes.Buffer).WriteByte":
			k, _ := constInt(args[1])
			out = append(out, decWrite{In: c, Kind: "byte", ByteK: k})
		case "(*bytes.Buffer).WriteString":
			s, _ := constString(args[1])
			out = append(out, decWrite{In: c, Kind: "str", Format: s})
		case "(*bytes.Buffer).Write":
			out = append(out, decWrite{In: c, Kind: "write", Arg: valTerm(t, rv, args[1], 0)})
		case "fmt.Fprintf":
			s, _ := constString(args[1])
			arg := ""
			parts := strings.SplitN(fmtArgs(t, rv, args, 1, 0), ",", 2)
			if len(parts) == 2 {
				arg = parts[1]
			}
			s, arg = starWidth(s, arg)
			out = append(out, decWrite{In: c, Kind: "printf", Format: s, Arg: arg})
		}
	}
	return out
}

// definitelyWritten runs the must-analysis and returns, per success return, whether buf is written.
func definitelyWritten(rv *Result, fn *ssa.Function, buf ssa.Value, writes map[ssa.Instruction]bool, probes map[ssa.Instruction]bool) (map[*ssa.Return]bool, map[ssa.Instruction]bool) {
	type state struct {
		written bool
		g       map[ssa.Value]bool // guarded: value true => written
		all     bool               // optimistic top: every bool is guarded
	}
	top := func() *state { return &state{written: true, all: true} }
	out := map[*ssa.BasicBlock]*state{}
	ins := map[*ssa.BasicBlock]*state{}
	for _, b := range fn.Blocks {
		if rv.Exec[b] {
			out[b] = top()
		}
	}
	inG := func(s *state, v ssa.Value) bool { return s.written || s.all || s.g[v] }
	isFalse := func(v ssa.Value) bool {
		b, ok := constBoolLat(rv.get(v))
		return ok && !b
	}
	execEdge := func(p, s *ssa.BasicBlock) bool {
		if !rv.Exec[p] || !rv.Exec[s] {
			return false
		}
		if iff, ok := lastInstr(p).(*ssa.If); ok {
			if b, isC := constBoolLat(rv.get(iff.Cond)); isC {
				if b {
					return p.Succs[0] == s
				}
				return p.Succs[1] == s
			}
		}
		return true
	}
	// state on the edge p->s
	edgeState := func(p, s *ssa.BasicBlock) *state {
		o := out[p]
		ns := &state{written: o.written, all: o.all, g: o.g}
		if iff, ok := lastInstr(p).(*ssa.If); ok && p.Succs[0] != p.Succs[1] {
			if p.Succs[0] == s && inG(o, iff.Cond) {
				ns = &state{written: true}
			}
			if u, isNot := iff.Cond.(*ssa.UnOp); isNot && u.Op == token.NOT && p.Succs[1] == s && inG(o, u.X) {
				ns = &state{written: true}
			}
			// along the false edge of a test of c, c is false, so "c => written" holds vacuously
			if p.Succs[1] == s && !ns.written && !ns.all {
				g := map[ssa.Value]bool{iff.Cond: true}
				for k := range ns.g {
					g[k] = true
				}
				ns = &state{written: false, g: g}
			}
		}
		return ns
	}
	changed := true
	for iter := 0; changed && iter < 200; iter++ {
		changed = false
		for _, b := range fn.Blocks {
			if !rv.Exec[b] {
				continue
			}
			// in-state
			in := &state{}
			var preds []*ssa.BasicBlock
			for _, p := range b.Preds {
				if execEdge(p, b) {
					preds = append(preds, p)
				}
			}
			if len(preds) == 0 {
				in = &state{written: false, g: map[ssa.Value]bool{}}
			} else {
				in = &state{written: true, all: true}
				var es []*state
				for _, p := range preds {
					es = append(es, edgeState(p, b))
				}
				in.written = true
				for _, e := range es {
					if !e.written {
						in.written = false
					}
				}
				if !in.written {
					// intersection of guarded sets over the non-written edges
					in.all = true
					var g map[ssa.Value]bool
					for _, e := range es {
						if e.written || e.all {
							continue
						}
						in.all = false
						if g == nil {
							g = map[ssa.Value]bool{}
							for k := range e.g {
								g[k] = true
							}
						} else {
							for k := range g {
								if !e.g[k] {
									delete(g, k)
								}
							}
						}
					}
					if g == nil {
						g = map[ssa.Value]bool{}
					}
					in.g = g
					// phis of this block
					for _, instr := range b.Instrs {
						phi, ok := instr.(*ssa.Phi)
						if !ok {
							break
						}
						good := true
						for i, p := range b.Preds {
							if !execEdge(p, b) {
								continue
							}
							e := edgeState(p, b)
							v := phi.Edges[i]
							if !(isFalse(v) || e.written || e.all || e.g[v]) {
								good = false
							}
						}
						if good && !in.all {
							in.g[phi] = true
						}
					}
				}
			}
			// transfer through the block
			ins[b] = in
			cur := &state{written: in.written, all: in.all, g: in.g}
			for _, instr := range b.Instrs {
				if writes[instr] {
					cur = &state{written: true}
				}
			}
			old := out[b]
			same := old.written == cur.written && old.all == cur.all && len(old.g) == len(cur.g)
			if same {
				for k := range cur.g {
					if !old.g[k] {
						same = false
					}
				}
			}
			if !same {
				out[b] = cur
				changed = true
			}
		}
	}
	res := map[*ssa.Return]bool{}
	for _, ret := range successReturns(rv, 2) {
		res[ret] = out[ret.Block()] != nil && out[ret.Block()].written
	}
	// state just before each probe instruction
	pres := map[ssa.Instruction]bool{}
	for pr := range probes {
		b := pr.Block()
		if !rv.Exec[b] {
			continue
		}
		written := false
		if ins[b] != nil {
			written = ins[b].written
		}
		for _, instr := range b.Instrs {
			if instr == pr {
				break
			}
			if writes[instr] {
				written = true
			}
		}
		pres[pr] = written
	}
	return res, pres
}

func runC11(a *A) {
	cd := resolveCodec(a, "C11-R0")
	if cd == nil {
		return
	}
	w := a.W
	byName := map[string]int64{}
	for v, n := range cd.typeName {
		byName[n] = v
	}
	dec := byName["TypeNewDecimal"]
	// the leftover-digits table: the constant integer table the length rule (or a function it calls) indexes - by role, not
	// by name
	var dig []int64
	used := map[*ssa.Global]bool{}
	var scan func(f *ssa.Function, depth int)
	scan = func(f *ssa.Function, depth int) {
		instrs(f, func(in ssa.Instruction) {
			if u, ok := in.(*ssa.UnOp); ok && u.Op == token.MUL {
				if g, isG := u.X.(*ssa.Global); isG && cd.tables[g] != nil {
					used[g] = true
				}
			}
			if ia, ok := in.(*ssa.IndexAddr); ok {
				if g, isG := ia.X.(*ssa.Global); isG && cd.tables[g] != nil {
					used[g] = true
				}
			}
			if c, ok := in.(*ssa.Call); ok && depth < 2 {
				if cal := c.Common().StaticCallee(); cal != nil && cal.Pkg == w.Repl && cal.Blocks != nil && !c.Common().IsInvoke() {
					scan(cal, depth+1)
				}
			}
		})
	}
	scan(cd.lenFn, 0)
	for g := range used {
		t := cd.tables[g]
		if t.isM || len(t.vals) != 10 || len(dig) > 0 {
			continue
		}
		for _, v := range t.vals {
			var k int64
			fmt.Sscan(v.String(), &k)
			dig = append(dig, k)
		}
	}
	a.check(len(dig) == 10, "C11-R4", "table@dig2bytes", w.pos(cd.lenFn.Pos()), "leftover-digits table is a 10-entry constant never written after init", "the leftover-digits table is missing, not a literal, or written at run time")
	if len(dig) != 10 {
		return
	}
	wantDig := []int64{0, 1, 1, 2, 2, 3, 3, 4, 4, 4}
	okDig := true
	for i := range dig {
		if dig[i] != wantDig[i] {
			okDig = false
		}
	}
	a.check(okDig, "C11-R4", "table-values@dig2bytes", w.pos(cd.lenFn.Pos()), "bytes for 0..9 leftover digits = 0,1,1,2,2,3,3,4,4,4", fmt.Sprintf("leftover-digits table is %v; MySQL's packed decimal uses 0,1,1,2,2,3,3,4,4,4", dig))

	type finding struct {
		rule, key, pos, msg string
	}
	var mu sync.Mutex
	found := map[string]finding{}
	report := func(f finding) {
		mu.Lock()
		if _, dup := found[f.rule+f.key]; !dup {
			found[f.rule+f.key] = f
		}
		mu.Unlock()
	}
	var specs []spec
	for p := int64(1); p <= 65; p++ {
		for s := int64(0); s <= 30 && s <= p; s++ {
			specs = append(specs, spec{dec, p<<8 | s})
		}
	}
	counts := map[string]int{}
	parallelSpecs(specs, func(sp spec) {
		p, s := sp.Md>>8, sp.Md&0xff
		tag := fmt.Sprintf("[p=%d,s=%d]", p, s)
		rv := cd.specVal(sp)
		buf := decimalBuffer(rv)
		if buf == nil {
			report(finding{"C11-R1", "written@decimal" + tag, w.pos(cd.valFn.Pos()), "cannot find the text buffer whose bytes the decimal case returns"})
			return
		}
		ws := decimalWrites(cd, rv, buf)
		wset := map[ssa.Instruction]bool{}
		probes := map[ssa.Instruction]bool{}
		for _, x := range ws {
			nonEmpty := true
			switch x.Kind {
			case "byte":
				// only digits count: a sign or the decimal point is not an integer part
				nonEmpty = x.ByteK >= '0' && x.ByteK <= '9'
				if x.ByteK == '.' {
					probes[x.In] = true
				}
			case "str":
				nonEmpty = x.Format != ""
			case "printf":
				nonEmpty = x.Format != ""
			case "write":
				nonEmpty = strings.HasPrefix(x.Arg, "Append")
			}
			if nonEmpty {
				wset[x.In] = true
			}
		}
		// R1
		rets, dots := definitelyWritten(rv, rv.Fn, buf, wset, probes)
		for ret, ok := range rets {
			if !ok {
				report(finding{"C11-R1", "written@decimal" + tag, w.posOf(ret),
					fmt.Sprintf("DECIMAL(%d,%d): a success return is reachable without any digit having been written to the text (value 0 decodes to an empty, NULL-looking or sign-only value)", p, s)})
			}
		}
		for in, ok := range dots {
			if !ok {
				report(finding{"C11-R1", "written@decimal" + tag, w.posOf(in),
					fmt.Sprintf("DECIMAL(%d,%d): the decimal point can be written without an integer digit before it (0.5 decodes to \".5\")", p, s)})
			}
		}
		// R2 + R3
		dot := -1
		for i, x := range ws {
			if x.Kind == "byte" && x.ByteK == '.' {
				dot = i
			}
			if x.Kind == "printf" && padVerb.MatchString(x.Format) && !strings.Contains(x.Format, "%0") {
				report(finding{"C11-R2", "padding@decimal[" + x.Format + "]", w.posOf(x.In),
					fmt.Sprintf("verb %q pads with spaces: a leading 9-digit group below 100000000 is rendered with leading blanks (e.g. DECIMAL(18,0) 123 -> \"      123\")", x.Format)})
			}
		}
		if s == 0 {
			if dot >= 0 {
				report(finding{"C11-R3", "frac-verbs@decimal" + tag, w.posOf(ws[dot].In), "scale 0 but a '.' is written"})
			}
		} else {
			if dot < 0 {
				report(finding{"C11-R3", "frac-verbs@decimal" + tag, w.pos(cd.valFn.Pos()), fmt.Sprintf("DECIMAL(%d,%d): no '.' is written", p, s)})
				return
			}
			var got []string
			leftoverArg := ""
			for _, x := range ws[dot+1:] {
				if x.Kind == "printf" {
					got = append(got, x.Format)
					if x.Format != "%09d" {
						leftoverArg = x.Arg
					}
				} else {
					got = append(got, x.Kind)
				}
			}
			var want []string
			if s/9 > 0 {
				want = append(want, "%09d")
			}
			if s%9 > 0 {
				want = append(want, fmt.Sprintf("%%0%dd", s%9))
			}
			if strings.Join(got, " ") != strings.Join(want, " ") {
				report(finding{"C11-R3", "frac-verbs@decimal" + tag, w.posOf(ws[dot].In),
					fmt.Sprintf("DECIMAL(%d,%d): after the '.' the decoder prints with %v; exactly %d fraction digits need %v", p, s, got, s, want)})
			}
			if s%9 > 0 {
				k := wantDig[s%9]
				okArg := strings.HasPrefix(leftoverArg, fmt.Sprintf("BE(%d,", k))
				if k == 1 {
					okArg = !strings.Contains(leftoverArg, "BE(") && !strings.Contains(leftoverArg, "LE(") && strings.Contains(leftoverArg, "[")
				}
				if !okArg {
					report(finding{"C11-R3", "frac-leftover@decimal" + tag, w.posOf(ws[dot].In),
						fmt.Sprintf("DECIMAL(%d,%d): the %d leftover fraction digits are read as %s; they are stored big-endian in %d byte(s)", p, s, s%9, leftoverArg, k)})
				}
			}
		}
		// integer part: verbs before the dot (or all, when there is none)
		end := len(ws)
		if dot >= 0 {
			end = dot
		}
		for _, x := range ws[:end] {
			if x.Kind == "printf" && x.Format != "%09d" && x.Format != "%d" {
				report(finding{"C11-R3", "int-verbs@decimal[" + x.Format + "]", w.posOf(x.In), fmt.Sprintf("integer digit groups are printed with %q; only %%09d (inner groups) and %%d (leading group) render canonical digits", x.Format)})
			}
			if x.Kind == "write" {
				ki := wantDig[(p-s)%9]
				okArg := strings.Contains(x.Arg, fmt.Sprintf("BE(%d,", ki)) && strings.Contains(x.Arg, "[0])")
				if ki == 1 {
					okArg = strings.Contains(x.Arg, "[0]") && !strings.Contains(x.Arg, "BE(") && !strings.Contains(x.Arg, "LE(")
				}
				if !okArg {
					report(finding{"C11-R3", "int-leftover@decimal" + tag, w.posOf(x.In),
						fmt.Sprintf("DECIMAL(%d,%d): the %d leading integer digits are read as %s; they are stored big-endian in the first %d byte(s)", p, s, (p-s)%9, x.Arg, ki)})
				}
			}
		}
		// loop bounds
		var dotIn ssa.Instruction
		if dot >= 0 {
			dotIn = ws[dot].In
		}
		for _, b := range rv.Fn.Blocks {
			if !rv.Exec[b] || !isLoopHeader(b) {
				continue
			}
			iff, ok := lastInstr(b).(*ssa.If)
			if !ok {
				continue
			}
			bo, ok := iff.Cond.(*ssa.BinOp)
			if !ok || bo.Op != token.LSS {
				continue
			}
			k, isK := rv.constOf(bo.Y)
			if !isK {
				continue
			}
			if _, isPhi := bo.X.(*ssa.Phi); !isPhi {
				continue
			}
			// start value of the counter
			start := int64(-1)
			if phi, ok := bo.X.(*ssa.Phi); ok {
				for i, pr := range b.Preds {
					if !b.Dominates(pr) {
						start, _ = rv.constOf(phi.Edges[i])
					}
				}
			}
			// the cursor of the group reads advances by exactly one group (4 bytes) on every way round the loop, and the
			// counter by one
			which := "int-loop"
			if dotIn != nil && instrDominates(dotIn, iff) {
				which = "frac-loop"
			}
			latch := -1
			for i, pr := range b.Preds {
				if b.Dominates(pr) {
					latch = i
				}
			}
			if latch >= 0 {
				if cphi, ok := bo.X.(*ssa.Phi); ok {
					tq := newTB(rv)
					tq.names[cphi] = "@i"
					if d := tq.term(cphi.Edges[latch]).add(affAtom("@i"), -1).String(); d != "1" {
						report(finding{"C11-R3", which + "@decimal" + tag, w.posOf(iff), fmt.Sprintf("DECIMAL(%d,%d): the group counter moves by %s per iteration, not by 1", p, s, d)})
					}
				}
				instrs(rv.Fn, func(in ssa.Instruction) {
					c, ok := in.(*ssa.Call)
					if !ok || !rv.Exec[c.Block()] || !b.Dominates(c.Block()) || c.Block() == b {
						return
					}
					cal := c.Common().StaticCallee()
					if cal == nil || cal.Pkg == nil || cal.Pkg.Pkg.Path() != "encoding/binary" || cal.Name() != "Uint32" {
						return
					}
					sl, ok := c.Common().Args[len(c.Common().Args)-1].(*ssa.Slice)
					if !ok || sl.Low == nil {
						return
					}
					cur, ok := sl.Low.(*ssa.Phi)
					if !ok || cur.Block() != b {
						return
					}
					tq := newTB(rv)
					tq.names[cur] = "@p"
					if d := tq.term(cur.Edges[latch]).add(affAtom("@p"), -1).String(); d != "4" {
						report(finding{"C11-R3", which + "@decimal" + tag, w.posOf(c), fmt.Sprintf("DECIMAL(%d,%d): the cursor of the 9-digit group reads moves by %s per iteration, not by the 4 bytes of a group: after such an iteration every later group is read from the wrong offset", p, s, d)})
					}
				})
			}
			if dotIn != nil && instrDominates(dotIn, iff) {
				if k-start != s/9 {
					report(finding{"C11-R3", "frac-loop@decimal" + tag, w.posOf(iff), fmt.Sprintf("DECIMAL(%d,%d): the full-group fraction loop runs %d time(s); there are %d full 9-digit groups", p, s, k-start, s/9)})
				}
			} else if dotIn == nil || !instrDominates(dotIn, iff) {
				if k-start != (p-s)/9 {
					report(finding{"C11-R3", "int-loop@decimal" + tag, w.posOf(iff), fmt.Sprintf("DECIMAL(%d,%d): the full-group integer loop runs %d time(s); there are %d full 9-digit groups", p, s, k-start, (p-s)/9)})
				}
			}
		}
		mu.Lock()
		counts["specs"]++
		mu.Unlock()
	})
	a.Evals += len(specs)
	var keys []string
	for k := range found {
		keys = append(keys, k)
	}
	sort.Strings(keys)
	// collapse per rule family to keep reports readable: at most 6 per family
	perFam := map[string]int{}
	famOf := func(key string) string {
		if i := strings.Index(key, "["); i >= 0 {
			return key[:i]
		}
		return key
	}
	badFam := map[string]bool{}
	for _, k := range keys {
		f := found[k]
		fam := f.rule + " " + famOf(f.key)
		badFam[fam] = true
		perFam[fam]++
		if perFam[fam] <= 6 {
			a.viol(f.rule, f.key, f.pos, "%s", f.msg)
		}
	}
	for fam, n := range perFam {
		if n > 6 {
			a.Notes = append(a.Notes, fmt.Sprintf("%s: %d instances in total (first 6 listed)", fam, n))
		}
	}
	for _, fam := range [][2]string{{"C11-R1", "written@decimal"}, {"C11-R2", "padding@decimal"}, {"C11-R3", "frac-verbs@decimal"}, {"C11-R3", "frac-leftover@decimal"}, {"C11-R3", "int-verbs@decimal"},
		{"C11-R3", "int-leftover@decimal"}, {"C11-R3", "frac-loop@decimal"}, {"C11-R3", "int-loop@decimal"}} {
		if !badFam[fam[0]+" "+fam[1]] {
			a.hold(fam[0], fam[1], w.pos(cd.valFn.Pos()), "holds for all %d (precision, scale) pairs", len(specs))
		}
	}
	a.exhaustive = true
	a.Extra["specialisations"] = len(specs)
	a.Extra["distinct_cases"] = counts["specs"]
}

// starWidth rewrites a "%0*d" verb whose width argument is a constant into the fixed-width verb ("%0*d", "4,x" -> "%04d", "x").
func starWidth(format, args string) (string, string) {
	if !strings.Contains(format, "*") {
		return format, args
	}
	first, rest, _ := strings.Cut(args, ",")
	var k int64
	if _, err := fmt.Sscanf(first, "%d", &k); err != nil || fmt.Sprint(k) != first {
		return format, args
	}
	return strings.Replace(format, "*", first, 1), rest
}
