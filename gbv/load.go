package main

import (
	"crypto/sha256"
	"fmt"
	"go/token"
	"go/types"
	"os"
	"path/filepath"
	"sort"
	"strings"

	"golang.org/x/tools/go/callgraph"
	"golang.org/x/tools/go/callgraph/cha"
	"golang.org/x/tools/go/callgraph/vta"
	"golang.org/x/tools/go/packages"
	"golang.org/x/tools/go/ssa"
	"golang.org/x/tools/go/ssa/ssautil"
)

const (
	rootPath = "github.com/Breeze0806/gobinlog"
	replPath = "github.com/Breeze0806/gobinlog/replication"
	drvPath  = "github.com/Breeze0806/mysql"
)

// World is the type-checked, SSA-built view of /repo's current working tree.
type World struct {
	RepoDir string
	Fset    *token.FileSet
	Pkgs    []*packages.Package
	Prog    *ssa.Program
	Root    *ssa.Package
	Repl    *ssa.Package
	RootP   *packages.Package
	ReplP   *packages.Package
	NPkgs   int // packages of the repo itself
	GOARCH  string

	cg *callgraph.Graph // lazily built VTA graph
}

type infraError struct{ msg string }

func (e infraError) Error() string { return e.msg }

func infra(format string, args ...interface{}) {
	panic(infraError{fmt.Sprintf(format, args...)})
}

var normRound int

// normSignature identifies the rewrites applied during the current load (used to skip normal-form levels that coincide).
var normSignature string

// normInline enables the tail-call inlining normalisation (normalise_inline.go). It changes which functions exist, so
// it is used only as a second attempt: a check that does not come out clean on the program as written is repeated on
// the inlined program, and the second result is taken only if it is clean (see runCheck).
var normInline string // "", a package path, or "all"

// normInlineStmts additionally inlines calls that are whole statements (not only tail calls).
var normInlineStmts bool

// normInlineMulti additionally inlines small functions that have several call sites (their declaration stays) and calls
// in expression position (hoisted into a temporary first); see hoist in normalise_inline.go.
var normInlineMulti bool

// normInlineClosures additionally inlines local closures that are only called (normalise_closure.go).
var normInlineClosures string // "", a package path, or "all"

// tryLoadNormalised loads the tree with the normalising overlay; if the rewritten source does not type-check (a case the
// rewriting did not foresee) the original program is analysed instead.
func tryLoadNormalised(repoDir string, overlay map[string][]byte, goarch string) (w *World) {
	defer func() {
		if e := recover(); e != nil {
			if ie, isInfra := e.(infraError); isInfra {
				if os.Getenv("GBV_DUMP_NORM") != "" {
					fmt.Fprintln(os.Stderr, "normalised source does not load:", ie.msg)
				}
				w = nil
				return
			}
			panic(e)
		}
	}()
	return loadWorld(repoDir, overlay, goarch)
}

// loadWorld type-checks ./... of repoDir from source (no test files) and
// builds SSA for it and all dependencies. overlay maps absolute file names to
// replacement contents (used only by variants).
func loadWorld(repoDir string, overlay map[string][]byte, goarch string) *World {
	env := append(os.Environ(), "GOFLAGS=-mod=mod", "GOPROXY=off", "GOSUMDB=off", "GOTOOLCHAIN=local", "GOWORK=off")
	if goarch != "" {
		env = append(env, "GOARCH="+goarch)
	}
	cfg := &packages.Config{
		Mode:    packages.LoadAllSyntax,
		Dir:     repoDir,
		Tests:   false,
		Env:     env,
		Overlay: overlay,
	}
	pkgs, err := packages.Load(cfg, "./...")
	if err != nil {
		infra("packages.Load: %v", err)
	}
	nerr := 0
	var first string
	packages.Visit(pkgs, nil, func(p *packages.Package) {
		for _, e := range p.Errors {
			if nerr == 0 {
				first = e.Error()
			}
			nerr++
		}
	})
	if nerr > 0 {
		infra("type-check/load errors (%d), first: %s", nerr, first)
	}
	if normRound < 9 || normInlineMulti && normRound < 24 {
		// source normalisation (normalise*.go): glue tail-called halves of split functions together again, then split
		// local struct variables used field by field; reload after each round that changed something
		var own []*packages.Package
		for _, p := range pkgs {
			if p.PkgPath == rootPath || p.PkgPath == replPath {
				own = append(own, p)
			}
		}
		saved := map[string][]lineOrigin{}
		for k, v := range lineOrigins {
			saved[k] = v
		}
		var extra map[string][]byte
		pick := func(which string) []*packages.Package {
			var sel []*packages.Package
			for _, p := range own {
				if which == "all" || p.PkgPath == which {
					sel = append(sel, p)
				}
			}
			return sel
		}
		if normInline != "" {
			extra = tailInlineOverlay(pick(normInline), overlay)
		}
		if extra == nil && normInlineClosures != "" {
			extra = closureInlineOverlay(pick(normInlineClosures), overlay)
		}
		if extra == nil {
			extra = sroaOverlay(own, overlay)
		}
		if extra != nil {
			merged := map[string][]byte{}
			for k, v := range overlay {
				merged[k] = v
			}
			for k, v := range extra {
				merged[k] = v
			}
			if d := os.Getenv("GBV_DUMP_NORM"); d != "" {
				os.MkdirAll(d, 0o755)
				for k, v := range extra {
					os.WriteFile(filepath.Join(d, fmt.Sprintf("r%d_%s", normRound, filepath.Base(k))), v, 0o644)
				}
			}
			{
				// identify the normal form by what was rewritten
				var ks []string
				for k := range extra {
					ks = append(ks, k)
				}
				sort.Strings(ks)
				h := sha256.New()
				for _, k := range ks {
					h.Write([]byte(k))
					h.Write(extra[k])
				}
				normSignature += fmt.Sprintf("%x;", h.Sum(nil)[:8])
			}
			normRound++
			w2 := tryLoadNormalised(repoDir, merged, goarch)
			normRound--
			if w2 != nil {
				return w2
			}
			lineOrigins = saved // the rewritten source did not load: analyse what we have
		}
	}
	w := &World{RepoDir: repoDir, Pkgs: pkgs, GOARCH: goarch}
	for _, p := range pkgs {
		if strings.HasPrefix(p.PkgPath, rootPath) {
			w.NPkgs++
		}
		switch p.PkgPath {
		case rootPath:
			w.RootP = p
		case replPath:
			w.ReplP = p
		}
	}
	if w.NPkgs < 3 || w.RootP == nil || w.ReplP == nil {
		infra("expected >=3 repo packages incl. root and replication, got %d", w.NPkgs)
	}
	w.Fset = w.RootP.Fset
	prog, _ := ssautil.AllPackages(pkgs, ssa.InstantiateGenerics)
	prog.Build()
	w.Prog = prog
	w.Root = prog.Package(w.RootP.Types)
	w.Repl = prog.Package(w.ReplP.Types)
	if w.Root == nil || w.Repl == nil {
		infra("ssa packages missing")
	}
	defaultTables = map[*ssa.Global]*constTable{}
	for g, t := range constTablesOf(w, w.RootP, w.Root) {
		defaultTables[g] = t
	}
	for g, t := range constTablesOf(w, w.ReplP, w.Repl) {
		defaultTables[g] = t
	}
	buildRoleRev(w)
	return w
}

// CallGraph returns the VTA call graph (built once on demand).
func (w *World) CallGraph() *callgraph.Graph {
	if w.cg == nil {
		w.cg = vta.CallGraph(ssautil.AllFunctions(w.Prog), cha.CallGraph(w.Prog))
	}
	return w.cg
}

func (w *World) pos(p token.Pos) string {
	if !p.IsValid() {
		return "-"
	}
	ps := w.Fset.Position(p)
	ps.Filename, ps.Line = originOf(ps.Filename, ps.Line)
	rel, err := filepath.Rel(w.RepoDir, ps.Filename)
	if err != nil || strings.HasPrefix(rel, "..") {
		rel = ps.Filename
	}
	return fmt.Sprintf("%s:%d", rel, ps.Line)
}

// posOf gives a best-effort position for an instruction (falls back to the
// enclosing function when the instruction itself has none).
func (w *World) posOf(in ssa.Instruction) string {
	if in == nil {
		return "-"
	}
	if p := in.Pos(); p.IsValid() {
		return w.pos(p)
	}
	if v, ok := in.(ssa.Value); ok {
		if refs := v.Referrers(); refs != nil {
			for _, r := range *refs {
				if r.Pos().IsValid() {
					return w.pos(r.Pos())
				}
			}
		}
	}
	// nearest positioned instruction in the block
	if b := in.Block(); b != nil {
		seen := false
		best := token.NoPos
		for _, i2 := range b.Instrs {
			if i2 == in {
				seen = true
			}
			if i2.Pos().IsValid() {
				if !seen {
					best = i2.Pos()
				} else {
					if !best.IsValid() {
						best = i2.Pos()
					}
					break
				}
			}
		}
		if best.IsValid() {
			return w.pos(best) + "~"
		}
	}
	if in.Parent() != nil {
		return w.pos(in.Parent().Pos()) + "~"
	}
	return "-"
}

// ---- lookups -------------------------------------------------------------

func (w *World) fn(pkg *ssa.Package, name string) *ssa.Function {
	if f := pkg.Func(name); f != nil {
		return f
	}
	// an unexported function may have been renamed: find it again by its role
	return w.fnByRole(pkg, name)
}

func (w *World) namedType(pkg *ssa.Package, name string) *types.Named {
	t := pkg.Type(name)
	if t == nil {
		return nil
	}
	n, _ := t.Type().(*types.Named)
	return n
}

// method finds a method by receiver type name and method name, trying the
// pointer and the value receiver.
func (w *World) method(pkg *ssa.Package, typeName, meth string) *ssa.Function {
	n := w.namedType(pkg, typeName)
	if n == nil {
		return nil
	}
	for _, t := range []types.Type{types.NewPointer(n), n} {
		ms := w.Prog.MethodSets.MethodSet(t)
		for i := 0; i < ms.Len(); i++ {
			sel := ms.At(i)
			if sel.Obj().Name() == meth && sel.Obj().Pkg() == pkg.Pkg {
				f := w.Prog.MethodValue(sel)
				if f != nil && f.Synthetic == "" {
					return f
				}
				// promoted/wrapper: unwrap to declared function
				if f != nil {
					if d := w.Prog.FuncValue(sel.Obj().(*types.Func)); d != nil {
						return d
					}
				}
			}
		}
	}
	return nil
}

// srcFuncs lists all source functions (incl. anonymous ones) of a package in
// a deterministic order.
func (w *World) srcFuncs(pkg *ssa.Package) []*ssa.Function {
	var out []*ssa.Function
	seen := map[*ssa.Function]bool{}
	var add func(f *ssa.Function)
	add = func(f *ssa.Function) {
		if f == nil || seen[f] || f.Blocks == nil {
			return
		}
		seen[f] = true
		out = append(out, f)
		for _, a := range f.AnonFuncs {
			add(a)
		}
	}
	for _, m := range pkg.Members {
		switch m := m.(type) {
		case *ssa.Function:
			if m.Synthetic == "" || m.Name() == "init" {
				add(m)
			}
		case *ssa.Type:
			for _, t := range []types.Type{m.Type(), types.NewPointer(m.Type())} {
				ms := w.Prog.MethodSets.MethodSet(t)
				for i := 0; i < ms.Len(); i++ {
					if f := w.Prog.MethodValue(ms.At(i)); f != nil && f.Synthetic == "" && f.Pkg == pkg {
						add(f)
					}
				}
			}
		}
	}
	sort.Slice(out, func(i, j int) bool {
		if out[i].Pos() != out[j].Pos() {
			return out[i].Pos() < out[j].Pos()
		}
		return out[i].String() < out[j].String()
	})
	return out
}

func fnName(f *ssa.Function) string {
	if f == nil {
		return "<nil>"
	}
	s := f.String()
	s = strings.ReplaceAll(s, rootPath+"/replication.", "replication.")
	s = strings.ReplaceAll(s, rootPath+".", "")
	return s
}
