package main

import (
	"fmt"
	"go/constant"
	"go/token"
	"go/types"
	"sort"
	"strings"

	"golang.org/x/tools/go/ssa"
)

// ---- basic navigation ------------------------------------------------------

func instrs(f *ssa.Function, visit func(ssa.Instruction)) {
	if f == nil {
		return
	}
	for _, b := range f.Blocks {
		for _, in := range b.Instrs {
			visit(in)
		}
	}
}

func lastInstr(b *ssa.BasicBlock) ssa.Instruction {
	if len(b.Instrs) == 0 {
		return nil
	}
	return b.Instrs[len(b.Instrs)-1]
}

func indexIn(b *ssa.BasicBlock, in ssa.Instruction) int {
	for i, x := range b.Instrs {
		if x == in {
			return i
		}
	}
	return -1
}

// isRecoverBlock: the synthetic block go/ssa adds to functions with defers.
func isRecoverBlock(b *ssa.BasicBlock) bool {
	return b.Parent().Recover == b
}

// instrDominates: a executes before b on every path reaching b.
func instrDominates(a, b ssa.Instruction) bool {
	if a.Block() == b.Block() {
		return indexIn(a.Block(), a) < indexIn(b.Block(), b)
	}
	return a.Block().Dominates(b.Block())
}

// returnsOf lists the Return instructions of f that are exits of the source
// function (the synthetic recover block is not one).
func returnsOf(f *ssa.Function) []*ssa.Return {
	var out []*ssa.Return
	for _, b := range f.Blocks {
		if isRecoverBlock(b) {
			continue
		}
		if r, ok := lastInstr(b).(*ssa.Return); ok {
			out = append(out, r)
		}
	}
	return out
}

// edgeDominated reports whether block t is reached only through the edge
// (from -> from.Succs[k]).
func edgeDominated(from *ssa.BasicBlock, k int, t *ssa.BasicBlock) bool {
	s := from.Succs[k]
	if !s.Dominates(t) {
		return false
	}
	// s must be entered only from `from` along edge k (other preds must be
	// dominated by s itself: loop back edges).
	for _, p := range s.Preds {
		if p == from {
			// make sure the other successor is not the same block
			if from.Succs[1-k] == s {
				return false
			}
			continue
		}
		if !s.Dominates(p) {
			return false
		}
	}
	return true
}

// condEdges enumerates, for block t, the (If-condition, edge) pairs that
// dominate it: t is reached only if cond had truth value `val`.
type condEdge struct {
	If   *ssa.If
	Cond ssa.Value
	Val  bool
}

func dominatingConds(t *ssa.BasicBlock) []condEdge { return dominatingCondsD(t, 0) }

// nilCorrelatedPred: the conditions cs hold at a block dominated by b. If one of them says that a phi E of b is nil and
// exactly one predecessor of b feeds E a nil constant (and b is not a loop header), every path to that block enters b
// from that predecessor: `x, err = f()` written as result variables set on several paths and tested afterwards.
func nilCorrelatedPred(b *ssa.BasicBlock, cs []condEdge) *ssa.BasicBlock {
	if len(b.Preds) < 2 {
		return nil
	}
	for _, p := range b.Preds {
		if b.Dominates(p) {
			return nil // loop header
		}
	}
	for _, ce := range cs {
		x, nonNilOnTrue, ok := nilTest(ce.Cond)
		if !ok || ce.Val == nonNilOnTrue {
			continue // not a nil test, or it says "non-nil"
		}
		phi, ok := x.(*ssa.Phi)
		if !ok || phi.Block() != b {
			continue
		}
		var only *ssa.BasicBlock
		n := 0
		for i, e := range phi.Edges {
			if isNilConst(e) {
				n++
				only = b.Preds[i]
			}
		}
		if n == 1 {
			return only
		}
	}
	return nil
}

func dominatingCondsD(t *ssa.BasicBlock, depth int) (out []condEdge) {
	defer func() {
		// path correlation through result variables (see nilCorrelatedPred): continue from the one predecessor that fits
		if depth > 3 {
			return
		}
		for d := t.Idom(); d != nil; d = d.Idom() {
			if p := nilCorrelatedPred(d, out); p != nil {
				extra := dominatingCondsD(p, depth+1)
				if iff, ok := lastInstr(p).(*ssa.If); ok && len(p.Succs) == 2 && p.Succs[0] != p.Succs[1] {
					cond, val := iff.Cond, p.Succs[0] == d
					for {
						u, isNot := cond.(*ssa.UnOp)
						if !isNot || u.Op != token.NOT {
							break
						}
						cond, val = u.X, !val
					}
					extra = append(extra, condEdge{iff, cond, val})
				}
				seen := map[*ssa.If]bool{}
				for _, ce := range out {
					seen[ce.If] = true
				}
				for _, ce := range extra {
					if !seen[ce.If] {
						out = append(out, ce)
					}
				}
				break
			}
		}
	}()
	for d := t; d != nil; d = d.Idom() {
		id := d.Idom()
		if id == nil {
			break
		}
		iff, ok := lastInstr(id).(*ssa.If)
		if !ok {
			continue
		}
		for k := 0; k < 2; k++ {
			if edgeDominated(id, k, t) {
				// "!x" holding/failing is x failing/holding
				cond, val := iff.Cond, k == 0
				for {
					u, isNot := cond.(*ssa.UnOp)
					if !isNot || u.Op != token.NOT {
						break
					}
					cond, val = u.X, !val
				}
				out = append(out, condEdge{iff, cond, val})
			}
		}
	}
	return out
}

// ---- values ----------------------------------------------------------------

func isNilConst(v ssa.Value) bool {
	c, ok := v.(*ssa.Const)
	return ok && c.Value == nil
}

func constInt(v ssa.Value) (int64, bool) {
	c, ok := v.(*ssa.Const)
	if !ok || c.Value == nil {
		return 0, false
	}
	if c.Value.Kind() != constant.Int {
		return 0, false
	}
	return constant.Int64Val(c.Value)
}

func constString(v ssa.Value) (string, bool) {
	c, ok := v.(*ssa.Const)
	if !ok || c.Value == nil || c.Value.Kind() != constant.String {
		return "", false
	}
	return constant.StringVal(c.Value), true
}

func constBool(v ssa.Value) (bool, bool) {
	c, ok := v.(*ssa.Const)
	if !ok || c.Value == nil || c.Value.Kind() != constant.Bool {
		return false, false
	}
	return constant.BoolVal(c.Value), true
}

// strip removes value-preserving wrappers.
func strip(v ssa.Value) ssa.Value {
	for {
		switch x := v.(type) {
		case *ssa.ChangeType:
			v = x.X
		case *ssa.ChangeInterface:
			v = x.X
		case *ssa.MakeInterface:
			v = x.X
		default:
			return v
		}
	}
}

// callCommon returns the CallCommon of a call-like instruction.
func callCommon(in ssa.Instruction) *ssa.CallCommon {
	if c, ok := in.(ssa.CallInstruction); ok {
		return c.Common()
	}
	return nil
}

// calleeName gives "pkgpath.Func", "(recv).Method" for static callees,
// "invoke:Iface.Method" for interface calls, "builtin:name", or "dynamic".
func calleeName(c *ssa.CallCommon) string {
	if c.IsInvoke() {
		recv := c.Value.Type().String()
		return "invoke:" + recv + "." + c.Method.Name()
	}
	switch f := c.Value.(type) {
	case *ssa.Builtin:
		return "builtin:" + f.Name()
	case *ssa.Function:
		if n, ok := roleRev[f]; ok && f.Pkg != nil {
			return f.Pkg.Pkg.Path() + "." + n
		}
		return f.String()
	case *ssa.MakeClosure:
		return f.Fn.(*ssa.Function).String()
	}
	return "dynamic"
}

func isBuiltin(c *ssa.CallCommon, name string) bool {
	b, ok := c.Value.(*ssa.Builtin)
	return ok && b.Name() == name
}

func isInvokeOf(c *ssa.CallCommon, method string) bool {
	return c.IsInvoke() && c.Method.Name() == method
}

func staticCalleeIs(c *ssa.CallCommon, full string) bool {
	f := c.StaticCallee()
	return f != nil && f.String() == full
}

// typeIs checks a (possibly pointer) named type by package path and name.
func typeIs(t types.Type, pkgPath, name string) bool {
	if p, ok := t.(*types.Pointer); ok {
		t = p.Elem()
	}
	n, ok := t.(*types.Named)
	if !ok {
		return false
	}
	o := n.Obj()
	return o.Name() == name && o.Pkg() != nil && o.Pkg().Path() == pkgPath
}

func namedIs(t types.Type, pkgPath, name string) bool {
	n, ok := t.(*types.Named)
	if !ok {
		return false
	}
	o := n.Obj()
	return o.Name() == name && o.Pkg() != nil && o.Pkg().Path() == pkgPath
}

func fieldName(fa *ssa.FieldAddr) string {
	st := fa.X.Type().Underlying().(*types.Pointer).Elem().Underlying().(*types.Struct)
	return st.Field(fa.Field).Name()
}

func fieldNameV(f *ssa.Field) string {
	st := f.X.Type().Underlying().(*types.Struct)
	return st.Field(f.Field).Name()
}

// ---- cells (captured variables) ----------------------------------------------

// Cell is a variable allocated in a function and possibly shared with its
// closures. refs maps each function to the SSA value that denotes the cell's
// address in that function (the Alloc in the owner, a FreeVar in closures).
type Cell struct {
	Alloc *ssa.Alloc
	Name  string
	refs  map[*ssa.Function]ssa.Value
	// field cell: the variable is field fIdx of the (single) state object of type *fT that the owner function allocates and
	// whose methods the owner calls; every FieldAddr of that field on a *fT denotes it
	fT    types.Type
	fIdx  int
	fns   []*ssa.Function // the functions of the package (where accesses are looked for)
	owner *ssa.Function   // the function that owns the state (the parser)
}

// newFieldCell makes the cell for field idx of struct type T (accessed through *T).
func newFieldCell(T types.Type, idx int, fns []*ssa.Function, owner *ssa.Function) *Cell {
	st := T.Underlying().(*types.Struct)
	return &Cell{Name: st.Field(idx).Name(), refs: map[*ssa.Function]ssa.Value{}, fT: T, fIdx: idx, fns: fns, owner: owner}
}

func (c *Cell) isField() bool { return c.fT != nil }

// elemType: the type of the variable the cell denotes.
func (c *Cell) elemType() types.Type {
	if c.isField() {
		return c.fT.Underlying().(*types.Struct).Field(c.fIdx).Type()
	}
	return c.Alloc.Type().(*types.Pointer).Elem()
}

// sameAddr: a and b denote the same location: the same value, or the same field of the same base.
func sameAddr(a, b ssa.Value) bool {
	if a == b {
		return true
	}
	fa, ok1 := a.(*ssa.FieldAddr)
	fb, ok2 := b.(*ssa.FieldAddr)
	return ok1 && ok2 && fa.Field == fb.Field && sameAddr(fa.X, fb.X) && types.Identical(fa.X.Type(), fb.X.Type())
}

func (c *Cell) fieldAddr(v ssa.Value) bool {
	fa, ok := v.(*ssa.FieldAddr)
	if !ok || fa.Field != c.fIdx {
		return false
	}
	p, ok := fa.X.Type().Underlying().(*types.Pointer)
	return ok && types.Identical(p.Elem(), c.fT)
}

func newCell(a *ssa.Alloc) *Cell {
	c := &Cell{Alloc: a, Name: a.Comment, refs: map[*ssa.Function]ssa.Value{a.Parent(): a}}
	var walk func(f *ssa.Function, addr ssa.Value)
	walk = func(f *ssa.Function, addr ssa.Value) {
		instrs(f, func(in ssa.Instruction) {
			mc, ok := in.(*ssa.MakeClosure)
			if !ok {
				return
			}
			fn := mc.Fn.(*ssa.Function)
			for i, b := range mc.Bindings {
				if b == addr {
					if _, done := c.refs[fn]; !done {
						c.refs[fn] = fn.FreeVars[i]
						walk(fn, fn.FreeVars[i])
					}
				}
			}
		})
	}
	walk(a.Parent(), a)
	return c
}

// addrIn returns the address value of the cell inside f (nil if f does not
// see the cell).
func (c *Cell) addrIn(f *ssa.Function) ssa.Value {
	if c.isField() {
		// any address value of the field in f (all of them denote the same location when taken on f's receiver)
		var out ssa.Value
		instrs(f, func(in ssa.Instruction) {
			if fa, ok := in.(*ssa.FieldAddr); ok && out == nil && c.fieldAddr(fa) {
				out = fa
			}
		})
		return out
	}
	return c.refs[f]
}

// isAddr: v is the cell's address (in whichever function v lives).
func (c *Cell) isAddr(v ssa.Value) bool {
	if c.isField() {
		return c.fieldAddr(v)
	}
	for _, r := range c.refs {
		if r == v {
			return true
		}
	}
	return false
}

// isLoad: v is a direct load of the cell.
func (c *Cell) isLoad(v ssa.Value) bool {
	u, ok := v.(*ssa.UnOp)
	return ok && u.Op == token.MUL && c.isAddr(u.X)
}

// cellStore describes a write to a cell or to a field of it.
type cellStore struct {
	Store *ssa.Store
	Field string // "" for whole-cell stores
	Fn    *ssa.Function
	// At: for a store made by a small method of the state object that the owner calls (add, discard, rotate...), the call in
	// the owner where it takes effect; Fn is then the owner. nil for stores written out in Fn itself.
	At *ssa.Call
}

// block / instr: where the store takes effect in Fn.
func (s cellStore) block() *ssa.BasicBlock {
	if s.At != nil {
		return s.At.Block()
	}
	return s.Store.Block()
}

func (s cellStore) instr() ssa.Instruction {
	if s.At != nil {
		return s.At
	}
	return s.Store
}

// val: the stored value as seen at the place of effect: a parameter of the helper method reads as the argument of the call.
func (s cellStore) val() ssa.Value {
	v := s.Store.Val
	if s.At == nil {
		return v
	}
	if p, ok := v.(*ssa.Parameter); ok {
		for i, q := range s.Store.Parent().Params {
			if q == p && i < len(s.At.Common().Args) {
				return s.At.Common().Args[i]
			}
		}
	}
	return v
}

// keep: functions whose stores stay where they are (roles of their own, e.g. the commit and begin methods).
var cellKeepFns = map[*ssa.Function]bool{}

func (c *Cell) stores() []cellStore {
	var out []cellStore
	if c.isField() {
		for _, f := range c.fns {
			instrs(f, func(in ssa.Instruction) {
				st, ok := in.(*ssa.Store)
				if !ok {
					return
				}
				field := ""
				switch {
				case c.fieldAddr(st.Addr):
				default:
					fa, ok := st.Addr.(*ssa.FieldAddr)
					if !ok || !c.fieldAddr(fa.X) {
						return
					}
					field = fieldName(fa)
				}
				if f == c.owner || cellKeepFns[f] || f.Signature.Recv() == nil {
					out = append(out, cellStore{st, field, f, nil})
					return
				}
				// a helper method of the state object: relocate to its call sites in the owner
				n := 0
				instrs(c.owner, func(i2 ssa.Instruction) {
					if call, ok := i2.(*ssa.Call); ok && call.Common().StaticCallee() == f {
						out = append(out, cellStore{st, field, c.owner, call})
						n++
					}
				})
				if n == 0 {
					out = append(out, cellStore{st, field, f, nil})
				}
			})
		}
		return out
	}
	for f, addr := range c.refs {
		instrs(f, func(in ssa.Instruction) {
			st, ok := in.(*ssa.Store)
			if !ok {
				return
			}
			if st.Addr == addr {
				out = append(out, cellStore{st, "", f, nil})
				return
			}
			if fa, ok := st.Addr.(*ssa.FieldAddr); ok && fa.X == addr {
				out = append(out, cellStore{st, fieldName(fa), f, nil})
			}
		})
	}
	return out
}

// otherUses lists uses of the cell address that are neither loads, stores,
// field addresses feeding loads/stores, nor closure bindings: the address
// escapes through them (passed to a call, stored somewhere, …).
func (c *Cell) otherUses() []ssa.Instruction {
	var out []ssa.Instruction
	if c.isField() {
		for _, f := range c.fns {
			instrs(f, func(in ssa.Instruction) {
				fa, ok := in.(*ssa.FieldAddr)
				if !ok || !c.fieldAddr(fa) || fa.Referrers() == nil {
					return
				}
				for _, r := range *fa.Referrers() {
					switch x := r.(type) {
					case *ssa.UnOp:
						if x.Op == token.MUL {
							continue
						}
					case *ssa.Store:
						if x.Addr == ssa.Value(fa) {
							continue
						}
					case *ssa.DebugRef:
						continue
					case *ssa.FieldAddr:
						okSub := true
						if x.Referrers() != nil {
							for _, u := range *x.Referrers() {
								switch y := u.(type) {
								case *ssa.UnOp:
									if y.Op == token.MUL {
										continue
									}
								case *ssa.Store:
									if y.Addr == ssa.Value(x) {
										continue
									}
								case *ssa.DebugRef:
									continue
								}
								okSub = false
							}
						}
						if okSub {
							continue
						}
					}
					out = append(out, r)
				}
			})
		}
		return out
	}
	for _, addr := range c.refs {
		refs := addr.Referrers()
		if refs == nil {
			continue
		}
		for _, r := range *refs {
			switch x := r.(type) {
			case *ssa.UnOp:
				if x.Op == token.MUL {
					continue
				}
			case *ssa.Store:
				if x.Addr == addr {
					continue
				}
			case *ssa.FieldAddr:
				ok := true
				if rr := x.Referrers(); rr != nil {
					for _, u := range *rr {
						switch y := u.(type) {
						case *ssa.UnOp:
							if y.Op == token.MUL {
								continue
							}
						case *ssa.Store:
							if y.Addr == x {
								continue
							}
						case *ssa.DebugRef:
							continue
						}
						ok = false
					}
				}
				if ok {
					continue
				}
			case *ssa.MakeClosure:
				continue
			case *ssa.DebugRef:
				continue
			}
			out = append(out, r)
		}
	}
	return out
}

// allocsOfType returns the Allocs in f whose element type satisfies pred.
func allocsOf(f *ssa.Function, pred func(t types.Type) bool) []*ssa.Alloc {
	var out []*ssa.Alloc
	instrs(f, func(in ssa.Instruction) {
		if a, ok := in.(*ssa.Alloc); ok {
			if pred(a.Type().(*types.Pointer).Elem()) {
				out = append(out, a)
			}
		}
	})
	return out
}

// ---- store-to-load forwarding ---------------------------------------------------

// mayWrite reports whether instruction in may write memory at addr (addr is an
// Alloc/FreeVar cell address or a FieldAddr of one). Calls are treated as
// writers only if they are calls of closures that capture the cell, or unknown
// callees receiving the address; plain function calls cannot reach a local cell
// that did not escape.
func mayWriteCell(in ssa.Instruction, addr ssa.Value) bool {
	switch x := in.(type) {
	case *ssa.Store:
		if x.Addr == addr {
			return true
		}
		if fa, ok := x.Addr.(*ssa.FieldAddr); ok && fa.X == addr {
			return true
		}
		if fa, ok := addr.(*ssa.FieldAddr); ok && x.Addr == fa.X {
			return true
		}
		if fa, ok := addr.(*ssa.FieldAddr); ok {
			if fb, ok := x.Addr.(*ssa.FieldAddr); ok && fb.X == fa.X && fb.Field == fa.Field {
				return true
			}
		}
	case ssa.CallInstruction:
		c := x.Common()
		base := addr
		if fa, ok := addr.(*ssa.FieldAddr); ok {
			base = fa.X
		}
		// closure capturing the cell
		if mc, ok := c.Value.(*ssa.MakeClosure); ok {
			for _, b := range mc.Bindings {
				if b == base {
					return true
				}
			}
		}
		for _, a := range c.Args {
			if a == base || a == addr {
				return true
			}
		}
	}
	return false
}

// forwardLoad resolves a load `*addr` to the value most recently stored to
// addr on every path, looking backwards through the extended basic block
// (single-predecessor chain). Returns nil if unknown. Whole-struct stores
// followed by field loads are not decomposed here (see forwardField).
func forwardLoad(load *ssa.UnOp) ssa.Value {
	if load.Op != token.MUL {
		return nil
	}
	addr := load.X
	b := load.Block()
	i := indexIn(b, load) - 1
	for {
		for ; i >= 0; i-- {
			in := b.Instrs[i]
			if st, ok := in.(*ssa.Store); ok && st.Addr == addr {
				return st.Val
			}
			if sameFieldAddr(in, addr) != nil {
				return sameFieldAddr(in, addr).Val
			}
			if mayWriteCell(in, addr) {
				return nil
			}
		}
		if len(b.Preds) != 1 {
			// join: continue at the immediate dominator when nothing in between may write the location
			d := b.Idom()
			if d == nil || writtenBetween(d, b, addr) {
				return nil
			}
			b = d
			i = len(b.Instrs) - 1
			continue
		}
		b = b.Preds[0]
		i = len(b.Instrs) - 1
	}
}

// sameFieldAddr: `in` is a Store through a different FieldAddr instruction that
// denotes the same field of the same base as addr.
func sameFieldAddr(in ssa.Instruction, addr ssa.Value) *ssa.Store {
	st, ok := in.(*ssa.Store)
	if !ok {
		return nil
	}
	fa, ok1 := addr.(*ssa.FieldAddr)
	fb, ok2 := st.Addr.(*ssa.FieldAddr)
	if ok1 && ok2 && fa != fb && fa.X == fb.X && fa.Field == fb.Field {
		return st
	}
	return nil
}

// resolve follows loads through forwardLoad and strips wrappers, repeatedly.
func resolve(v ssa.Value) ssa.Value {
	for i := 0; i < 32; i++ {
		v = strip(v)
		u, ok := v.(*ssa.UnOp)
		if !ok || u.Op != token.MUL {
			return v
		}
		f := forwardLoad(u)
		if f == nil {
			f = writeOnce(u.X)
		}
		if f == nil {
			return v
		}
		v = f
	}
	return v
}

// writeOnce: addr is a local variable cell (an Alloc, typically a parameter or local captured by a closure and therefore
// kept in memory) that is stored exactly once - in the entry block of its function - counting the stores made through
// the free variables of every closure that captures it, and whose address is used for nothing but loads, that store and
// captures. Its value is then the stored value everywhere.
func writeOnce(addr ssa.Value) ssa.Value {
	al, ok := addr.(*ssa.Alloc)
	if !ok {
		if fv, isFV := addr.(*ssa.FreeVar); isFV {
			if a2 := allocOfFreeVar(fv); a2 != nil {
				return writeOnce(a2)
			}
		}
		return nil
	}
	var stores []*ssa.Store
	okUse := true
	var scan func(v ssa.Value, depth int)
	scan = func(v ssa.Value, depth int) {
		if depth > 4 || v.Referrers() == nil {
			okUse = false
			return
		}
		for _, ref := range *v.Referrers() {
			switch x := ref.(type) {
			case *ssa.UnOp:
				if x.Op != token.MUL {
					okUse = false
				}
			case *ssa.Store:
				if x.Addr == v {
					stores = append(stores, x)
				} else {
					okUse = false // the address itself is stored somewhere
				}
			case *ssa.MakeClosure:
				fn := x.Fn.(*ssa.Function)
				for i, b := range x.Bindings {
					if b == v && i < len(fn.FreeVars) {
						scan(fn.FreeVars[i], depth+1)
					}
				}
			case *ssa.DebugRef:
			default:
				okUse = false
			}
		}
	}
	scan(al, 0)
	if !okUse || len(stores) != 1 {
		return nil
	}
	st := stores[0]
	if st.Parent() != al.Parent() || st.Block() != al.Parent().Blocks[0] {
		return nil
	}
	return st.Val
}

// allocOfFreeVar: the Alloc a free variable is bound to, when every MakeClosure of its function binds the same one.
func allocOfFreeVar(fv *ssa.FreeVar) *ssa.Alloc {
	fn := fv.Parent()
	idx := -1
	for i, f := range fn.FreeVars {
		if f == fv {
			idx = i
		}
	}
	par := fn.Parent()
	if idx < 0 || par == nil {
		return nil
	}
	var found *ssa.Alloc
	okAll := true
	instrs(par, func(in ssa.Instruction) {
		mc, ok := in.(*ssa.MakeClosure)
		if !ok || mc.Fn != ssa.Value(fn) {
			return
		}
		switch b := mc.Bindings[idx].(type) {
		case *ssa.Alloc:
			if found != nil && found != b {
				okAll = false
			}
			found = b
		case *ssa.FreeVar:
			a2 := allocOfFreeVar(b)
			if a2 == nil || (found != nil && found != a2) {
				okAll = false
			}
			found = a2
		default:
			okAll = false
		}
	})
	if !okAll {
		return nil
	}
	return found
}

// ---- error-nil tests -------------------------------------------------------------

// nilTest decomposes `x != nil` / `x == nil` (x resolved through forwarding).
// Returns the tested value and whether the true edge means "non-nil".
func nilTest(cond ssa.Value) (ssa.Value, bool, bool) {
	b, ok := cond.(*ssa.BinOp)
	if !ok || (b.Op != token.NEQ && b.Op != token.EQL) {
		return nil, false, false
	}
	var x ssa.Value
	switch {
	case isNilConst(b.Y):
		x = b.X
	case isNilConst(b.X):
		x = b.Y
	default:
		return nil, false, false
	}
	return resolve(x), b.Op == token.NEQ, true
}

// ---- description helpers ------------------------------------------------------------

func describe(v ssa.Value) string {
	switch x := v.(type) {
	case nil:
		return "<nil>"
	case *ssa.Const:
		if x.Value == nil {
			return "const(zero " + x.Type().String() + ")"
		}
		return "const(" + x.Value.String() + ")"
	case *ssa.Call:
		return "call(" + shortCallee(x.Common()) + ")"
	case *ssa.Extract:
		return fmt.Sprintf("%s#%d", describe(x.Tuple), x.Index)
	case *ssa.UnOp:
		if x.Op == token.MUL {
			return "load(" + describe(x.X) + ")"
		}
		return x.Op.String() + describe(x.X)
	case *ssa.Alloc:
		return "var(" + x.Comment + ")"
	case *ssa.FreeVar:
		return "captured(" + x.Name() + ")"
	case *ssa.Parameter:
		return "param(" + x.Name() + ")"
	case *ssa.FieldAddr:
		return describe(x.X) + "." + fieldName(x)
	case *ssa.Field:
		return describe(x.X) + "." + fieldNameV(x)
	case *ssa.Global:
		return "global(" + x.Name() + ")"
	case *ssa.Convert:
		return "convert<" + x.Type().String() + ">(" + describe(x.X) + ")"
	case *ssa.Phi:
		return "phi(" + x.Comment + ")"
	}
	return fmt.Sprintf("%T", v)
}

func shortCallee(c *ssa.CallCommon) string {
	s := calleeName(c)
	s = strings.ReplaceAll(s, rootPath+"/replication.", "replication.")
	s = strings.ReplaceAll(s, rootPath+".", "")
	return s
}

// ---- struct values field by field --------------------------------------------------

// fsrc is the source of one field of a struct value: either a direct SSA value
// (Val) or "field Name of the struct value Of" (when the struct came whole
// from somewhere opaque), or the value the memory at Entry had before any
// store this analysis saw (Entry != nil).
type fsrc struct {
	Val   ssa.Value
	Of    ssa.Value
	Entry ssa.Value
	Name  string
	Sub   *subAt    // the field is itself a struct assembled in place (nested composite literal): its fields are those at Sub
	Alts  []fsrcAlt // the field was assigned on some of the paths into a join: its source per predecessor of Join
	Join  *ssa.BasicBlock
}

type fsrcAlt struct {
	Pred *ssa.BasicBlock
	Src  fsrc
}

type subAt struct {
	Addr ssa.Value
	B    *ssa.BasicBlock
	Idx  int
}

func (s fsrc) String() string {
	switch {
	case s.Val != nil:
		return describe(s.Val)
	case s.Of != nil:
		return describe(s.Of) + "." + s.Name
	case s.Entry != nil:
		return "entry(" + describe(s.Entry) + ")." + s.Name
	case s.Sub != nil:
		return "struct-in-place"
	case len(s.Alts) > 0:
		var as []string
		for _, a := range s.Alts {
			as = append(as, a.Src.String())
		}
		sort.Strings(as)
		return "phi{" + strings.Join(as, "|") + "}"
	}
	return "unknown"
}

func (s fsrc) same(t fsrc) bool {
	return s.Val == t.Val && s.Of == t.Of && s.Entry == t.Entry && (s.Val != nil || s.Of != nil || s.Entry != nil) && len(s.Alts) == 0 && len(t.Alts) == 0
}

func structOf(t types.Type) *types.Struct {
	if p, ok := t.Underlying().(*types.Pointer); ok {
		t = p.Elem()
	}
	st, _ := t.Underlying().(*types.Struct)
	return st
}

// fieldsAt computes the per-field sources of the struct stored at addr just
// before instruction index idx of block b, looking backwards through the
// single-predecessor chain.
func fieldsAt(addr ssa.Value, b *ssa.BasicBlock, idx int, depth int) map[string]fsrc {
	st := structOf(addr.Type())
	out := map[string]fsrc{}
	if st == nil || depth > 6 {
		return out
	}
	missing := func() []string {
		var m []string
		for i := 0; i < st.NumFields(); i++ {
			if _, ok := out[st.Field(i).Name()]; !ok {
				m = append(m, st.Field(i).Name())
			}
		}
		return m
	}
	i := idx - 1
	b0, idx0 := b, idx
	for {
		for ; i >= 0; i-- {
			in := b.Instrs[i]
			if s, ok := in.(*ssa.Store); ok {
				if fa2, ok := s.Addr.(*ssa.FieldAddr); ok {
					if fa1, ok := fa2.X.(*ssa.FieldAddr); ok && fa1.X == addr && !sameAddr(fa2.X, addr) {
						n := fieldName(fa1)
						if _, done := out[n]; !done {
							out[n] = fsrc{Sub: &subAt{fa1, b0, idx0}, Name: n}
						}
						continue
					}
				}
				if sameAddr(s.Addr, addr) {
					sub := fieldsOfValue(s.Val, depth+1)
					for _, f := range missing() {
						if v, ok := sub[f]; ok {
							out[f] = v
						} else {
							out[f] = fsrc{Of: s.Val, Name: f}
						}
					}
					return out
				}
				if fa, ok := s.Addr.(*ssa.FieldAddr); ok && sameAddr(fa.X, addr) {
					n := fieldName(fa)
					if _, done := out[n]; !done {
						out[n] = fsrc{Val: s.Val}
					}
					continue
				}
			}
			if mayWriteCell(in, addr) {
				for _, f := range missing() {
					out[f] = fsrc{Name: f}
				}
				return out
			}
			if v, isV := in.(ssa.Value); isV && v == addr {
				if _, isAlloc := in.(*ssa.Alloc); isAlloc {
					// the variable comes into being here, zeroed
					for _, f := range missing() {
						for k := 0; k < st.NumFields(); k++ {
							if st.Field(k).Name() == f {
								out[f] = fsrc{Val: zeroConst(st.Field(k).Type())}
							}
						}
					}
					return out
				}
			}
		}
		if len(b.Preds) == 0 {
			for _, f := range missing() {
				out[f] = fsrc{Entry: addr, Name: f}
			}
			return out
		}
		if len(b.Preds) != 1 {
			// join: continue at the immediate dominator when nothing in between may write the location
			d := b.Idom()
			if d == nil {
				for _, f := range missing() {
					out[f] = fsrc{Name: f}
				}
				return out
			}
			if writtenBetween(d, b, addr) {
				// some fields are assigned on some of the paths: those get one source per predecessor (a "phi"); a whole
				// store, an escape or a loop in between makes everything unknown
				wf, simple := fieldsWrittenBetween(d, b, addr)
				if !simple || depth > 3 {
					for _, f := range missing() {
						out[f] = fsrc{Name: f}
					}
					return out
				}
				for _, f := range missing() {
					if !wf[f] {
						continue
					}
					var alts []fsrcAlt
					for _, p := range b.Preds {
						sub := fieldsAt(addr, p, len(p.Instrs), depth+1)
						alts = append(alts, fsrcAlt{p, sub[f]})
					}
					same := len(alts) > 0
					for _, a := range alts[1:] {
						if !a.Src.same(alts[0].Src) {
							same = false
						}
					}
					if same {
						out[f] = alts[0].Src
					} else {
						out[f] = fsrc{Alts: alts, Join: b, Name: f}
					}
				}
			}
			b = d
			i = len(b.Instrs) - 1
			continue
		}
		b = b.Preds[0]
		i = len(b.Instrs) - 1
	}
}

// writtenBetween: some block strictly between d and b (dominated by d, able to
// reach b) may write addr.
func writtenBetween(d, b *ssa.BasicBlock, addr ssa.Value) bool {
	for _, x := range d.Parent().Blocks {
		if x == d || x == b || !d.Dominates(x) {
			continue
		}
		if !reachesAvoiding(x, b, nil, nil) {
			continue
		}
		for _, in := range x.Instrs {
			if mayWriteCell(in, addr) {
				return true
			}
			if st, ok := in.(*ssa.Store); ok {
				if fa, ok := st.Addr.(*ssa.FieldAddr); ok && fa.X == addr {
					return true
				}
				if st.Addr == addr {
					return true
				}
			}
		}
	}
	return false
}

// fieldsOfValue decomposes a struct-typed value.
func fieldsOfValue(v ssa.Value, depth int) map[string]fsrc {
	st := structOf(v.Type())
	out := map[string]fsrc{}
	if st == nil {
		return out
	}
	switch x := v.(type) {
	case *ssa.UnOp:
		if x.Op == token.MUL {
			return fieldsAt(x.X, x.Block(), indexIn(x.Block(), x), depth)
		}
	case *ssa.Const:
		for i := 0; i < st.NumFields(); i++ {
			out[st.Field(i).Name()] = fsrc{Val: ssa.NewConst(nil, st.Field(i).Type())}
		}
		return out
	}
	for i := 0; i < st.NumFields(); i++ {
		out[st.Field(i).Name()] = fsrc{Of: v, Name: st.Field(i).Name()}
	}
	return out
}

// convsBack walks backwards from v through value-preserving instructions and
// arithmetic-free wrappers, collecting the Convert instructions on the way, and
// returns the origin reached.
func convsBack(v ssa.Value) ([]*ssa.Convert, ssa.Value) {
	var cs []*ssa.Convert
	for i := 0; i < 32; i++ {
		v = resolve(v)
		c, ok := v.(*ssa.Convert)
		if !ok {
			return cs, v
		}
		cs = append(cs, c)
		v = c.X
	}
	return cs, v
}

// valueOf returns the instruction as a value (nil if it is not one).
func valueOf(in ssa.Instruction) ssa.Value {
	v, _ := in.(ssa.Value)
	return v
}

// stripW strips interface/type changes and widening (or same-width) integer conversions.
func stripW(v ssa.Value) ssa.Value {
	for {
		v = strip(v)
		c, ok := v.(*ssa.Convert)
		if !ok {
			return v
		}
		to, _, ok1 := intBits(c.Type())
		from, _, ok2 := intBits(c.X.Type())
		if !ok1 || !ok2 || to < from {
			return v
		}
		v = c.X
	}
}

// canonCall names a call by the function that does the work: a thin in-package wrapper - one that calls exactly one other
// in-package function with (a prefix-preserving selection of) its own parameters and whose success returns hand back that
// call's results, converted at most - is named after the wrapped function, with the result indices mapped.
func canonCall(c *ssa.Call) (string, map[int]int) {
	f := c.Common().StaticCallee()
	if f == nil {
		return "", nil
	}
	ident := map[int]int{}
	for i := 0; i < f.Signature.Results().Len(); i++ {
		ident[i] = i
	}
	if f.Blocks == nil || f.Pkg == nil || c.Common().IsInvoke() {
		return roleName(f), ident
	}
	var inner *ssa.Call
	n := 0
	instrs(f, func(in ssa.Instruction) {
		if cc, ok := in.(*ssa.Call); ok {
			if g := cc.Common().StaticCallee(); g != nil && g.Pkg == f.Pkg && g.Blocks != nil && !cc.Common().IsInvoke() {
				n++
				inner = cc
			}
		}
	})
	if n != 1 {
		return roleName(f), ident
	}
	for i, a := range inner.Common().Args {
		if i >= len(f.Params) || a != ssa.Value(f.Params[i]) {
			return roleName(f), ident
		}
	}
	m := map[int]int{}
	okAny := false
	for _, ret := range returnsOf(f) {
		// success returns: the last result is a nil error or the constant true
		last := ret.Results[len(ret.Results)-1]
		succ := isNilConst(last)
		if b, isB := constBool(last); isB && b {
			succ = true
		}
		if !succ {
			continue
		}
		for i, r := range ret.Results[:len(ret.Results)-1] {
			_, org := convsBack(r)
			ex, ok := org.(*ssa.Extract)
			if !ok || ex.Tuple != ssa.Value(inner) {
				return roleName(f), ident
			}
			if j, seen := m[i]; seen && j != ex.Index {
				return roleName(f), ident
			}
			m[i] = ex.Index
			okAny = true
		}
	}
	if !okAny {
		return roleName(f), ident
	}
	name, innerMap := canonCall(inner)
	out := map[int]int{}
	for i, j := range m {
		if k, ok := innerMap[j]; ok {
			out[i] = k
		}
	}
	return name, out
}

// zeroConst: the zero value of t as an SSA constant (nil for types whose zero value go/ssa writes as a nil constant).
func zeroConst(t types.Type) ssa.Value {
	switch u := t.Underlying().(type) {
	case *types.Basic:
		switch {
		case u.Info()&types.IsBoolean != 0:
			return ssa.NewConst(constant.MakeBool(false), t)
		case u.Info()&types.IsString != 0:
			return ssa.NewConst(constant.MakeString(""), t)
		case u.Info()&types.IsNumeric != 0:
			return ssa.NewConst(constant.MakeInt64(0), t)
		}
	}
	return ssa.NewConst(nil, t)
}

// fieldsWrittenBetween: the fields of the struct at addr that blocks strictly between d and b assign; simple is false when
// one of those blocks may write the struct in any other way (whole store, call that could reach it) or sits on a cycle.
func fieldsWrittenBetween(d, b *ssa.BasicBlock, addr ssa.Value) (map[string]bool, bool) {
	out := map[string]bool{}
	simple := true
	for _, x := range d.Parent().Blocks {
		if x == d || x == b || !d.Dominates(x) || !reachesAvoiding(x, b, nil, nil) {
			continue
		}
		if b.Dominates(x) || inCycle(x) {
			simple = false
		}
		for _, in := range x.Instrs {
			if st, ok := in.(*ssa.Store); ok {
				if fa, ok := st.Addr.(*ssa.FieldAddr); ok && fa.X == addr {
					out[fieldName(fa)] = true
					continue
				}
				if fa2, ok := st.Addr.(*ssa.FieldAddr); ok {
					if fa1, ok := fa2.X.(*ssa.FieldAddr); ok && fa1.X == addr {
						out[fieldName(fa1)] = true
						continue
					}
				}
			}
			if mayWriteCell(in, addr) {
				simple = false
			}
		}
	}
	return out, simple
}

// resolveAt resolves v as seen from block at: a phi of a block b dominating at, one of whose sibling phis is known to be
// nil at `at` and is nil on exactly one edge into b, has the value of that edge (see nilCorrelatedPred).
func resolveAt(v ssa.Value, at *ssa.BasicBlock) ssa.Value {
	for i := 0; i < 8; i++ {
		v = resolve(v)
		phi, ok := v.(*ssa.Phi)
		if !ok || !phi.Block().Dominates(at) {
			return v
		}
		p := nilCorrelatedPred(phi.Block(), dominatingConds(at))
		if p == nil {
			return v
		}
		next := v
		for k, q := range phi.Block().Preds {
			if q == p {
				next = phi.Edges[k]
			}
		}
		if next == v {
			return v
		}
		v = next
	}
	return v
}

// errorExitFrom follows straight-line control flow from b: through jumps and through tests `E != nil` of an error phi E
// whose value on the edge taken is provably a non-nil error. Returns the Return reached, if any.
func errorExitFrom(b *ssa.BasicBlock) *ssa.Return {
	r, _ := errorExitFromK(b)
	return r
}

// errorExitFromK also returns the values known to be non-nil errors on the path followed.
func errorExitFromK(b *ssa.BasicBlock) (*ssa.Return, map[ssa.Value]bool) {
	known := map[ssa.Value]bool{}
	var prev *ssa.BasicBlock
	for steps := 0; steps < 8 && b != nil; steps++ {
		switch x := lastInstr(b).(type) {
		case *ssa.Return:
			return x, known
		case *ssa.Jump:
			prev, b = b, b.Succs[0]
		case *ssa.If:
			tested, nonNilOnTrue, ok := nilTest(x.Cond)
			if !ok {
				return nil, nil
			}
			val := tested
			if phi, isPhi := tested.(*ssa.Phi); isPhi && phi.Block() == b && prev != nil {
				for k, q := range b.Preds {
					if q == prev {
						val = phi.Edges[k]
					}
				}
			}
			if !provablyNonNilErr(val) {
				return nil, nil
			}
			known[tested] = true
			k := 1
			if nonNilOnTrue {
				k = 0
			}
			prev, b = b, b.Succs[k]
		default:
			return nil, nil
		}
	}
	return nil, nil
}

// edgeHolds: block t is reached only when edge k of `from` was taken - by dominance, or through the path correlation
// of dominatingConds (a result variable set on that edge and tested afterwards).
func edgeHolds(from *ssa.BasicBlock, k int, t *ssa.BasicBlock) bool {
	if edgeDominated(from, k, t) {
		return true
	}
	iff, ok := lastInstr(from).(*ssa.If)
	if !ok {
		return false
	}
	// polarity of edge k in terms of the condition with negations peeled
	val := k == 0
	c := iff.Cond
	for {
		u, isNot := c.(*ssa.UnOp)
		if !isNot || u.Op != token.NOT {
			break
		}
		c, val = u.X, !val
	}
	for _, ce := range dominatingConds(t) {
		if ce.If == iff && ce.Val == val {
			return true
		}
	}
	return false
}

// dominatesAt: instruction a is executed before b on every path that reaches b - by dominance, or because every such
// path enters a merge block through the one predecessor that the conditions holding at b single out (nilCorrelatedPred)
// and a dominates that predecessor's end.
func dominatesAt(a, b ssa.Instruction) bool {
	if instrDominates(a, b) {
		return true
	}
	cs := dominatingConds(b.Block())
	for d := b.Block(); d != nil; d = d.Idom() {
		if p := nilCorrelatedPred(d, cs); p != nil {
			if a.Block() == p || a.Block().Dominates(p) {
				return true
			}
		}
	}
	return false
}
