package main

import (
	"fmt"
	"go/ast"
	"go/token"
	"go/types"
	"os"
	"sort"
	"strings"

	"golang.org/x/tools/go/packages"
)

// Source normalisation before SSA construction: scalar replacement of local struct variables.
//
// go/ssa keeps a local `var cur cursor` whose fields are read and written (`cur.pos += n`) as a memory cell with field
// addresses; the same code written with separate locals (`pos += n`) becomes registers and phis, which is what the loop
// skeleton, cell and term analyses read. "Group related locals into a small struct" is an everyday refactoring, so a
// local variable of struct type that is only ever used through direct field selections (never as a whole value, never
// through its address, no method calls) is split back into one variable per field - textually, in an overlay, keeping
// every line where it was so that reported positions stay valid. Nothing else is rewritten.

type srcEdit struct {
	start, end int
	text       string
}

// sroaOverlay returns replacement contents for the files of the given packages in which a local struct variable was
// split; nil when there is nothing to do.
func sroaOverlay(pkgs []*packages.Package, base map[string][]byte) map[string][]byte {
	out := map[string][]byte{}
	for _, p := range pkgs {
		if p.TypesInfo == nil {
			continue
		}
		for _, file := range p.Syntax {
			fname := p.Fset.Position(file.Pos()).Filename
			src, ok := base[fname]
			if !ok {
				b, err := os.ReadFile(fname)
				if err != nil {
					continue
				}
				src = b
			}
			edits := sroaFile(p, file, src)
			if len(edits) == 0 {
				continue
			}
			sort.Slice(edits, func(i, j int) bool { return edits[i].start > edits[j].start })
			buf := append([]byte(nil), src...)
			okAll := true
			last := len(buf) + 1
			for _, e := range edits {
				if e.end > last || e.start > e.end {
					okAll = false // overlapping edits: leave the file alone
					break
				}
				last = e.start
				buf = append(buf[:e.start], append([]byte(e.text), buf[e.end:]...)...)
			}
			if okAll {
				out[fname] = buf
			}
		}
	}
	if len(out) == 0 {
		return nil
	}
	return out
}

func sroaFile(p *packages.Package, file *ast.File, src []byte) []srcEdit {
	info := p.TypesInfo
	off := func(pos token.Pos) int { return p.Fset.Position(pos).Offset }
	imported := map[string]bool{}
	for _, im := range file.Imports {
		imported[strings.Trim(im.Path.Value, `"`)] = im.Name == nil // only default-named imports are usable as is
	}
	qual := func(other *types.Package) string {
		if other == p.Types {
			return ""
		}
		return other.Name()
	}
	typeOK := func(t types.Type) bool {
		ok := true
		var walk func(t types.Type, d int)
		walk = func(t types.Type, d int) {
			if d > 6 || !ok {
				return
			}
			switch x := t.(type) {
			case *types.Named:
				if x.Obj().Pkg() != nil && x.Obj().Pkg() != p.Types && !imported[x.Obj().Pkg().Path()] {
					ok = false
				}
				if x.TypeArgs() != nil && x.TypeArgs().Len() > 0 {
					ok = false
				}
			case *types.Pointer:
				walk(x.Elem(), d+1)
			case *types.Slice:
				walk(x.Elem(), d+1)
			case *types.Array:
				walk(x.Elem(), d+1)
			case *types.Map:
				walk(x.Key(), d+1)
				walk(x.Elem(), d+1)
			case *types.Chan:
				walk(x.Elem(), d+1)
			case *types.Basic:
			default:
				ok = false // func, interface, struct literals: keep it simple
			}
		}
		walk(t, 0)
		return ok
	}
	var edits []srcEdit
	for _, decl := range file.Decls {
		fd, ok := decl.(*ast.FuncDecl)
		if !ok || fd.Body == nil {
			continue
		}
		// candidate definitions
		type cand struct {
			v       *types.Var
			st      *types.Struct
			stmt    ast.Stmt
			lit     *ast.CompositeLit
			bad     bool
			selects []*ast.SelectorExpr
		}
		cands := map[*types.Var]*cand{}
		ast.Inspect(fd.Body, func(n ast.Node) bool {
			switch x := n.(type) {
			case *ast.DeclStmt:
				gd, ok := x.Decl.(*ast.GenDecl)
				if !ok || gd.Tok != token.VAR || len(gd.Specs) != 1 {
					return true
				}
				vs := gd.Specs[0].(*ast.ValueSpec)
				if len(vs.Names) != 1 || len(vs.Values) > 1 {
					return true
				}
				v, _ := info.Defs[vs.Names[0]].(*types.Var)
				if v == nil {
					return true
				}
				st, isSt := v.Type().Underlying().(*types.Struct)
				if !isSt {
					return true
				}
				c := &cand{v: v, st: st, stmt: x}
				if len(vs.Values) == 1 {
					lit, isLit := vs.Values[0].(*ast.CompositeLit)
					if !isLit {
						return true
					}
					c.lit = lit
				}
				cands[v] = c
			case *ast.AssignStmt:
				if x.Tok != token.DEFINE || len(x.Lhs) != 1 || len(x.Rhs) != 1 {
					return true
				}
				id, ok := x.Lhs[0].(*ast.Ident)
				if !ok {
					return true
				}
				v, _ := info.Defs[id].(*types.Var)
				lit, isLit := x.Rhs[0].(*ast.CompositeLit)
				if v == nil || !isLit {
					return true
				}
				st, isSt := v.Type().Underlying().(*types.Struct)
				if !isSt {
					return true
				}
				cands[v] = &cand{v: v, st: st, stmt: x, lit: lit}
			}
			return true
		})
		if len(cands) == 0 {
			continue
		}
		// uses: only as the operand of a direct field selection
		selOperand := map[*ast.Ident]*ast.SelectorExpr{}
		ast.Inspect(fd.Body, func(n ast.Node) bool {
			if se, ok := n.(*ast.SelectorExpr); ok {
				if id, ok := se.X.(*ast.Ident); ok {
					selOperand[id] = se
				}
			}
			return true
		})
		addrTaken := map[*ast.SelectorExpr]bool{}
		ast.Inspect(fd.Body, func(n ast.Node) bool {
			if u, ok := n.(*ast.UnaryExpr); ok && u.Op == token.AND {
				if se, ok := u.X.(*ast.SelectorExpr); ok {
					addrTaken[se] = true
				}
			}
			return true
		})
		ast.Inspect(fd.Body, func(n ast.Node) bool {
			id, ok := n.(*ast.Ident)
			if !ok {
				return true
			}
			v, _ := info.Uses[id].(*types.Var)
			c := cands[v]
			if c == nil {
				return true
			}
			se := selOperand[id]
			if se == nil {
				c.bad = true
				return true
			}
			sel := info.Selections[se]
			if sel == nil || sel.Kind() != types.FieldVal || len(sel.Index()) != 1 || addrTaken[se] {
				c.bad = true
				return true
			}
			c.selects = append(c.selects, se)
			return true
		})
		for _, c := range cands {
			if c.bad || c.st.NumFields() == 0 || c.st.NumFields() > 12 {
				continue
			}
			okT := true
			for i := 0; i < c.st.NumFields(); i++ {
				f := c.st.Field(i)
				if f.Embedded() || f.Name() == "_" || !typeOK(f.Type()) {
					okT = false
				}
			}
			if !okT {
				continue
			}
			// initial values per field
			inits := make([]string, c.st.NumFields())
			if c.lit != nil {
				okL := true
				for i, el := range c.lit.Elts {
					if kv, isKV := el.(*ast.KeyValueExpr); isKV {
						k, isID := kv.Key.(*ast.Ident)
						if !isID {
							okL = false
							break
						}
						found := false
						for j := 0; j < c.st.NumFields(); j++ {
							if c.st.Field(j).Name() == k.Name {
								inits[j] = string(src[off(kv.Value.Pos()):off(kv.Value.End())])
								found = true
							}
						}
						if !found {
							okL = false
						}
					} else {
						if i >= len(inits) {
							okL = false
							break
						}
						inits[i] = string(src[off(el.Pos()):off(el.End())])
					}
				}
				if !okL {
					continue
				}
				// an initialiser that mentions the variable's own name, or spans lines, is left alone
				multi := false
				for _, s := range inits {
					if strings.Contains(s, "\n") {
						multi = true
					}
				}
				if multi {
					continue
				}
			}
			name := func(i int) string { return fmt.Sprintf("%s__%s", c.v.Name(), c.st.Field(i).Name()) }
			var parts, names []string
			for i := 0; i < c.st.NumFields(); i++ {
				ts := types.TypeString(c.st.Field(i).Type(), qual)
				if inits[i] != "" {
					parts = append(parts, fmt.Sprintf("var %s %s = %s", name(i), ts, inits[i]))
				} else {
					parts = append(parts, fmt.Sprintf("var %s %s", name(i), ts))
				}
				names = append(names, name(i))
			}
			blanks := strings.Repeat("_, ", len(names))
			text := strings.Join(parts, "; ") + "; " + strings.TrimSuffix(blanks, ", ") + " = " + strings.Join(names, ", ")
			s0, s1 := off(c.stmt.Pos()), off(c.stmt.End())
			text += strings.Repeat("\n", strings.Count(string(src[s0:s1]), "\n"))
			edits = append(edits, srcEdit{s0, s1, text})
			for _, se := range c.selects {
				idx := info.Selections[se].Index()[0]
				edits = append(edits, srcEdit{off(se.Pos()), off(se.End()), name(idx)})
			}
		}
	}
	return edits
}
