package main

import (
	"fmt"
	"go/token"
	"go/types"
	"sort"
	"strings"

	"golang.org/x/tools/go/ssa"
)

// H-alias: may-alias roots of byte-slice values, with a small explicit model of
// the standard-library calls the decoder uses. Unknown producers fail closed.

type rootSet map[string]bool

func (r rootSet) add(o rootSet) {
	for k := range o {
		r[k] = true
	}
}

func (r rootSet) list() []string {
	var out []string
	for k := range r {
		out = append(out, k)
	}
	sort.Strings(out)
	return out
}

type aliasAn struct {
	w     *World
	memo  map[ssa.Value]rootSet
	stack map[ssa.Value]bool
	// summaries of in-package functions: roots of result i, with "param:N" placeholders
	sum map[string]rootSet
}

func newAliasAn(w *World) *aliasAn {
	return &aliasAn{w: w, memo: map[ssa.Value]rootSet{}, stack: map[ssa.Value]bool{}, sum: map[string]rootSet{}}
}

func paramIndex(p *ssa.Parameter) int {
	for i, q := range p.Parent().Params {
		if q == p {
			return i
		}
	}
	return -1
}

// roots of a []byte / string-free value.
func (an *aliasAn) roots(v ssa.Value) rootSet {
	if r, ok := an.memo[v]; ok {
		return r
	}
	if an.stack[v] {
		return rootSet{}
	}
	an.stack[v] = true
	r := an.roots1(v)
	delete(an.stack, v)
	an.memo[v] = r
	return r
}

func isStringType(t types.Type) bool {
	b, ok := t.Underlying().(*types.Basic)
	return ok && b.Info()&types.IsString != 0
}

func (an *aliasAn) roots1(v ssa.Value) rootSet {
	switch x := v.(type) {
	case *ssa.Const:
		return rootSet{"fresh": true}
	case *ssa.Parameter:
		return rootSet{fmt.Sprintf("param:%d", paramIndex(x)): true}
	case *ssa.Alloc:
		return rootSet{"fresh": true}
	case *ssa.MakeSlice:
		return rootSet{"fresh": true}
	case *ssa.Slice:
		return an.roots(x.X)
	case *ssa.ChangeType:
		return an.roots(x.X)
	case *ssa.Convert:
		if isStringType(x.X.Type()) || isStringType(x.Type()) {
			return rootSet{"fresh": true} // string <-> []byte conversions copy
		}
		return an.roots(x.X)
	case *ssa.Phi:
		out := rootSet{}
		for _, e := range x.Edges {
			out.add(an.roots(e))
		}
		return out
	case *ssa.UnOp:
		if x.Op == token.MUL {
			if g, ok := x.X.(*ssa.Global); ok {
				return rootSet{"global:" + g.Name(): true}
			}
			if fv := forwardLoad(x); fv != nil {
				return an.roots(fv)
			}
			// load from a local variable: union of everything stored into it (field-insensitive for struct locals: whole
			// stores and the stores into any of its fields)
			al, isAl := x.X.(*ssa.Alloc)
			if fa, isFA := x.X.(*ssa.FieldAddr); isFA && !isAl {
				al, isAl = fa.X.(*ssa.Alloc)
			}
			if isAl {
				out := rootSet{}
				n := 0
				for _, ref := range *al.Referrers() {
					switch y := ref.(type) {
					case *ssa.Store:
						if y.Addr == ssa.Value(al) {
							out.add(an.roots(y.Val))
							n++
						}
					case *ssa.FieldAddr:
						for _, rr := range *y.Referrers() {
							if st, ok := rr.(*ssa.Store); ok && st.Addr == ssa.Value(y) && hasRefs(st.Val.Type()) {
								out.add(an.roots(st.Val))
								n++
							}
						}
					}
				}
				if n > 0 {
					return out
				}
			}
			return rootSet{"unknown:load(" + describe(x.X) + ")": true}
		}
	case *ssa.Field:
		return an.roots(x.X) // a field of a struct value: whatever the struct may hold
	case *ssa.Extract:
		if c, ok := x.Tuple.(*ssa.Call); ok {
			return an.callRoots(c, x.Index)
		}
	case *ssa.Call:
		return an.callRoots(x, 0)
	}
	return rootSet{"unknown:" + describe(v): true}
}

// bufferRoots: roots of the storage a *bytes.Buffer may hand out via Bytes().
func (an *aliasAn) bufferRoots(v ssa.Value) rootSet {
	v = strip(v)
	switch x := v.(type) {
	case *ssa.Alloc:
		return rootSet{"fresh": true}
	case *ssa.Phi:
		out := rootSet{}
		for _, e := range x.Edges {
			out.add(an.bufferRoots(e))
		}
		return out
	case *ssa.UnOp:
		if x.Op == token.MUL {
			if fv := forwardLoad(x); fv != nil {
				return an.bufferRoots(fv)
			}
		}
	case *ssa.Parameter:
		return rootSet{fmt.Sprintf("bufparam:%d", paramIndex(x)): true}
	case *ssa.Call:
		c := x.Common()
		if f := c.StaticCallee(); f != nil {
			switch f.String() {
			case "bytes.NewBuffer":
				return an.roots(c.Args[0])
			case "bytes.NewBufferString":
				return rootSet{"fresh": true}
			}
			if f.Pkg == an.w.Repl || f.Pkg == an.w.Root {
				// summary: union over the callee's returns
				out := rootSet{}
				for _, ret := range returnsOf(f) {
					for _, res := range ret.Results {
						if typeIs(res.Type(), "bytes", "Buffer") {
							sub := an.bufferRoots(res)
							out.add(an.substitute(sub, c))
						}
					}
				}
				return out
			}
		}
	}
	return rootSet{"unknown:buffer(" + describe(v) + ")": true}
}

// substitute maps "param:N" roots of a callee summary to the roots of the call's arguments.
func (an *aliasAn) substitute(sub rootSet, c *ssa.CallCommon) rootSet {
	out := rootSet{}
	for k := range sub {
		var idx int
		if _, err := fmt.Sscanf(k, "param:%d", &idx); err == nil && idx < len(c.Args) {
			out.add(an.roots(c.Args[idx]))
			continue
		}
		if _, err := fmt.Sscanf(k, "bufparam:%d", &idx); err == nil && idx < len(c.Args) {
			out.add(an.bufferRoots(c.Args[idx]))
			continue
		}
		out[k] = true
	}
	return out
}

func (an *aliasAn) callRoots(x *ssa.Call, resIdx int) rootSet {
	c := x.Common()
	if b, ok := c.Value.(*ssa.Builtin); ok {
		switch b.Name() {
		case "append":
			out := rootSet{"fresh": true}
			out.add(an.roots(c.Args[0]))
			return out
		}
		return rootSet{"unknown:builtin " + b.Name(): true}
	}
	f := c.StaticCallee()
	if f == nil {
		return rootSet{"unknown:dynamic call": true}
	}
	name := f.String()
	switch {
	case strings.HasPrefix(name, "strconv.Append"):
		out := rootSet{"fresh": true}
		out.add(an.roots(c.Args[0]))
		return out
	case name == "(*bytes.Buffer).Bytes":
		return an.bufferRoots(c.Args[0])
	case name == "bytes.TrimRight" || name == "bytes.TrimSpace" || name == "bytes.Trim" || name == "bytes.TrimLeft":
		return an.roots(c.Args[0])
	case name == "encoding/hex.DecodeString" || name == "bytes.Join" || name == "bytes.Repeat":
		return rootSet{"fresh": true}
	}
	if f.Pkg == an.w.Repl || f.Pkg == an.w.Root {
		out := rootSet{}
		for _, ret := range returnsOf(f) {
			if resIdx < len(ret.Results) {
				out.add(an.substitute(an.roots(ret.Results[resIdx]), c))
			}
		}
		return out
	}
	return rootSet{"unknown:call " + shortCallee(c): true}
}

// ---- write-through analysis (immutability of receiver storage) ---------------------

type writeFact struct {
	In   ssa.Instruction
	What string
	Hard bool // false: append onto receiver-derived slice (recorded, not a violation)
}

// hasRefs: a value of type t can reach shared memory (pointer, slice, map, chan, interface, func).
func hasRefs(t types.Type) bool {
	switch u := t.Underlying().(type) {
	case *types.Pointer, *types.Slice, *types.Map, *types.Chan, *types.Interface, *types.Signature:
		return true
	case *types.Struct:
		for i := 0; i < u.NumFields(); i++ {
			if hasRefs(u.Field(i).Type()) {
				return true
			}
		}
	case *types.Array:
		return hasRefs(u.Elem())
	case *types.Tuple:
		for i := 0; i < u.Len(); i++ {
			if hasRefs(u.At(i).Type()) {
				return true
			}
		}
	}
	return false
}

var stdWriters = map[string][]int{ // callee -> indices of arguments written through
	"sort.Sort": {0}, "sort.Stable": {0}, "sort.Slice": {0}, "sort.SliceStable": {0}, "sort.Ints": {0}, "sort.Strings": {0},
	"encoding/binary.Read": {2}, "(*bytes.Reader).Read": {1}, "(*bytes.Buffer).Read": {1}, "io.ReadFull": {1},
	"encoding/hex.Decode": {0}, "encoding/hex.Encode": {0},
}

type wtAn struct {
	w    *World
	memo map[string][]writeFact
	busy map[string]bool
}

func newWT(w *World) *wtAn {
	return &wtAn{w: w, memo: map[string][]writeFact{}, busy: map[string]bool{}}
}

// writesThrough lists the instructions of f (and in-package callees) that may
// write memory reachable from parameter idx.
func (an *wtAn) writesThrough(f *ssa.Function, idx int) []writeFact {
	key := fmt.Sprintf("%s#%d", f.String(), idx)
	if r, ok := an.memo[key]; ok {
		return r
	}
	if an.busy[key] || f.Blocks == nil || idx >= len(f.Params) {
		return nil
	}
	an.busy[key] = true
	defer delete(an.busy, key)

	val := map[ssa.Value]bool{f.Params[idx]: true} // values that may reference receiver storage
	addr := map[ssa.Value]bool{}                   // addresses inside receiver storage
	changed := true
	mark := func(m map[ssa.Value]bool, v ssa.Value) {
		if !m[v] {
			m[v] = true
			changed = true
		}
	}
	for changed {
		changed = false
		instrs(f, func(in ssa.Instruction) {
			switch x := in.(type) {
			case *ssa.Lookup:
				if val[x.X] && hasRefs(x.Type()) {
					mark(val, x)
				}
			case *ssa.Range:
				if val[x.X] {
					mark(val, x)
				}
			case *ssa.Next:
				if val[x.Iter] {
					mark(val, x)
				}
			case *ssa.Extract:
				if val[x.Tuple] && hasRefs(x.Type()) {
					mark(val, x)
				}
			case *ssa.Slice:
				if val[x.X] || addr[x.X] {
					mark(val, x)
				}
			case *ssa.IndexAddr:
				if val[x.X] || addr[x.X] {
					mark(addr, x)
				}
			case *ssa.Index:
				if val[x.X] && hasRefs(x.Type()) {
					mark(val, x)
				}
			case *ssa.FieldAddr:
				if addr[x.X] || val[x.X] {
					mark(addr, x)
				}
			case *ssa.Field:
				if val[x.X] && hasRefs(x.Type()) {
					mark(val, x)
				}
			case *ssa.UnOp:
				if x.Op == token.MUL && (addr[x.X] || val[x.X]) && hasRefs(x.Type()) {
					mark(val, x)
				}
			case *ssa.Phi:
				for _, e := range x.Edges {
					if val[e] {
						mark(val, x)
					}
					if addr[e] {
						mark(addr, x)
					}
				}
			case *ssa.ChangeType:
				if val[x.X] {
					mark(val, x)
				}
			case *ssa.Convert:
				if val[x.X] && hasRefs(x.Type()) {
					mark(val, x)
				}
			case *ssa.MakeInterface:
				if val[x.X] {
					mark(val, x)
				}
			case *ssa.ChangeInterface:
				if val[x.X] {
					mark(val, x)
				}
			case *ssa.TypeAssert:
				if val[x.X] && hasRefs(x.Type()) {
					mark(val, x)
				}
			case *ssa.Store:
				// storing a receiver-derived reference into a local makes loads of that local derived
				if val[x.Val] {
					if al, ok := x.Addr.(*ssa.Alloc); ok {
						for _, ref := range *al.Referrers() {
							if ld, ok := ref.(*ssa.UnOp); ok && ld.Op == token.MUL {
								mark(val, ld)
							}
						}
					}
				}
			case *ssa.Call:
				c := x.Common()
				if isBuiltin(c, "append") && len(c.Args) > 0 && val[c.Args[0]] {
					mark(val, x)
				}
				// results of in-package calls given derived arguments may alias them
				if cal := c.StaticCallee(); cal != nil && cal.Pkg == f.Pkg && hasRefs(x.Type()) {
					for _, a := range c.Args {
						if val[a] {
							mark(val, x)
						}
					}
				}
			}
		})
	}
	var out []writeFact
	instrs(f, func(in ssa.Instruction) {
		switch x := in.(type) {
		case *ssa.Store:
			if addr[x.Addr] || val[x.Addr] {
				out = append(out, writeFact{in, "store through " + describe(x.Addr), true})
			}
		case *ssa.MapUpdate:
			if val[x.Map] {
				out = append(out, writeFact{in, "map update on receiver-derived map", true})
			}
		case ssa.CallInstruction:
			c := x.Common()
			if b, ok := c.Value.(*ssa.Builtin); ok {
				switch b.Name() {
				case "copy":
					if val[c.Args[0]] {
						out = append(out, writeFact{in, "copy into receiver-derived slice", true})
					}
				case "delete", "clear":
					if val[c.Args[0]] {
						out = append(out, writeFact{in, b.Name() + " on receiver-derived value", true})
					}
				case "append":
					if val[c.Args[0]] {
						// appending to a receiver-derived slice that was cut shorter than the original
						// (x[:i], x[a:b]) writes inside the original's length: a hard write
						if sl, ok := c.Args[0].(*ssa.Slice); ok && sl.High != nil {
							out = append(out, writeFact{in, "append onto a shortened re-slice of receiver storage overwrites the receiver's elements", true})
						} else {
							out = append(out, writeFact{in, "append onto receiver-derived slice", false})
						}
					}
				}
				return
			}
			cal := c.StaticCallee()
			if cal == nil {
				return
			}
			if idxs, ok := stdWriters[cal.String()]; ok {
				for _, i := range idxs {
					if i < len(c.Args) && (val[c.Args[i]] || addr[c.Args[i]]) {
						out = append(out, writeFact{in, cal.String() + " writes its argument", true})
					}
				}
				return
			}
			if cal.Pkg == f.Pkg || (cal.Parent() != nil && enclosingPkg(cal) == f.Pkg) {
				for i, a := range c.Args {
					if val[a] || addr[a] {
						for _, sub := range an.writesThrough(cal, i) {
							if sub.Hard {
								out = append(out, writeFact{in, "via " + cal.Name() + ": " + sub.What, true})
							}
						}
					}
				}
			}
		}
	})
	an.memo[key] = out
	return out
}

// methodsOf lists the declared methods (either receiver kind) of a named type.
func methodsOf(w *World, pkg *ssa.Package, typeName string) []*ssa.Function {
	var out []*ssa.Function
	for _, f := range w.srcFuncs(pkg) {
		if f.Signature.Recv() != nil && typeIs(f.Signature.Recv().Type(), pkg.Pkg.Path(), typeName) && f.Parent() == nil {
			out = append(out, f)
		}
	}
	return out
}
