package main

import (
	"fmt"
	"go/token"
	"strings"

	"golang.org/x/tools/go/ssa"
)

func init() {
	register("C13", propMeta{
		Explanation: "Decides: (R1) for VARCHAR / VAR_STRING / CHAR (real string) / the blob family / GEOMETRY, under every metadata value of the domain (thorough: all 65536 for the three string types), the " +
			"decoded value is the direct sub-slice data[pos+k : pos+k+LE(k)] of the row image - no transformation - with prefix width k = 2 iff the declared maximum exceeds 255 (for CHAR the maximum decoded " +
			"from the two metadata bytes), k = the metadata for blobs and geometry; the length rule uses the same k (C09-R2); (R2) in the streamer's two column loops an absent column sets IsEmpty and stores " +
			"no data, a NULL column leaves IsEmpty false and has nil data, a present value stores exactly result 0 of CellBytes, each path appends the column exactly once, and IsEmpty is set nowhere else; " +
			"(R3) the JSON form keeps the distinction (C20-R4). Not decided: byte equality with the master for arbitrary content (follows from R1 given a well-formed image).",
		Rule:        "instances = (type, metadata) specialisations of the string-like types; path classes of the two streamer loops",
		Trusted:     append([]string{"H-sccp / H-term"}, commonTrusted...),
		Assumptions: []string{"a sub-slice of a non-nil image is non-nil even when empty"},
	}, runC13)

	addVariants(
		Variant{ID: "c13-r1-string-boundary", Prop: "C13", File: "replication/binlog_event_rbr.go",
			Old:    "\t\t// This is a real string. The length is weird.\n\t\tmax := int((((metadata >> 4) & 0x300) ^ 0x300) + (metadata & 0xff))\n\t\t// Length is encoded in 1 or 2 bytes.\n\t\tif max > 255 {\n\t\t\tl := int(uint64(data[pos]) |\n\t\t\t\tuint64(data[pos+1])<<8)\n\t\t\treturn data[pos+2 : pos+2+l], l + 2, nil",
			New:    "\t\t// This is a real string. The length is weird.\n\t\tmax := int((((metadata >> 4) & 0x300) ^ 0x300) + (metadata & 0xff))\n\t\t// Length is encoded in 1 or 2 bytes.\n\t\tif max > 255 {\n\t\t\tl := int(uint64(data[pos]) |\n\t\t\t\tuint64(data[pos+1])<<8)\n\t\t\treturn data[pos+2 : pos+1+l], l + 2, nil",
			Expect: "C13-R1 verbatim@TypeString"},
		Variant{ID: "c13-r1-trim-trailing", Prop: "C13", File: "replication/binlog_event_rbr.go",
			Old: "\t\tl := int(data[pos])\n\t\treturn data[pos+1 : pos+1+l], l + 1, nil\n\n\tcase TypeBit:", New: "\t\tl := int(data[pos])\n\t\treturn bytes.TrimRight(data[pos+1:pos+1+l], \" \"), l + 1, nil\n\n\tcase TypeBit:",
			Expect: "C13-R1 verbatim@TypeVarchar"},
		Variant{ID: "c13-r1-blob3-width", Prop: "C13", File: "replication/binlog_event_rbr.go",
			Old:    "\t\tcase 3:\n\t\t\tl = int(uint32(data[pos]) |\n\t\t\t\tuint32(data[pos+1])<<8 |\n\t\t\t\tuint32(data[pos+2])<<16)\n\t\tcase 4:\n\t\t\tl = int(uint32(data[pos]) |\n\t\t\t\tuint32(data[pos+1])<<8 |\n\t\t\t\tuint32(data[pos+2])<<16 |\n\t\t\t\tuint32(data[pos+3])<<24)\n\t\tdefault:\n\t\t\treturn nil, 0, fmt.Errorf(\"unsupported blob metadata",
			New:    "\t\tcase 3:\n\t\t\tl = int(uint32(data[pos]) |\n\t\t\t\tuint32(data[pos+1])<<8 |\n\t\t\t\tuint32(data[pos+2])<<24)\n\t\tcase 4:\n\t\t\tl = int(uint32(data[pos]) |\n\t\t\t\tuint32(data[pos+1])<<8 |\n\t\t\t\tuint32(data[pos+2])<<16 |\n\t\t\t\tuint32(data[pos+3])<<24)\n\t\tdefault:\n\t\t\treturn nil, 0, fmt.Errorf(\"unsupported blob metadata",
			Expect: "C13-R1 verbatim@Type"},
		Variant{ID: "c13-r2-null-as-empty", Prop: "C13", File: "streamer.go",
			Old: "\t\tif rs.Rows[rowIndex].NullColumns.Bit(valueIndex) {\n\t\t\tcolumn.Data = nil\n", New: "\t\tif rs.Rows[rowIndex].NullColumns.Bit(valueIndex) {\n\t\t\tcolumn.Data = []byte{}\n",
			Expect: "C13-R2 three-way@getValuesFromRow[null]"},
		Variant{ID: "c13-r2-absent-not-flagged", Prop: "C13", File: "streamer.go",
			Old: "\t\tif !rs.IdentifyColumns.Bit(c) {\n\t\t\tcolumn.IsEmpty = true\n", New: "\t\tif !rs.IdentifyColumns.Bit(c) {\n\t\t\tcolumn.IsEmpty = c < 0\n",
			Expect: "C13-R2 three-way@getIdentifiesFromRow[absent]"},
		Variant{ID: "c13-r2-absent-dropped", Prop: "C13", File: "streamer.go",
			Old: "\t\tif !rs.DataColumns.Bit(c) {\n\t\t\tcolumn.IsEmpty = true\n\t\t\tvalues.Columns = append(values.Columns, column)\n\t\t\tcontinue", New: "\t\tif !rs.DataColumns.Bit(c) {\n\t\t\tcolumn.IsEmpty = true\n\t\t\tcontinue",
			Expect: "C13-R2 three-way@getValuesFromRow[absent]"},
		Variant{ID: "c13-r1-prefix-narrow-shift", Prop: "C13", File: "replication/binlog_event_rbr.go",
			Old:    "\t\tcase 3:\n\t\t\tl = int(uint32(data[pos]) |\n\t\t\t\tuint32(data[pos+1])<<8 |\n\t\t\t\tuint32(data[pos+2])<<16)\n\t\tcase 4:\n\t\t\tl = int(uint32(data[pos]) |\n\t\t\t\tuint32(data[pos+1])<<8 |\n\t\t\t\tuint32(data[pos+2])<<16 |\n\t\t\t\tuint32(data[pos+3])<<24)\n\t\tdefault:\n\t\t\treturn nil, 0, fmt.Errorf(\"unsupported blob metadata value",
			New:    "\t\tcase 3:\n\t\t\tl = int(uint32(data[pos]) |\n\t\t\t\tuint32(data[pos+1])<<8 |\n\t\t\t\tuint32(uint16(data[pos+2])<<16))\n\t\tcase 4:\n\t\t\tl = int(uint32(data[pos]) |\n\t\t\t\tuint32(data[pos+1])<<8 |\n\t\t\t\tuint32(data[pos+2])<<16 |\n\t\t\t\tuint32(data[pos+3])<<24)\n\t\tdefault:\n\t\t\treturn nil, 0, fmt.Errorf(\"unsupported blob metadata value",
			Expect: "C13-R1 verbatim@"},
	)
}

func runC13(a *A) {
	cd := resolveCodec(a, "C13-R0")
	if cd == nil {
		return
	}
	c13R1(a, cd)
	c13R2(a, cd)
}

// expected prefix width for a (type name, metadata)
func prefixWidth(name string, md int64) int64 {
	switch name {
	case "TypeVarchar", "TypeVarString":
		if md > 255 {
			return 2
		}
		return 1
	case "TypeString":
		max := (((md >> 4) & 0x300) ^ 0x300) + (md & 0xff)
		if max > 255 {
			return 2
		}
		return 1
	}
	return md // blobs, geometry
}

func c13R1(a *A, cd *codec) {
	const rule = "C13-R1"
	w := a.W
	strTypes := map[string]bool{"TypeVarchar": true, "TypeVarString": true, "TypeString": true, "TypeTinyBlob": true, "TypeMediumBlob": true, "TypeLongBlob": true, "TypeBlob": true, "TypeGeometry": true}
	per := map[string][2]int{}
	n := 0
	for _, s := range cd.domain(a.Tier) {
		name := cd.typeName[s.Typ]
		if !strTypes[name] || s.Md < 0 {
			continue
		}
		if name == "TypeString" && (s.Md>>8 == 247 || s.Md>>8 == 248) {
			continue // ENUM / SET real types
		}
		n++
		k := prefixWidth(name, s.Md)
		lenAtom := "data[pos]"
		if k > 1 {
			lenAtom = fmt.Sprintf("LE(%d,data[pos])", k)
		}
		lo := affAtom("pos").add(affConst(k), 1)
		hi := lo.add(affAtom(lenAtom), 1)
		want := "data[" + lo.String() + ":" + hi.String() + "]"
		rv := cd.specVal(s)
		a.Evals++
		rets := successReturns(rv, 2)
		c := per[name]
		c[0]++
		if len(rets) == 1 && valueTerm(cd, rv, rets[0].Results[0]) == want {
			c[1]++
		} else {
			got := "no success return"
			pos := w.pos(cd.valFn.Pos())
			if len(rets) > 0 {
				got = valueTerm(cd, rv, rets[0].Results[0])
				pos = w.posOf(rets[0])
			}
			a.viol(rule, fmt.Sprintf("verbatim@%s[md=%d]", name, s.Md), pos, "the value is %s; the logged bytes are %s (a %d-byte length prefix, then exactly that many bytes, untransformed)", got, want, k)
		}
		per[name] = c
	}
	for name, c := range per {
		if c[0] == c[1] {
			a.hold(rule, "verbatim@"+name, w.pos(cd.valFn.Pos()), "direct sub-slice after the right prefix width for all %d metadata values", c[0])
		}
	}
	a.atLeast(rule, "verbatim@", 6)
	if a.Tier == "thorough" {
		a.exhaustive = true
	}
	a.Extra["string_specialisations"] = n
	a.Extra["distinct_cases"] = n
}

func c13R2(a *A, cd *codec) {
	const rule = "C13-R2"
	w := a.W
	loops := allRowLoops(a, cd)
	for _, fn := range []string{"getValuesFromRow", "getIdentifiesFromRow"} {
		ls := loops[fn]
		if len(ls) != 1 {
			a.undecided(rule, "three-way@"+fn, "-", "expected one column loop, found %d", len(ls))
			continue
		}
		rl := ls[0]
		if !rl.analyse() {
			a.undecided(rule, "three-way@"+fn, w.posOf(rl.Len), "loop shape not recognised")
			continue
		}
		// the column object of the iteration
		co := rl.columnObject()
		if !a.need(co != nil, rule, "ColumnData of the iteration (constructor call or composite literal) in "+fn) {
			continue
		}
		col := co.Val
		isEmptyArg := false
		if co.IsEmptyV != nil {
			b, isC := constBool(co.IsEmptyV)
			isEmptyArg = !isC || b
		}
		a.check(!isEmptyArg, rule, "three-way@"+fn+"[init]", w.posOf(co.Pos), "columns start as not-absent", "columns are created with IsEmpty=true")
		var valRes ssa.Value
		for _, ref := range *rl.Len.Referrers() {
			if ex, ok := ref.(*ssa.Extract); ok && ex.Index == 0 {
				valRes = ex
			}
		}
		for _, cls := range []string{"absent", "null", "value"} {
			var emptyStores, dataStores []*ssa.Store
			appends := 0
			// the class's own blocks plus the blocks every iteration passes (before the tests, after the paths merge)
			for _, b := range append(rl.blocksOfClass(cls), rl.commonBlocks()...) {
				// blocks of later classes are nested in "present": restrict "null"/"value" to their own blocks
				for _, in := range b.Instrs {
					switch x := in.(type) {
					case *ssa.Store:
						if fa, ok := x.Addr.(*ssa.FieldAddr); ok && fa.X == col {
							switch fieldName(fa) {
							case "IsEmpty":
								emptyStores = append(emptyStores, x)
							case "Data":
								dataStores = append(dataStores, x)
							}
						}
						// the column stored into the variadic array of an append
						if x.Val == col {
							if ia, ok := x.Addr.(*ssa.IndexAddr); ok {
								if _, ok := ia.X.(*ssa.Alloc); ok {
									appends++
								}
							}
						}
					}
				}
			}
			key := "three-way@" + fn + "[" + cls + "]"
			pos := w.posOf(rl.Len)
			if bs := rl.blocksOfClass(cls); len(bs) > 0 {
				pos = w.posOf(bs[0].Instrs[0])
			}
			switch cls {
			case "absent":
				okE := len(emptyStores) == 1
				if okE {
					b, isC := constBool(emptyStores[0].Val)
					okE = isC && b
				}
				a.check(okE && len(dataStores) == 0 && appends == 1, rule, key, pos, "flagged absent, no data, appended once",
					fmt.Sprintf("an absent column is not delivered as {IsEmpty:true, no data} exactly once (IsEmpty stores=%d, data stores=%d, appends=%d)", len(emptyStores), len(dataStores), appends))
			case "null":
				okD := true
				for _, s := range dataStores {
					if !isNilConst(s.Val) {
						okD = false
					}
				}
				a.check(len(emptyStores) == 0 && okD && appends == 1, rule, key, pos, "not flagged absent, nil data, appended once",
					fmt.Sprintf("a NULL column is not delivered as {IsEmpty:false, Data:nil} exactly once (IsEmpty stores=%d, non-nil data=%v, appends=%d): NULL becomes indistinguishable from empty or absent", len(emptyStores), !okD, appends))
			case "value":
				okD := len(dataStores) == 1 && dataStores[0].Val == valRes
				a.check(len(emptyStores) == 0 && okD && appends == 1, rule, key, pos, "data = result 0 of CellBytes, appended once",
					fmt.Sprintf("a present value is not delivered as exactly the decoder's result (IsEmpty stores=%d, data ok=%v, appends=%d)", len(emptyStores), okD, appends))
			}
		}
	}
	// IsEmpty is stored true nowhere else in the package
	loopFns := map[*ssa.Function]bool{}
	for _, ls := range loops {
		for _, rl := range ls {
			loopFns[rl.Fn] = true
		}
	}
	n := 0
	for _, f := range w.srcFuncs(w.Root) {
		instrs(f, func(in ssa.Instruction) {
			st, ok := in.(*ssa.Store)
			if !ok {
				return
			}
			fa, ok := st.Addr.(*ssa.FieldAddr)
			if !ok || fieldName(fa) != "IsEmpty" || !typeIs(fa.X.Type(), rootPath, "ColumnData") {
				return
			}
			n++
			where := roleName(f)
			ok = where == "getValuesFromRow" || where == "getIdentifiesFromRow" || where == "newColumnData" || loopFns[f]
			a.check(ok, rule, fmt.Sprintf("isempty-store@%s#%d", where, n), w.posOf(st), "absent flag written by the column loops / constructor", "the absent flag is written elsewhere")
		})
	}
	_ = token.ADD
	_ = strings.Join
}
