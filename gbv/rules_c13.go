package main

import (
	"fmt"
	"go/token"
	"strings"

	"golang.org/x/tools/go/ssa"
)

func init() {
	register("C13", propMeta{
		Explanation: "Decides: (R1) for VARCHAR / VAR_STRING / CHAR (real string) / the blob family / GEOMETRY, under every metadata value of the domain (thorough: all 65536 for the three string types), the " +
			"decoded value is the direct sub-slice data[pos+k : pos+k+LE(k)] of the row image - no transformation - with prefix width k = 2 iff the declared maximum exceeds 255 (for CHAR the maximum decoded " +
			"from the two metadata bytes), k = the metadata for blobs and geometry; the length rule uses the same k (C09-R2); (R2) in the streamer's two column loops an absent column sets IsEmpty and stores " +
			"no data, a NULL column leaves IsEmpty false and has nil data, a present value stores exactly result 0 of CellBytes, each path appends the column exactly once, and IsEmpty is set nowhere else; " +
			"(R3) the JSON form keeps the distinction (C20-R4). Not decided: byte equality with the master for arbitrary content (follows from R1 given a well-formed image).",
		Rule:        "instances = (type, metadata) specialisations of the string-like types; path classes of the two streamer loops",
		Trusted:     append([]string{"H-sccp / H-term"}, commonTrusted...),
		Assumptions: []string{"a sub-slice of a non-nil image is non-nil even when empty"},
	}, runC13)

	addVariants(
		Variant{ID: "c13-r3-rejects-empty-at-end", Prop: "C13", File: "replication/binlog_event_rbr.go",
			Old:    "\t\tif metadata > 255 {\n\t\t\tl := int(uint64(data[pos]) |\n\t\t\t\tuint64(data[pos+1])<<8)\n\t\t\treturn data[pos+2 : pos+2+l], l + 2, nil",
			New:    "\t\tif metadata > 255 {\n\t\t\tif pos+2 >= len(data) {\n\t\t\t\treturn nil, 0, fmt.Errorf(\"truncated\")\n\t\t\t}\n\t\t\tl := int(uint64(data[pos]) |\n\t\t\t\tuint64(data[pos+1])<<8)\n\t\t\treturn data[pos+2 : pos+2+l], l + 2, nil",
			Expect: "C13-R3 accepts@TypeVar"},
		Variant{ID: "c13-r3-rejects-content", Prop: "C13", File: "replication/binlog_event_rbr.go",
			Old: "\t\tl := int(data[pos])\n\t\treturn data[pos+1 : pos+1+l], l + 1, nil\n\n\tcase TypeBit:", New: "\t\tl := int(data[pos])\n\t\tif l > 0 && data[pos+1] == 0 {\n\t\t\treturn nil, 0, fmt.Errorf(\"NUL in text\")\n\t\t}\n\t\treturn data[pos+1 : pos+1+l], l + 1, nil\n\n\tcase TypeBit:",
			Expect: "C13-R3 accepts@TypeVar"},
		Variant{ID: "c13-r2-stop-after-last-logged-column", Prop: "C13", File: "streamer.go",
			Old: "\tfor c := 0; c < rs.DataColumns.Count(); c++ {", New: "\tfor c := 0; c < rs.DataColumns.Count() && valueIndex < rs.DataColumns.BitCount(); c++ {",
			Expect: "C13-R2 full-scan@getValuesFromRow"},
		Variant{ID: "c13-r1-string-boundary", Prop: "C13", File: "replication/binlog_event_rbr.go",
			Old:    "\t\t// This is a real string. The length is weird.\n\t\tmax := int((((metadata >> 4) & 0x300) ^ 0x300) + (metadata & 0xff))\n\t\t// Length is encoded in 1 or 2 bytes.\n\t\tif max > 255 {\n\t\t\tl := int(uint64(data[pos]) |\n\t\t\t\tuint64(data[pos+1])<<8)\n\t\t\treturn data[pos+2 : pos+2+l], l + 2, nil",
			New:    "\t\t// This is a real string. The length is weird.\n\t\tmax := int((((metadata >> 4) & 0x300) ^ 0x300) + (metadata & 0xff))\n\t\t// Length is encoded in 1 or 2 bytes.\n\t\tif max > 255 {\n\t\t\tl := int(uint64(data[pos]) |\n\t\t\t\tuint64(data[pos+1])<<8)\n\t\t\treturn data[pos+2 : pos+1+l], l + 2, nil",
			Expect: "C13-R1 verbatim@TypeString"},
		Variant{ID: "c13-r1-trim-trailing", Prop: "C13", File: "replication/binlog_event_rbr.go",
			Old: "\t\tl := int(data[pos])\n\t\treturn data[pos+1 : pos+1+l], l + 1, nil\n\n\tcase TypeBit:", New: "\t\tl := int(data[pos])\n\t\treturn bytes.TrimRight(data[pos+1:pos+1+l], \" \"), l + 1, nil\n\n\tcase TypeBit:",
			Expect: "C13-R1 verbatim@TypeVarchar"},
		Variant{ID: "c13-r1-blob3-width", Prop: "C13", File: "replication/binlog_event_rbr.go",
			Old:    "\t\tcase 3:\n\t\t\tl = int(uint32(data[pos]) |\n\t\t\t\tuint32(data[pos+1])<<8 |\n\t\t\t\tuint32(data[pos+2])<<16)\n\t\tcase 4:\n\t\t\tl = int(uint32(data[pos]) |\n\t\t\t\tuint32(data[pos+1])<<8 |\n\t\t\t\tuint32(data[pos+2])<<16 |\n\t\t\t\tuint32(data[pos+3])<<24)\n\t\tdefault:\n\t\t\treturn nil, 0, fmt.Errorf(\"unsupported blob metadata",
			New:    "\t\tcase 3:\n\t\t\tl = int(uint32(data[pos]) |\n\t\t\t\tuint32(data[pos+1])<<8 |\n\t\t\t\tuint32(data[pos+2])<<24)\n\t\tcase 4:\n\t\t\tl = int(uint32(data[pos]) |\n\t\t\t\tuint32(data[pos+1])<<8 |\n\t\t\t\tuint32(data[pos+2])<<16 |\n\t\t\t\tuint32(data[pos+3])<<24)\n\t\tdefault:\n\t\t\treturn nil, 0, fmt.Errorf(\"unsupported blob metadata",
			Expect: "C13-R1 verbatim@Type"},
		Variant{ID: "c13-r2-null-as-empty", Prop: "C13", File: "streamer.go",
			Old: "\t\tif rs.Rows[rowIndex].NullColumns.Bit(valueIndex) {\n\t\t\tcolumn.Data = nil\n", New: "\t\tif rs.Rows[rowIndex].NullColumns.Bit(valueIndex) {\n\t\t\tcolumn.Data = []byte{}\n",
			Expect: "C13-R2 three-way@getValuesFromRow[null]"},
		Variant{ID: "c13-r2-absent-not-flagged", Prop: "C13", File: "streamer.go",
			Old: "\t\tif !rs.IdentifyColumns.Bit(c) {\n\t\t\tcolumn.IsEmpty = true\n", New: "\t\tif !rs.IdentifyColumns.Bit(c) {\n\t\t\tcolumn.IsEmpty = c < 0\n",
			Expect: "C13-R2 three-way@getIdentifiesFromRow[absent]"},
		Variant{ID: "c13-r2-absent-dropped", Prop: "C13", File: "streamer.go",
			Old: "\t\tif !rs.DataColumns.Bit(c) {\n\t\t\tcolumn.IsEmpty = true\n\t\t\tvalues.Columns = append(values.Columns, column)\n\t\t\tcontinue", New: "\t\tif !rs.DataColumns.Bit(c) {\n\t\t\tcolumn.IsEmpty = true\n\t\t\tcontinue",
			Expect: "C13-R2 three-way@getValuesFromRow[absent]"},
		Variant{ID: "c13-r1-prefix-narrow-shift", Prop: "C13", File: "replication/binlog_event_rbr.go",
			Old:    "\t\tcase 3:\n\t\t\tl = int(uint32(data[pos]) |\n\t\t\t\tuint32(data[pos+1])<<8 |\n\t\t\t\tuint32(data[pos+2])<<16)\n\t\tcase 4:\n\t\t\tl = int(uint32(data[pos]) |\n\t\t\t\tuint32(data[pos+1])<<8 |\n\t\t\t\tuint32(data[pos+2])<<16 |\n\t\t\t\tuint32(data[pos+3])<<24)\n\t\tdefault:\n\t\t\treturn nil, 0, fmt.Errorf(\"unsupported blob metadata value",
			New:    "\t\tcase 3:\n\t\t\tl = int(uint32(data[pos]) |\n\t\t\t\tuint32(data[pos+1])<<8 |\n\t\t\t\tuint32(uint16(data[pos+2])<<16))\n\t\tcase 4:\n\t\t\tl = int(uint32(data[pos]) |\n\t\t\t\tuint32(data[pos+1])<<8 |\n\t\t\t\tuint32(data[pos+2])<<16 |\n\t\t\t\tuint32(data[pos+3])<<24)\n\t\tdefault:\n\t\t\treturn nil, 0, fmt.Errorf(\"unsupported blob metadata value",
			Expect: "C13-R1 verbatim@"},
	)
}

func runC13(a *A) {
	cd := resolveCodec(a, "C13-R0")
	if cd == nil {
		return
	}
	c13R1(a, cd)
	c13R2(a, cd)
}

// expected prefix width for a (type name, metadata)
func prefixWidth(name string, md int64) int64 {
	switch name {
	case "TypeVarchar", "TypeVarString":
		if md > 255 {
			return 2
		}
		return 1
	case "TypeString":
		max := (((md >> 4) & 0x300) ^ 0x300) + (md & 0xff)
		if max > 255 {
			return 2
		}
		return 1
	}
	return md // blobs, geometry
}

func c13R1(a *A, cd *codec) {
	const rule = "C13-R1"
	w := a.W
	strTypes := map[string]bool{"TypeVarchar": true, "TypeVarString": true, "TypeString": true, "TypeTinyBlob": true, "TypeMediumBlob": true, "TypeLongBlob": true, "TypeBlob": true, "TypeGeometry": true}
	per := map[string][2]int{}
	rej := map[string][2]int{}
	n := 0
	for _, s := range cd.domain(a.Tier) {
		name := cd.typeName[s.Typ]
		if !strTypes[name] || s.Md < 0 {
			continue
		}
		if name == "TypeString" && (s.Md>>8 == 247 || s.Md>>8 == 248) {
			continue // ENUM / SET real types
		}
		n++
		k := prefixWidth(name, s.Md)
		lenAtom := "data[pos]"
		if k > 1 {
			lenAtom = fmt.Sprintf("LE(%d,data[pos])", k)
		}
		lo := affAtom("pos").add(affConst(k), 1)
		hi := lo.add(affAtom(lenAtom), 1)
		want := "data[" + lo.String() + ":" + hi.String() + "]"
		rv := cd.specVal(s)
		a.Evals++
		rets := successReturns(rv, 2)
		c := per[name]
		c[0]++
		if len(rets) == 1 && valueTerm(cd, rv, rets[0].Results[0]) == want {
			c[1]++
		} else {
			got := "no success return"
			pos := w.pos(cd.valFn.Pos())
			if len(rets) > 0 {
				got = valueTerm(cd, rv, rets[0].Results[0])
				pos = w.posOf(rets[0])
			}
			a.viol(rule, fmt.Sprintf("verbatim@%s[md=%d]", name, s.Md), pos, "the value is %s; the logged bytes are %s (a %d-byte length prefix, then exactly that many bytes, untransformed)", got, want, k)
		}
		per[name] = c
		// R3: a string cell that fits the buffer is never rejected, whatever its content
		if len(rets) == 1 {
			c13R3(a, cd, rv, rets[0], name, s.Md, rej)
		}
	}
	for name, c := range rej {
		if c[1] == 0 {
			a.hold("C13-R3", "accepts@"+name, w.pos(cd.valFn.Pos()), "no failing exit, or failing exits only when the cell does not fit the buffer, for all %d metadata values", c[0])
		}
	}
	for name, c := range per {
		if c[0] == c[1] {
			a.hold(rule, "verbatim@"+name, w.pos(cd.valFn.Pos()), "direct sub-slice after the right prefix width for all %d metadata values", c[0])
		}
	}
	a.atLeast(rule, "verbatim@", 6)
	if a.Tier == "thorough" {
		a.exhaustive = true
	}
	a.Extra["string_specialisations"] = n
	a.Extra["distinct_cases"] = n
}

// c13R3: under one (type, metadata) specialisation every reachable failing exit of the decoder must be justified by a
// dominating condition that implies "the cell (prefix + announced length) does not fit the buffer": with E <= 0 the
// rejecting condition and C the length the success exit consumes, E - (len(data) - pos - C + 1) must be non-negative
// for all byte contents. Anything else rejects (a prefix of) well-formed input - e.g. an empty value at the end of the
// row image - and the row conversion aborts.
func c13R3(a *A, cd *codec, rv *Result, okRet *ssa.Return, name string, md int64, rej map[string][2]int) {
	const rule = "C13-R3"
	w := a.W
	t := newTB(rv)
	t.names[cd.valFn.Params[0]] = "data"
	t.names[cd.valFn.Params[1]] = "pos"
	consumed := t.term(okRet.Results[1])
	c := rej[name]
	c[0]++
	defer func() { rej[name] = c }()
	if !consumed.ok {
		return // R1 / C09 report a length that is not a term
	}
	fit := affAtom("len(data)").add(affAtom("pos"), -1).add(consumed, -1).add(affConst(1), 1)
	nonNeg := func(d aff) bool {
		if !d.ok || d.c < 0 {
			return false
		}
		for s, k := range d.syms {
			if k < 0 || !(strings.HasPrefix(s, "data[") || strings.HasPrefix(s, "LE(") || strings.HasPrefix(s, "BE(")) {
				return false
			}
		}
		return true
	}
	for _, ret := range rv.Returns {
		if len(ret.Results) < 3 || rv.isNil(ret.Results[2]) {
			continue
		}
		justified := false
		var seen []string
		for _, ce := range dominatingConds(ret.Block()) {
			if l := rv.get(ce.Cond); l.k == cst {
				continue
			}
			bo, ok := ce.Cond.(*ssa.BinOp)
			if !ok {
				seen = append(seen, condTerm(t, ce.Cond))
				continue
			}
			e, ok := t.leqZeroAff(bo, !ce.Val)
			if !ok {
				seen = append(seen, condTerm(t, ce.Cond))
				continue
			}
			seen = append(seen, e.String()+" <= 0")
			if nonNeg(e.add(fit, -1)) {
				justified = true
			}
		}
		if !justified {
			c[1]++
			a.viol(rule, fmt.Sprintf("accepts@%s[md=%d]", name, md), w.posOf(ret), "a %s cell can be rejected although it fits the buffer (failing exit under %v; the cell occupies %s bytes from pos): a value the master logged - e.g. an empty one at the end of the row image - aborts the row conversion",
				name, seen, consumed.String())
			return
		}
	}
}

// c13FullScan: the column loop of an image decoder visits every column ordinal. The only way out of the loop towards a
// success return is the failing edge of "ordinal < N" with N the size of the presence bitmap (or a len()); an exit that
// depends on anything else - e.g. "all logged columns seen" - drops the trailing absent columns from the delivered row.
func c13FullScan(a *A, rl *rowLoop, fn string) {
	const rule = "C13-R2"
	w := a.W
	key := "full-scan@" + fn
	inLoop := map[*ssa.BasicBlock]bool{}
	for _, b := range rl.Fn.Blocks {
		if rl.Header.Dominates(b) && (b == rl.Header || reachesAvoiding(b, rl.Header, nil, nil)) {
			inLoop[b] = true
		}
	}
	// can a success return be reached from b without re-entering the loop?
	succReach := func(b *ssa.BasicBlock) bool {
		seen := map[*ssa.BasicBlock]bool{}
		var dfs func(x *ssa.BasicBlock) bool
		dfs = func(x *ssa.BasicBlock) bool {
			if seen[x] || inLoop[x] {
				return false
			}
			seen[x] = true
			if ret, ok := lastInstr(x).(*ssa.Return); ok {
				n := len(ret.Results)
				if n == 0 || !isErrType(ret.Results[n-1].Type()) {
					return true
				}
				ev := resolve(ret.Results[n-1])
				if isNilConst(ev) {
					return true
				}
				if nonNilAt(ev, x) {
					return false
				}
				if c, ok := ev.(*ssa.Call); ok {
					if f := c.Common().StaticCallee(); f != nil && f.Pkg != nil && (f.Pkg.Pkg.Path() == "fmt" && f.Name() == "Errorf" || f.Pkg.Pkg.Path() == "errors" && f.Name() == "New") {
						return false
					}
				}
				return true
			}
			for _, s := range x.Succs {
				if dfs(s) {
					return true
				}
			}
			return false
		}
		return dfs(b)
	}
	nExit, bad := 0, ""
	var badPos ssa.Instruction
	for _, b := range rl.Fn.Blocks {
		if !inLoop[b] {
			continue
		}
		for k, sc := range b.Succs {
			if inLoop[sc] || !succReach(sc) {
				continue
			}
			nExit++
			iff, _ := lastInstr(b).(*ssa.If)
			ok := false
			why := "the exit is not a comparison of the column ordinal"
			if iff != nil {
				cond, val := iff.Cond, k == 0
				for {
					u, isNot := cond.(*ssa.UnOp)
					if !isNot || u.Op != token.NOT {
						break
					}
					cond, val = u.X, !val
				}
				if bo, isB := cond.(*ssa.BinOp); isB {
					x, y, op := bo.X, bo.Y, bo.Op
					if y == ssa.Value(rl.C) { // N > c
						x, y = y, x
						switch op {
						case token.GTR:
							op = token.LSS
						case token.LEQ:
							op = token.GEQ
						default:
							op = token.ILLEGAL
						}
					}
					// leaves when !(c < N), i.e. c >= N
					leaves := (op == token.LSS && !val) || (op == token.GEQ && val)
					if x == ssa.Value(rl.C) && leaves {
						switch n := stripW(y).(type) {
						case *ssa.Call:
							f := n.Common().StaticCallee()
							switch {
							case f != nil && f.Name() == "Count" && f.Signature.Recv() != nil && typeIs(f.Signature.Recv().Type(), replPath, "Bitmap"):
								ok = true
							case isBuiltin(n.Common(), "len"):
								ok = true
							default:
								why = "the bound of the ordinal is " + describe(y) + ", not the size of the presence bitmap or a length"
							}
						case *ssa.Const, *ssa.Parameter:
							ok = true
						default:
							if !inLoop[instrBlock(y)] {
								ok = true // computed before the loop
							} else {
								why = "the bound of the ordinal is recomputed in the loop from " + describe(y)
							}
						}
					}
				}
			}
			if !ok && bad == "" {
				bad = why
				badPos = lastInstr(b)
			}
		}
	}
	switch {
	case nExit == 0:
		a.undecided(rule, key, w.posOf(rl.Len), "no exit of the column loop towards a success return found")
	case bad != "":
		a.viol(rule, key, w.posOf(badPos), "the column loop can be left towards a success return before every column ordinal was visited (%s): trailing absent columns are missing from the delivered row instead of being flagged absent", bad)
	default:
		a.hold(rule, key, w.posOf(rl.Len), "%d exit(s) towards success, all on 'ordinal reached the column count'", nExit)
	}
}

func instrBlock(v ssa.Value) *ssa.BasicBlock {
	if in, ok := v.(ssa.Instruction); ok {
		return in.Block()
	}
	return nil
}

func c13R2(a *A, cd *codec) {
	const rule = "C13-R2"
	w := a.W
	loops := allRowLoops(a, cd)
	for _, fn := range []string{"getValuesFromRow", "getIdentifiesFromRow"} {
		ls := loops[fn]
		if len(ls) != 1 {
			a.undecided(rule, "three-way@"+fn, "-", "expected one column loop, found %d", len(ls))
			continue
		}
		rl := ls[0]
		if !rl.analyse() {
			a.undecided(rule, "three-way@"+fn, w.posOf(rl.Len), "loop shape not recognised")
			continue
		}
		c13FullScan(a, rl, fn)
		// the column object of the iteration
		co := rl.columnObject()
		if !a.need(co != nil, rule, "ColumnData of the iteration (constructor call or composite literal) in "+fn) {
			continue
		}
		col := co.Val
		isEmptyArg := false
		if co.IsEmptyV != nil {
			b, isC := constBool(co.IsEmptyV)
			isEmptyArg = !isC || b
		}
		a.check(!isEmptyArg, rule, "three-way@"+fn+"[init]", w.posOf(co.Pos), "columns start as not-absent", "columns are created with IsEmpty=true")
		var valRes ssa.Value
		for _, ref := range *rl.Len.Referrers() {
			if ex, ok := ref.(*ssa.Extract); ok && ex.Index == 0 {
				valRes = ex
			}
		}
		for _, cls := range []string{"absent", "null", "value"} {
			var emptyStores, dataStores []*ssa.Store
			appends := 0
			// the class's own blocks plus the blocks every iteration passes (before the tests, after the paths merge)
			for _, b := range append(rl.blocksOfClass(cls), rl.commonBlocks()...) {
				// blocks of later classes are nested in "present": restrict "null"/"value" to their own blocks
				for _, in := range b.Instrs {
					switch x := in.(type) {
					case *ssa.Store:
						if fa, ok := x.Addr.(*ssa.FieldAddr); ok && fa.X == col {
							switch fieldName(fa) {
							case "IsEmpty":
								emptyStores = append(emptyStores, x)
							case "Data":
								dataStores = append(dataStores, x)
							}
						}
						// the column stored into the variadic array of an append
						if x.Val == col {
							if ia, ok := x.Addr.(*ssa.IndexAddr); ok {
								if _, ok := ia.X.(*ssa.Alloc); ok {
									appends++
								}
							}
						}
					}
				}
			}
			key := "three-way@" + fn + "[" + cls + "]"
			pos := w.posOf(rl.Len)
			if bs := rl.blocksOfClass(cls); len(bs) > 0 {
				pos = w.posOf(bs[0].Instrs[0])
			}
			switch cls {
			case "absent":
				okE := len(emptyStores) == 1
				if okE {
					b, isC := constBool(emptyStores[0].Val)
					okE = isC && b
				}
				a.check(okE && len(dataStores) == 0 && appends == 1, rule, key, pos, "flagged absent, no data, appended once",
					fmt.Sprintf("an absent column is not delivered as {IsEmpty:true, no data} exactly once (IsEmpty stores=%d, data stores=%d, appends=%d)", len(emptyStores), len(dataStores), appends))
			case "null":
				okD := true
				for _, s := range dataStores {
					if !isNilConst(s.Val) {
						okD = false
					}
				}
				a.check(len(emptyStores) == 0 && okD && appends == 1, rule, key, pos, "not flagged absent, nil data, appended once",
					fmt.Sprintf("a NULL column is not delivered as {IsEmpty:false, Data:nil} exactly once (IsEmpty stores=%d, non-nil data=%v, appends=%d): NULL becomes indistinguishable from empty or absent", len(emptyStores), !okD, appends))
			case "value":
				okD := len(dataStores) == 1 && dataStores[0].Val == valRes
				a.check(len(emptyStores) == 0 && okD && appends == 1, rule, key, pos, "data = result 0 of CellBytes, appended once",
					fmt.Sprintf("a present value is not delivered as exactly the decoder's result (IsEmpty stores=%d, data ok=%v, appends=%d)", len(emptyStores), okD, appends))
			}
		}
	}
	// IsEmpty is stored true nowhere else in the package
	loopFns := map[*ssa.Function]bool{}
	for _, ls := range loops {
		for _, rl := range ls {
			loopFns[rl.Fn] = true
		}
	}
	n := 0
	for _, f := range w.srcFuncs(w.Root) {
		instrs(f, func(in ssa.Instruction) {
			st, ok := in.(*ssa.Store)
			if !ok {
				return
			}
			fa, ok := st.Addr.(*ssa.FieldAddr)
			if !ok || fieldName(fa) != "IsEmpty" || !typeIs(fa.X.Type(), rootPath, "ColumnData") {
				return
			}
			n++
			where := roleName(f)
			ok = where == "getValuesFromRow" || where == "getIdentifiesFromRow" || where == "newColumnData" || loopFns[f]
			a.check(ok, rule, fmt.Sprintf("isempty-store@%s#%d", where, n), w.posOf(st), "absent flag written by the column loops / constructor", "the absent flag is written elsewhere")
		})
	}
	_ = token.ADD
	_ = strings.Join
}
