package main

import (
	"fmt"
	"go/token"
	"go/types"
	"sort"
	"strings"

	"golang.org/x/tools/go/ssa"
)

func init() {
	register("C19", propMeta{
		Explanation: "Round trips are statements about values and are not decided. Decided: (R1) registry completeness - every type implementing GTID / GTIDSet returns a constant flavor for which an init " +
			"registers a parser in gtidParsers / gtidSetParsers, and the registered parser returns that same type; (R2) every GTID implementation has a value receiver and a comparable type, so == on the " +
			"interface is the documented equality and cannot panic; (R3) no method of MariadbGTIDSet writes storage reachable from its receiver (same analysis as C18-R1) and AddGTID's result does not share " +
			"the receiver's array when it differs from it; (R4) the SID-block writer and reader perform the same nested sequence of fixed-width little-endian transfers (8; per SID 16, 8; per interval 8, 8) " +
			"and the interval end is written as end+c and read back as x-c with the same c; the previous-GTIDs event hands the event body to that reader; (R5) GTID event bodies are read at the documented " +
			"offsets (shared with C16-R4); (R6) printing and parsing agree on separators and on the field order of a MariaDB GTID (domain-server-sequence) and a MySQL GTID (uuid:sequence). " +
			"Not decided: the round trips themselves, SID text formatting arithmetic.",
		Rule:        "instances = implementing types, registry entries, methods x write-capable instructions, transfer tokens of the SID-block writer/reader, separator constants",
		Trusted:     append([]string{"encoding/binary Read/Write transfer exactly the size of the static type"}, commonTrusted...),
		Assumptions: []string{"the analysers see non-test files only"},
	}, runC19)

	addVariants(
		Variant{ID: "c19-r1-unregistered-set-parser", Prop: "C19", File: "replication/mysql56_gtid_set.go",
			Old: "func init() {\n\tgtidSetParsers[mysql56FlavorID] = parseMysql56GTIDSet\n}", New: "func init() {\n\tgtidSetParsers[\"MySQL5.6\"] = parseMysql56GTIDSet\n}",
			Expect: "C19-R1 registered@Mysql56GTIDSet"},
		Variant{ID: "c19-r3-mariadb-in-place", Prop: "C19", File: "replication/mariadb_gtid.go",
			Old: "\t\t\t\tnewSet := make(MariadbGTIDSet, len(gtidSet))\n\t\t\t\tcopy(newSet, gtidSet)\n\t\t\t\tnewSet[i] = mdbOther\n\t\t\t\treturn newSet\n", New: "\t\t\t\tgtidSet[i] = mdbOther\n",
			Expect: "C19-R3 receiver-write@AddGTID"},
		Variant{ID: "c19-r4-end-off-by-one", Prop: "C19", File: "replication/mysql56_gtid_set.go",
			Old: "end:   int64(end - 1),", New: "end:   int64(end),",
			Expect: "C19-R4 end-bias@"},
		Variant{ID: "c19-r4-reader-width", Prop: "C19", File: "replication/mysql56_gtid_set.go",
			Old: "binary.Write(buf, binary.LittleEndian, uint64(len(intervals)))", New: "binary.Write(buf, binary.LittleEndian, uint32(len(intervals)))",
			Expect: "C19-R4 shape@SIDBlock"},
		Variant{ID: "c19-r4-reader-drops-singletons", Prop: "C19", File: "replication/mysql56_gtid_set.go",
			Old: "\t\t\tset[sid] = append(set[sid], interval{\n\t\t\t\tstart: int64(start),\n\t\t\t\tend:   int64(end - 1),\n\t\t\t})", New: "\t\t\tif end-1 <= start {\n\t\t\t\tcontinue\n\t\t\t}\n\t\t\tset[sid] = append(set[sid], interval{\n\t\t\t\tstart: int64(start),\n\t\t\t\tend:   int64(end - 1),\n\t\t\t})",
			Expect: "C19-R4 keep-all@reader"},
		Variant{ID: "c19-r3-append-into-receiver", Prop: "C19", File: "replication/mariadb_gtid.go",
			Old: "\t\t\t\tnewSet := make(MariadbGTIDSet, len(gtidSet))\n\t\t\t\tcopy(newSet, gtidSet)\n\t\t\t\tnewSet[i] = mdbOther\n\t\t\t\treturn newSet\n", New: "\t\t\t\tnewSet := append(gtidSet[:i], mdbOther)\n\t\t\t\treturn append(newSet, gtidSet[i+1:]...)\n",
			Expect: "C19-R3 receiver-write@AddGTID"},
		Variant{ID: "c19-r6-mariadb-order", Prop: "C19", File: "replication/mariadb_gtid.go",
			Old: "return fmt.Sprintf(\"%d-%d-%d\", gtid.Domain, gtid.Server, gtid.Sequence)", New: "return fmt.Sprintf(\"%d-%d-%d\", gtid.Server, gtid.Domain, gtid.Sequence)",
			Expect: "C19-R6 field-order@MariadbGTID"},
		Variant{ID: "c19-r6-mysql-sep", Prop: "C19", File: "replication/mysql56_gtid.go",
			Old: "return fmt.Sprintf(\"%s:%d\", m.Server, m.Sequence)", New: "return fmt.Sprintf(\"%s-%d\", m.Server, m.Sequence)",
			Expect: "C19-R6 separator@Mysql56GTID"},
		Variant{ID: "c19-r7-add-stops-at-higher-domain", Prop: "C19", File: "replication/mariadb_gtid.go",
			Old: "\tfor i, gtid := range gtidSet {\n\t\tif mdbOther.Domain == gtid.Domain {\n\t\t\tif mdbOther.Sequence > gtid.Sequence {", New: "\tfor i, gtid := range gtidSet {\n\t\tif gtid.Domain > mdbOther.Domain {\n\t\t\tbreak\n\t\t}\n\t\tif mdbOther.Domain == gtid.Domain {\n\t\t\tif mdbOther.Sequence > gtid.Sequence {",
			Expect: "C19-R7 full-scan@AddGTID"},
		Variant{ID: "c19-r7-contains-forward-walk", Prop: "C19", File: "replication/mariadb_gtid.go",
			Old:    "\tfor _, gtid := range mdbOther {\n\t\tif !gtidSet.ContainsGTID(gtid) {\n\t\t\treturn false\n\t\t}\n\t}\n\treturn true",
			New:    "\ti := 0\n\tfor _, gtid := range mdbOther {\n\t\tfor i < len(gtidSet) && gtidSet[i].Domain != gtid.Domain {\n\t\t\ti++\n\t\t}\n\t\tif i == len(gtidSet) || gtidSet[i].Sequence < gtid.Sequence {\n\t\t\treturn false\n\t\t}\n\t}\n\treturn true",
			Expect: "C19-R7 full-scan@Contains"},
	)
}

func runC19(a *A) {
	c19R1R2(a)
	c19R3(a)
	c19R4(a)
	c19R6(a)
	c19R7(a)
	{
		w := a.W
		roots := append(methodsOf(w, w.Repl, "MariadbGTIDSet"), methodsOf(w, w.Repl, "Mysql56GTIDSet")...)
		roots = append(roots, methodsOf(w, w.Repl, "MariadbGTID")...)
		roots = append(roots, methodsOf(w, w.Repl, "Mysql56GTID")...)
		roots = append(roots, methodsOf(w, w.Repl, "SID")...)
		for _, n := range []string{"parseMysql56GTID", "parseMysql56GTIDSet", "parseMariadbGTID", "parseMariadbGTIDSet", "ParseGTID", "ParseGTIDSet", "DecodeGTID", "EncodeGTID", "NewMysql56GTIDSetFromSIDBlock", "ParseSID"} {
			roots = append(roots, w.fn(w.Repl, n))
		}
		statelessRule(a, "C19-R8", "GTID printing, parsing and set operations", roots, w.Repl)
	}
}

// implementers of an interface among the named types of the replication package.
func implementers(w *World, iface *types.Interface) []*types.Named {
	var out []*types.Named
	sc := w.Repl.Pkg.Scope()
	for _, n := range sc.Names() {
		tn, ok := sc.Lookup(n).(*types.TypeName)
		if !ok {
			continue
		}
		nt, ok := tn.Type().(*types.Named)
		if !ok || types.IsInterface(nt) {
			continue
		}
		if types.Implements(nt, iface) || types.Implements(types.NewPointer(nt), iface) {
			out = append(out, nt)
		}
	}
	sort.Slice(out, func(i, j int) bool { return out[i].Obj().Name() < out[j].Obj().Name() })
	return out
}

func c19R1R2(a *A) {
	w := a.W
	// registry contents: key constant -> registered function
	reg := map[string]map[string]*ssa.Function{"gtidParsers": {}, "gtidSetParsers": {}}
	for _, f := range w.srcFuncs(w.Repl) {
		if !strings.HasPrefix(f.Name(), "init") {
			continue
		}
		instrs(f, func(in ssa.Instruction) {
			mu, ok := in.(*ssa.MapUpdate)
			if !ok {
				return
			}
			u, ok := mu.Map.(*ssa.UnOp)
			if !ok {
				return
			}
			g, ok := u.X.(*ssa.Global)
			if !ok || reg[g.Name()] == nil {
				return
			}
			k, ok := constString(mu.Key)
			if !ok {
				return
			}
			fn, _ := strip(mu.Value).(*ssa.Function)
			reg[g.Name()][k] = fn
		})
	}
	for _, spec := range []struct{ iface, registry string }{{"GTID", "gtidParsers"}, {"GTIDSet", "gtidSetParsers"}} {
		it := w.namedType(w.Repl, spec.iface)
		if !a.need(it != nil, "C19-R1", spec.iface+" interface") {
			continue
		}
		iface := it.Underlying().(*types.Interface)
		impls := implementers(w, iface)
		if !a.need(len(impls) >= 2, "C19-R1", "implementations of "+spec.iface) {
			continue
		}
		for _, nt := range impls {
			name := nt.Obj().Name()
			fl := w.method(w.Repl, name, "Flavor")
			if !a.need(fl != nil, "C19-R1", name+".Flavor") {
				continue
			}
			a.touch(fl)
			var flavor string
			okConst := len(returnsOf(fl)) > 0
			for _, ret := range returnsOf(fl) {
				s, ok := constString(ret.Results[0])
				if !ok {
					okConst = false
				}
				flavor = s
			}
			if !okConst {
				a.undecided("C19-R1", "registered@"+name, w.pos(fl.Pos()), "Flavor() does not return a constant")
				continue
			}
			parser := reg[spec.registry][flavor]
			if parser == nil {
				a.viol("C19-R1", "registered@"+name, w.pos(fl.Pos()), "%s.Flavor() returns %q but no init registers %s[%q]: the flavor-tagged text of such a value cannot be parsed back", name, flavor, spec.registry, flavor)
				continue
			}
			a.touch(parser)
			// the parser returns this very type
			okType := false
			allOK := true
			for _, ret := range returnsOf(parser) {
				if isNilConst(ret.Results[0]) {
					continue
				}
				mi, ok := ret.Results[0].(*ssa.MakeInterface)
				if ok && types.Identical(mi.X.Type(), nt) {
					okType = true
				} else {
					allOK = false
				}
			}
			a.check(okType && allOK, "C19-R1", "registered@"+name, w.pos(parser.Pos()), fmt.Sprintf("%s[%q] = %s, which returns %s", spec.registry, flavor, parser.Name(), name),
				fmt.Sprintf("%s[%q] = %s does not return %s: parsing the printed form yields a value of another type, which is never equal", spec.registry, flavor, parser.Name(), name))
			if spec.iface == "GTID" {
				valueRecv := types.Implements(nt, iface)
				a.check(valueRecv && types.Comparable(nt), "C19-R2", "comparable@"+name, w.pos(nt.Obj().Pos()), "value receiver, comparable type",
					"a GTID implementation with a pointer receiver or a non-comparable type: == on GTID values compares addresses or panics")
			}
		}
	}
}

func c19R3(a *A) {
	const rule = "C19-R3"
	w := a.W
	ms := methodsOf(w, w.Repl, "MariadbGTIDSet")
	if !a.need(len(ms) >= 5, rule, "methods of MariadbGTIDSet") {
		return
	}
	an := newWT(w)
	for _, f := range ms {
		a.touch(f)
		facts := an.writesThrough(f, 0)
		hard := 0
		for i, wf := range facts {
			key := fmt.Sprintf("receiver-write@%s#%d", f.Name(), i+1)
			if wf.Hard {
				hard++
				a.viol(rule, key, w.posOf(wf.In), "%s: the method overwrites an element of the set it was called on, so 'adding to a set' alters the original", wf.What)
			} else {
				a.info(rule, key, w.posOf(wf.In), "%s (recorded; the original's length is unchanged)", wf.What)
			}
		}
		if hard == 0 {
			a.hold(rule, "receiver-write@"+f.Name(), w.pos(f.Pos()), "no write through receiver-derived memory")
		}
	}
}

// transfer tokens of a function: (loop depth, width in bytes, direction, endianness)
type xfer struct {
	Depth int
	Width int64
	Kind  string
	Pos   token.Pos
}

func loopDepth(b *ssa.BasicBlock) int {
	d := 0
	for h := b; h != nil; h = h.Idom() {
		// h is a loop header containing b if some predecessor of h is dominated by h and b is inside (h dominates b and b reaches h)
		isHeader := false
		for _, p := range h.Preds {
			if h.Dominates(p) {
				isHeader = true
			}
		}
		if isHeader && h.Dominates(b) && (b == h || reachesAvoiding(b, h, nil, nil)) {
			d++
		}
	}
	return d
}

var sizes64 = types.SizesFor("gc", "amd64")

func sidBlockTokens(f *ssa.Function) ([]xfer, []string) {
	return sidBlockTokensD(f, 0)
}

// constLenBytes: v is a []byte of constant length N (make([]byte, N) or a full slice of a [N]byte); returns N.
func constLenBytes(v ssa.Value) (int64, bool) {
	switch x := strip(v).(type) {
	case *ssa.MakeSlice:
		return constInt(x.Len)
	case *ssa.Slice:
		if x.Low != nil || x.High != nil {
			lo, hi := int64(0), int64(-1)
			if x.Low != nil {
				k, ok := constInt(x.Low)
				if !ok {
					return 0, false
				}
				lo = k
			}
			if x.High != nil {
				k, ok := constInt(x.High)
				if !ok {
					return 0, false
				}
				hi = k
			}
			if hi >= 0 {
				return hi - lo, true
			}
			if p, ok := x.X.Type().Underlying().(*types.Pointer); ok {
				if arr, ok := p.Elem().Underlying().(*types.Array); ok {
					return arr.Len() - lo, true
				}
			}
			return 0, false
		}
		if p, ok := x.X.Type().Underlying().(*types.Pointer); ok {
			if arr, ok := p.Elem().Underlying().(*types.Array); ok {
				return arr.Len(), true
			}
		}
	}
	return 0, false
}

// byteOrderUse: is the byte slice v filled by / decoded with encoding/binary's fixed-width (Put)UintN? Returns the
// byte-order name and the width.
func byteOrderUse(v ssa.Value, put bool) (string, int64, bool) {
	refs := strip(v).Referrers()
	if refs == nil {
		return "", 0, false
	}
	for _, r := range *refs {
		c, ok := r.(*ssa.Call)
		if !ok {
			continue
		}
		cal := c.Common().StaticCallee()
		if cal == nil || cal.Pkg == nil || cal.Pkg.Pkg.Path() != "encoding/binary" || cal.Signature.Recv() == nil {
			continue
		}
		name := cal.Name()
		if put != strings.HasPrefix(name, "Put") {
			continue
		}
		name = strings.TrimPrefix(name, "Put")
		var bits int64
		if _, err := fmt.Sscanf(name, "Uint%d", &bits); err != nil {
			continue
		}
		order := "BigEndian"
		if strings.Contains(cal.String(), "littleEndian") {
			order = "LittleEndian"
		}
		return order, bits / 8, true
	}
	return "", 0, false
}

func sidBlockTokensD(f *ssa.Function, depth int) ([]xfer, []string) {
	var out []xfer
	var endian []string
	var calls []*ssa.Call
	instrs(f, func(in ssa.Instruction) {
		if c, ok := in.(*ssa.Call); ok {
			calls = append(calls, c)
		}
	})
	sort.SliceStable(calls, func(i, j int) bool { return calls[i].Pos() < calls[j].Pos() })
	isStream := func(v ssa.Value) bool {
		t := strip(v).Type()
		return typeIs(t, "bytes", "Buffer") || typeIs(t, "bytes", "Reader")
	}
	for _, c := range calls {
		cal := c.Common().StaticCallee()
		if cal == nil {
			continue
		}
		args := c.Common().Args
		fixed := func(buf ssa.Value, put bool) {
			n, ok := constLenBytes(buf)
			if !ok {
				return
			}
			if order, w, ok := byteOrderUse(buf, put); ok && w == n {
				out = append(out, xfer{loopDepth(c.Block()), n, "bin", c.Pos()})
				endian = append(endian, order)
				return
			}
			out = append(out, xfer{loopDepth(c.Block()), n, "raw", c.Pos()})
		}
		switch cal.String() {
		case "encoding/binary.Write", "encoding/binary.Read":
			if len(args) != 3 {
				continue
			}
			t := strip(args[2]).Type()
			if p, ok := t.(*types.Pointer); ok && cal.Name() == "Read" {
				t = p.Elem()
			}
			w := sizes64.Sizeof(t)
			out = append(out, xfer{loopDepth(c.Block()), w, "bin", c.Pos()})
			if g, ok := strip(args[1]).(*ssa.UnOp); ok {
				if gl, ok := g.X.(*ssa.Global); ok {
					endian = append(endian, gl.Name())
				}
			}
		case "(*bytes.Buffer).Write":
			fixed(args[1], true)
		case "(*bytes.Reader).Read":
			fixed(args[1], false)
		case "io.ReadFull":
			if isStream(args[0]) {
				fixed(args[1], false)
			}
		default:
			// an in-package helper that is handed the stream: its transfers happen at the call's loop depth
			if cal.Blocks == nil || cal.Pkg != f.Pkg || cal == f || depth >= 2 {
				continue
			}
			gets := false
			for _, a := range args {
				if isStream(a) {
					gets = true
				}
			}
			if !gets {
				continue
			}
			sub, se := sidBlockTokensD(cal, depth+1)
			d := loopDepth(c.Block())
			for _, t := range sub {
				out = append(out, xfer{d + t.Depth, t.Width, t.Kind, c.Pos()})
			}
			endian = append(endian, se...)
		}
	}
	return out, uniq(endian)
}

func c19R4(a *A) {
	const rule = "C19-R4"
	w := a.W
	wr := w.method(w.Repl, "Mysql56GTIDSet", "SIDBlock")
	rd := w.fn(w.Repl, "NewMysql56GTIDSetFromSIDBlock")
	if !a.need(wr != nil, rule, "Mysql56GTIDSet.SIDBlock") || !a.need(rd != nil, rule, "NewMysql56GTIDSetFromSIDBlock") {
		return
	}
	a.touch(wr, rd)
	wt, we := sidBlockTokens(wr)
	rt, re := sidBlockTokens(rd)
	str := func(ts []xfer) string {
		var s []string
		for _, t := range ts {
			s = append(s, fmt.Sprintf("%s%d@%d", t.Kind, t.Width, t.Depth))
		}
		return strings.Join(s, " ")
	}
	want := "bin8@0 raw16@1 bin8@1 bin8@2 bin8@2"
	a.check(str(wt) == str(rt) && str(wt) == want, rule, "shape@SIDBlock", w.pos(wr.Pos()), "writer and reader transfer "+want,
		fmt.Sprintf("SID-block writer transfers [%s], reader transfers [%s], documented format is [%s]: the binary form does not decode back", str(wt), str(rt), want))
	a.check(len(we) == 1 && len(re) == 1 && we[0] == "LittleEndian" && re[0] == "LittleEndian", rule, "endian@SIDBlock", w.pos(wr.Pos()), "both little-endian", fmt.Sprintf("byte order differs or is not little-endian: writer %v reader %v", we, re))
	// end bias: writer writes end+c, reader stores x-c
	bias := func(f *ssa.Function, op token.Token) (int64, bool) {
		var k int64
		found := 0
		instrs(f, func(in ssa.Instruction) {
			b, ok := in.(*ssa.BinOp)
			if !ok || b.Op != op {
				return
			}
			c, ok := constInt(b.Y)
			if !ok || !(b.Type().Underlying().String() == "int64" || b.Type().Underlying().String() == "uint64") {
				return
			}
			// operand is the interval end (writer) / the second value read in the inner loop (reader)
			if loopDepth(b.Block()) == 2 {
				k = c
				found++
			}
		})
		return k, found == 1
	}
	wk, ok1 := bias(wr, token.ADD)
	rk, ok2 := bias(rd, token.SUB)
	a.check(ok1 && ok2 && wk == rk && wk == 1, rule, "end-bias@SIDBlock", w.pos(rd.Pos()), "end written as end+1, read back as x-1",
		fmt.Sprintf("interval end bias differs: writer +%d (found=%v), reader -%d (found=%v); MySQL's internal form is exclusive (end+1)", wk, ok1, rk, ok2))
	// every interval read is stored: inside the innermost loop the only ways not to reach the store are the error returns of the reads
	var stores []*ssa.MapUpdate
	instrs(rd, func(in ssa.Instruction) {
		if mu, ok := in.(*ssa.MapUpdate); ok && loopDepth(mu.Block()) == 2 {
			stores = append(stores, mu)
		}
	})
	if len(stores) != 1 {
		a.undecided(rule, "keep-all@reader", w.pos(rd.Pos()), "found %d interval stores in the inner loop of the SID-block reader, expected 1", len(stores))
	} else {
		st := stores[0]
		// inner loop header: the innermost loop header dominating the store
		var hdr *ssa.BasicBlock
		for b := st.Block(); b != nil; b = b.Idom() {
			if isLoopHeader(b) && b.Dominates(st.Block()) {
				hdr = b
				break
			}
		}
		skipped := false
		var why string
		if hdr != nil {
			body := hdr.Succs[0]
			// can the back edge be reached from the body entry without passing the store?
			if reachesAvoiding(body, hdr, func(b *ssa.BasicBlock) bool { return b == st.Block() }, nil) && body != st.Block() {
				skipped = true
				why = "an iteration can continue to the next interval without storing the one it read"
			}
			// conditions (other than read-error tests) guarding the store inside the loop
			for _, ce := range dominatingConds(st.Block()) {
				if !hdr.Dominates(ce.If.Block()) || ce.If.Block() == hdr {
					continue
				}
				if _, _, isNil := nilTest(ce.Cond); !isNil {
					skipped = true
					why = "the store is guarded by a condition on the values read"
				}
			}
		}
		a.check(hdr != nil && !skipped, rule, "keep-all@reader", w.posOf(st), "every interval read from the block is stored",
			"the SID-block reader does not store every interval it reads ("+why+"): the binary form of a set no longer decodes to an equal set (e.g. single-transaction intervals are lost)")
	}
	// previous-GTIDs event feeds the body to the reader
	pg := w.method(w.Repl, "mysql56BinlogEvent", "PreviousGTIDs")
	if a.need(pg != nil, rule, "mysql56BinlogEvent.PreviousGTIDs") {
		a.touch(pg)
		x := newWF(pg)
		hl := x.bodyBases()
		fed := false
		instrs(pg, func(in ssa.Instruction) {
			if c, ok := in.(*ssa.Call); ok && c.Common().StaticCallee() == rd {
				if _, isBase := x.bases[c.Common().Args[0]]; isBase {
					fed = true
				}
			}
		})
		a.check(fed && len(hl) == 1 && hl[0] == "HeaderLength", rule, "previous-gtids@mysql56", w.pos(pg.Pos()), "the event body (after the header) is decoded as a SID block", "PREVIOUS_GTIDS does not hand exactly the event body to the SID-block reader")
	}
}

// R6: printing and parsing agree on separators and field order.
func c19R6(a *A) {
	const rule = "C19-R6"
	w := a.W
	type spec struct {
		typ, parser, sep string
		fields           []string // order of printed fields
	}
	for _, sp := range []spec{
		{"MariadbGTID", "parseMariadbGTID", "-", []string{"Domain", "Server", "Sequence"}},
		{"Mysql56GTID", "parseMysql56GTID", ":", []string{"Server", "Sequence"}},
	} {
		str := w.method(w.Repl, sp.typ, "String")
		ps := w.fn(w.Repl, sp.parser)
		if !a.need(str != nil && ps != nil, rule, sp.typ+".String / "+sp.parser) {
			continue
		}
		a.touch(str, ps)
		// printed: fmt.Sprintf(format, fields...)
		var format string
		var printed []string
		instrs(str, func(in ssa.Instruction) {
			c, ok := in.(*ssa.Call)
			if !ok || !staticCalleeIs(c.Common(), "fmt.Sprintf") {
				return
			}
			format, _ = constString(c.Common().Args[0])
			sl, ok := c.Common().Args[1].(*ssa.Slice)
			if !ok {
				return
			}
			al, ok := sl.X.(*ssa.Alloc)
			if !ok {
				return
			}
			byIdx := map[int64]string{}
			for _, ref := range *al.Referrers() {
				ia, ok := ref.(*ssa.IndexAddr)
				if !ok {
					continue
				}
				k, _ := constInt(ia.Index)
				for _, rr := range *ia.Referrers() {
					if st, ok := rr.(*ssa.Store); ok {
						v := strip(st.Val)
						switch fv := v.(type) {
						case *ssa.Field:
							byIdx[k] = fieldNameV(fv)
						case *ssa.UnOp:
							if fa, ok := fv.X.(*ssa.FieldAddr); ok {
								byIdx[k] = fieldName(fa)
							}
						}
					}
				}
			}
			for i := int64(0); i < int64(len(byIdx)); i++ {
				printed = append(printed, byIdx[i])
			}
		})
		verbs := strings.Count(format, "%")
		seps := format
		for _, v := range []string{"%d", "%s", "%v"} {
			seps = strings.ReplaceAll(seps, v, "")
		}
		okSep := verbs == len(sp.fields) && seps == strings.Repeat(sp.sep, len(sp.fields)-1)
		a.check(okSep, rule, "separator@"+sp.typ, w.pos(str.Pos()), fmt.Sprintf("printed with %q between %d fields", sp.sep, len(sp.fields)),
			fmt.Sprintf("String() prints with format %q; the parser splits on %q into %d parts", format, sp.sep, len(sp.fields)))
		a.check(strings.Join(printed, ",") == strings.Join(sp.fields, ","), rule, "field-order@"+sp.typ, w.pos(str.Pos()), "printed in the order "+strings.Join(sp.fields, ","),
			fmt.Sprintf("String() prints the fields in the order %v; the flavor's text form (and the parser) is %v", printed, sp.fields))
		// parser: splits on the same separator, into the same number of parts, assigns part i to field i
		var split *ssa.Call
		instrs(ps, func(in ssa.Instruction) {
			if c, ok := in.(*ssa.Call); ok && staticCalleeIs(c.Common(), "strings.Split") {
				split = c
			}
		})
		if !a.need(split != nil, rule, "strings.Split in "+sp.parser) {
			continue
		}
		s, _ := constString(split.Common().Args[1])
		a.check(s == sp.sep, rule, "separator@"+sp.parser, w.posOf(split), "parser splits on "+sp.sep, fmt.Sprintf("parser splits on %q", s))
		// field <- parts[i]
		assigned := map[string]int64{}
		instrs(ps, func(in ssa.Instruction) {
			st, ok := in.(*ssa.Store)
			if !ok {
				return
			}
			fa, ok := st.Addr.(*ssa.FieldAddr)
			if !ok || !typeIs(fa.X.Type(), replPath, sp.typ) {
				return
			}
			if idx, ok := partIndex(st.Val, split, map[ssa.Value]bool{}); ok {
				assigned[fieldName(fa)] = idx
			}
		})
		okOrder := len(assigned) == len(sp.fields)
		for i, f := range sp.fields {
			if assigned[f] != int64(i) {
				okOrder = false
			}
		}
		a.check(okOrder, rule, "field-order@"+sp.parser, w.pos(ps.Pos()), "part i -> field i of "+strings.Join(sp.fields, ","),
			fmt.Sprintf("parser assigns parts to fields as %v; the text order is %v", assigned, sp.fields))
	}
}

// partIndex: v derives (through conversions and parse calls) from parts[k] of the split.
func partIndex(v ssa.Value, split *ssa.Call, seen map[ssa.Value]bool) (int64, bool) {
	v = resolve(v)
	if seen[v] {
		return 0, false
	}
	seen[v] = true
	switch x := v.(type) {
	case *ssa.Convert:
		return partIndex(x.X, split, seen)
	case *ssa.Extract:
		return partIndex(x.Tuple, split, seen)
	case *ssa.Call:
		for _, arg := range x.Common().Args {
			if k, ok := partIndex(arg, split, seen); ok {
				return k, true
			}
		}
	case *ssa.UnOp:
		if ia, ok := x.X.(*ssa.IndexAddr); ok && ia.X == ssa.Value(split) {
			return constInt(ia.Index)
		}
	}
	return 0, false
}

// R7: a MariaDB set is an unordered list of one position per domain, so every lookup in it must be able to see every
// element: (a) no order-assuming search (sort.Search*, sort.Find, slices.BinarySearch*) in its methods or the closures and
// in-package helpers they use; (b) every loop that walks the receiver starts at its first element each time the loop is
// entered - an index carried over from an enclosing loop (a forward-only "merge" walk) skips elements of an unsorted set.
func c19R7(a *A) {
	const rule = "C19-R7"
	w := a.W
	ms := methodsOf(w, w.Repl, "MariadbGTIDSet")
	if !a.need(len(ms) >= 5, rule, "methods of MariadbGTIDSet") {
		return
	}
	n := 0
	for _, m := range ms {
		switch m.Name() {
		case "Contains", "ContainsGTID", "AddGTID":
		default:
			continue
		}
		fns := []*ssa.Function{m}
		for _, af := range m.AnonFuncs {
			fns = append(fns, af)
		}
		instrs(m, func(in ssa.Instruction) {
			if c, ok := in.(*ssa.Call); ok {
				if cal := c.Common().StaticCallee(); cal != nil && cal.Pkg == w.Repl && cal.Blocks != nil && cal.Signature.Recv() == nil {
					fns = append(fns, cal)
				}
			}
		})
		var bad []string
		pos := w.pos(m.Pos())
		for _, f := range fns {
			a.touch(f)
			instrs(f, func(in ssa.Instruction) {
				c, ok := in.(*ssa.Call)
				if !ok {
					return
				}
				cal := c.Common().StaticCallee()
				if cal == nil || cal.Pkg == nil {
					return
				}
				path, name := cal.Pkg.Pkg.Path(), cal.Name()
				if (path == "sort" && (strings.HasPrefix(name, "Search") || name == "Find")) || (path == "slices" && strings.HasPrefix(name, "BinarySearch")) {
					bad = append(bad, "order-assuming search "+path+"."+name)
					pos = w.posOf(c)
				}
			})
			// loops indexing a MariadbGTIDSet value
			for _, b := range f.Blocks {
				if !isLoopHeader(b) {
					continue
				}
				for _, in := range b.Instrs {
					phi, ok := in.(*ssa.Phi)
					if !ok {
						break
					}
					if !isIntegerType(phi.Type()) {
						continue
					}
					// does this phi index a set?
					indexes := false
					for _, ref := range *phi.Referrers() {
						if ia, ok := ref.(*ssa.IndexAddr); ok && typeIs(ia.X.Type(), replPath, "MariadbGTIDSet") {
							indexes = true
						}
						// range loops index through phi+1
						if bo, ok := ref.(*ssa.BinOp); ok && bo.Op == token.ADD {
							for _, r2 := range *bo.Referrers() {
								if ia, ok := r2.(*ssa.IndexAddr); ok && typeIs(ia.X.Type(), replPath, "MariadbGTIDSet") {
									indexes = true
								}
							}
						}
					}
					if !indexes {
						continue
					}
					// no way out of the walk decided by the ORDER of domain ids: the set is not sorted by domain
					isDomain := func(v ssa.Value) bool {
						switch x := stripW(v).(type) {
						case *ssa.Field:
							return fieldNameV(x) == "Domain"
						case *ssa.UnOp:
							if fa, ok := x.X.(*ssa.FieldAddr); ok && x.Op == token.MUL {
								return fieldName(fa) == "Domain"
							}
						}
						return false
					}
					for _, lb := range f.Blocks {
						if !b.Dominates(lb) || !(lb == b || reachesAvoiding(lb, b, nil, nil)) {
							continue
						}
						iff, ok := lastInstr(lb).(*ssa.If)
						if !ok {
							continue
						}
						bo, ok := iff.Cond.(*ssa.BinOp)
						if !ok {
							continue
						}
						switch bo.Op {
						case token.LSS, token.GTR, token.LEQ, token.GEQ:
						default:
							continue
						}
						if !isDomain(bo.X) && !isDomain(bo.Y) {
							continue
						}
						for _, sc := range lb.Succs {
							if !(b.Dominates(sc) && (sc == b || reachesAvoiding(sc, b, nil, nil))) {
								bad = append(bad, fmt.Sprintf("the walk over the set in %s stops early on an order comparison of domain ids", f.Name()))
								pos = w.posOf(iff)
							}
						}
					}
					for i, p := range b.Preds {
						if b.Dominates(p) {
							continue
						}
						k, isK := constInt(phi.Edges[i])
						if !isK || (k != 0 && k != -1) {
							bad = append(bad, fmt.Sprintf("the walk over the set in %s starts from %s, not from its first element", f.Name(), describe(phi.Edges[i])))
							pos = w.posOf(lastInstr(b))
						}
					}
				}
			}
		}
		n++
		a.check(len(bad) == 0, rule, "full-scan@"+m.Name(), pos, "every lookup can see every element of the (unordered) set",
			fmt.Sprintf("%s does not look at every element of the set (%s): MariaDB sets are not kept sorted by domain, so a position of a known domain can be missed - containment is denied, or a second position for one domain is added", m.Name(), strings.Join(bad, "; ")))
	}
	if n < 3 {
		a.undecided(rule, "full-scan@methods", "-", "found %d of Contains / ContainsGTID / AddGTID on MariadbGTIDSet", n)
	}
}
