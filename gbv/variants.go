package main

import (
	"bytes"
	"flag"
	"fmt"
	"os"
	"os/exec"
	"path/filepath"
	"sort"
	"strings"
	"sync"
)

// Variant is a one-edit mutation of /repo applied in memory (packages.Config.
// Overlay) to test that a rule fires. Old must occur exactly once in the
// current content of File; otherwise the variant is skipped (the tree was
// edited). Variants never influence the verdict on the real tree.
type Variant struct {
	ID     string
	Prop   string
	File   string
	Old    string
	New    string
	Old2   string // optional second edit in the same file
	New2   string
	Expect string // substring expected in a violation line ("<rule> <key>")
	Note   string
}

var variants []Variant

func addVariants(vs ...Variant) { variants = append(variants, vs...) }

func variantOverlay(repo, prop, id string) (map[string][]byte, error) {
	for _, v := range variants {
		if v.ID != id {
			continue
		}
		path := filepath.Join(repo, v.File)
		b, err := os.ReadFile(path)
		if err != nil {
			return nil, err
		}
		if n := bytes.Count(b, []byte(v.Old)); n != 1 {
			return nil, fmt.Errorf("anchor occurs %d times in %s", n, v.File)
		}
		nb := bytes.Replace(b, []byte(v.Old), []byte(v.New), 1)
		if v.Old2 != "" {
			if n := bytes.Count(nb, []byte(v.Old2)); n != 1 {
				return nil, fmt.Errorf("second anchor occurs %d times in %s", n, v.File)
			}
			nb = bytes.Replace(nb, []byte(v.Old2), []byte(v.New2), 1)
		}
		return map[string][]byte{path: nb}, nil
	}
	return nil, fmt.Errorf("no such variant")
}

type variantResult struct {
	ID, Expect, Outcome, Note string
}

func runVariantSet(repo, verif, prop string) []variantResult {
	var vs []Variant
	for _, v := range variants {
		if v.Prop == prop {
			vs = append(vs, v)
		}
	}
	res := make([]variantResult, len(vs))
	sem := make(chan struct{}, 6)
	var wg sync.WaitGroup
	for i, v := range vs {
		wg.Add(1)
		go func(i int, v Variant) {
			defer wg.Done()
			sem <- struct{}{}
			defer func() { <-sem }()
			cmd := exec.Command(os.Args[0], "check", "-prop", prop, "-tier", "quick", "-variant", v.ID, "-no-evidence", "-repo", repo, "-verif", verif)
			out, err := cmd.CombinedOutput()
			code := 0
			if ee, ok := err.(*exec.ExitError); ok {
				code = ee.ExitCode()
			} else if err != nil {
				code = -1
			}
			r := variantResult{ID: v.ID, Expect: v.Expect, Note: v.Note}
			switch {
			case code == 3:
				r.Outcome = "skipped"
			case code == 1 && fired(string(out), v.Expect):
				r.Outcome = "fired"
			case code == 1:
				r.Outcome = "fired-elsewhere"
			case code == 0:
				r.Outcome = "missed"
			default:
				r.Outcome = fmt.Sprintf("error(%d)", code)
			}
			res[i] = r
		}(i, v)
	}
	wg.Wait()
	sort.Slice(res, func(i, j int) bool { return res[i].ID < res[j].ID })
	return res
}

func fired(out, expect string) bool {
	for _, line := range strings.Split(out, "\n") {
		if strings.Contains(line, expect) && (strings.Contains(line, "[violated]") || strings.Contains(line, "[undecided]")) {
			return true
		}
	}
	return false
}

func runVariants(o checkOpts, a *A) map[string]interface{} {
	res := runVariantSet(o.repo, o.verif, o.prop)
	tried, firedN, skipped := 0, 0, 0
	var detail []string
	for _, r := range res {
		switch r.Outcome {
		case "skipped":
			skipped++
		case "fired":
			tried++
			firedN++
		default:
			tried++
		}
		detail = append(detail, fmt.Sprintf("%s: %s (expect %s)", r.ID, r.Outcome, r.Expect))
	}
	fmt.Printf("   variants (self-test of the rules, in-memory overlays): tried=%d fired=%d skipped=%d\n", tried, firedN, skipped)
	for _, r := range res {
		if r.Outcome != "fired" && r.Outcome != "skipped" {
			fmt.Printf("   variant %s: %s (expected %s) — self-test information only\n", r.ID, r.Outcome, r.Expect)
		}
	}
	return map[string]interface{}{
		"variants_tried": tried, "variants_fired": firedN, "variants_skipped": skipped, "variants_detail": detail,
	}
}

func cmdVariants(args []string) int {
	fs := flag.NewFlagSet("variants", flag.ExitOnError)
	prop := fs.String("prop", "", "property id (empty: all)")
	repo := fs.String("repo", "/repo", "")
	verif := fs.String("verif", "/verif", "")
	fs.Parse(args)
	var ids []string
	if *prop != "" {
		ids = []string{*prop}
	} else {
		seen := map[string]bool{}
		for _, v := range variants {
			if !seen[v.Prop] {
				seen[v.Prop] = true
				ids = append(ids, v.Prop)
			}
		}
		sort.Strings(ids)
	}
	bad := 0
	for _, id := range ids {
		for _, r := range runVariantSet(*repo, *verif, id) {
			fmt.Printf("%s %-40s %-16s expect=%s\n", id, r.ID, r.Outcome, r.Expect)
			if r.Outcome != "fired" {
				bad++
			}
		}
	}
	if bad > 0 {
		return 1
	}
	return 0
}

// cmdVariantsReal applies every variant to a real scratch worktree (outside /repo and
// /verif, removed immediately) and reports whether it compiles and passes the
// repository's own test suite, i.e. whether the mutant is invisible to the suite.
func cmdVariantsReal(args []string) int {
	fs := flag.NewFlagSet("variants-real", flag.ExitOnError)
	prop := fs.String("prop", "", "property id (empty: all)")
	repo := fs.String("repo", "/repo", "")
	fs.Parse(args)
	type res struct{ id, outcome string }
	var vs []Variant
	for _, v := range variants {
		if *prop == "" || v.Prop == *prop {
			vs = append(vs, v)
		}
	}
	out := make([]res, len(vs))
	sem := make(chan struct{}, 6)
	var wg sync.WaitGroup
	env := append(os.Environ(), "GOFLAGS=-mod=mod", "GOPROXY=off", "GOSUMDB=off", "GOTOOLCHAIN=local")
	for i, v := range vs {
		wg.Add(1)
		go func(i int, v Variant) {
			defer wg.Done()
			sem <- struct{}{}
			defer func() { <-sem }()
			ov, err := variantOverlay(*repo, v.Prop, v.ID)
			if err != nil {
				out[i] = res{v.ID, "skipped: " + err.Error()}
				return
			}
			wt := fmt.Sprintf("/tmp/gbv-vreal-%d-%d", os.Getpid(), i)
			if b, err := exec.Command("git", "-C", *repo, "worktree", "add", "-q", "--detach", wt, "HEAD").CombinedOutput(); err != nil {
				out[i] = res{v.ID, "worktree: " + string(b)}
				return
			}
			defer exec.Command("git", "-C", *repo, "worktree", "remove", "--force", wt).Run()
			for path, content := range ov {
				rel, _ := filepath.Rel(*repo, path)
				os.WriteFile(filepath.Join(wt, rel), content, 0o644)
			}
			c := exec.Command("go", "build", "./...")
			c.Dir, c.Env = wt, env
			if b, err := c.CombinedOutput(); err != nil {
				out[i] = res{v.ID, "does-not-build: " + firstLine(string(b))}
				return
			}
			c = exec.Command("go", "test", "-vet=off", "-count=1", "./...")
			c.Dir, c.Env = wt, env
			if b, err := c.CombinedOutput(); err != nil {
				out[i] = res{v.ID, "suite-fails: " + firstFail(string(b))}
				return
			}
			out[i] = res{v.ID, "builds+suite-passes"}
		}(i, v)
	}
	wg.Wait()
	n := 0
	for _, r := range out {
		fmt.Printf("%-44s %s\n", r.id, r.outcome)
		if r.outcome == "builds+suite-passes" {
			n++
		}
	}
	fmt.Printf("%d of %d variants build and pass the repository's suite\n", n, len(out))
	return 0
}

func firstLine(s string) string {
	if i := strings.Index(s, "\n"); i >= 0 {
		return s[:i]
	}
	return s
}

func firstFail(s string) string {
	for _, l := range strings.Split(s, "\n") {
		if strings.HasPrefix(l, "--- FAIL") {
			return l
		}
	}
	return firstLine(s)
}
