package main

import (
	"fmt"
	"go/token"
	"go/types"
	"sort"
	"strings"

	"golang.org/x/tools/go/ssa"
)

func init() {
	register("C02", propMeta{
		Explanation: "Decides the effect structure of the dispatch loop: (R1) the handler is called from exactly one instruction, inside the commit closure, " +
			"and neither closure value escapes; (R2) commit is called only from the XID / COMMIT / ROLLBACK arms (unguarded) and from the DDL, DML and rows arms under " +
			"the 'no BEGIN open' guard; (R3) per-arm effect table: which arms may touch the buffer, the open/closed flag, the format and the table cache, plus " +
			"required effects on every path of an arm (XID commits, BEGIN opens, ROLLBACK clears the buffer before committing, change arms append exactly to the buffer); " +
			"(R4) the commit closure delivers the current buffer, calls the handler on every path to success and resets buffer and flag only after acceptance; " +
			"begin installs a fresh buffer and clears the flag; (R5) statement classification is case-insensitive and total over the Statement* constants. " +
			"Not decided: tokenisation of unusual SQL text; that real masters emit only the modelled sequences.",
		Rule:        "instances = handler/closure call sites, state-cell writes attributed to dispatch arms by arm-label dataflow, required effects per arm, map keys of the classifier",
		Trusted:     commonTrusted,
		Assumptions: []string{"the analysers see non-test files only"},
	}, runC02)

	addVariants(
		Variant{ID: "c02-r4-begin-reuses-preallocated-buffer", Prop: "C02", File: "streamer.go",
			Old: "\tautocommit := true\n\n\tbegin := func() {", New: "\tautocommit := true\n\ttranBuf := make([]*StreamEvent, 0, 10)\n\n\tbegin := func() {",
			Old2: "\t\ttranEvents = make([]*StreamEvent, 0, 10)\n", New2: "\t\ttranEvents = tranBuf[:0]\n",
			Expect: "C02-R4 begin-write[buffer]"},
		Variant{ID: "c02-r2-rows-unguarded", Prop: "C02", File: "streamer.go",
			Old:    "\t\t\ttranEvents = append(tranEvents, tranEvent)\n\t\t\tif autocommit {\n\t\t\t\tif err = commit(ev); err != nil {\n\t\t\t\t\treturn pos, newError(err).msgf(\"parseEvents commit fail in UpdateRows event\")\n\t\t\t\t}\n\t\t\t}\n",
			New:    "\t\t\ttranEvents = append(tranEvents, tranEvent)\n\t\t\t{\n\t\t\t\tif err = commit(ev); err != nil {\n\t\t\t\t\treturn pos, newError(err).msgf(\"parseEvents commit fail in UpdateRows event\")\n\t\t\t\t}\n\t\t\t}\n",
			Expect: "C02-R2 commit-site@parser[arm=IsUpdateRows"},
		Variant{ID: "c02-r3-gtid-commits", Prop: "C02", File: "streamer.go",
			Old: "\t\tcase ev.IsGTID():\n", New: "\t\tcase ev.IsGTID():\n\t\t\tif !autocommit {\n\t\t\t\tif err = commit(ev); err != nil {\n\t\t\t\t\treturn pos, newError(err)\n\t\t\t\t}\n\t\t\t}\n",
			Expect: "C02-R2 commit-site@parser[arm=IsGTID"},
		Variant{ID: "c02-r3-rollback-keeps-buffer", Prop: "C02", File: "streamer.go",
			Old: "\t\t\tcase StatementRollback:\n\t\t\t\ttranEvents = nil\n", New: "\t\t\tcase StatementRollback:\n\t\t\t\tif autocommit {\n\t\t\t\t\ttranEvents = nil\n\t\t\t\t}\n",
			Expect: "C02-R3 required@parser[arm=Query/Rollback"},
		Variant{ID: "c02-r3-previous-gtids-clears", Prop: "C02", File: "streamer.go",
			Old: "\t\tcase ev.IsPreviousGTIDs():\n", New: "\t\tcase ev.IsPreviousGTIDs():\n\t\t\ttranEvents = nil\n",
			Expect: "C02-R3 buffer-write@parser[arm=IsPreviousGTIDs"},
		Variant{ID: "c02-r4-no-buffer-reset", Prop: "C02", File: "streamer.go",
			Old: "\t\tpos = next\n\t\ttranEvents = nil\n", New: "\t\tpos = next\n\t\tif autocommit {\n\t\t\ttranEvents = nil\n\t\t}\n",
			Expect: "C02-R4 reset@commit[buffer"},
		Variant{ID: "c02-r4-skip-empty", Prop: "C02", File: "streamer.go",
			Old: "\t\tnow := pos\n", New: "\t\tif len(tranEvents) == 0 && !autocommit {\n\t\t\tautocommit = true\n\t\t\treturn nil\n\t\t}\n\t\tnow := pos\n",
			Expect: "C02-R4 handler-on-success@commit"},
		Variant{ID: "c02-r5-case-sensitive", Prop: "C02", File: "mysql_types.go",
			Old: "statementPrefixes[strings.ToLower(sql)]", New: "statementPrefixes[strings.TrimSpace(sql)]",
			Expect: "C02-R5 fold@GetStatementCategory"},
		Variant{ID: "c02-r5-upper-key", Prop: "C02", File: "mysql_types.go",
			Old: "\"rollback\": StatementRollback,", New: "\"ROLLBACK\": StatementRollback,",
			Expect: "C02-R5 key@statementPrefixes"},
		Variant{ID: "c02-r1-handler-elsewhere", Prop: "C02", File: "streamer.go",
			Old:    "\t\t\ttranEvents = append(tranEvents, tranEvent)\n\t\t\tif autocommit {\n\t\t\t\tif err = commit(ev); err != nil {\n\t\t\t\t\treturn pos, newError(err).msgf(\"parseEvents commit fail in WriteRows event\")",
			New:    "\t\t\ttranEvents = append(tranEvents, tranEvent)\n\t\t\tif len(tranEvents) > 1000 {\n\t\t\t\t_ = s.sendTransaction(newTransaction(pos, pos, 0, tranEvents))\n\t\t\t}\n\t\t\tif autocommit {\n\t\t\t\tif err = commit(ev); err != nil {\n\t\t\t\t\treturn pos, newError(err).msgf(\"parseEvents commit fail in WriteRows event\")",
			Expect: "C02-R1 handler-call@"},
	)
}

var (
	unguardedCommitArms = map[string]bool{"IsXID": true, "Query/Commit": true, "Query/Rollback": true}
	changeArms          = map[string]bool{
		"IsWriteRows": true, "IsUpdateRows": true, "IsDeleteRows": true,
		"Query/Create": true, "Query/Alter": true, "Query/Drop": true, "Query/Rename": true, "Query/Truncate": true, "Query/Set": true,
		"Query/Insert": true, "Query/Update": true, "Query/Delete": true,
	}
)

func runC02(a *A) {
	r := resolveRolesG(a, "C02-R0", "pt")
	if r == nil {
		return
	}
	ar := armAnalysis(a.W, r)
	c02R1(a, r)
	c02R2(a, r, ar)
	c02R3(a, r, ar)
	c02R4(a, r)
	c02R5(a, r, ar)
}

func subset(as []string, allowed map[string]bool) bool {
	for _, x := range as {
		if !allowed[x] {
			return false
		}
	}
	return len(as) > 0
}

// R1: who may call the handler.
func c02R1(a *A, r *Roles) {
	const rule = "C02-R1"
	w := a.W
	n := 0
	for _, f := range w.srcFuncs(w.Root) {
		instrs(f, func(in ssa.Instruction) {
			c := callCommon(in)
			if c == nil {
				return
			}
			a.Calls++
			if c.IsInvoke() {
				return
			}
			t := c.Value.Type()
			isHandler := namedIs(t, rootPath, "SendTransactionFunc")
			if !isHandler {
				if sig, ok := t.Underlying().(*types.Signature); ok {
					if _, isFn := c.Value.(*ssa.Function); !isFn {
						if _, isMC := c.Value.(*ssa.MakeClosure); !isMC {
							if _, isB := c.Value.(*ssa.Builtin); !isB {
								hs := w.namedType(w.Root, "SendTransactionFunc").Underlying().(*types.Signature)
								isHandler = types.Identical(sig, hs)
							}
						}
					}
				}
			}
			if !isHandler {
				return
			}
			n++
			key := fmt.Sprintf("handler-call@%s#%d", f.Name(), n)
			_, isCall := in.(*ssa.Call)
			a.check(f == r.Commit && isCall, rule, key, w.posOf(in), "the handler is called synchronously in the commit closure",
				"the handler is called outside the commit closure (or via go/defer): a delivery that is not at a commit point")
		})
	}
	a.atLeast(rule, "handler-call@", 1)
	// loads of the handler field
	m := 0
	for _, f := range w.srcFuncs(w.Root) {
		instrs(f, func(in ssa.Instruction) {
			fa, ok := in.(*ssa.FieldAddr)
			if !ok || !isFieldAddrOf(fa, r.HandlerField) || fa.Referrers() == nil {
				return
			}
			for _, ref := range *fa.Referrers() {
				switch x := ref.(type) {
				case *ssa.UnOp:
					m++
					a.check(f == r.Commit, rule, fmt.Sprintf("handler-load@%s#%d", f.Name(), m), w.posOf(x),
						"handler loaded in the commit closure", "the handler value is read outside the commit closure")
				case *ssa.Store:
					m++
					a.check(f == r.Stream && x.Addr == ssa.Value(fa), rule, fmt.Sprintf("handler-store@%s#%d", f.Name(), m), w.posOf(x),
						"handler installed by Stream", "the handler field is written outside Stream")
				case *ssa.DebugRef:
				default:
					m++
					a.viol(rule, fmt.Sprintf("handler-addr@%s#%d", f.Name(), m), w.posOf(ref), "address of the handler field escapes (%T)", ref)
				}
			}
		})
	}
	// closure values used only as direct callees (methods of a state object: only ever called, by the parser)
	if r.StateT != nil {
		for name, fn := range map[string]*ssa.Function{"commit": r.Commit, "begin": r.Begin} {
			if fn == nil {
				continue
			}
			k := 0
			for _, f := range w.srcFuncs(w.Root) {
				instrs(f, func(in ssa.Instruction) {
					for _, op := range in.Operands(nil) {
						if op == nil || *op != ssa.Value(fn) {
							continue
						}
						k++
						key := fmt.Sprintf("closure-use@%s#%d", name, k)
						c, isCall := in.(*ssa.Call)
						okUse := isCall && c.Common().Value == ssa.Value(fn) && (f == r.Parser || f.Parent() == r.Parser)
						a.check(okUse, rule, key, w.posOf(in), "direct call from the parser", fmt.Sprintf("the %s method is used other than by a direct call from the parser (%T in %s): its call sites can no longer be enumerated", name, in, f.Name()))
					}
				})
			}
		}
	}
	for name, mc := range map[string]*ssa.MakeClosure{"commit": r.CommitMC, "begin": r.BeginMC} {
		if mc == nil {
			continue // no begin closure: BEGIN is handled in its arm (R3)
		}
		k := 0
		for _, ref := range *mc.Referrers() {
			k++
			key := fmt.Sprintf("closure-use@%s#%d", name, k)
			if c, ok := ref.(*ssa.Call); ok && c.Common().Value == ssa.Value(mc) {
				ok2 := true
				for _, arg := range c.Common().Args {
					if arg == ssa.Value(mc) {
						ok2 = false
					}
				}
				a.check(ok2, rule, key, w.posOf(ref), "direct call", "closure passed as an argument")
				continue
			}
			if _, ok := ref.(*ssa.DebugRef); ok {
				continue
			}
			a.viol(rule, key, w.posOf(ref), "the %s closure is stored, passed, deferred or started as a goroutine (%T): its call sites can no longer be enumerated", name, ref)
		}
	}
}

// R2: commit call sites and guards.
func c02R2(a *A, r *Roles, ar *Arms) {
	const rule = "C02-R2"
	n := map[string]int{}
	for _, c := range r.commitCalls() {
		lab := ar.label(c.Block())
		n[lab]++
		key := fmt.Sprintf("commit-site@parser[arm=%s#%d]", lab, n[lab])
		as := ar.set(c.Block())
		var stray, bare []string
		for _, l := range as {
			switch {
			case unguardedCommitArms[l]:
			case changeArms[l]:
				// on the paths of this arm the call must sit behind a passed test of the "no BEGIN open" flag
				if ar.unguarded(c.Block(), l) {
					bare = append(bare, l)
				}
			default:
				stray = append(stray, l)
			}
		}
		switch {
		case len(stray) > 0:
			a.viol(rule, key, a.W.posOf(c), "commit is called in arm %q, which is not a commit point: an ignorable or unrelated event delivers (and splits) the open transaction", strings.Join(stray, "|"))
		case len(bare) > 0:
			a.viol(rule, key, a.W.posOf(c), "a change logged inside BEGIN...COMMIT is delivered immediately: the commit call lost its 'no transaction open' guard in arm %s, so the transaction is split", strings.Join(bare, "|"))
		default:
			a.hold(rule, key, a.W.posOf(c), "commit point; change arms reach it only with no BEGIN open")
		}
	}
	a.atLeast(rule, "commit-site@parser", 3)
}

// classify a store to the buffer cell in the parser.
func bufferStoreKind(r *Roles, st *ssa.Store) (string, ssa.Value) {
	v := st.Val
	if isNilConst(v) {
		return "clear", nil
	}
	if c, ok := v.(*ssa.Call); ok && isBuiltin(c.Common(), "append") && len(c.Common().Args) == 2 {
		base := c.Common().Args[0]
		if r.Tran.isLoad(base) {
			// appended elements: a slice of a fresh array holding exactly one element
			return "append", c.Common().Args[1]
		}
	}
	return "other", nil
}

// appendedElems: the values a buffer append stores into its variadic array, as seen at the place of effect (a parameter
// of a helper method of the state object reads as the argument of the call).
func appendedElems(r *Roles, s cellStore) []ssa.Value {
	kind, elems := bufferStoreKind(r, s.Store)
	if kind != "append" {
		return nil
	}
	sl, ok := elems.(*ssa.Slice)
	if !ok {
		return nil
	}
	al, ok := sl.X.(*ssa.Alloc)
	if !ok {
		return nil
	}
	var out []ssa.Value
	for _, ref := range *al.Referrers() {
		if ia, ok := ref.(*ssa.IndexAddr); ok {
			for _, rr := range *ia.Referrers() {
				if st, ok := rr.(*ssa.Store); ok {
					v := resolve(st.Val)
					if p, isP := v.(*ssa.Parameter); isP && s.At != nil {
						for i, q := range s.Store.Parent().Params {
							if q == p && i < len(s.At.Common().Args) {
								v = resolve(s.At.Common().Args[i])
							}
						}
					}
					out = append(out, v)
				}
			}
		}
	}
	return out
}

// appendedCount returns the number of elements in the variadic slice arg of append, if known.
func appendedCount(v ssa.Value) int {
	sl, ok := v.(*ssa.Slice)
	if !ok {
		return -1
	}
	al, ok := sl.X.(*ssa.Alloc)
	if !ok {
		return -1
	}
	arr, ok := al.Type().(*types.Pointer).Elem().Underlying().(*types.Array)
	if !ok {
		return -1
	}
	return int(arr.Len())
}

func c02R3(a *A, r *Roles, ar *Arms) {
	const rule = "C02-R3"
	w := a.W
	head := r.LoopHead
	n := map[string]int{}
	nk := func(prefix, lab string) string {
		n[prefix+lab]++
		return fmt.Sprintf("%s@parser[arm=%s#%d]", prefix, lab, n[prefix+lab])
	}
	// begin calls (or, without a begin closure, the places where the parser itself marks a transaction open)
	beginBlocks := map[*ssa.BasicBlock]bool{}
	installBlocks := map[*ssa.BasicBlock]bool{}
	onlyBegin := map[string]bool{"Query/Begin": true}
	if r.Begin != nil {
		for _, c := range r.beginCalls() {
			lab := ar.label(c.Block())
			beginBlocks[c.Block()] = true
			installBlocks[c.Block()] = true
			a.check(subset(ar.set(c.Block()), onlyBegin), rule, nk("begin-site", lab), w.posOf(c),
				"BEGIN opens a transaction", "a transaction is opened (buffer replaced, flag cleared) by an event that is not BEGIN")
		}
	} else {
		for _, s := range r.Auto.stores() {
			if s.Fn != r.Parser {
				continue
			}
			if b, isC := constBool(s.val()); isC && !b {
				lab := ar.label(s.block())
				beginBlocks[s.block()] = true
				a.check(subset(ar.set(s.block()), onlyBegin), rule, nk("begin-site", lab), w.posOf(s.instr()),
					"BEGIN opens a transaction", "a transaction is opened (flag cleared) by an event that is not BEGIN")
			}
		}
	}
	// buffer writes in the parser
	appendBlocks := map[*ssa.BasicBlock]bool{}
	clearBlocks := map[*ssa.BasicBlock]bool{}
	for _, s := range r.Tran.stores() {
		if s.Fn != r.Parser {
			continue
		}
		lab := ar.label(s.block())
		as := ar.set(s.block())
		kind, elems := bufferStoreKind(r, s.Store)
		key := nk("buffer-write", lab)
		switch kind {
		case "append":
			cnt := appendedCount(elems)
			if subset(as, changeArms) && cnt == 1 {
				a.hold(rule, key, w.posOf(s.instr()), "one change appended")
				appendBlocks[s.block()] = true
			} else if !subset(as, changeArms) {
				a.viol(rule, key, w.posOf(s.instr()), "an event of arm %q appends to the transaction buffer; only DDL/DML statements and rows events carry changes", lab)
			} else {
				a.viol(rule, key, w.posOf(s.instr()), "a change arm appends %d elements to the buffer (expected exactly one per event)", cnt)
			}
		case "clear":
			if subset(as, map[string]bool{"Query/Rollback": true}) {
				a.hold(rule, key, w.posOf(s.instr()), "ROLLBACK drops the buffered changes")
				clearBlocks[s.block()] = true
			} else {
				a.viol(rule, key, w.posOf(s.instr()), "the transaction buffer is cleared in arm %q: buffered changes of an open transaction are lost", lab)
			}
		default:
			// a make, a literal, or what an in-package function returns when all its returns are one of those
			isMk := freshSlice(s.val(), 0) && !isNilConst(strip(s.val()))
			isSl := false
			if r.Begin == nil && (isSl || isMk) && subset(as, onlyBegin) {
				a.hold(rule, key, w.posOf(s.instr()), "BEGIN installs a fresh buffer")
				installBlocks[s.block()] = true
				break
			}
			a.viol(rule, key, w.posOf(s.instr()), "the transaction buffer is overwritten in arm %q with %s", lab, describe(s.val()))
		}
	}
	for i, u := range r.Tran.otherUses() {
		a.viol(rule, fmt.Sprintf("buffer-escape#%d", i+1), w.posOf(u), "the address of the transaction buffer escapes (%T)", u)
	}
	// flag writes in the parser
	for _, s := range r.Auto.stores() {
		if s.Fn != r.Parser {
			continue
		}
		lab := ar.label(s.block())
		b, isC := constBool(s.val())
		if r.Begin == nil && isC && !b && beginBlocks[s.block()] {
			continue // the BEGIN arm marking the transaction open (judged as a begin site above)
		}
		a.check(lab == "init" && isC && b, rule, nk("flag-write", lab), w.posOf(s.instr()), "flag initialised to 'no BEGIN open'",
			"the open/closed flag is written by the dispatch loop outside begin/commit")
	}
	for i, u := range r.Auto.otherUses() {
		a.viol(rule, fmt.Sprintf("flag-escape#%d", i+1), w.posOf(u), "the address of the open/closed flag escapes (%T)", u)
	}
	// format: only the format-description arm may change it
	if phi, ok := r.FormatPhi.(*ssa.Phi); ok && phi.Block() == head {
		for i, e := range phi.Edges {
			if e == ssa.Value(phi) {
				continue
			}
			pred := head.Preds[i]
			lab := ar.label(pred)
			if lab == "init" {
				continue
			}
			a.check(subset(ar.set(pred), map[string]bool{"raw.IsFormatDescription": true}), rule, nk("format-write", lab), w.posOf(lastInstr(pred)),
				"format replaced by a FORMAT_DESCRIPTION_EVENT", "the binlog format is replaced by an event that is not a format description")
		}
	} else {
		a.info(rule, "format-var", "-", "format is not a loop phi (%s); format-write rule skipped", describe(r.FormatPhi))
	}
	// table cache writes
	instrs(r.Parser, func(in ssa.Instruction) {
		mu, ok := in.(*ssa.MapUpdate)
		if !ok || mu.Map != r.Tables {
			return
		}
		lab := ar.label(mu.Block())
		a.check(subset(ar.set(mu.Block()), map[string]bool{"IsTableMap": true}), rule, nk("tablecache-write", lab), w.posOf(mu),
			"table cache updated by a TABLE_MAP_EVENT", "the table cache is updated by an event that is not a table map")
	})

	// required effects per arm: on every path from the arm's entry back to the loop head
	commitBlocks := map[*ssa.BasicBlock]bool{}
	for _, c := range r.commitCalls() {
		commitBlocks[c.Block()] = true
	}
	in := func(m map[*ssa.BasicBlock]bool) func(*ssa.BasicBlock) bool {
		return func(b *ssa.BasicBlock) bool { return m[b] }
	}
	autoFalseEdge := func(pred, b *ssa.BasicBlock, k int) bool {
		c, neg, ok := condVia(pred, b)
		return ok && r.Auto.isLoad(c) && (k == 1) != neg
	}
	req := func(arm, what string, entry *ssa.BasicBlock, stop func(*ssa.BasicBlock) bool, cut func(pred, b *ssa.BasicBlock, k int) bool, bad string) {
		key := fmt.Sprintf("required@parser[arm=%s,%s]", arm, what)
		ac := ar.armCut(arm)
		both := func(pred, b *ssa.BasicBlock, k int) bool {
			return ac(pred, b, k) || (cut != nil && cut(pred, b, k))
		}
		escapes := reachesAvoidingP(entry, head, stop, both)
		if stop(entry) {
			escapes = false
		}
		a.check(!escapes, rule, key, w.posOf(entry.Instrs[0]), "on every path of the arm", bad)
	}
	for _, p := range ar.Preds {
		switch {
		case p.Name == "IsXID" || p.Name == "Query/Commit":
			req(p.Name, "commit", p.Entry, in(commitBlocks), nil, "a commit event can pass without delivering the transaction")
		case p.Name == "Query/Begin":
			req(p.Name, "begin", p.Entry, in(beginBlocks), nil, "BEGIN can pass without opening a transaction")
			if r.Begin == nil {
				req(p.Name, "begin-buffer", p.Entry, in(installBlocks), nil, "BEGIN can pass without installing a fresh buffer: the changes of the new transaction are appended to (or lost with) a stale one")
			}
		case p.Name == "Query/Rollback":
			req(p.Name, "clear", p.Entry, in(clearBlocks), nil, "ROLLBACK can reach the commit without dropping the buffered changes: rolled-back changes are delivered")
			req(p.Name, "commit", p.Entry, in(commitBlocks), nil, "ROLLBACK can pass without delivering the empty transaction that advances the position")
			// order: the clear precedes the commit call
			for cb := range commitBlocks {
				if ar.of[cb]["Query/Rollback"] {
					early := reachesAvoidingP(p.Entry, cb, in(clearBlocks), ar.armCut(p.Name)) && !clearBlocks[p.Entry]
					a.check(!early, rule, "required@parser[arm=Query/Rollback,clear-before-commit]", w.posOf(cb.Instrs[0]),
						"buffer cleared before the commit call on every path", "the ROLLBACK arm can reach its commit call with the buffer intact")
				}
			}
		case changeArms[p.Name]:
			req(p.Name, "append", p.Entry, in(appendBlocks), nil, "a change event can pass without being buffered: the change is lost")
			req(p.Name, "commit-if-closed", p.Entry, in(commitBlocks), autoFalseEdge, "a change logged outside BEGIN...COMMIT can pass without being delivered as its own transaction")
		}
	}
	// arms present
	have := map[string]bool{}
	for _, p := range ar.Preds {
		have[p.Name] = true
	}
	for _, must := range []string{"IsXID", "Query/Begin", "Query/Commit", "Query/Rollback", "IsWriteRows", "IsUpdateRows", "IsDeleteRows", "Query/Insert", "Query/Create"} {
		if !have[must] {
			a.undecided(rule, "arm@"+must, "-", "dispatch arm %s not found in the parser", must)
		}
	}
	a.Extra["arms"] = ar.names()
}

// R4: state resets.
func c02R4(a *A, r *Roles) {
	const rule = "C02-R4"
	w := a.W
	hc := handlerCall(r)
	if !a.need(hc != nil, rule, "handler call in the commit closure") {
		return
	}
	edges := acceptedEdges(r, hc)
	if !a.need(len(edges) > 0, rule, "nil test of the handler's result") {
		return
	}
	accepted := func(b *ssa.BasicBlock) bool {
		for _, e := range edges {
			if edgeHolds(e[0].(*ssa.BasicBlock), e[1].(int), b) {
				return true
			}
		}
		return false
	}
	resetBlocks := map[string]map[*ssa.BasicBlock]bool{"buffer": {}, "flag": {}}
	n := 0
	for _, s := range r.Tran.stores() {
		if s.Fn != r.Commit {
			continue
		}
		n++
		key := fmt.Sprintf("commit-write[buffer#%d]", n)
		if isNilConst(s.val()) && accepted(s.block()) {
			resetBlocks["buffer"][s.block()] = true
			a.hold(rule, key, w.posOf(s.instr()), "buffer reset after acceptance")
		} else if isNilConst(s.val()) {
			a.viol(rule, key, w.posOf(s.instr()), "the buffer is dropped before the handler accepted it: a rejected transaction loses its changes")
		} else {
			a.viol(rule, key, w.posOf(s.instr()), "the commit closure overwrites the buffer with %s", describe(s.val()))
		}
	}
	for _, s := range r.Auto.stores() {
		if s.Fn != r.Commit {
			continue
		}
		n++
		key := fmt.Sprintf("commit-write[flag#%d]", n)
		b, isC := constBool(s.val())
		if isC && b && accepted(s.block()) {
			resetBlocks["flag"][s.block()] = true
			a.hold(rule, key, w.posOf(s.instr()), "flag reset after acceptance")
		} else {
			a.viol(rule, key, w.posOf(s.instr()), "the commit closure sets the open/closed flag to %s outside the accepted path", describe(s.val()))
		}
	}
	// every success return passes both resets and the handler call
	for i, ret := range returnsOf(r.Commit) {
		if len(ret.Results) != 1 || !isNilConst(ret.Results[0]) {
			continue
		}
		entry := r.Commit.Blocks[0]
		for _, what := range []string{"buffer", "flag"} {
			m := resetBlocks[what]
			esc := reachesAvoiding(entry, ret.Block(), func(b *ssa.BasicBlock) bool { return m[b] }, nil) && !m[entry] && !m[ret.Block()]
			a.check(!esc, rule, fmt.Sprintf("reset@commit[%s,ret#%d]", what, i+1), w.posOf(ret),
				"reset on every accepted path", "a successful commit can return without resetting the "+what+": the next transaction re-delivers or mis-groups changes")
		}
		hb := hc.Block()
		esc := reachesAvoiding(entry, ret.Block(), func(b *ssa.BasicBlock) bool { return b == hb }, nil) && entry != hb && ret.Block() != hb
		a.check(!esc, rule, fmt.Sprintf("handler-on-success@commit[ret#%d]", i+1), w.posOf(ret),
			"every successful commit called the handler", "the commit closure can report success without calling the handler: a commit point delivers nothing")
	}
	a.atLeast(rule, "reset@commit", 2)
	// delivered buffer = current buffer
	var nt *ssa.Call
	if len(hc.Common().Args) == 1 {
		nt, _ = resolve(hc.Common().Args[0]).(*ssa.Call)
	}
	if a.need(nt != nil && nt.Common().StaticCallee() != nil, rule, "transaction constructor call feeding the handler") {
		ok := false
		for _, arg := range nt.Common().Args {
			if r.Tran.isLoad(arg) {
				ok = true
			}
		}
		a.check(ok, rule, "delivered-buffer@commit", w.posOf(nt), "the handler receives the current buffer", "the delivered transaction is not built from the current buffer")
		a.touch(nt.Common().StaticCallee())
	}
	// begin closure (when BEGIN is handled in its arm instead, R3 requires both effects on every path of the arm)
	if r.Begin == nil {
		return
	}
	okBuf, okFlag := false, false
	for _, s := range r.Tran.stores() {
		if s.Fn == r.Begin {
			v := s.val()
			// a make, a literal, or an in-package constructor of one - not a window of a slice that lives on
			fresh := freshSlice(v, 0) && !isNilConst(strip(v)) && s.block().Dominates(returnsOf(r.Begin)[0].Block())
			a.check(fresh, rule, "begin-write[buffer]", w.posOf(s.instr()), "fresh buffer installed", "begin does not install a fresh buffer on every path")
			okBuf = okBuf || fresh
		}
	}
	for _, s := range r.Auto.stores() {
		if s.Fn == r.Begin {
			b, isC := constBool(s.val())
			good := isC && !b && s.block().Dominates(returnsOf(r.Begin)[0].Block())
			a.check(good, rule, "begin-write[flag]", w.posOf(s.instr()), "flag cleared", "begin does not mark the transaction open on every path")
			okFlag = okFlag || good
		}
	}
	if !okBuf {
		a.viol(rule, "begin-write[buffer]#missing", w.pos(r.Begin.Pos()), "begin never installs a fresh buffer")
	}
	if !okFlag {
		a.viol(rule, "begin-write[flag]#missing", w.pos(r.Begin.Pos()), "begin never marks the transaction open")
	}
}

// R5: case-insensitive, total classification.
func c02R5(a *A, r *Roles, ar *Arms) {
	const rule = "C02-R5"
	w := a.W
	gsc := w.fn(w.Root, "GetStatementCategory")
	if !a.need(gsc != nil, rule, "GetStatementCategory") {
		return
	}
	a.touch(gsc)
	var lookups []*ssa.Lookup
	foldsElsewhere := false
	instrs(gsc, func(in ssa.Instruction) {
		if l, ok := in.(*ssa.Lookup); ok {
			if _, isMap := l.X.Type().Underlying().(*types.Map); isMap {
				lookups = append(lookups, l)
			}
		}
		if c := callCommon(in); c != nil && staticCalleeIs(c, "strings.EqualFold") {
			foldsElsewhere = true
		}
	})
	if len(lookups) == 0 {
		// no table: the keyword is compared against string constants (a switch or an if-chain)
		c02R5Compare(a, ar, gsc, foldsElsewhere)
		return
	}
	var table *ssa.Global
	for i, l := range lookups {
		folded := derivesFromCall(l.Index, "strings.ToLower", 0) || derivesFromCall(l.Index, "strings.ToUpper", 0)
		a.check(folded || foldsElsewhere, rule, fmt.Sprintf("fold@GetStatementCategory#%d", i+1), w.posOf(l),
			"lookup key is case-folded", "the statement keyword is looked up without case folding: 'begin'/'Commit'/'ROLLBACK' in another letter case are not recognised as boundaries")
		if u, ok := l.X.(*ssa.UnOp); ok {
			if g, ok := u.X.(*ssa.Global); ok {
				table = g
			}
		}
	}
	if !a.need(table != nil, rule, "classifier table (package-level map)") {
		return
	}
	upper := false
	for _, l := range lookups {
		if derivesFromCall(l.Index, "strings.ToUpper", 0) {
			upper = true
		}
	}
	// keys and values of the table, from the package initialiser
	vals := map[int64]bool{}
	nkeys := 0
	initFn := w.Root.Func("init")
	instrs(initFn, func(in ssa.Instruction) {
		mu, ok := in.(*ssa.MapUpdate)
		if !ok {
			return
		}
		if !mapIsGlobal(mu.Map, table) {
			return
		}
		k, isS := constString(mu.Key)
		if !isS {
			a.undecided(rule, "key@"+table.Name()+"#nonconst", w.posOf(mu), "non-constant key")
			return
		}
		nkeys++
		want := strings.ToLower(k)
		if upper {
			want = strings.ToUpper(k)
		}
		a.check(k == want && !strings.ContainsAny(k, " \t"), rule, "key@"+table.Name()+"["+strings.ToLower(k)+"]", w.posOf(mu),
			"key is in the folded case", fmt.Sprintf("table key %q is not in the case the lookup folds to: this statement kind is never recognised", k))
		if v, ok := constInt(mu.Value); ok {
			vals[v] = true
		}
	})
	a.atLeast(rule, "key@"+table.Name(), 3)
	// totality: every Statement* constant except Unknown is a value, and has an arm
	var names []string
	for v, nm := range ar.stmt {
		if nm == "Unknown" {
			continue
		}
		names = append(names, nm)
		a.check(vals[v], rule, "classified@Statement"+nm, "-", "has a keyword", "no keyword maps to Statement"+nm+": such statements fall to 'unknown' and are dropped")
	}
	sort.Strings(names)
	have := map[string]bool{}
	for _, p := range ar.Preds {
		have[p.Name] = true
	}
	for _, nm := range names {
		a.check(have["Query/"+nm], rule, "dispatched@Statement"+nm, "-", "has a case in the parser", "Statement"+nm+" has no case in the parser's switch and silently falls to default")
	}
	_ = token.NoPos
}

// c02R5Compare: the classifier without a table - every comparison of the keyword with a constant uses a case-folded
// operand and a constant in that case; every Statement* kind is returned for some keyword and has a case in the parser.
func c02R5Compare(a *A, ar *Arms, gsc *ssa.Function, foldsElsewhere bool) {
	const rule = "C02-R5"
	w := a.W
	n := 0
	instrs(gsc, func(in ssa.Instruction) {
		bo, ok := in.(*ssa.BinOp)
		if !ok || bo.Op != token.EQL || !isStringType(bo.X.Type()) {
			return
		}
		var k string
		var other ssa.Value
		if s, isS := constString(bo.Y); isS {
			k, other = s, bo.X
		} else if s, isS := constString(bo.X); isS {
			k, other = s, bo.Y
		} else {
			return
		}
		if k == "" {
			return
		}
		n++
		lower := derivesFromCall(other, "strings.ToLower", 0)
		upper := derivesFromCall(other, "strings.ToUpper", 0)
		a.check(lower || upper || foldsElsewhere, rule, fmt.Sprintf("fold@GetStatementCategory#%d", n), w.posOf(bo),
			"compared keyword is case-folded", "the statement keyword is compared without case folding: 'begin'/'Commit'/'ROLLBACK' in another letter case are not recognised as boundaries")
		want := strings.ToLower(k)
		if upper {
			want = strings.ToUpper(k)
		}
		a.check(k == want && !strings.ContainsAny(k, " \t"), rule, "key@compare["+strings.ToLower(k)+"]", w.posOf(bo),
			"keyword constant is in the folded case", fmt.Sprintf("keyword %q is not in the case the comparison folds to: this statement kind is never recognised", k))
	})
	if !a.need(n >= 3, rule, "classifier map lookup or keyword comparisons") {
		return
	}
	// values the classifier can return
	vals := map[int64]bool{}
	var collect func(v ssa.Value, depth int)
	collect = func(v ssa.Value, depth int) {
		if depth > 6 {
			return
		}
		if k, ok := constInt(v); ok {
			vals[k] = true
			return
		}
		if phi, ok := v.(*ssa.Phi); ok {
			for _, e := range phi.Edges {
				collect(e, depth+1)
			}
		}
	}
	for _, ret := range returnsOf(gsc) {
		if len(ret.Results) > 0 {
			collect(ret.Results[0], 0)
		}
	}
	var names []string
	for v, nm := range ar.stmt {
		if nm == "Unknown" {
			continue
		}
		names = append(names, nm)
		a.check(vals[v], rule, "classified@Statement"+nm, "-", "has a keyword", "no keyword maps to Statement"+nm+": such statements fall to 'unknown' and are dropped")
	}
	sort.Strings(names)
	have := map[string]bool{}
	for _, p := range ar.Preds {
		have[p.Name] = true
	}
	for _, nm := range names {
		a.check(have["Query/"+nm], rule, "dispatched@Statement"+nm, "-", "has a case in the parser", "Statement"+nm+" has no case in the parser's switch and silently falls to default")
	}
}

// derivesFromCall: v is (through wrappers/phis/slicing) the result of a call to
// the named static function.
func derivesFromCall(v ssa.Value, full string, depth int) bool {
	if depth > 8 {
		return false
	}
	v = resolve(v)
	switch x := v.(type) {
	case *ssa.Call:
		if staticCalleeIs(x.Common(), full) {
			return true
		}
	case *ssa.Phi:
		for _, e := range x.Edges {
			if !derivesFromCall(e, full, depth+1) {
				return false
			}
		}
		return len(x.Edges) > 0
	case *ssa.Slice:
		return derivesFromCall(x.X, full, depth+1)
	case *ssa.Convert:
		return derivesFromCall(x.X, full, depth+1)
	}
	return false
}

// mapIsGlobal: m is the map stored into global g in the same init (m is the
// MakeMap whose value is stored to g), or a load of g.
func mapIsGlobal(m ssa.Value, g *ssa.Global) bool {
	if u, ok := m.(*ssa.UnOp); ok && u.X == ssa.Value(g) {
		return true
	}
	if refs := m.Referrers(); refs != nil {
		for _, r := range *refs {
			if st, ok := r.(*ssa.Store); ok && st.Addr == ssa.Value(g) && st.Val == m {
				return true
			}
		}
	}
	return false
}
