package main

import (
	"bufio"
	"encoding/json"
	"fmt"
	"os"
	"path/filepath"
	"regexp"
	"sort"
	"strings"
	"time"

	"golang.org/x/tools/go/ssa"
)

// Ob is one rule instance (obligation) decided by a run.
type Ob struct {
	Rule   string `json:"rule"`   // e.g. C04-R1
	Key    string `json:"key"`    // rule+construct key, e.g. ret-pos@parser[arm=IsXID#1]
	Pos    string `json:"pos"`    // file:line in /repo
	Status string `json:"status"` // holds | violated | undecided | info
	Detail string `json:"detail,omitempty"`
}

// A is the analysis context of one property check.
type A struct {
	W     *World
	Prop  string
	Tier  string
	Obs   []*Ob
	Funcs map[string]bool // functions analysed
	Calls int             // call sites inspected
	Evals int             // extra evaluations (specialisations etc.)
	Notes []string
	Extra map[string]interface{}

	exhaustive bool
}

func newA(w *World, prop, tier string) *A {
	return &A{W: w, Prop: prop, Tier: tier, Funcs: map[string]bool{}, Extra: map[string]interface{}{}}
}

func (a *A) touch(fns ...*ssa.Function) {
	for _, f := range fns {
		if f != nil {
			a.Funcs[fnName(f)] = true
		}
	}
}

func (a *A) add(rule, key, pos, status, detail string) *Ob {
	o := &Ob{Rule: rule, Key: key, Pos: pos, Status: status, Detail: detail}
	a.Obs = append(a.Obs, o)
	return o
}

func (a *A) hold(rule, key, pos, format string, args ...interface{}) {
	a.add(rule, key, pos, "holds", fmt.Sprintf(format, args...))
}

func (a *A) viol(rule, key, pos, format string, args ...interface{}) {
	a.add(rule, key, pos, "violated", fmt.Sprintf(format, args...))
}

// undecided marks an instance whose shape the rule does not recognise. It fails
// the check (fail closed).
func (a *A) undecided(rule, key, pos, format string, args ...interface{}) {
	a.add(rule, key, pos, "undecided", fmt.Sprintf(format, args...))
}

func (a *A) info(rule, key, pos, format string, args ...interface{}) {
	a.add(rule, key, pos, "info", fmt.Sprintf(format, args...))
}

// check is hold-or-viol on a boolean.
func (a *A) check(ok bool, rule, key, pos, okMsg, badMsg string) bool {
	if ok {
		a.hold(rule, key, pos, "%s", okMsg)
	} else {
		a.viol(rule, key, pos, "%s", badMsg)
	}
	return ok
}

// need reports an anchor that must resolve. Returns false if it did not.
func (a *A) need(ok bool, rule, what string) bool {
	if !ok {
		a.undecided(rule, "anchor@"+what, "-", "anchor does not resolve: %s (renamed, removed, or shape not recognised)", what)
	}
	return ok
}

// include runs the rules of another property on the same program and keeps the instances of the named rules
// (all of them when keep is nil for a rule id; otherwise those whose key keep accepts). A property uses it for
// rules decided elsewhere that are necessary conditions of its own statement. Anchor failures (rule "<prop>-R0")
// of the included property are kept as well: an unresolved anchor leaves the included rules undecided.
// Included rules always run at the quick tier.
func (a *A) include(prop string, rules map[string]func(key string) bool) {
	def := props[prop]
	if def == nil {
		a.undecided(a.Prop+"-R0", "include@"+prop, "-", "included property is not registered")
		return
	}
	b := newA(a.W, prop, "quick")
	def.run(b)
	n := 0
	for _, o := range b.Obs {
		keep, named := rules[o.Rule]
		if rules == nil && !strings.HasSuffix(o.Rule, "-R0") && strings.HasPrefix(o.Rule, prop+"-") {
			named = true // the whole property
		}
		if named && (o.Status == "holds" || o.Status == "violated") {
			n++ // vacuity is judged before the key filter: a violated sibling instance is not "nothing decided"
		}
		switch {
		case named && (keep == nil || keep(o.Key) || (o.Status == "undecided" && strings.HasPrefix(o.Key, "count@"))):
			a.Obs = append(a.Obs, o)
		case o.Rule == prop+"-R0" && o.Status != "holds" && o.Status != "info":
			a.Obs = append(a.Obs, o)
		}
	}
	for f := range b.Funcs {
		a.Funcs[f] = true
	}
	a.Calls += b.Calls
	a.Evals += b.Evals
	if n == 0 {
		a.undecided(a.Prop+"-R0", "include@"+prop, "-", "no instance of the included rules of %s was decided", prop)
	}
	var ids []string
	for r := range rules {
		ids = append(ids, r)
	}
	sort.Strings(ids)
	if rules == nil {
		ids = []string{"all rules of " + prop}
	}
	a.Notes = append(a.Notes, fmt.Sprintf("includes %s (necessary conditions decided by the rules of %s, quick tier)", strings.Join(ids, ", "), prop))
}

// atLeast is the vacuity guard: a rule must have decided at least n instances
// whose key starts with prefix.
func (a *A) atLeast(rule, prefix string, n int) {
	c := 0
	for _, o := range a.Obs {
		if o.Rule == rule && strings.HasPrefix(o.Key, prefix) && (o.Status == "holds" || o.Status == "violated") {
			c++
		}
	}
	if c < n {
		a.undecided(rule, "count@"+prefix, "-", "rule matched %d instance(s) of %q, expected at least %d: the construct this rule inspects was not found", c, prefix, n)
	}
}

// ---- known findings --------------------------------------------------------

type knownFinding struct {
	Prop, Key, Text string
}

var kfRe = regexp.MustCompile(`^finding:\s+property=(\S+)\s+key=(\S+)\s+(.*)$`)

func loadKnownFindings(verifDir string) []knownFinding {
	f, err := os.Open(filepath.Join(verifDir, "KNOWN_FINDINGS.txt"))
	if err != nil {
		return nil
	}
	defer f.Close()
	var out []knownFinding
	sc := bufio.NewScanner(f)
	sc.Buffer(make([]byte, 1<<20), 1<<20)
	for sc.Scan() {
		line := strings.TrimSpace(sc.Text())
		if m := kfRe.FindStringSubmatch(line); m != nil {
			out = append(out, knownFinding{m[1], m[2], m[3]})
		}
	}
	return out
}

// ---- finishing a run ---------------------------------------------------------

type propMeta struct {
	ID          string
	Explanation string
	Rule        string
	Trusted     []string
	Assumptions []string
}

var safeRe = regexp.MustCompile(`[^A-Za-z0-9_.=@#,\[\]-]+`)

func (a *A) finish(verifDir string, meta propMeta, t0 time.Time, writeEvidence bool, variants map[string]interface{}) int {
	kfs := loadKnownFindings(verifDir)
	sort.SliceStable(a.Obs, func(i, j int) bool {
		if a.Obs[i].Rule != a.Obs[j].Rule {
			return a.Obs[i].Rule < a.Obs[j].Rule
		}
		return a.Obs[i].Key < a.Obs[j].Key
	})
	obligations, discharged, nviol := 0, 0, 0
	distinct := map[string]bool{}
	var known []string
	var violObs []*Ob
	for _, o := range a.Obs {
		if o.Status == "info" {
			continue
		}
		obligations++
		distinct[o.Rule+"|"+o.Key] = true
		switch o.Status {
		case "holds":
			discharged++
		default:
			isKnown := false
			for _, k := range kfs {
				if k.Prop == a.Prop && k.Key == o.Rule+"/"+o.Key {
					isKnown = true
					known = append(known, fmt.Sprintf("property=%s key=%s %s", a.Prop, k.Key, k.Text))
				}
			}
			if !isKnown {
				nviol++
				violObs = append(violObs, o)
			}
		}
	}
	// print what was analysed
	fmt.Printf("== %s tier=%s packages=%d functions=%d call_sites=%d obligations=%d discharged=%d evaluations=%d\n",
		a.Prop, a.Tier, a.W.NPkgs, len(a.Funcs), a.Calls, obligations, discharged, a.Evals+obligations)
	byRule := map[string][3]int{}
	var rules []string
	for _, o := range a.Obs {
		if o.Status == "info" {
			continue
		}
		c, ok := byRule[o.Rule]
		if !ok {
			rules = append(rules, o.Rule)
		}
		c[0]++
		if o.Status == "holds" {
			c[1]++
		} else {
			c[2]++
		}
		byRule[o.Rule] = c
	}
	sort.Strings(rules)
	for _, r := range rules {
		c := byRule[r]
		fmt.Printf("   %-10s instances=%d holds=%d not-holding=%d\n", r, c[0], c[1], c[2])
	}
	for _, n := range a.Notes {
		fmt.Printf("   note: %s\n", n)
	}
	if listObs {
		for _, o := range a.Obs {
			fmt.Printf("   . %s %s [%s] %s %s\n", o.Rule, o.Key, o.Status, o.Pos, o.Detail)
		}
	}
	for _, k := range known {
		fmt.Printf("KNOWN-FINDING: %s\n", k)
	}
	vdir := filepath.Join(verifDir, "out", "violations", a.Prop)
	if writeEvidence {
		os.RemoveAll(vdir)
	}
	for _, o := range violObs {
		fmt.Printf("%s: %s %s [%s] %s\n", o.Pos, o.Rule, o.Key, o.Status, o.Detail)
		path := filepath.Join(vdir, safeRe.ReplaceAllString(o.Rule+"__"+o.Key, "_")+".json")
		if writeEvidence {
			os.MkdirAll(vdir, 0o755)
			b, _ := json.MarshalIndent(map[string]interface{}{
				"property": a.Prop, "rule": o.Rule, "key": o.Key, "pos": o.Pos, "status": o.Status, "detail": o.Detail,
				"repo": a.W.RepoDir, "tier": a.Tier,
			}, "", " ")
			os.WriteFile(path, b, 0o644)
		}
		fmt.Printf("VIOLATION property=%s replay=%s\n", a.Prop, path)
	}
	if writeEvidence {
		a.writeEvidence(verifDir, meta, t0, obligations, discharged, len(distinct), nviol, known, variants)
	}
	if nviol > 0 {
		return 1
	}
	return 0
}

func (a *A) writeEvidence(verifDir string, meta propMeta, t0 time.Time, obligations, discharged, distinct, nviol int, known []string, variants map[string]interface{}) {
	seed := 0
	if s := os.Getenv("VERIF_SEED"); s != "" {
		fmt.Sscanf(s, "%d", &seed)
	}
	// samples: up to 40 instance records, spread over the rules
	var samples []interface{}
	perRule := map[string]int{}
	for _, o := range a.Obs {
		if o.Status == "info" && perRule[o.Rule] >= 3 {
			continue
		}
		if perRule[o.Rule] >= 6 && o.Status == "holds" {
			continue
		}
		perRule[o.Rule]++
		samples = append(samples, o)
		if len(samples) >= 120 {
			break
		}
	}
	var fns []string
	for f := range a.Funcs {
		fns = append(fns, f)
	}
	sort.Strings(fns)
	cov := map[string]interface{}{
		"explanation":         strings.TrimSpace(meta.Explanation + " " + explainMore[a.Prop]),
		"rule":                meta.Rule,
		"obligations":         obligations,
		"discharged":          discharged,
		"evaluations":         a.Evals + obligations,
		"distinct_nontrivial": distinct,
		"samples":             samples,
		"functions_analysed":  fns,
		"call_sites":          a.Calls,
		"packages":            a.W.NPkgs,
		"checker_cmd":         fmt.Sprintf("./gbv.sh check %s %s", a.Prop, a.Tier),
		"trusted_base":        meta.Trusted,
		"known_findings":      known,
		"notes":               a.Notes,
	}
	if a.exhaustive {
		cov["exhaustive"] = true
	}
	// distinct cases: rule instances plus distinct (non-trivial) specialisations counted by the engines
	if dc, ok := a.Extra["distinct_cases"].(int); ok && dc > 0 {
		cov["distinct_nontrivial"] = distinct + dc
	}
	for k, v := range a.Extra {
		cov[k] = v
	}
	for k, v := range variants {
		cov[k] = v
	}
	ev := map[string]interface{}{
		"property_id": a.Prop,
		"tier":        a.Tier,
		"seed":        seed,
		"level":       "other",
		"coverage":    cov,
		"assumptions": meta.Assumptions,
		"wall_s":      time.Since(t0).Seconds(),
		"violations":  nviol,
	}
	os.MkdirAll(filepath.Join(verifDir, "evidence"), 0o755)
	b, _ := json.MarshalIndent(ev, "", " ")
	if err := os.WriteFile(filepath.Join(verifDir, "evidence", a.Prop+".json"), b, 0o644); err != nil {
		infra("write evidence: %v", err)
	}
}

// clean: every decided instance holds (known findings aside).
func (a *A) clean(verifDir string) bool {
	kfs := loadKnownFindings(verifDir)
	for _, o := range a.Obs {
		if o.Status == "holds" || o.Status == "info" {
			continue
		}
		known := false
		for _, k := range kfs {
			if k.Prop == a.Prop && k.Key == o.Rule+"/"+o.Key {
				known = true
			}
		}
		if !known {
			return false
		}
	}
	return true
}
