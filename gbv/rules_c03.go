package main

import (
	"fmt"
	"go/types"
	"sort"

	"golang.org/x/tools/go/ssa"
)

func init() {
	register("C03", propMeta{
		Explanation: "Decides how the two labels are computed and that they chain: (R1) the commit closure labels the transaction with now = the position cell's value " +
			"on entry and next = {same file, Offset = NextPosition() of the commit event itself, no arithmetic}, and the constructor stores parameter 0 into NowPosition and 1 into " +
			"NextPosition; (R2) on the accepted path the cell becomes exactly that next value; (R3) every commit call passes the stripped event of the current iteration; " +
			"(R4) the rotate arm stores Rotate()'s file and offset of the current event; (R5) every conversion on the offset chains is width-preserving for 32-bit offsets " +
			"(uint32->int64, uint64->int64, int64->uint32 only). Together with C02-R3/C04-R3 (only commit and rotate write the cell) this is the label chain. " +
			"Not decided: that resuming at a label makes the master serve exactly the remaining transactions; any concrete history.",
		Rule:        "instances = label arguments of the transaction constructor, cell value at the accepted exit, commit call arguments, rotate-arm stores, conversions on the offset chains",
		Trusted:     commonTrusted,
		Assumptions: []string{"the analysers see non-test files only"},
	}, runC03)

	addVariants(
		Variant{ID: "c03-r1-swapped-labels", Prop: "C03", File: "streamer.go",
			Old: "newTransaction(now, next, int64(ev.Timestamp()), tranEvents)", New: "newTransaction(next, now, int64(ev.Timestamp()), tranEvents)",
			Expect: "C03-R1 label-now@commit"},
		Variant{ID: "c03-r1-ctor-swap", Prop: "C03", File: "transaction.go",
			Old: "\t\tNowPosition:  now,\n\t\tNextPosition: next,\n\t\tTimestamp:    timestamp,\n\t\tEvents:       events,", New: "\t\tNowPosition:  next,\n\t\tNextPosition: now,\n\t\tTimestamp:    timestamp,\n\t\tEvents:       events,",
			Expect: "C03-R1 ctor-field@newTransaction"},
		Variant{ID: "c03-r1-offset-arith", Prop: "C03", File: "streamer.go",
			Old: "\t\tnext.Offset = ev.NextPosition()\n", New: "\t\tnext.Offset = ev.NextPosition() + int64(len(tranEvents))*0 + 4\n",
			Expect: "C03-R1 label-next@commit[Offset]"},
		Variant{ID: "c03-r3-raw-event", Prop: "C03", File: "streamer.go",
			Old: "\t\tev, _, err = ev.StripChecksum(format)\n", New: "\t\traw := ev\n\t\tev, _, err = ev.StripChecksum(format)\n",
			Old2: "\t\t\tif err = commit(ev); err != nil {\n\t\t\t\treturn pos, newError(err).msgf(\"parseEvents commit fail in XID event\")", New2: "\t\t\tif err = commit(raw); err != nil {\n\t\t\t\treturn pos, newError(err).msgf(\"parseEvents commit fail in XID event\")",
			Expect: "C03-R3 commit-arg@parser[arm=IsXID"},
		Variant{ID: "c03-r4-rotate-offset-dropped", Prop: "C03", File: "streamer.go",
			Old: "\t\t\tpos.Filename = filename\n\t\t\tpos.Offset = offset\n", New: "\t\t\tpos.Filename = filename\n\t\t\tpos.Offset = 4\n\t\t\t_ = offset\n",
			Expect: "C03-R4 rotate@parser[Offset]"},
		Variant{ID: "c03-r4-skip-fake-rotate", Prop: "C03", File: "streamer.go",
			Old: "\t\t\tpos.Filename = filename\n\t\t\tpos.Offset = offset\n", New: "\t\t\tif ev.Timestamp() == 0 {\n\t\t\t\tcontinue\n\t\t\t}\n\t\t\tpos.Filename = filename\n\t\t\tpos.Offset = offset\n",
			Expect: "C03-R4 rotate-required@parser"},
		Variant{ID: "c03-r5-int32-hop", Prop: "C03", File: "replication/binlog_event_common.go",
			Old: "return int64(binary.LittleEndian.Uint32(ev.Bytes()[13 : 13+4]))", New: "return int64(int32(binary.LittleEndian.Uint32(ev.Bytes()[13 : 13+4])))",
			Expect: "C03-R5 conv@"},
		Variant{ID: "c03-r2-stale-file", Prop: "C03", File: "streamer.go",
			Old: "\t\tpos = next\n", New: "\t\tpos.Offset = next.Offset + 0*now.Offset\n",
			Expect: "C03-R2 exit-pos@commit"},
	)
}

func runC03(a *A) {
	r := resolveRolesG(a, "C03-R0", "pt")
	if r == nil {
		return
	}
	ar := armAnalysis(a.W, r)
	c03R1R2(a, r)
	c03R3(a, r, ar)
	c03R4(a, r, ar)
	c03R5(a, r)
}

// isNextPositionOf: v is `invoke ev.NextPosition()` on the closure's own parameter.
func isMethodOf(v ssa.Value, recv ssa.Value, method string) bool {
	c, ok := v.(*ssa.Call)
	return ok && c.Common().IsInvoke() && c.Common().Method.Name() == method && c.Common().Value == recv
}

func c03R1R2(a *A, r *Roles) {
	const rule = "C03-R1"
	w := a.W
	hc := handlerCall(r)
	if !a.need(hc != nil && len(hc.Common().Args) == 1, rule, "handler call") {
		return
	}
	nt, _ := resolve(hc.Common().Args[0]).(*ssa.Call)
	if !a.need(nt != nil && nt.Common().StaticCallee() != nil, rule, "transaction constructor call") {
		return
	}
	ctor := nt.Common().StaticCallee()
	a.touch(ctor)
	// which constructor parameters land in NowPosition / NextPosition
	paramOf := map[string]int{}
	instrs(ctor, func(in ssa.Instruction) {
		st, ok := in.(*ssa.Store)
		if !ok {
			return
		}
		fa, ok := st.Addr.(*ssa.FieldAddr)
		if !ok || !typeIs(fa.X.Type(), rootPath, "Transaction") {
			return
		}
		if p, ok := resolve(st.Val).(*ssa.Parameter); ok {
			for i, q := range ctor.Params {
				if q == p {
					paramOf[fieldName(fa)] = i
				}
			}
		} else {
			paramOf[fieldName(fa)] = -1
		}
	})
	var posArgs []int
	for i, p := range ctor.Params {
		if namedIs(p.Type(), rootPath, "Position") {
			posArgs = append(posArgs, i)
		}
	}
	if !a.need(len(posArgs) == 2, rule, "two Position parameters of the transaction constructor") {
		return
	}
	nowIdx, okN := paramOf["NowPosition"]
	nextIdx, okX := paramOf["NextPosition"]
	a.check(okN && okX && nowIdx == posArgs[0] && nextIdx == posArgs[1], rule, "ctor-field@"+ctor.Name(), w.pos(ctor.Pos()),
		"parameter 0 -> NowPosition, parameter 1 -> NextPosition",
		fmt.Sprintf("the constructor stores parameter %d into NowPosition and %d into NextPosition (labels swapped or not stored)", nowIdx, nextIdx))
	evIdx, okE := paramOf["Events"]
	if okE {
		a.check(evIdx >= 0 && types.Identical(ctor.Params[evIdx].Type(), r.Tran.elemType()), rule, "ctor-field@"+ctor.Name()+"[Events]", w.pos(ctor.Pos()),
			"events parameter -> Events", "the constructor does not store its events parameter into Events")
	}
	args := nt.Common().Args
	nowArg, nextArg := args[posArgs[0]], args[posArgs[1]]

	// now = the cell's value at closure entry
	nowF := fieldsOfValue(nowArg, 0)
	okNow := len(nowF) > 0
	for _, f := range []string{"Filename", "Offset"} {
		s := nowF[f]
		if !(s.Entry != nil && r.Pos.isAddr(s.Entry)) {
			okNow = false
		}
	}
	a.check(okNow, rule, "label-now@commit", w.posOf(nt), "now = position cell at closure entry",
		fmt.Sprintf("the start label is not the position cell's value on entry (Filename<-%s, Offset<-%s): labels no longer chain", nowF["Filename"], nowF["Offset"]))
	// next = {entry file, NextPosition() of own parameter}
	nextF := fieldsOfValue(nextArg, 0)
	fs := nextF["Filename"]
	a.check(fs.Entry != nil && r.Pos.isAddr(fs.Entry), rule, "label-next@commit[Filename]", w.posOf(nt), "next.Filename = current file",
		fmt.Sprintf("the end label's file is %s, not the current file", fs))
	os := nextF["Offset"]
	evParam := ssa.Value(nil)
	for _, p := range r.Commit.Params {
		if namedIs(p.Type(), replPath, "BinlogEvent") {
			evParam = p
		}
	}
	okOff := os.Val != nil && evParam != nil && isMethodOf(os.Val, evParam, "NextPosition")
	a.check(okOff, rule, "label-next@commit[Offset]", w.posOf(nt), "next.Offset = NextPosition() of the commit event, no arithmetic",
		fmt.Sprintf("the end label's offset is %s, not the commit event's own next-position field: the label is not the end offset of the commit event", os))

	// R2: at the accepted exit the cell equals next
	const rule2 = "C03-R2"
	cellAddr := r.Pos.addrIn(r.Commit)
	n := 0
	for _, ret := range returnsOf(r.Commit) {
		if len(ret.Results) != 1 || !isNilConst(ret.Results[0]) {
			continue
		}
		n++
		exitF := fieldsAt(cellAddr, ret.Block(), len(ret.Block().Instrs)-1, 0)
		ok := true
		var why string
		for _, f := range []string{"Filename", "Offset"} {
			if !exitF[f].same(nextF[f]) {
				ok = false
				why += fmt.Sprintf(" %s: cell<-%s label<-%s;", f, exitF[f], nextF[f])
			}
		}
		a.check(ok, rule2, fmt.Sprintf("exit-pos@commit[ret#%d]", n), w.posOf(ret), "after acceptance the cell holds exactly the delivered end label",
			"after an accepted transaction the position cell differs from the delivered end label:"+why+" the next start label does not equal this end label")
	}
	a.atLeast(rule2, "exit-pos@commit", 1)
	// timestamp of the transaction = Timestamp() of the commit event
	for i, p := range ctor.Params {
		if b, ok := p.Type().Underlying().(*types.Basic); ok && b.Kind() == types.Int64 {
			cs, org := convsBack(args[i])
			_ = cs
			a.check(evParam != nil && isMethodOf(org, evParam, "Timestamp"), "C03-R1", "label-timestamp@commit", w.posOf(nt),
				"transaction timestamp = Timestamp() of the commit event", "the transaction timestamp is not taken from the commit event")
		}
	}
}

func c03R3(a *A, r *Roles, ar *Arms) {
	const rule = "C03-R3"
	n := map[string]int{}
	for _, c := range r.commitCalls() {
		if len(c.Common().Args) < 1 {
			continue
		}
		lab := ar.label(c.Block())
		n[lab]++
		key := fmt.Sprintf("commit-arg@parser[arm=%s#%d]", lab, n[lab])
		// the event argument: the one of type BinlogEvent (commit may take more, e.g. a name for its error text)
		argv := c.Common().Args[len(c.Common().Args)-1]
		for _, x := range c.Common().Args {
			if namedIs(x.Type(), replPath, "BinlogEvent") {
				argv = x
			}
		}
		arg := resolve(argv)
		a.check(arg == r.StrippedEv, rule, key, a.W.posOf(c), "commit receives the stripped event of this iteration",
			fmt.Sprintf("commit is called with %s instead of the checksum-stripped event being dispatched: the end label is read from another event", describe(arg)))
	}
	a.atLeast(rule, "commit-arg@parser", 3)
}

func c03R4(a *A, r *Roles, ar *Arms) {
	const rule = "C03-R4"
	w := a.W
	var rot *ssa.Call
	instrs(r.Parser, func(in ssa.Instruction) {
		if c, ok := in.(*ssa.Call); ok && c.Common().IsInvoke() && c.Common().Method.Name() == "Rotate" {
			rot = c
		}
	})
	if !a.need(rot != nil, rule, "Rotate call in the parser") {
		return
	}
	a.check(rot.Common().Value == r.StrippedEv && len(rot.Common().Args) == 1 && r.isFormat(rot.Common().Args[0]), rule, "rotate-call@parser", w.posOf(rot),
		"Rotate(format) on the stripped event", "Rotate is not called on the stripped current event with the current format")
	want := map[string]int{"Filename": 0, "Offset": 1}
	seen := map[string]bool{}
	// the stores of the arm, field by field; a store of a whole Position value built in the arm (`pos = Position{...}`,
	// possibly through a local) counts as a store of each of its fields
	type fstore struct {
		field string
		val   ssa.Value
		blk   *ssa.BasicBlock
		in    ssa.Instruction
	}
	var fstores []fstore
	for _, s := range r.Pos.stores() {
		if s.Fn != r.Parser || !ar.of[s.block()]["IsRotate"] {
			continue
		}
		if _, known := want[s.Field]; !known && s.val() != nil {
			fs := fieldsOfValue(strip(s.val()), 0)
			if fs["Filename"].Val != nil && fs["Offset"].Val != nil {
				for f := range want {
					fstores = append(fstores, fstore{f, fs[f].Val, s.block(), s.instr()})
				}
				continue
			}
		}
		fstores = append(fstores, fstore{s.Field, s.val(), s.block(), s.instr()})
	}
	sort.SliceStable(fstores, func(i, j int) bool { return fstores[i].field < fstores[j].field })
	for _, s := range fstores {
		idx, known := want[s.field]
		if !known {
			a.viol(rule, "rotate@parser["+s.field+"]", w.posOf(s.in), "rotate arm stores the whole cell or an unknown field")
			continue
		}
		_, org := convsBack(s.val)
		ex, ok := org.(*ssa.Extract)
		good := ok && ex.Tuple == ssa.Value(rot) && ex.Index == idx
		seen[s.field] = seen[s.field] || good
		a.check(good, rule, "rotate@parser["+s.field+"]", w.posOf(s.in), fmt.Sprintf("pos.%s = Rotate() result %d", s.field, idx),
			fmt.Sprintf("after a rotation pos.%s is %s, not the rotate event's field: later labels point into the wrong file/offset", s.field, describe(org)))
	}
	// both stores on every non-error path of the arm
	storeBlk := map[string]map[*ssa.BasicBlock]bool{"Filename": {}, "Offset": {}}
	for _, s := range fstores {
		if storeBlk[s.field] != nil {
			storeBlk[s.field][s.blk] = true
		}
	}
	for _, p := range ar.Preds {
		if p.Name != "IsRotate" {
			continue
		}
		for _, f := range []string{"Filename", "Offset"} {
			m := storeBlk[f]
			esc := reachesAvoiding(p.Entry, r.LoopHead, func(b *ssa.BasicBlock) bool { return m[b] }, nil) && !m[p.Entry]
			a.check(!esc, rule, "rotate-required@parser["+f+"]", w.posOf(p.Entry.Instrs[0]), "every rotate event that decodes moves pos."+f,
				"a ROTATE event can pass without updating pos."+f+" (skipped on some condition): when it is the only announcement of the new file (fake rotate after a master restart) all later labels and the resume position name the old file")
		}
	}
	for f := range want {
		if !seen[f] {
			a.viol(rule, "rotate@parser["+f+"]#missing", w.posOf(rot), "the rotate arm does not store Rotate()'s "+f+" into the position cell")
		}
	}
}

var okConv = map[string]bool{"uint32->int64": true, "uint64->int64": true, "int64->uint32": true}

func c03R5(a *A, r *Roles) {
	const rule = "C03-R5"
	w := a.W
	n := 0
	checkConvs := func(where string, cs []*ssa.Convert) {
		for _, c := range cs {
			n++
			k := c.X.Type().Underlying().String() + "->" + c.Type().Underlying().String()
			a.check(okConv[k], rule, fmt.Sprintf("conv@%s[%s]#%d", where, k, n), w.posOf(c), "width-preserving for 32-bit offsets",
				"conversion "+k+" on the binlog offset chain truncates or sign-flips offsets above 2^31")
		}
	}
	// NextPosition and Rotate implementations in the replication package
	for _, meth := range []string{"NextPosition", "Rotate"} {
		f := w.method(w.Repl, "binlogEvent", meth)
		if !a.need(f != nil, rule, "binlogEvent."+meth) {
			continue
		}
		a.touch(f)
		for _, ret := range returnsOf(f) {
			for i, res := range ret.Results {
				if b, ok := res.Type().Underlying().(*types.Basic); !ok || b.Kind() != types.Int64 {
					continue
				}
				cs, org := convsBack(res)
				if _, isC := org.(*ssa.Const); isC {
					continue
				}
				_ = i
				checkConvs(meth, cs)
				// origin must be an unsigned little-endian read of the header/body
				oc, isCall := org.(*ssa.Call)
				okOrg := isCall && oc.Common().StaticCallee() != nil && (oc.Common().StaticCallee().Name() == "Uint32" || oc.Common().StaticCallee().Name() == "Uint64")
				if isCall && !okOrg {
					// an in-package reader helper: its own result chain must be an unsigned read, and its conversions count too
					if cal := oc.Common().StaticCallee(); cal != nil && cal.Pkg == w.Repl && cal.Blocks != nil {
						okOrg = true
						for _, r2 := range returnsOf(cal) {
							cs2, org2 := convsBack(r2.Results[0])
							checkConvs(meth+"/"+cal.Name(), cs2)
							c2, isC2 := org2.(*ssa.Call)
							if !(isC2 && c2.Common().StaticCallee() != nil && c2.Common().StaticCallee().Pkg != nil && c2.Common().StaticCallee().Pkg.Pkg.Path() == "encoding/binary" &&
								(c2.Common().StaticCallee().Name() == "Uint32" || c2.Common().StaticCallee().Name() == "Uint64")) {
								okOrg = false
							}
						}
					}
				}
				a.check(okOrg, rule, "origin@"+meth, w.posOf(ret), "offset read as an unsigned integer", "offset derives from "+describe(org)+", not an unsigned read")
			}
		}
	}
	// dump request: uint32(pos.Offset)
	instrs(r.StartDump, func(in ssa.Instruction) {
		c := callCommon(in)
		if c == nil || !isInvokeOf(c, "NoticeDump") || len(c.Args) < 2 {
			return
		}
		cs, _ := convsBack(c.Args[1])
		checkConvs("NoticeDump", cs)
	})
	// label computation and rotate stores: collect conversions on the way
	for _, s := range r.Pos.stores() {
		if s.Field == "Offset" {
			cs, _ := convsBack(s.val())
			checkConvs("pos.Offset", cs)
		}
	}
	a.atLeast(rule, "conv@", 2)
}
