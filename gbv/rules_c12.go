package main

import (
	"fmt"
	"regexp"
	"strings"

	"golang.org/x/tools/go/ssa"
)

func init() {
	register("C12", propMeta{
		Explanation: "Field-extraction arithmetic on arbitrary values is a runtime quantity; decided are: (R1) the consumed length per fractional precision equals the length rule's (C09-R2); (R2) for TIMESTAMP2 / " +
			"DATETIME2 / TIME2 under fsp = m the only reachable fraction format prints exactly m digits ('.%0md' or '.%.md'), none is reachable for m = 0, and (TIMESTAMP2/DATETIME2) the fraction argument is the " +
			"big-endian read of (m+1)/2 bytes right after the integer part, divided by 10 for odd m; (R3) TIMESTAMP text is rendered from time.Unix(v,0) without UTC()/In(): the process's local zone; the zero " +
			"timestamp is the literal 0000-00-00 00:00:00; (R4) canonical value terms of the fixed-layout cases equal the documented packed layouts: DATE (day = bits 0-4, month = bits 5-8, year = bits 9+ of a " +
			"3-byte little-endian integer, '%04d-%02d-%02d'), DATETIME (decimal-packed YYYYMMDDhhmmss in 8 little-endian bytes), DATETIME2 (5 big-endian bytes minus 0x8000000000: 17 bits hms, 5 bits day, " +
			"month/year = ym mod/div 13), TIMESTAMP (4 little-endian bytes) and TIMESTAMP2 (4 big-endian bytes) seconds, TIME2 (sign string, then hour = bits 12-21, minute = bits 6-11, second = bits 0-5 of 3 big-endian bytes minus 0x800000, each with the minimum-width verb %02d). " +
			"Not decided: TIME (pre-5.6.4) arithmetic and TIME2's sign/borrow handling (reading found that the pre-5.6.4 TIME case mis-renders negative values; a sound static rule for it needs a relational numeric domain, see DESIGN C12), rendering of out-of-range fields.",
		Rule:        "instances = (type, fsp) specialisations x {reachable fraction formats, fraction argument term, layout value terms}",
		Trusted:     append([]string{"fmt verb semantics, time.Unix / Time.Date / Time.Clock", "H-sccp / H-term"}, commonTrusted...),
		Assumptions: []string{"canonical terms are compared syntactically after normalisation; an algebraically different but equivalent extraction needs a table update"},
	}, runC12)

	addVariants(
		Variant{ID: "c12-r2-datetime2-digits", Prop: "C12", File: "replication/binlog_event_rbr.go",
			Old: "\t\t\tdecimals := int(data[pos+5])<<8 +\n\t\t\t\tint(data[pos+6])\n\t\t\tfmt.Fprintf(txt, \".%03d\", decimals/10)", New: "\t\t\tdecimals := int(data[pos+5])<<8 +\n\t\t\t\tint(data[pos+6])\n\t\t\tfmt.Fprintf(txt, \".%04d\", decimals/10)",
			Expect: "C12-R2 fraction@TypeDateTime2[fsp=3]"},
		Variant{ID: "c12-r2-timestamp2-no-div", Prop: "C12", File: "replication/binlog_event_rbr.go",
			Old: "\t\t\tdecimals := int(data[pos+4])<<16 +\n\t\t\t\tint(data[pos+5])<<8 +\n\t\t\t\tint(data[pos+6])\n\t\t\tfmt.Fprintf(txt, \".%05d\", decimals/10)", New: "\t\t\tdecimals := int(data[pos+4])<<16 +\n\t\t\t\tint(data[pos+5])<<8 +\n\t\t\t\tint(data[pos+6])\n\t\t\tfmt.Fprintf(txt, \".%05d\", decimals)",
			Expect: "C12-R2 fraction@TypeTimestamp2[fsp=5]"},
		Variant{ID: "c12-r2-time2-digits", Prop: "C12", File: "replication/binlog_event_rbr.go",
			Old: "fracStr = fmt.Sprintf(\".%.4d\", frac)", New: "fracStr = fmt.Sprintf(\".%.3d\", frac)",
			Expect: "C12-R2 fraction@TypeTime2[fsp=4]"},
		Variant{ID: "c12-r3-utc", Prop: "C12", File: "replication/binlog_event_rbr.go",
			Old: "t := time.Unix(int64(v), 0).Local()", New: "t := time.Unix(int64(v), 0).UTC()",
			Expect: "C12-R3 zone@printTimestamp"},
		Variant{ID: "c12-r4-date-month-mask", Prop: "C12", File: "replication/binlog_event_rbr.go",
			Old: "\t\tmonth := val >> 5 & 15\n\t\tyear := val >> 9", New: "\t\tmonth := val >> 5 & 31\n\t\tyear := val >> 9",
			Expect: "C12-R4 value@TypeDate"},
		Variant{ID: "c12-r4-datetime2-swap", Prop: "C12", File: "replication/binlog_event_rbr.go",
			Old: "\t\tmonth := ym % 13\n\t\tyear := ym / 13\n\n\t\tsecond := hms % (1 << 6)", New: "\t\tmonth := ym % 12\n\t\tyear := ym / 12\n\n\t\tsecond := hms % (1 << 6)",
			Expect: "C12-R4 value@TypeDateTime2"},
		Variant{ID: "c12-r4-time2-hour-bits", Prop: "C12", File: "replication/binlog_event_rbr.go",
			Old: "\t\thour := (hms >> 12) % (1 << 10)\n\t\tminute := (hms >> 6) % (1 << 6)\n\t\tsecond := hms % (1 << 6)\n\t\treturn []byte(fmt.Sprintf(\"%v%02d", New: "\t\thour := (hms >> 12) % (1 << 5)\n\t\tminute := (hms >> 6) % (1 << 6)\n\t\tsecond := hms % (1 << 6)\n\t\treturn []byte(fmt.Sprintf(\"%v%02d",
			Expect: "C12-R4 value@TypeTime2"},
		Variant{ID: "c12-r4-timestamp2-endian", Prop: "C12", File: "replication/binlog_event_rbr.go",
			Old: "\tcase TypeTimestamp2:\n\t\tsecond := binary.BigEndian.Uint32(data[pos : pos+4])", New: "\tcase TypeTimestamp2:\n\t\tsecond := binary.LittleEndian.Uint32(data[pos : pos+4])",
			Expect: "C12-R4 value@TypeTimestamp2"},
	)
}

var fracVerb = regexp.MustCompile(`^\.%(0|\.)([0-9])d$`)

func runC12(a *A) {
	cd := resolveCodec(a, "C12-R0")
	if cd == nil {
		return
	}
	w := a.W
	byName := map[string]int64{}
	for v, n := range cd.typeName {
		byName[n] = v
	}
	// R2
	base := map[string]int64{"TypeTimestamp2": 4, "TypeDateTime2": 5, "TypeTime2": 3}
	for _, tn := range []string{"TypeTimestamp2", "TypeDateTime2", "TypeTime2"} {
		for m := int64(0); m <= 6; m++ {
			s := spec{byName[tn], m}
			rv := cd.specVal(s)
			a.Evals++
			t := newTB(rv)
			t.names[cd.valFn.Params[0]] = "data"
			t.names[cd.valFn.Params[1]] = "pos"
			// fraction writes: printf items (format starts with ".") among the writes of the returned text buffer, helpers
			// inlined; plus Sprintf calls in the decoder itself
			var fmts, args []string
			var pos string
			seenBuf := map[ssa.Value]bool{}
			for _, ret := range successReturns(rv, 2) {
				c, ok := ret.Results[0].(*ssa.Call)
				if !ok || !staticCalleeIs(c.Common(), "(*bytes.Buffer).Bytes") {
					continue
				}
				buf := strip(c.Common().Args[0])
				if seenBuf[buf] {
					continue
				}
				seenBuf[buf] = true
				_, items := bufferWriteList(t, rv, buf, 0)
				for _, it := range items {
					if it.Kind == "printf" && strings.HasPrefix(it.Format, ".") {
						fmts = append(fmts, it.Format)
						args = append(args, strings.Join(it.Args, ","))
						pos = w.posOf(it.In)
					}
				}
			}
			instrs(rv.Fn, func(in ssa.Instruction) {
				c, ok := in.(*ssa.Call)
				if !ok || !rv.Exec[c.Block()] || !staticCalleeIs(c.Common(), "fmt.Sprintf") {
					return
				}
				f, _ := constString(c.Common().Args[0])
				if !strings.HasPrefix(f, ".") {
					return
				}
				parts := strings.SplitN(fmtArgs(t, rv, c.Common().Args, 0, 0), ",", 2)
				rest := ""
				if len(parts) == 2 {
					rest = parts[1]
				}
				f, rest = starWidth(f, rest)
				fmts = append(fmts, f)
				if rest != "" {
					args = append(args, rest)
				}
				pos = w.posOf(c)
			})
			key := fmt.Sprintf("fraction@%s[fsp=%d]", tn, m)
			if pos == "" {
				pos = w.pos(cd.valFn.Pos())
			}
			if m == 0 {
				a.check(len(fmts) == 0, "C12-R2", key, pos, "no fraction printed", fmt.Sprintf("fsp 0 but a fraction format %v is reachable", fmts))
				continue
			}
			ok := len(fmts) == 1
			if ok {
				mm := fracVerb.FindStringSubmatch(fmts[0])
				ok = mm != nil && mm[2] == fmt.Sprint(m)
			}
			if !ok {
				a.viol("C12-R2", key, pos, "%s with %d fractional digits prints its fraction with %v; exactly %d digits need '.%%0%dd'", tn, m, fmts, m, m)
				continue
			}
			if tn == "TypeTime2" {
				// the stored fraction of an odd precision carries one extra digit; it is dropped (divided by ten) after the
				// two's-complement borrow for negative values, i.e. as the last step - and never for even precisions
				arg := ""
				if len(args) == 1 {
					arg = args[0]
				}
				nDiv := strings.Count(arg, "(/ ")
				okDiv := nDiv == 0
				if m%2 == 1 {
					okDiv = nDiv == 1 && strings.HasPrefix(arg, "(/ ") && strings.HasSuffix(arg, " 10)")
				}
				a.check(len(args) == 1 && okDiv, "C12-R2", key, pos, fmt.Sprintf("prints %d fraction digits (%s) of %s", m, fmts[0], arg),
					fmt.Sprintf("TIME(%d): the fraction printed is %v; the extra digit of an odd precision must be dropped last (after the borrow for negative values), and even precisions print the stored value as it is", m, args))
				continue
			}
			k := (m + 1) / 2
			src := fmt.Sprintf("BE(%d,data[pos+%d])", k, base[tn])
			if k == 1 {
				src = fmt.Sprintf("data[pos+%d]", base[tn])
			}
			want := src
			if m%2 == 1 {
				want = "(/ " + src + " 10)"
			}
			a.check(len(args) == 1 && args[0] == want, "C12-R2", key, pos, fmt.Sprintf("prints %d digits of %s", m, want),
				fmt.Sprintf("%s fsp %d: the fraction printed is %v; the stored fraction is %s (big-endian, %d byte(s) after the %d-byte integer part; odd precisions store one extra digit)", tn, m, args, want, k, base[tn]))
		}
	}
	// R3: zone
	pt := w.fn(w.Repl, "printTimestamp")
	if a.need(pt != nil, "C12-R3", "printTimestamp") {
		a.touch(pt)
		var bad []string
		unix := false
		instrs(pt, func(in ssa.Instruction) {
			c, ok := in.(*ssa.Call)
			if !ok {
				return
			}
			f := c.Common().StaticCallee()
			if f == nil {
				return
			}
			switch f.String() {
			case "(time.Time).UTC", "(time.Time).In":
				bad = append(bad, f.Name())
			case "time.Unix":
				if k, ok := constInt(c.Common().Args[1]); ok && k == 0 {
					_, org := convsBack(c.Common().Args[0])
					if org == ssa.Value(pt.Params[0]) {
						unix = true
					}
				}
			}
		})
		a.check(len(bad) == 0 && unix, "C12-R3", "zone@printTimestamp", w.pos(pt.Pos()), "time.Unix(v,0) rendered in the process's local zone", fmt.Sprintf("TIMESTAMP text is not rendered from time.Unix(v,0) in the local zone (zone calls: %v, unix ok: %v)", bad, unix))
		// zero literal and format
		okZero, okFmt := false, false
		instrs(pt, func(in ssa.Instruction) {
			if c, ok := in.(*ssa.Call); ok && staticCalleeIs(c.Common(), "fmt.Fprintf") {
				f, _ := constString(c.Common().Args[1])
				okFmt = f == "%04d-%02d-%02d %02d:%02d:%02d"
			}
			// the same rendering through the time package's reference layout
			if c, ok := in.(*ssa.Call); ok && (staticCalleeIs(c.Common(), "(time.Time).Format") || staticCalleeIs(c.Common(), "(time.Time).AppendFormat")) {
				layout, _ := constString(c.Common().Args[len(c.Common().Args)-1])
				if l := resolve(c.Common().Args[len(c.Common().Args)-1]); layout == "" {
					layout, _ = constString(l)
				}
				if layout == "2006-01-02 15:04:05" {
					okFmt = true
				}
			}
		})
		zt := w.Repl.Var("ZeroTimestamp")
		if zt != nil {
			instrs(w.Repl.Func("init"), func(in ssa.Instruction) {
				if st, ok := in.(*ssa.Store); ok && st.Addr == ssa.Value(zt) {
					if cv, ok := st.Val.(*ssa.Convert); ok {
						s, _ := constString(cv.X)
						okZero = s == "0000-00-00 00:00:00"
					}
				}
			})
		}
		a.check(okZero, "C12-R3", "zero@printTimestamp", w.pos(pt.Pos()), "zero timestamp literal is 0000-00-00 00:00:00", "the zero timestamp literal is not 0000-00-00 00:00:00")
		a.check(okFmt, "C12-R3", "format@printTimestamp", w.pos(pt.Pos()), "YYYY-MM-DD HH:MM:SS with zero padding", "the timestamp format is not %04d-%02d-%02d %02d:%02d:%02d over six fields")
		// fields in order: Date() then Clock() results 0,1,2
		c12TimestampFields(a, pt)
	}
	// R4: layouts
	c12Time2Layout(a, cd, byName["TypeTime2"])
	v := "LE(3,data[pos])"
	dt := "LE(8,data[pos])"
	d2 := "BE(5,data[pos])-549755813888"
	checkValueSpecs(a, cd, []valueSpec{
		{"TypeDate", []int64{-1}, "C12-R4", map[string]string{"": `bytes(Sprintf("%04d-%02d-%02d",(>> ` + v + ` 9),(& (>> ` + v + ` 5) 15),(& 31 ` + v + `)))`}, "DATE: 3 little-endian bytes, day bits 0-4, month bits 5-8, year bits 9+"},
		{"TypeNewDate", []int64{-1}, "C12-R4", map[string]string{"": `bytes(Sprintf("%04d-%02d-%02d",(>> ` + v + ` 9),(& (>> ` + v + ` 5) 15),(& 31 ` + v + `)))`}, "NEWDATE: as DATE"},
		{"TypeDateTime", []int64{-1}, "C12-R4", map[string]string{"": `bytes(Sprintf("%04d-%02d-%02d %02d:%02d:%02d",(/ (/ ` + dt + ` 1000000) 10000),(/ (% (/ ` + dt + ` 1000000) 10000) 100),(% (/ ` + dt + ` 1000000) 100),(/ (% ` + dt + ` 1000000) 10000),(/ (% (% ` + dt + ` 1000000) 10000) 100),(% (% ` + dt + ` 1000000) 100)))`}, "DATETIME: decimal-packed YYYYMMDDhhmmss in 8 little-endian bytes"},
		{"TypeTimestamp", []int64{-1}, "C12-R4", map[string]string{"": "buf{<-printTimestamp(LE(4,data[pos])): }"}, "TIMESTAMP: seconds in 4 little-endian bytes"},
		{"TypeTimestamp2", []int64{0}, "C12-R4", map[string]string{"": "buf{<-printTimestamp(BE(4,data[pos])): }"}, "TIMESTAMP2: seconds in 4 big-endian bytes"},
		{"TypeDateTime2", []int64{0}, "C12-R4", map[string]string{"": `buf{<-new: printf("%04d-%02d-%02d %02d:%02d:%02d",(/ (>> (>> ` + d2 + ` 17) 5) 13),(% (>> (>> ` + d2 + ` 17) 5) 13),(& (>> ` + d2 + ` 17) 31),(>> (& 131071 ` + d2 + `) 12),(& (>> (& 131071 ` + d2 + `) 6) 63),(& (& 131071 ` + d2 + `) 63))}`}, "DATETIME2: 5 big-endian bytes minus 0x8000000000; hms = low 17 bits, day = next 5 bits, ym above (year = ym/13, month = ym%13)"},
	})
}

// abstractPhis replaces every balanced phi{...} by the placeholder Φ.
func abstractPhis(s string) string {
	var out strings.Builder
	for i := 0; i < len(s); {
		if strings.HasPrefix(s[i:], "phi{") {
			depth := 0
			j := i + 3
			for ; j < len(s); j++ {
				if s[j] == '{' {
					depth++
				} else if s[j] == '}' {
					depth--
					if depth == 0 {
						break
					}
				}
			}
			out.WriteString("Φ")
			i = j + 1
			continue
		}
		out.WriteByte(s[i])
		i++
	}
	return out.String()
}

// c12Time2Layout: TIME2 = sign, then hour (10 bits), minute (6 bits), second (6 bits) of the 3 big-endian bytes minus 0x800000,
// each printed with %02d (a minimum width, so hours up to 838 keep all their digits), then the fraction string.
func c12Time2Layout(a *A, cd *codec, typ int64) {
	w := a.W
	for m := int64(0); m <= 6; m++ {
		rv := cd.specVal(spec{typ, m})
		a.Evals++
		key := fmt.Sprintf("value@TypeTime2[fsp=%d]", m)
		rets := successReturns(rv, 2)
		if len(rets) != 1 {
			a.undecided("C12-R4", key, w.pos(cd.valFn.Pos()), "%d success returns", len(rets))
			continue
		}
		full := valueTerm(cd, rv, rets[0].Results[0])
		got := abstractPhis(full)
		want := `bytes(Sprintf("%v%02d:%02d:%02d%v",Φ,(% (>> Φ 12) 1024),(% (>> Φ 6) 64),(% Φ 64),`
		okSrc := strings.Contains(full, "BE(3,data[pos])-8388608")
		a.check(strings.HasPrefix(got, want) && okSrc, "C12-R4", key, w.posOf(rets[0]), "sign, hour = bits 12-21, minute = bits 6-11, second = bits 0-5 of BE(3)-0x800000, each %02d, then the fraction",
			fmt.Sprintf("TIME2 is rendered as %s; the documented layout is sign + %%02d:%%02d:%%02d of (hms>>12)%%1024, (hms>>6)%%64, hms%%64 with hms = BE(3,data[pos])-0x800000 (hours up to 838 need a minimum-width verb)", got))
	}
}

// c12TimestampFields: the six printed fields are year, int(month), day from Date() and hour, minute, second from Clock() of one time value.
func c12TimestampFields(a *A, pt *ssa.Function) {
	w := a.W
	var fp *ssa.Call
	instrs(pt, func(in ssa.Instruction) {
		if c, ok := in.(*ssa.Call); ok && staticCalleeIs(c.Common(), "fmt.Fprintf") {
			fp = c
		}
	})
	if fp == nil {
		return
	}
	sl, ok := fp.Common().Args[2].(*ssa.Slice)
	if !ok {
		return
	}
	al, ok := sl.X.(*ssa.Alloc)
	if !ok {
		return
	}
	got := map[int64]string{}
	for _, ref := range *al.Referrers() {
		ia, ok := ref.(*ssa.IndexAddr)
		if !ok {
			continue
		}
		k, _ := constInt(ia.Index)
		for _, rr := range *ia.Referrers() {
			st, ok := rr.(*ssa.Store)
			if !ok {
				continue
			}
			_, org := convsBack(strip(st.Val))
			if ex, ok := org.(*ssa.Extract); ok {
				if c, ok := ex.Tuple.(*ssa.Call); ok && c.Common().StaticCallee() != nil {
					got[k] = fmt.Sprintf("%s#%d", c.Common().StaticCallee().Name(), ex.Index)
				}
			}
		}
	}
	want := []string{"Date#0", "Date#1", "Date#2", "Clock#0", "Clock#1", "Clock#2"}
	ok = len(got) == 6
	for i, x := range want {
		if got[int64(i)] != x {
			ok = false
		}
	}
	a.check(ok, "C12-R3", "fields@printTimestamp", w.posOf(fp), "year, month, day, hour, minute, second in this order", fmt.Sprintf("the printed fields are %v, expected %v", got, want))
}
