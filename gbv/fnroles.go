package main

import (
	"go/constant"
	"go/types"
	"regexp"
	"strings"

	"golang.org/x/tools/go/ssa"
)

// Role-based lookup of unexported package-level functions. The rules name them as they are called on the pinned tree;
// nothing stops a maintainer from renaming an unexported function, so when the name is gone the function is found again by
// what identifies it: a signature that is unique in its package, or - for the binary-JSON printers, which share one
// signature - the type code the value dispatcher sends to it.

// sigKey renders a signature without parameter names, e.g. "([]byte,int,int)->(replication.Bitmap,int)".
func sigKey(sig *types.Signature) string {
	var ps, rs []string
	for i := 0; i < sig.Params().Len(); i++ {
		ps = append(ps, types.TypeString(sig.Params().At(i).Type(), shortQual))
	}
	for i := 0; i < sig.Results().Len(); i++ {
		rs = append(rs, types.TypeString(sig.Results().At(i).Type(), shortQual))
	}
	return byteRe.ReplaceAllString("("+strings.Join(ps, ",")+")->("+strings.Join(rs, ",")+")", "uint8")
}

var byteRe = regexp.MustCompile(`\bbyte\b`)

func shortQual(p *types.Package) string { return p.Name() }

// roleSignatures: the signature that identifies each function (unique among the non-method functions of its package on
// the pinned tree; checked again when used).
var roleSignatures = map[string]string{
	"metadataLength":      "(uint8)->(int)",
	"metadataRead":        "([]uint8,int,uint8)->(uint16,int,error)",
	"metadataWrite":       "([]uint8,int,uint8,uint16)->(int)",
	"newBitmap":           "([]uint8,int,int)->(replication.Bitmap,int)",
	"printTimestamp":      "(uint32)->(*bytes.Buffer)",
	"readLenEncInt":       "([]uint8,int)->(uint64,int,bool)",
	"readOffsetOrSize":    "([]uint8,int,bool)->(int,int)",
	"readVariableLength":  "([]uint8,int)->(int,int)",
	"printJSONValue":      "(uint8,[]uint8,bool,*bytes.Buffer)->(error)",
	"printJSONValueEntry": "([]uint8,int,bool,*bytes.Buffer)->(error)",
	"printJSONLiteral":    "(uint8,bool,*bytes.Buffer)->(error)",
	"newColumnData":       "(string,gobinlog.ColumnType,bool)->(*gobinlog.ColumnData)",
	"newRowData":          "(int)->(*gobinlog.RowData)",
	"newStreamEvent":      "(gobinlog.StatementType,int64,gobinlog.MysqlTableName)->(*gobinlog.StreamEvent)",
	"newTransaction":      "(gobinlog.Position,gobinlog.Position,int64,[]*gobinlog.StreamEvent)->(*gobinlog.Transaction)",
}

// jsonPrinterCodes: MySQL's binary-JSON type codes (json_binary.cc) -> the printer the rules call by that name.
var jsonPrinterCodes = map[string]int64{
	"printJSONInt16": 5, "printJSONUint16": 6, "printJSONInt32": 7, "printJSONUint32": 8, "printJSONInt64": 9,
	"printJSONUint64": 10, "printJSONDouble": 11, "printJSONOpaque": 15,
}

// jsonOpaqueCodes: the MySQL field type of an opaque value -> its printer.
var jsonOpaqueCodes = map[string]int64{"printJSONDate": 10, "printJSONTime": 11, "printJSONDateTime": 12}

func (w *World) fnByRole(pkg *ssa.Package, name string) *ssa.Function {
	if want, ok := roleSignatures[name]; ok {
		var found []*ssa.Function
		for _, m := range pkg.Members {
			f, isF := m.(*ssa.Function)
			if !isF || f.Blocks == nil || f.Signature.Recv() != nil || f.Synthetic != "" {
				continue
			}
			if sigKey(f.Signature) == want {
				found = append(found, f)
			}
		}
		if len(found) == 1 {
			return found[0]
		}
		if len(found) == 0 {
			// "convert between a method and a plain function": the function may have become a value-receiver method of a
			// named type over its first parameter's type - receiver plus parameters then read like the old signature
			for _, m := range pkg.Members {
				tn, isT := m.(*ssa.Type)
				if !isT {
					continue
				}
				ms := w.Prog.MethodSets.MethodSet(tn.Type())
				for i := 0; i < ms.Len(); i++ {
					f := w.Prog.MethodValue(ms.At(i))
					if f == nil || f.Blocks == nil || f.Synthetic != "" || f.Pkg != pkg || f.Signature.Recv() == nil {
						continue
					}
					var ps []*types.Var
					ps = append(ps, types.NewVar(0, nil, "", f.Signature.Recv().Type().Underlying()))
					for j := 0; j < f.Signature.Params().Len(); j++ {
						ps = append(ps, f.Signature.Params().At(j))
					}
					flat := types.NewSignatureType(nil, nil, nil, types.NewTuple(ps...), f.Signature.Results(), f.Signature.Variadic())
					if sigKey(flat) == want {
						found = append(found, f)
					}
				}
			}
			if len(found) == 1 {
				return found[0]
			}
		}
		return nil
	}
	if fam, ok := map[string]string{"getValuesFromRow": "Data", "getIdentifiesFromRow": "Identify"}[name]; ok {
		// the two image decoders share a signature; each reads its own image field of the row
		var found []*ssa.Function
		for _, m := range pkg.Members {
			f, isF := m.(*ssa.Function)
			if !isF || f.Blocks == nil || f.Signature.Recv() != nil || sigKey(f.Signature) != "(*gobinlog.tableCache,*replication.Rows,int)->(*gobinlog.RowData,error)" {
				continue
			}
			reads := map[string]bool{}
			instrs(f, func(in ssa.Instruction) {
				if fa, ok := in.(*ssa.FieldAddr); ok && typeIs(fa.X.Type(), replPath, "Row") {
					if n := fieldName(fa); n == "Data" || n == "Identify" {
						reads[n] = true
					}
				}
			})
			if len(reads) == 1 && reads[fam] {
				found = append(found, f)
			}
		}
		if len(found) == 1 {
			return found[0]
		}
		return nil
	}
	if kind, ok := map[string]string{"appendInsertEventFromRows": "StatementInsert", "appendUpdateEventFromRows": "StatementUpdate", "appendDeleteEventFromRows": "StatementDelete"}[name]; ok {
		// the three rows-event conversions share a signature; each builds an event of its own statement kind
		kc, _ := pkg.Members[kind].(*ssa.NamedConst)
		ctor := w.fn(pkg, "newStreamEvent")
		if kc == nil || ctor == nil {
			return nil
		}
		var found []*ssa.Function
		for _, m := range pkg.Members {
			f, isF := m.(*ssa.Function)
			if !isF || f.Blocks == nil || f.Signature.Recv() != nil || sigKey(f.Signature) != "(*gobinlog.tableCache,*replication.Rows,int64)->(*gobinlog.StreamEvent,error)" {
				continue
			}
			kinds := map[string]bool{}
			instrs(f, func(in ssa.Instruction) {
				if c, ok := in.(*ssa.Call); ok && c.Common().StaticCallee() == ctor && len(c.Common().Args) > 0 {
					if k, ok := c.Common().Args[0].(*ssa.Const); ok && k.Value != nil {
						kinds[k.Value.ExactString()] = true
					} else {
						kinds["?"] = true
					}
				}
			})
			if len(kinds) == 1 && kinds[kc.Value.Value.ExactString()] {
				found = append(found, f)
			}
		}
		if len(found) == 1 {
			return found[0]
		}
		return nil
	}
	if code, ok := jsonPrinterCodes[name]; ok {
		pv := w.fn(pkg, "printJSONValue")
		if pv == nil {
			return nil
		}
		return uniqueCalleeUnder(pv, map[ssa.Value]constant.Value{pv.Params[0]: constant.MakeInt64(code)})
	}
	if code, ok := jsonOpaqueCodes[name]; ok {
		po := w.fn(pkg, "printJSONOpaque")
		if po == nil {
			return nil
		}
		// the type byte is data[0] of the opaque payload
		var otyp ssa.Value
		instrs(po, func(in ssa.Instruction) {
			if u, ok := in.(*ssa.UnOp); ok && otyp == nil {
				if ia, ok := u.X.(*ssa.IndexAddr); ok && ia.X == ssa.Value(po.Params[0]) {
					if k, isK := constInt(ia.Index); isK && k == 0 {
						otyp = u
					}
				}
			}
		})
		if otyp == nil {
			return nil
		}
		return uniqueCalleeUnder(po, map[ssa.Value]constant.Value{otyp: constant.MakeInt64(code)})
	}
	return nil
}

// uniqueCalleeUnder: the single in-package function with the printer signature that f calls under the binding.
func uniqueCalleeUnder(f *ssa.Function, bind map[ssa.Value]constant.Value) *ssa.Function {
	res := Specialize(f, bind, nil)
	var out *ssa.Function
	n := 0
	instrs(f, func(in ssa.Instruction) {
		c, ok := in.(*ssa.Call)
		if !ok || !res.Exec[c.Block()] {
			return
		}
		cal := c.Common().StaticCallee()
		if cal == nil || cal.Pkg != f.Pkg || cal.Blocks == nil || !strings.HasPrefix(sigKey(cal.Signature), "([]uint8,bool,*bytes.Buffer)->(") {
			return
		}
		if out != cal {
			n++
		}
		out = cal
	})
	if n == 1 {
		return out
	}
	return nil
}

// roleRev: the functions found for the role names, so that terms and comparisons can keep using the role name whatever the
// function is called today.
var roleRev = map[*ssa.Function]string{}

func buildRoleRev(w *World) {
	roleRev = map[*ssa.Function]string{}
	for name := range roleSignatures {
		for _, pkg := range []*ssa.Package{w.Repl, w.Root} {
			if f := w.fn(pkg, name); f != nil {
				roleRev[f] = name
			}
		}
	}
	for name := range jsonPrinterCodes {
		if f := w.fn(w.Repl, name); f != nil {
			roleRev[f] = name
		}
	}
	for name := range jsonOpaqueCodes {
		if f := w.fn(w.Repl, name); f != nil {
			roleRev[f] = name
		}
	}
	for _, name := range []string{"getValuesFromRow", "getIdentifiesFromRow", "appendInsertEventFromRows", "appendUpdateEventFromRows", "appendDeleteEventFromRows"} {
		if f := w.fn(w.Root, name); f != nil {
			roleRev[f] = name
		}
	}
}

// roleName: the name the rules use for f (its role name when it has one, its own name otherwise).
func roleName(f *ssa.Function) string {
	if f == nil {
		return ""
	}
	if n, ok := roleRev[f]; ok {
		return n
	}
	return f.Name()
}
