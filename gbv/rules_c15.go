package main

import (
	"fmt"
	"go/constant"
	"go/token"
	"go/types"
	"sort"
	"strings"

	"golang.org/x/tools/go/ssa"
)

func init() {
	register("C15", propMeta{
		Explanation: "Decides: (R1) on every non-error path of the table-map arm the decoded map is stored into the cache entry keyed by the same event's table id (existing entry updated or a new entry inserted); " +
			"(R2) a new entry is inserted only on the equal edge of a comparison between the mapper table's column count and the table map's, whose unequal edge returns an error; the mapper is asked for " +
			"NewMysqlTableName(tm.Database, tm.Name) and that constructor maps parameter 0 to DbName and 1 to TableName; (R3) every rows arm looks its entry up by the table id of the current event, fails on a " +
			"missing id, and decodes and attributes the rows with that same entry; (R4) per image the present-column count is checked against the mapper before the column loop, and decoding is by ordinal " +
			"(C10-R1); (R5) metadataLength / metadataRead / metadataWrite partition the 256 type codes identically, with the same width and byte order per class, and match MySQL's per-type metadata " +
			"layout; (R6) TableID, TableMap and Rows choose the 4- vs 6-byte table id by the same predicate and read flags right after it; the table-map body is read at the documented offsets " +
			"(flags, db length, db, NUL, name length, name, NUL, column count, types, metadata length, metadata, NULL bitmap of column-count bits); (R7) readLenEncInt composes exactly the n little-endian " +
			"bytes after the prefix (0xfc:2, 0xfd:3, 0xfe:8, else the prefix itself), returns pos+1+n and bounds-checks the highest index. Not decided: decoding of arbitrary schemas end to end; optional metadata " +
			"appended by newer servers is simply never read (no parser compares its final offset with the buffer length) - checked as 'no read after the NULL bitmap'.",
		Rule:        "instances = cache writes/lookups per arm, comparison guards, 256 type codes x 3 metadata siblings, header-size classes x 3 table-id users, prefix classes of the length-encoded integer, table-map read facts",
		Trusted:     append([]string{"MySQL internals documentation of TABLE_MAP_EVENT and per-type metadata (spec tables in rules_c15.go)", "H-sccp / H-term / wirefmt"}, commonTrusted...),
		Assumptions: []string{"the analysers see non-test files only"},
	}, runC15)

	addVariants(
		Variant{ID: "c15-r1-stale-map", Prop: "C15", File: "streamer.go",
			Old: "\t\t\tif _, ok = tablesMaps[tableID]; ok {\n\t\t\t\ttablesMaps[tableID].tableMap = tm\n\t\t\t\tcontinue\n\t\t\t}", New: "\t\t\tif _, ok = tablesMaps[tableID]; ok {\n\t\t\t\tcontinue\n\t\t\t}",
			Expect: "C15-R1 latest-map@parser"},
		Variant{ID: "c15-r2-no-count-check", Prop: "C15", File: "streamer.go",
			Old: "\t\t\tif len(info.Columns()) != tm.CanBeNull.Count() {", New: "\t\t\tif len(info.Columns()) < tm.CanBeNull.Count() {",
			Expect: "C15-R2 count-guard@parser"},
		Variant{ID: "c15-r2-name-swapped", Prop: "C15", File: "streamer.go",
			Old: "name := NewMysqlTableName(tm.Database, tm.Name)", New: "name := NewMysqlTableName(tm.Name, tm.Database)",
			Expect: "C15-R2 mapper-name@parser"},
		Variant{ID: "c15-r2-ctor-swapped", Prop: "C15", File: "mysql_table.go",
			Old: "\t\tDbName:    database,\n\t\tTableName: table,", New: "\t\tDbName:    table,\n\t\tTableName: database,",
			Expect: "C15-R2 name-ctor@NewMysqlTableName"},
		Variant{ID: "c15-r2-second-unguarded-insert", Prop: "C15", File: "streamer.go",
			Old: "\t\t\tvar info MysqlTable\n", New: "\t\t\tvar info MysqlTable\n\t\t\tif prev, seen := tablesMaps[tableID^1]; seen && prev.tableMap.Name == tm.Name {\n\t\t\t\ttc.table = prev.table\n\t\t\t\ttablesMaps[tableID] = tc\n\t\t\t\tcontinue\n\t\t\t}\n",
			Expect: "C15-R2 count-guard@parser[insert"},
		Variant{ID: "c15-r3-missing-id-ignored", Prop: "C15", File: "streamer.go",
			Old:    "\t\t\ttc, ok := tablesMaps[tableID]\n\t\t\tif !ok {\n\t\t\t\treturn pos, newError(fmt.Errorf(\"parseEvents unknown tableID %v in DeleteRows event\", tableID))\n\t\t\t}\n",
			New:    "\t\t\ttc, ok := tablesMaps[tableID]\n\t\t\tif !ok {\n\t\t\t\tcontinue\n\t\t\t}\n",
			Expect: "C15-R3 rows-entry@parser[arm=IsDeleteRows"},
		Variant{ID: "c15-r4-no-image-count-guard", Prop: "C15", File: "streamer.go",
			Old: "\tif rs.IdentifyColumns.Count() != len(tc.table.Columns()) {", New: "\tif rs.IdentifyColumns.Count() > len(tc.table.Columns()) {",
			Expect: "C15-R4 image-count@getIdentifiesFromRow"},
		Variant{ID: "c15-r5-read-endian", Prop: "C15", File: "replication/binlog_event_rbr.go",
			Old: "\t\treturn uint16(data[pos])<<8 + uint16(data[pos+1]), pos + 2, nil", New: "\t\treturn uint16(data[pos]) + uint16(data[pos+1])<<8, pos + 2, nil",
			Expect: "C15-R5 metadata@"},
		Variant{ID: "c15-r5-class-moved", Prop: "C15", File: "replication/binlog_event_rbr.go",
			Old:    "\tcase TypeFloat, TypeDouble, TypeTimestamp2, TypeDateTime2, TypeTime2, TypeJSON, TypeTinyBlob, TypeMediumBlob, TypeLongBlob, TypeBlob, TypeGeometry:\n\t\t// One byte.\n\t\treturn uint16(data[pos]), pos + 1, nil\n\n\tcase TypeNewDecimal, TypeEnum, TypeSet, TypeString:",
			New:    "\tcase TypeFloat, TypeDouble, TypeTimestamp2, TypeDateTime2, TypeTime2, TypeJSON, TypeTinyBlob, TypeMediumBlob, TypeLongBlob, TypeBlob:\n\t\t// One byte.\n\t\treturn uint16(data[pos]), pos + 1, nil\n\n\tcase TypeNewDecimal, TypeEnum, TypeSet, TypeString, TypeGeometry:",
			Expect: "C15-R5 metadata@"},
		Variant{ID: "c15-r6-rejects-trailing-bytes", Prop: "C15", File: "replication/binlog_event_rbr.go",
			Old: "\t// A bit array that says if each colum can be NULL.\n", New: "\tif pos+(columnCount+7)/8 < len(data) {\n\t\treturn nil, fmt.Errorf(\"trailing bytes\")\n\t}\n",
			Expect: "C15-R6 tablemap-layout@trailing-accepted"},
		Variant{ID: "c15-r6-tableid-width", Prop: "C15", File: "replication/binlog_event_common.go",
			Old: "\tif f.HeaderSize(typ) == 6 {\n\t\t// Encoded in 4 bytes.", New: "\tif f.HeaderSize(typ) == 8 {\n\t\t// Encoded in 4 bytes.",
			Expect: "C15-R6 tableid@"},
		Variant{ID: "c15-r6-name-offset", Prop: "C15", File: "replication/binlog_event_rbr.go",
			Old: "\tresult.Database = string(data[pos+1 : pos+1+l])\n\tpos += 1 + l + 1\n", New: "\tresult.Database = string(data[pos+1 : pos+1+l])\n\tpos += 1 + l\n",
			Expect: "C15-R6 tablemap-layout@"},
		Variant{ID: "c15-r6-strict-end", Prop: "C15", File: "replication/binlog_event_rbr.go",
			Old: "\tresult.CanBeNull, _ = newBitmap(data, pos, columnCount)\n", New: "\tresult.CanBeNull, pos = newBitmap(data, pos, columnCount)\n\tif pos != len(data) {\n\t\treturn nil, fmt.Errorf(\"unexpected trailing data in table map: %v\", data[pos:])\n\t}\n",
			Expect: "C15-R6 tablemap-layout@trailing"},
		Variant{ID: "c15-r7-fc-off-by-one", Prop: "C15", File: "replication/binlog_event_rbr.go",
			Old: "\t\treturn uint64(data[pos+1]) |\n\t\t\tuint64(data[pos+2])<<8, pos + 3, true", New: "\t\treturn uint64(data[pos+1]) |\n\t\t\tuint64(data[pos+2])<<8, pos + 2, true",
			Expect: "C15-R7 lenenc@readLenEncInt[0xfc]"},
		Variant{ID: "c15-r7-fd-drops-byte", Prop: "C15", File: "replication/binlog_event_rbr.go",
			Old: "\t\treturn uint64(data[pos+1]) |\n\t\t\tuint64(data[pos+2])<<8 |\n\t\t\tuint64(data[pos+3])<<16, pos + 4, true", New: "\t\treturn uint64(data[pos+1]) |\n\t\t\tuint64(data[pos+2])<<8, pos + 4, true",
			Expect: "C15-R7 lenenc@readLenEncInt[0xfd]"},
	)
}

func runC15(a *A) {
	r := resolveRolesG(a, "C15-R0", "p")
	if r != nil {
		ar := armAnalysis(a.W, r)
		c15R1R2(a, r, ar)
		c15R3(a, r, ar)
	}
	c15R4(a)
	c15R5(a)
	c15R6(a)
	c15R7(a)
	statelessRule(a, "C15-R8", "TableMap/TableID/Rows", []*ssa.Function{a.W.method(a.W.Repl, "binlogEvent", "TableMap"), a.W.method(a.W.Repl, "binlogEvent", "TableID"), a.W.method(a.W.Repl, "binlogEvent", "Rows")}, a.W.Repl)
}

// isTableIDOf: v is invoke ev.TableID(format) on the stripped event of the iteration.
func isTableIDOf(v ssa.Value, r *Roles) bool {
	c, ok := v.(*ssa.Call)
	return ok && c.Common().IsInvoke() && c.Common().Method.Name() == "TableID" && c.Common().Value == r.StrippedEv &&
		len(c.Common().Args) == 1 && r.isFormat(c.Common().Args[0])
}

func c15R1R2(a *A, r *Roles, ar *Arms) {
	w := a.W
	// the TableMap() call of the arm
	var tmCall *ssa.Call
	instrs(r.Parser, func(in ssa.Instruction) {
		if c, ok := in.(*ssa.Call); ok && c.Common().IsInvoke() && c.Common().Method.Name() == "TableMap" && ar.of[c.Block()]["IsTableMap"] {
			tmCall = c
		}
	})
	if !a.need(tmCall != nil, "C15-R1", "TableMap() call in the table-map arm") {
		return
	}
	a.check(tmCall.Common().Value == r.StrippedEv && r.isFormat(tmCall.Common().Args[0]), "C15-R1", "tablemap-call@parser", w.posOf(tmCall), "TableMap(format) on the stripped event", "TableMap is not called on the stripped current event with the current format")
	var tm ssa.Value
	for _, ref := range *tmCall.Referrers() {
		if ex, ok := ref.(*ssa.Extract); ok && ex.Index == 0 {
			tm = ex
		}
	}
	if !a.need(tm != nil, "C15-R1", "decoded table map value") {
		return
	}
	// stores of tm into the cache
	storeBlocks := map[*ssa.BasicBlock]bool{}
	var insert *ssa.MapUpdate
	var inserts []*ssa.MapUpdate
	instrs(r.Parser, func(in ssa.Instruction) {
		switch x := in.(type) {
		case *ssa.Store:
			fa, ok := x.Addr.(*ssa.FieldAddr)
			if !ok || !typeIs(fa.X.Type(), rootPath, "tableCache") || resolve(x.Val) != tm {
				return
			}
			// existing entry: fa.X is a lookup in the cache keyed by this event's table id
			base := resolve(fa.X)
			if ex, isEx := base.(*ssa.Extract); isEx && ex.Index == 0 {
				base = ex.Tuple // entry, found := cache[id]
			}
			if lk, ok := base.(*ssa.Lookup); ok && lk.X == r.Tables && isTableIDOf(resolve(lk.Index), r) {
				storeBlocks[x.Block()] = true
				a.hold("C15-R1", "latest-map@parser[update]", w.posOf(x), "existing entry's table map replaced")
			}
		case *ssa.MapUpdate:
			if x.Map != r.Tables {
				return
			}
			insert = x
			inserts = append(inserts, x)
			okKey := isTableIDOf(resolve(x.Key), r)
			// the inserted entry holds tm
			holds := false
			if al, ok := resolveAt(x.Value, x.Block()).(*ssa.Alloc); ok {
				for _, ref := range *al.Referrers() {
					if fa, ok := ref.(*ssa.FieldAddr); ok {
						for _, rr := range *fa.Referrers() {
							if st, ok := rr.(*ssa.Store); ok && resolve(st.Val) == tm && dominatesAt(st, x) {
								holds = true
							}
						}
					}
				}
			}
			if okKey && holds {
				storeBlocks[x.Block()] = true
			}
			a.check(okKey && holds, "C15-R1", "latest-map@parser[insert]", w.posOf(x), "new entry keyed by the event's table id holds the decoded map",
				"the cache entry inserted for a table map is not keyed by that event's table id or does not hold the decoded map")
		}
	})
	for _, p := range ar.Preds {
		if p.Name != "IsTableMap" {
			continue
		}
		esc := reachesAvoiding(p.Entry, r.LoopHead, func(b *ssa.BasicBlock) bool { return storeBlocks[b] }, nil) && !storeBlocks[p.Entry]
		a.check(!esc, "C15-R1", "latest-map@parser", w.posOf(p.Entry.Instrs[0]), "every non-error path stores the decoded map into the cache",
			"a table-map event can pass without its map reaching the cache: later rows for this table id are decoded with the column types of an older table map")
	}
	// R2
	if !a.need(insert != nil, "C15-R2", "cache insertion in the table-map arm") {
		return
	}
	// mapper call
	var mp *ssa.Call
	instrs(r.Parser, func(in ssa.Instruction) {
		if c, ok := in.(*ssa.Call); ok && c.Common().IsInvoke() && c.Common().Method.Name() == "MysqlTable" {
			mp = c
		}
	})
	if !a.need(mp != nil, "C15-R2", "MysqlTable call on the mapper") {
		return
	}
	var info ssa.Value
	for _, ref := range *mp.Referrers() {
		if ex, ok := ref.(*ssa.Extract); ok && ex.Index == 0 {
			info = ex
		}
	}
	// guard: comparison len(info.Columns()) vs count from tm; equal edge dominates the insertion.
	// With several insertion sites, take as the reference the one that has such a guard.
	guarded := false
	var guardIf *ssa.If
	for _, cand := range inserts {
		if guardIf != nil {
			break
		}
		insert = cand
		for _, ce := range dominatingConds(cand.Block()) {
			bo, ok := ce.Cond.(*ssa.BinOp)
			if !ok || (bo.Op != token.NEQ && bo.Op != token.EQL) {
				continue
			}
			sides := []ssa.Value{bo.X, bo.Y}
			isInfo, isTm := false, false
			for _, s := range sides {
				if c, ok := s.(*ssa.Call); ok && isBuiltin(c.Common(), "len") {
					if cc, ok := c.Common().Args[0].(*ssa.Call); ok && cc.Common().IsInvoke() && cc.Common().Method.Name() == "Columns" && resolve(cc.Common().Value) == info {
						isInfo = true
					}
					// len(tm.Types)
					if fieldPath(c.Common().Args[0]) == "Types" || strings.HasSuffix(fieldPath(c.Common().Args[0]), ".Types") {
						if derivesFromValue(c.Common().Args[0], tm) {
							isTm = true
						}
					}
				}
				if c, ok := s.(*ssa.Call); ok && c.Common().StaticCallee() != nil && c.Common().StaticCallee().Name() == "Count" {
					if fa, ok := c.Common().Args[0].(*ssa.FieldAddr); ok && fa.X == tm {
						isTm = true
					}
				}
			}
			equalEdge := (bo.Op == token.EQL) == ce.Val
			if isInfo && isTm && equalEdge {
				guarded = true
				guardIf = ce.If
			}
		}
	}
	// every other insertion site must be guarded the same way, and its entry must carry the mapper's answer of this iteration
	for i, other := range inserts {
		if other == insert {
			continue
		}
		okG := false
		for _, ce := range dominatingConds(other.Block()) {
			if guardIf != nil && ce.If == guardIf && (guardIf.Cond.(*ssa.BinOp).Op == token.EQL) == ce.Val {
				okG = true
			}
		}
		a.check(okG, "C15-R2", fmt.Sprintf("count-guard@parser[insert#%d]", i+1), w.posOf(other), "insertion guarded by the column-count comparison",
			"a cache entry is inserted on a path that skips the mapper lookup / the column-count comparison for this table map (e.g. a mapper table reused across table ids): after a schema change rows are attributed to stale columns, or a disagreeing mapper table is accepted")
	}
	a.check(guarded, "C15-R2", "count-guard@parser", w.posOf(insert), "insertion dominated by 'mapper column count == table-map column count'",
		"a mapper table is cached without its column count having been compared for equality with the table map's: rows are attributed to the wrong columns or the column loop indexes out of range")
	if guardIf != nil {
		// the unequal edge returns an error
		k := 0
		if bo := guardIf.Cond.(*ssa.BinOp); bo.Op == token.EQL {
			k = 1
		}
		fail := guardIf.Block().Succs[k]
		ret, knownErr := errorExitFromK(fail)
		isRet := ret != nil
		okRej := isRet && len(ret.Results) == 2 && (provablyNonNilErr(ret.Results[1]) || knownErr[resolve(ret.Results[1])])
		a.check(okRej, "C15-R2", "count-guard@parser[reject]", w.posOf(guardIf), "a disagreeing mapper table ends the stream with an error", "a column-count mismatch does not end in an error return")
	}
	// name argument order
	okName := false
	if len(mp.Common().Args) == 1 {
		if nc, ok := resolve(mp.Common().Args[0]).(*ssa.Call); ok && nc.Common().StaticCallee() != nil && nc.Common().StaticCallee().Name() == "NewMysqlTableName" {
			f0 := fieldOfValue(nc.Common().Args[0], tm)
			f1 := fieldOfValue(nc.Common().Args[1], tm)
			okName = f0 == "Database" && f1 == "Name"
			if !okName {
				a.viol("C15-R2", "mapper-name@parser", w.posOf(nc), "the mapper is asked for NewMysqlTableName(tm.%s, tm.%s); database and table name are swapped or not taken from the decoded map", f0, f1)
			}
		}
	}
	if okName {
		a.hold("C15-R2", "mapper-name@parser", w.posOf(mp), "mapper asked for (tm.Database, tm.Name)")
	} else if len(a.Obs) > 0 && a.Obs[len(a.Obs)-1].Key != "mapper-name@parser" {
		a.viol("C15-R2", "mapper-name@parser", w.posOf(mp), "the mapper is not asked for NewMysqlTableName(tm.Database, tm.Name)")
	}
	a.check(mp.Common().Value != nil && loadsFieldNamed(mp.Common().Value, "tableMapper"), "C15-R2", "mapper@parser", w.posOf(mp), "the streamer's table mapper", "MysqlTable is not called on the streamer's mapper")
	// the entry's table is that info
	okTable := false
	instrs(r.Parser, func(in ssa.Instruction) {
		if st, ok := in.(*ssa.Store); ok {
			if fa, ok := st.Addr.(*ssa.FieldAddr); ok && typeIs(fa.X.Type(), rootPath, "tableCache") && fieldName(fa) == "table" && resolve(st.Val) == info {
				okTable = true
			}
		}
	})
	a.check(okTable, "C15-R2", "entry-table@parser", w.posOf(insert), "the cached entry's table is the mapper's answer", "the cached entry's table is not the mapper's answer for this table map")
	// constructor mapping
	ctor := w.fn(w.Root, "NewMysqlTableName")
	if a.need(ctor != nil, "C15-R2", "NewMysqlTableName") {
		a.touch(ctor)
		got := map[string]int{}
		instrs(ctor, func(in ssa.Instruction) {
			if st, ok := in.(*ssa.Store); ok {
				if fa, ok := st.Addr.(*ssa.FieldAddr); ok {
					if p, ok := st.Val.(*ssa.Parameter); ok {
						got[fieldName(fa)] = paramIndex(p)
					}
				}
			}
		})
		_, has0 := got["DbName"]
		_, has1 := got["TableName"]
		a.check(has0 && has1 && got["DbName"] == 0 && got["TableName"] == 1, "C15-R2", "name-ctor@NewMysqlTableName", w.pos(ctor.Pos()), "parameter 0 -> DbName, parameter 1 -> TableName",
			fmt.Sprintf("NewMysqlTableName stores its parameters as %v; database and table are swapped", got))
	}
}

func derivesFromValue(v, target ssa.Value) bool {
	for i := 0; i < 8; i++ {
		switch x := v.(type) {
		case *ssa.UnOp:
			v = x.X
		case *ssa.FieldAddr:
			if x.X == target {
				return true
			}
			v = x.X
		case *ssa.Field:
			if x.X == target {
				return true
			}
			v = x.X
		default:
			return v == target
		}
	}
	return false
}

// fieldOfValue: v is a load of field F of *target; returns F.
func fieldOfValue(v ssa.Value, target ssa.Value) string {
	u, ok := v.(*ssa.UnOp)
	if !ok || u.Op != token.MUL {
		return "?"
	}
	fa, ok := u.X.(*ssa.FieldAddr)
	if !ok || fa.X != target {
		return "?"
	}
	return fieldName(fa)
}

func loadsFieldNamed(v ssa.Value, name string) bool {
	u, ok := v.(*ssa.UnOp)
	if !ok {
		return false
	}
	fa, ok := u.X.(*ssa.FieldAddr)
	return ok && fieldName(fa) == name
}

func c15R3(a *A, r *Roles, ar *Arms) {
	const rule = "C15-R3"
	w := a.W
	for _, arm := range []string{"IsWriteRows", "IsUpdateRows", "IsDeleteRows"} {
		var lk *ssa.Lookup
		var rowsCall, appendCall *ssa.Call
		instrs(r.Parser, func(in ssa.Instruction) {
			if !ar.of[in.Block()][arm] {
				return
			}
			switch x := in.(type) {
			case *ssa.Lookup:
				if x.X == r.Tables {
					lk = x
				}
			case *ssa.Call:
				if x.Common().IsInvoke() && x.Common().Method.Name() == "Rows" {
					rowsCall = x
				}
				if f := x.Common().StaticCallee(); f != nil && f.Pkg == w.Root && len(f.Params) == 3 && typeIs(f.Params[0].Type(), rootPath, "tableCache") {
					appendCall = x
				}
			}
		})
		key := fmt.Sprintf("rows-entry@parser[arm=%s]", arm)
		if lk == nil || rowsCall == nil || appendCall == nil {
			a.undecided(rule, key, "-", "arm %s: cache lookup / Rows() / row conversion call not found", arm)
			continue
		}
		okKey := isTableIDOf(resolve(lk.Index), r) && lk.CommaOk
		// missing id -> error return
		var entry, okv ssa.Value
		for _, ref := range *lk.Referrers() {
			if ex, ok := ref.(*ssa.Extract); ok {
				if ex.Index == 0 {
					entry = ex
				} else {
					okv = ex
				}
			}
		}
		missingFails := false
		for _, b := range r.Parser.Blocks {
			if iff, ok := lastInstr(b).(*ssa.If); ok && iff.Cond == okv {
				ret, isRet := lastInstr(b.Succs[1]).(*ssa.Return)
				missingFails = isRet && len(ret.Results) == 2 && provablyNonNilErr(ret.Results[1])
			}
		}
		// Rows(format, entry.tableMap) on the stripped event
		okRows := rowsCall.Common().Value == r.StrippedEv && len(rowsCall.Common().Args) == 2 && r.isFormat(rowsCall.Common().Args[0]) && fieldOfValue(rowsCall.Common().Args[1], entry) == "tableMap"
		// conversion(entry, &rows, ts)
		okConv := resolve(appendCall.Common().Args[0]) == entry
		var rowsVal ssa.Value
		for _, ref := range *rowsCall.Referrers() {
			if ex, ok := ref.(*ssa.Extract); ok && ex.Index == 0 {
				rowsVal = ex
			}
		}
		if al, ok := appendCall.Common().Args[1].(*ssa.Alloc); ok {
			same := false
			for _, ref := range *al.Referrers() {
				if st, ok := ref.(*ssa.Store); ok && st.Addr == ssa.Value(al) && st.Val == rowsVal {
					same = true
				}
			}
			okConv = okConv && same
		} else {
			okConv = false
		}
		var why []string
		if !okKey {
			why = append(why, "the entry is not looked up by this event's table id (comma-ok)")
		}
		if !missingFails {
			why = append(why, "an unknown table id does not end the stream with an error")
		}
		if !okRows {
			why = append(why, "Rows() is not given the looked-up entry's table map")
		}
		if !okConv {
			why = append(why, "the rows are not converted with the same entry / the same Rows value")
		}
		a.check(len(why) == 0, rule, key, w.posOf(lk), "entry of this event's table id is used for decoding and attribution; a missing id is an error", strings.Join(why, "; "))
	}
}

func c15R4(a *A) {
	const rule = "C15-R4"
	w := a.W
	for fn, bm := range map[string]string{"getValuesFromRow": "DataColumns", "getIdentifiesFromRow": "IdentifyColumns"} {
		f := w.fn(w.Root, fn)
		if !a.need(f != nil, rule, fn) {
			continue
		}
		a.touch(f)
		// a comparison Count(bitmap of this image) != len(Columns()) whose unequal edge returns an error, dominating the column
		// loop - or, when the loop lives in a helper, dominating the call that runs it
		var guardAt []*ssa.BasicBlock
		isDec := func(g *ssa.Function) bool { return g.Name() == "CellBytes" && g.Pkg == w.Repl }
		for _, rl := range findRowLoopsDeep(w, f, isDec) {
			if rl.Site != nil {
				guardAt = append(guardAt, rl.Site.Block())
			} else {
				guardAt = append(guardAt, rl.Header)
			}
		}
		if len(guardAt) == 0 {
			for _, b := range f.Blocks {
				if isLoopHeader(b) {
					guardAt = append(guardAt, b)
				}
			}
		}
		ok := len(guardAt) > 0
		for _, at := range guardAt {
			guarded := false
			for _, ce := range dominatingConds(at) {
				bo, isB := ce.Cond.(*ssa.BinOp)
				if !isB || (bo.Op != token.NEQ && bo.Op != token.EQL) {
					continue
				}
				hasCount, hasLen := false, false
				for _, s := range []ssa.Value{bo.X, bo.Y} {
					if c, isC := s.(*ssa.Call); isC {
						if c.Common().StaticCallee() != nil && c.Common().StaticCallee().Name() == "Count" && bitmapField(c) == bm {
							hasCount = true
						}
						if isBuiltin(c.Common(), "len") {
							if cc, isCC := c.Common().Args[0].(*ssa.Call); isCC && cc.Common().IsInvoke() && cc.Common().Method.Name() == "Columns" {
								hasLen = true
							}
						}
					}
				}
				if hasCount && hasLen && (bo.Op == token.EQL) == ce.Val {
					guarded = true
				}
			}
			if !guarded {
				ok = false
			}
		}
		a.check(ok, rule, "image-count@"+fn, w.pos(f.Pos()), "column loop dominated by '"+bm+".Count() == len(Columns())'",
			"the column loop is not guarded by an equality check between the image's column count and the mapper's: a mismatch indexes out of range or mis-attributes values")
	}
}

// MySQL per-type metadata layout: width and byte order of the uint16 the parser builds.
func metaSpec(name string) string {
	switch name {
	case "TypeFloat", "TypeDouble", "TypeTimestamp2", "TypeDateTime2", "TypeTime2", "TypeJSON", "TypeTinyBlob", "TypeMediumBlob", "TypeLongBlob", "TypeBlob", "TypeGeometry":
		return "1"
	case "TypeNewDecimal", "TypeEnum", "TypeSet", "TypeString":
		return "2BE"
	case "TypeVarchar", "TypeBit", "TypeVarString":
		return "2LE"
	case "":
		return "none"
	}
	return "0"
}

func c15R5(a *A) {
	const rule = "C15-R5"
	w := a.W
	ml := w.fn(w.Repl, "metadataLength")
	mr := w.fn(w.Repl, "metadataRead")
	mw := w.fn(w.Repl, "metadataWrite")
	if !a.need(ml != nil && mr != nil && mw != nil, rule, "metadataLength / metadataRead / metadataWrite") {
		return
	}
	a.touch(ml, mr, mw)
	names := typeConsts(w)
	bad := 0
	classes := map[string]int{}
	for t := int64(0); t < 256; t++ {
		tn := names[t]
		want := metaSpec(tn)
		// length
		rl := Specialize(ml, map[ssa.Value]constant.Value{ml.Params[0]: constant.MakeInt64(t)}, nil)
		gotL := "none"
		if len(rl.Returns) == 1 {
			if k, ok := rl.constOf(rl.Returns[0].Results[0]); ok {
				gotL = fmt.Sprint(k)
			}
		}
		// read
		rr := Specialize(mr, map[ssa.Value]constant.Value{mr.Params[2]: constant.MakeInt64(t)}, nil)
		gotR := "none"
		if rets := successReturns(rr, 2); len(rets) == 1 {
			tbb := newTB(rr)
			v := tbb.term(rets[0].Results[0]).String()
			adv := tbb.term(rets[0].Results[1]).add(affAtom("pos"), -1).String()
			switch {
			case v == "0" && adv == "0":
				gotR = "0"
			case v == "data[pos]" && adv == "1":
				gotR = "1"
			case v == "BE(2,data[pos])" && adv == "2":
				gotR = "2BE"
			case v == "LE(2,data[pos])" && adv == "2":
				gotR = "2LE"
			default:
				gotR = v + "/+" + adv
			}
		}
		// write
		rw := Specialize(mw, map[ssa.Value]constant.Value{mw.Params[2]: constant.MakeInt64(t)}, nil)
		gotW := "none"
		if len(rw.Returns) == 1 {
			tbb := newTB(rw)
			adv := tbb.term(rw.Returns[0].Results[0]).add(affAtom("pos"), -1).String()
			stores := map[string]string{}
			instrs(mw, func(in ssa.Instruction) {
				st, ok := in.(*ssa.Store)
				if !ok || !rw.Exec[st.Block()] {
					return
				}
				if ia, ok := st.Addr.(*ssa.IndexAddr); ok {
					stores[tbb.term(ia.Index).String()] = tbb.term(st.Val).String()
				}
			})
			hi := "(>> value 8)"
			lo := "conv<byte>(value)"
			for k, v := range stores {
				stores[k] = strings.ReplaceAll(v, "conv<uint8>", "conv<byte>")
			}
			switch {
			case adv == "0" && len(stores) == 0:
				gotW = "0"
			case adv == "1" && len(stores) == 1 && stores["pos"] == lo:
				gotW = "1"
			case adv == "2" && len(stores) == 2 && stores["pos"] == hi && stores["pos+1"] == lo:
				gotW = "2BE"
			case adv == "2" && len(stores) == 2 && stores["pos"] == lo && stores["pos+1"] == hi:
				gotW = "2LE"
			default:
				gotW = fmt.Sprintf("%v/+%s", stores, adv)
			}
		}
		a.Evals += 3
		wantL := map[string]string{"0": "0", "1": "1", "2BE": "2", "2LE": "2", "none": "none"}[want]
		ok := gotL == wantL && gotR == want && gotW == want
		if tn == "" {
			// undeclared codes: all three must reject / agree on "none"
			ok = gotL == "none" && gotR == "none" && gotW == "none"
		}
		if !ok {
			bad++
			label := tn
			if label == "" {
				label = fmt.Sprintf("code %d", t)
			}
			a.viol(rule, fmt.Sprintf("metadata@%s", label), w.pos(mr.Pos()), "per-type metadata of %s: length says %s, reader does %s, writer does %s; MySQL logs %s", label, gotL, gotR, gotW, want)
		} else {
			classes[want]++
		}
	}
	if bad == 0 {
		var ks []string
		for k, n := range classes {
			ks = append(ks, fmt.Sprintf("%s:%d types", k, n))
		}
		sort.Strings(ks)
		a.hold(rule, "metadata@all", w.pos(mr.Pos()), "length, reader and writer agree with MySQL's layout for all 256 codes (%s)", strings.Join(ks, ", "))
	}
}

func c15R6(a *A) {
	const rule = "C15-R6"
	w := a.W
	type user struct {
		name string
		f    *ssa.Function
	}
	users := []user{{"TableID", w.method(w.Repl, "binlogEvent", "TableID")}, {"TableMap", w.method(w.Repl, "binlogEvent", "TableMap")}, {"Rows", w.method(w.Repl, "binlogEvent", "Rows")}}
	for _, u := range users {
		if !a.need(u.f != nil, rule, "binlogEvent."+u.name) {
			return
		}
		a.touch(u.f)
	}
	for _, u := range users {
		// the HeaderSize(...) call
		var hs *ssa.Call
		instrs(u.f, func(in ssa.Instruction) {
			if c, ok := in.(*ssa.Call); ok && c.Common().StaticCallee() != nil && c.Common().StaticCallee().Name() == "HeaderSize" {
				hs = c
			}
		})
		if !a.need(hs != nil, rule, "HeaderSize call in "+u.name) {
			continue
		}
		// its type argument is this event's type (Type() / the constant for table maps)
		for _, size := range []int64{6, 8} {
			idw := size - 2 // bytes of table id
			res := Specialize(u.f, map[ssa.Value]constant.Value{hs: constant.MakeInt64(size)}, nil)
			a.Evals++
			key := fmt.Sprintf("tableid@%s[post-header=%d]", u.name, size)
			if u.name == "TableID" {
				t := newTB(res)
				t.names[u.f.Params[0]] = "ev"
				got := "?"
				if len(res.Returns) == 1 {
					got = t.term(res.Returns[0].Results[0]).String()
				}
				want := fmt.Sprintf("LE(%d,ev[", idw)
				a.check(strings.HasPrefix(got, want) && strings.Contains(got, "HeaderLength"), rule, key, w.pos(u.f.Pos()), fmt.Sprintf("%d little-endian bytes right after the header", idw),
					fmt.Sprintf("with a %d-byte post-header the table id is read as %s; it occupies the first %d bytes after the common header, little-endian", size, got, idw))
				continue
			}
			x := newWF(u.f)
			x.res = res
			x.bodyBases()
			flags := ""
			for _, rd := range x.reads() {
				for _, d := range rd.Dests {
					if d == "field:Flags" {
						flags = rd.Range
					}
				}
			}
			want := fmt.Sprintf("[%d,%d)", idw, idw+2)
			a.check(flags == want, rule, key, w.pos(u.f.Pos()), "flags follow a "+fmt.Sprint(idw)+"-byte table id",
				fmt.Sprintf("with a %d-byte post-header %s reads the flags at %s; they follow the %d-byte table id at %s", size, u.name, flags, idw, want))
		}
	}
	// table-map body layout under the common 8-byte post-header
	tmf := users[1].f
	var hs *ssa.Call
	instrs(tmf, func(in ssa.Instruction) {
		if c, ok := in.(*ssa.Call); ok && c.Common().StaticCallee() != nil && c.Common().StaticCallee().Name() == "HeaderSize" {
			hs = c
		}
	})
	if hs == nil {
		return
	}
	res := Specialize(tmf, map[ssa.Value]constant.Value{hs: constant.MakeInt64(8)}, nil)
	x := newWF(tmf)
	x.res = res
	x.bodyBases()
	byDest := map[string]string{}
	for _, rd := range x.reads() {
		for _, d := range rd.Dests {
			if strings.HasPrefix(d, "field:") {
				byDest[d] = rd.Range
			}
		}
	}
	want := map[string]string{
		"field:Flags":    "[6,8)",
		"field:Database": "[9,b[8]+9)",
		"field:Name":     "[b[8]+11,b[8]+b[b[8]+10]+11)",
		"field:Types":    "[readLenEncInt@1#1,readLenEncInt@1#0+readLenEncInt@1#1)",
	}
	for d, wv := range want {
		a.check(byDest[d] == wv, rule, "tablemap-layout@"+strings.TrimPrefix(d, "field:"), w.pos(tmf.Pos()), d+" <- "+wv,
			fmt.Sprintf("%s is decoded from %s; the TABLE_MAP_EVENT layout (6-byte id, 2 flags, length-prefixed NUL-terminated names, column count, one type byte per column) puts it at %s", d, byDest[d], wv))
	}
	// call arguments: where the two length-encoded integers, the metadata and the NULL bitmap are read
	t := newTB(res)
	t.names[tmf.Params[0]] = "ev"
	var lenencArgs []string
	var bitmapArgs []string
	instrs(tmf, func(in ssa.Instruction) {
		c, ok := in.(*ssa.Call)
		if !ok || !res.Exec[c.Block()] || c.Common().StaticCallee() == nil {
			return
		}
		switch canonName(c) {
		case "readLenEncInt":
			lenencArgs = append(lenencArgs, x.affine(c.Common().Args[1]).String())
		case "newBitmap":
			bitmapArgs = append(bitmapArgs, x.affine(c.Common().Args[2]).String())
		}
	})
	a.check(len(lenencArgs) == 2 && lenencArgs[0] == "b[8]+b[b[8]+10]+12" && lenencArgs[1] == "readLenEncInt@1#0+readLenEncInt@1#1", rule, "tablemap-layout@counts", w.pos(tmf.Pos()),
		"column count right after the table name's NUL; metadata length right after the type bytes",
		fmt.Sprintf("the length-encoded column count / metadata length are read at %v; expected after the NUL-terminated table name, and after the column types", lenencArgs))
	a.check(len(bitmapArgs) == 1 && bitmapArgs[0] == "readLenEncInt@1#0", rule, "tablemap-layout@nullability", w.pos(tmf.Pos()), "NULL-ability bitmap has one bit per column",
		fmt.Sprintf("the NULL-ability bitmap is sized by %v, not by the column count", bitmapArgs))
	// the metadata loop reads exactly the announced metadata bytes, by Types[c]
	okEnd := false
	instrs(tmf, func(in ssa.Instruction) {
		if bo, ok := in.(*ssa.BinOp); ok && bo.Op == token.NEQ && res.Exec[bo.Block()] {
			if x.affine(bo.Y).String() == "readLenEncInt@2#0+readLenEncInt@2#1" || x.affine(bo.X).String() == "readLenEncInt@2#0+readLenEncInt@2#1" {
				okEnd = true
			}
		}
	})
	// indifference to trailing optional metadata: nothing is read, and no length is compared, after the NULL-ability bitmap
	var nbm *ssa.Call
	instrs(tmf, func(in ssa.Instruction) {
		if c, ok := in.(*ssa.Call); ok && res.Exec[c.Block()] && c.Common().StaticCallee() != nil && roleName(c.Common().StaticCallee()) == "newBitmap" {
			nbm = c
		}
	})
	if nbm != nil {
		trailing := ""
		instrs(tmf, func(in ssa.Instruction) {
			if !res.Exec[in.Block()] || in == ssa.Instruction(nbm) || !instrDominates(nbm, in) {
				return
			}
			switch y := in.(type) {
			case *ssa.IndexAddr:
				if _, isBase := x.bases[y.X]; isBase {
					trailing = "reads a byte after the bitmap"
				}
			case *ssa.Slice:
				if _, isBase := x.bases[y.X]; isBase {
					trailing = "slices the body after the bitmap"
				}
			case *ssa.BinOp:
				for _, o := range []ssa.Value{y.X, y.Y} {
					if c, ok := o.(*ssa.Call); ok && isBuiltin(c.Common(), "len") {
						if _, isBase := x.bases[c.Common().Args[0]]; isBase {
							trailing = "compares a position with the body length after the bitmap"
						}
					}
				}
			}
		})
		a.check(trailing == "", rule, "tablemap-layout@trailing", w.posOf(nbm), "nothing after the NULL-ability bitmap is read or length-checked (optional metadata of newer servers is ignored)",
			"after the NULL-ability bitmap the parser "+trailing+": table maps from servers that append optional metadata are rejected or mis-read")
	}
	// a table map may be followed by bytes this parser does not know (newer masters append optional metadata after the
	// NULL bitmap): no failing exit may depend on the body being at most / exactly some length
	{
		t := newTB(Specialize(tmf, nil, nil))
		nb := 0
		for _, ret := range returnsOf(tmf) {
			n := len(ret.Results)
			if n == 0 || isNilConst(resolve(ret.Results[n-1])) {
				continue
			}
			for _, ce := range dominatingConds(ret.Block()) {
				bo, ok := ce.Cond.(*ssa.BinOp)
				if !ok {
					continue
				}
				lenCoef := func(e aff) (int64, bool) {
					var c int64
					found := false
					for sym, k := range e.syms {
						if strings.HasPrefix(sym, "len(") {
							c += k
							found = true
						}
					}
					return c, found
				}
				reason := ""
				switch bo.Op {
				case token.EQL, token.NEQ:
					d := t.term(bo.X).add(t.term(bo.Y), -1)
					if _, has := lenCoef(d); d.ok && has {
						reason = "an (in)equality with the body length"
					}
				default:
					if e, ok := t.leqZeroAff(bo, !ce.Val); ok {
						if c, has := lenCoef(e); has && c < 0 {
							reason = "the body being longer than expected"
						}
					}
				}
				if reason != "" {
					nb++
					a.viol(rule, fmt.Sprintf("tablemap-layout@trailing-accepted#%d", nb), w.posOf(ret), "TableMap fails on %s: table maps of newer masters carry optional metadata after the NULL bitmap and must decode to the same schema", reason)
				}
			}
		}
		if nb == 0 {
			a.hold(rule, "tablemap-layout@trailing-accepted", w.pos(tmf.Pos()), "no failing exit depends on bytes remaining after the NULL bitmap")
		}
	}
	a.check(okEnd, rule, "tablemap-layout@metadata-end", w.pos(tmf.Pos()), "the per-column metadata must end exactly where its announced length says", "the parser does not compare the end of the per-column metadata with the announced metadata length")
	_ = types.Typ
}

func c15R7(a *A) {
	const rule = "C15-R7"
	w := a.W
	f := w.fn(w.Repl, "readLenEncInt")
	if !a.need(f != nil, rule, "readLenEncInt") {
		return
	}
	a.touch(f)
	// the prefix byte: load of data[pos] that feeds the switch
	var prefix ssa.Value
	instrs(f, func(in ssa.Instruction) {
		if u, ok := in.(*ssa.UnOp); ok && u.Op == token.MUL {
			if ia, ok := u.X.(*ssa.IndexAddr); ok && ia.X == ssa.Value(f.Params[0]) && ia.Index == ssa.Value(f.Params[1]) {
				for _, ref := range *u.Referrers() {
					if bo, ok := ref.(*ssa.BinOp); ok && bo.Op == token.EQL {
						prefix = u
					}
				}
			}
		}
	})
	if !a.need(prefix != nil, rule, "prefix byte switch in readLenEncInt") {
		return
	}
	for _, cs := range []struct {
		b     int64
		n     int64
		label string
	}{{0xfc, 2, "0xfc"}, {0xfd, 3, "0xfd"}, {0xfe, 8, "0xfe"}, {0x05, 0, "single-byte 0x05"}, {0xfa, 0, "single-byte 0xfa"}, {0x00, 0, "single-byte 0x00"}} {
		// all loads of data[pos] are the prefix
		bind := map[ssa.Value]constant.Value{}
		instrs(f, func(in ssa.Instruction) {
			if u, ok := in.(*ssa.UnOp); ok && u.Op == token.MUL {
				if ia, ok := u.X.(*ssa.IndexAddr); ok && ia.X == ssa.Value(f.Params[0]) && ia.Index == ssa.Value(f.Params[1]) {
					bind[u] = constant.MakeInt64(cs.b)
				}
			}
		})
		res := Specialize(f, bind, nil)
		a.Evals++
		t := newTB(res)
		key := fmt.Sprintf("lenenc@readLenEncInt[%s]", cs.label)
		var okRet *ssa.Return
		var failConds []string
		for _, ret := range res.Returns {
			if b, isC := constBoolLat(res.get(ret.Results[2])); isC && b {
				okRet = ret
			} else {
				for _, ce := range dominatingConds(ret.Block()) {
					if l := res.get(ce.Cond); l.k == cst {
						continue
					}
					if bo, ok := ce.Cond.(*ssa.BinOp); ok {
						if e, ok := t.leqZero(bo, !ce.Val); ok {
							failConds = append(failConds, e+" <= 0")
							continue
						}
					}
					failConds = append(failConds, condTerm(t, ce.Cond))
				}
			}
		}
		if okRet == nil {
			a.viol(rule, key, w.pos(f.Pos()), "no success return for prefix %s", cs.label)
			continue
		}
		val := t.term(okRet.Results[0]).String()
		adv := t.term(okRet.Results[1]).add(affAtom("pos"), -1).String()
		wantVal := fmt.Sprint(cs.b)
		if cs.n > 0 {
			wantVal = fmt.Sprintf("LE(%d,data[pos+1])", cs.n)
		}
		wantAdv := fmt.Sprint(cs.n + 1)
		okBound := true
		if cs.n > 0 {
			okBound = false
			// "the highest index read, pos+n, is out of range": pos+n >= len(data), i.e. len(data)-pos-n <= 0
			want := affAtom("len(data)").add(affAtom("pos"), -1).add(affConst(cs.n), -1).String() + " <= 0"
			for _, c := range failConds {
				if c == want {
					okBound = true
				}
			}
		}
		a.check(val == wantVal && adv == wantAdv && okBound, rule, key, w.posOf(okRet), fmt.Sprintf("value %s, next position pos+%s, highest index bounds-checked", wantVal, wantAdv),
			fmt.Sprintf("prefix %s: value is %s (expected %s), position advances by %s (expected %s), bound conditions %v: a count >= 251 is mis-decoded or the following field is read from the wrong offset", cs.label, val, wantVal, adv, wantAdv, failConds))
	}
}
