package main

import (
	"fmt"
	"os"
)

// debugReads prints the body-read facts of the event body parsers (developer aid).
func debugReads() {
	w := loadWorld("/repo", nil, "")
	for _, tm := range [][2]string{{"binlogEvent", "Format"}, {"binlogEvent", "Rotate"}, {"binlogEvent", "Query"}, {"binlogEvent", "IntVar"}, {"binlogEvent", "Rand"},
		{"binlogEvent", "TableID"}, {"binlogEvent", "TableMap"}, {"binlogEvent", "Rows"}, {"mysql56BinlogEvent", "GTID"}, {"mariadbBinlogEvent", "GTID"}, {"mysql56BinlogEvent", "PreviousGTIDs"}} {
		f := w.method(w.Repl, tm[0], tm[1])
		if f == nil {
			fmt.Println("missing", tm)
			continue
		}
		x := newWF(f)
		hl := x.bodyBases()
		fmt.Printf("%s.%s header=%v\n", tm[0], tm[1], hl)
		for _, r := range x.reads() {
			fmt.Printf("   %-40s %v   (%s)\n", r.Range, r.Dests, w.pos(r.Pos))
		}
	}
	os.Exit(0)
}
