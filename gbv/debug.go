package main

import (
	"fmt"
	"go/constant"
	"go/types"
	"os"

	"golang.org/x/tools/go/ssa"
)

// debugReads prints the body-read facts of the event body parsers (developer aid).
func debugReads() {
	w := loadWorld("/repo", nil, "")
	for _, tm := range [][2]string{{"binlogEvent", "Format"}, {"binlogEvent", "Rotate"}, {"binlogEvent", "Query"}, {"binlogEvent", "IntVar"}, {"binlogEvent", "Rand"},
		{"binlogEvent", "TableID"}, {"binlogEvent", "TableMap"}, {"binlogEvent", "Rows"}, {"mysql56BinlogEvent", "GTID"}, {"mariadbBinlogEvent", "GTID"}, {"mysql56BinlogEvent", "PreviousGTIDs"}} {
		f := w.method(w.Repl, tm[0], tm[1])
		if f == nil {
			fmt.Println("missing", tm)
			continue
		}
		x := newWF(f)
		hl := x.bodyBases()
		fmt.Printf("%s.%s header=%v\n", tm[0], tm[1], hl)
		for _, r := range x.reads() {
			fmt.Printf("   %-40s %v   (%s)\n", r.Range, r.Dests, w.pos(r.Pos))
		}
	}
	os.Exit(0)
}

// debugValues prints the canonical value terms of CellBytes per specialisation (developer aid).
func debugValues(args []string) {
	w := loadWorld("/repo", nil, "")
	a := newA(w, "dbg", "quick")
	cd := resolveCodec(a, "dbg")
	for _, s := range []spec{{1, -1}, {2, -1}, {9, -1}, {3, -1}, {8, -1}, {4, -1}, {5, -1}, {13, -1}, {16, 2<<8 | 3}, {247, 1}, {247, 2}, {254, 247<<8 | 2}, {254, 248<<8 | 3}, {248, 3},
		{10, -1}, {11, -1}, {12, -1}, {7, -1}, {17, 0}, {17, 3}, {18, 4}, {19, 5}, {15, 100}, {15, 300}, {254, 0xfe14}, {252, 2}, {255, 4}, {245, 4}, {246, 14<<8 | 4}} {
		rv := cd.specVal(s)
		fmt.Printf("%s %s\n", cd.typeName[s.Typ], s)
		for _, ret := range successReturns(rv, 2) {
			fmt.Printf("   %-30s %s  len=%s\n", valueCond(cd, rv, ret), valueTerm(cd, rv, ret.Results[0]), lenTerm(rv, ret.Results[1], cd.valFn))
		}
	}
	os.Exit(0)
}

func debugJSONTemporal() {
	w := loadWorld("/repo", nil, "")
	for _, n := range []string{"printJSONDate", "printJSONTime", "printJSONDateTime", "printJSONDecimal"} {
		f := w.fn(w.Repl, n)
		for _, tl := range []bool{false} {
			var top ssa.Value
			for _, p := range f.Params {
				if types.Identical(p.Type(), types.Typ[types.Bool]) {
					top = p
				}
			}
			res := Specialize(f, map[ssa.Value]constant.Value{top: constant.MakeBool(tl)}, nil)
			t := newTB(res)
			t.names[f.Params[0]] = "data"
			fmt.Printf("%s toplevel=%v\n   %s\n", n, tl, bufferWrites(t, res, f.Params[2], 0))
		}
	}
	a := newA(w, "dbg", "quick")
	cd := resolveCodec(a, "dbg")
	for m := int64(0); m <= 6; m++ {
		rv := cd.specVal(spec{19, m})
		for _, ret := range successReturns(rv, 2) {
			fmt.Printf("Time2 md=%d: %s\n", m, valueTerm(cd, rv, ret.Results[0]))
		}
	}
	os.Exit(0)
}

func debugSigs(w *World) {
	for _, pkg := range []*ssa.Package{w.Repl, w.Root} {
		for n := range roleSignatures {
			if f := pkg.Func(n); f != nil {
				fmt.Printf("%s: %s (table: %s)\n", n, sigKey(f.Signature), roleSignatures[n])
			}
		}
	}
}

func debugGlobals(w *World) {
	for _, p := range []*ssa.Package{w.Root, w.Repl} {
		for _, gw := range globalWrites(w, p) {
			fmt.Printf("%s %s: %s %s %s\n", p.Pkg.Name(), w.posOf(gw.In), fnName(gw.Fn), gw.What, gw.G.Name())
		}
	}
}
