package main

import (
	"fmt"
	"go/token"
	"go/types"

	"golang.org/x/tools/go/ssa"
)

func init() {
	register("C05", propMeta{
		Explanation: "Timing bounds are runtime quantities; what makes them hold is structural and is decided: (R1) goroutine inventory of the library = the one reader; " +
			"(R2) the handler is not reachable from any goroutine body (with C02-R1: it runs only synchronously inside Stream); (R3) every blocking channel operation of the reader is " +
			"escapable (select with a ctx.Done() case, or a send on a capacity>=1 channel sent once per execution); (R4) every exit of the reader publishes its reason then closes errChan, " +
			"and the event channel's close is deferred at entry; errChan is closed nowhere else; (R5) Stream defers the connection close right after construction, the constructor closes on " +
			"its own failure path, close reaches dc.Close under sync.Once; (R6) the context handed to the reader is derived in Stream by WithCancel/WithTimeout/WithDeadline whose cancel is " +
			"deferred, so Stream's return always stops the reader; (R7) Error()'s receive is guarded against the nil channel and the channel it stores is only ever that of a connection whose " +
			"reader was started; (R8) everything the goroutine shares is written before the go statement and never after; (R9) the parser's only blocking operation is a select with a " +
			"ctx.Done() case that returns. Not decided: wall-clock bounds, a master that stalls inside the handshake calls, races inside the driver, misuse (Error() concurrently with Stream()).",
		Rule:        "instances = go statements, blocking channel operations, exits of the reader, exits of Stream/constructor, stores to shared cells and fields",
		Trusted:     append([]string{"driver facts (DESIGN 2): only Close() unblocks a pending ReadPacket; NewDumpConn watches its context only while connecting", "sync.Once, context.WithCancel, buffered channel send semantics"}, commonTrusted...),
		Assumptions: []string{"the handler and the table mapper return", "Error() is not called concurrently with Stream()"},
	}, runC05)

	addVariants(
		Variant{ID: "c05-r1-extra-goroutine", Prop: "C05", File: "streamer.go",
			Old: "\ts.errChan = conn.errChan\n", New: "\ts.errChan = conn.errChan\n\tgo func() { <-ctx.Done(); conn.close() }()\n",
			Expect: "C05-R1 go@"},
		Variant{ID: "c05-r3-unbuffered-errchan", Prop: "C05", File: "slave_connection.go",
			Old: "errChan: make(chan *Error, 1),", New: "errChan: make(chan *Error),",
			Expect: "C05-R3 blocking@reader"},
		Variant{ID: "c05-r3-plain-send", Prop: "C05", File: "slave_connection.go",
			Old: "\t\t\tselect {\n\t\t\tcase eventChan <- ev:\n\t\t\tcase <-ctx.Done():", New: "\t\t\teventChan <- ev\n\t\t\tselect {\n\t\t\tdefault:\n\t\t\tcase <-ctx.Done():",
			Expect: "C05-R3 blocking@reader"},
		Variant{ID: "c05-r4-no-close-on-cancel", Prop: "C05", File: "slave_connection.go",
			Old: "\t\t\t\ts.errChan <- newError(ctx.Err()).msgf(\"startDumpFromBinlogPosition cancel\")\n\t\t\t\tclose(s.errChan)\n", New: "\t\t\t\ts.errChan <- newError(ctx.Err()).msgf(\"startDumpFromBinlogPosition cancel\")\n",
			Expect: "C05-R4 exit@reader"},
		Variant{ID: "c05-r5-no-defer-close", Prop: "C05", File: "streamer.go",
			Old: "\tdefer conn.close()\n", New: "",
			Expect: "C05-R5 release@Stream"},
		Variant{ID: "c05-r5-ctor-leak", Prop: "C05", File: "slave_connection.go",
			Old: "\tif err := s.prepareForReplication(); err != nil {\n\t\ts.close()\n", New: "\tif err := s.prepareForReplication(); err != nil {\n",
			Expect: "C05-R5 release@newSlaveConnection"},
		Variant{ID: "c05-r6-caller-ctx", Prop: "C05", File: "streamer.go",
			Old: "\tctx, cancel := context.WithCancel(ctx)\n\tdefer cancel()\n", New: "",
			Expect: "C05-R6 reader-ctx@Stream"},
		Variant{ID: "c05-r6-cancel-not-deferred", Prop: "C05", File: "streamer.go",
			Old: "\tdefer cancel()\n", New: "\t_ = cancel\n",
			Expect: "C05-R6 reader-ctx@Stream"},
		Variant{ID: "c05-r7-nil-chan", Prop: "C05", File: "streamer.go",
			Old: "\tif s.errChan == nil {\n\t\t// no dump was started, so there is no reader to report a reason\n\t\treturn nil\n\t}\n", New: "",
			Expect: "C05-R7 recv@Error"},
		Variant{ID: "c05-r7-early-store", Prop: "C05", File: "streamer.go",
			Old: "\ts.sendTransaction = sendTransaction\n", New: "\ts.sendTransaction = sendTransaction\n\ts.errChan = conn.errChan\n",
			Expect: "C05-R7 errchan-store@Stream"},
		Variant{ID: "c05-r8-late-field-write", Prop: "C05", File: "slave_connection.go",
			Old: "\treturn eventChan, nil\n", New: "\ts.errChan = make(chan *Error, 1)\n\treturn eventChan, nil\n",
			Expect: "C05-R8 shared-field@errChan"},
		Variant{ID: "c05-r9-parser-plain-receive", Prop: "C05", File: "streamer.go",
			Old: "\t\tcase <-ctx.Done():\n\t\t\t_log.Infof(\"parseEvents stopping early", New: "\t\tcase <-make(chan struct{}):\n\t\t\t_log.Infof(\"parseEvents stopping early",
			Expect: "C05-R9 parser-wait"},
	)
}

func runC05(a *A) {
	r := resolveRoles(a, "C05-R0")
	if r == nil {
		return
	}
	c05R1(a, r)
	c05R2(a, r)
	c05R3(a, r)
	c05R4(a, r, "C05-R4")
	c05R5(a, r)
	c05R6(a, r)
	c05R7(a, r)
	c05R8(a, r)
	c05R9(a, r)
}

func libPkgs(w *World) []*ssa.Package { return []*ssa.Package{w.Root, w.Repl} }

func c05R1(a *A, r *Roles) {
	const rule = "C05-R1"
	w := a.W
	n := 0
	for _, p := range libPkgs(w) {
		for _, f := range w.srcFuncs(p) {
			instrs(f, func(in ssa.Instruction) {
				g, ok := in.(*ssa.Go)
				if !ok {
					return
				}
				n++
				key := fmt.Sprintf("go@%s#%d", f.Name(), n)
				a.check(g == r.GoInstr, rule, key, w.posOf(g), "the reader goroutine", "the library starts a goroutine that is not in the inventory: nothing proves it ends when Stream returns")
			})
		}
	}
	a.atLeast(rule, "go@", 1)
}

func c05R2(a *A, r *Roles) {
	const rule = "C05-R2"
	w := a.W
	reach := reachableIn(w.Root, r.Reader)
	for f := range reach {
		a.touch(f)
	}
	a.check(!reach[r.Commit] && !reach[r.Parser], rule, "confined@reader", w.posOf(r.GoInstr), fmt.Sprintf("handler call site not reachable from the goroutine (%d functions)", len(reach)),
		"the commit closure (the only handler call site) is reachable from the reader goroutine: the handler can run concurrently with or after Stream")
	// no call through a SendTransactionFunc-typed value in goroutine-reachable code
	for f := range reach {
		instrs(f, func(in ssa.Instruction) {
			if c := callCommon(in); c != nil && !c.IsInvoke() && namedIs(c.Value.Type(), rootPath, "SendTransactionFunc") {
				a.viol(rule, "handler-in-goroutine@"+f.Name(), w.posOf(in), "the handler is called from goroutine-reachable code")
			}
		})
	}
	if a.Tier == "thorough" {
		cg := w.CallGraph()
		a.check(!vtaReaches(cg, r.Reader, r.Commit), rule, "confined@reader[vta]", w.posOf(r.GoInstr), "confirmed on the VTA call graph", "VTA call graph: commit closure reachable from the reader")
	}
}

// errChan make: capacity of the channel stored into slaveConnection.errChan
func errChanCap(a *A, r *Roles) (int64, *ssa.MakeChan) {
	var mk *ssa.MakeChan
	n := 0
	for _, f := range a.W.srcFuncs(a.W.Root) {
		instrs(f, func(in ssa.Instruction) {
			st, ok := in.(*ssa.Store)
			if !ok || !isFieldAddrOf(st.Addr, r.ConnErrChan) {
				return
			}
			n++
			if m, ok := st.Val.(*ssa.MakeChan); ok {
				mk = m
			} else {
				mk = nil
			}
		})
	}
	if n != 1 || mk == nil {
		return -1, nil
	}
	k, ok := constInt(mk.Size)
	if !ok {
		return -1, mk
	}
	return k, mk
}

func c05R3(a *A, r *Roles) {
	const rule = "C05-R3"
	w := a.W
	reach := reachableIn(w.Root, r.Reader)
	capN, mk := errChanCap(a, r)
	n := 0
	for f := range reach {
		instrs(f, func(in ssa.Instruction) {
			switch x := in.(type) {
			case *ssa.Select:
				n++
				key := fmt.Sprintf("blocking@reader[select#%d]", n)
				if !x.Blocking {
					a.hold(rule, key, w.posOf(x), "non-blocking select")
					return
				}
				hasDone := false
				for _, st := range x.States {
					if st.Dir == types.RecvOnly {
						if _, ok := isDoneCall(st.Chan); ok {
							hasDone = true
						}
					}
				}
				a.check(hasDone, rule, key, w.posOf(x), "blocking select has a ctx.Done() case", "the reader can block in a select that has no ctx.Done() case: it parks forever once the parser stopped receiving")
			case *ssa.Send:
				n++
				key := fmt.Sprintf("blocking@reader[send#%d]", n)
				if !loadsField(x.Chan, r.ConnErrChan) {
					a.viol(rule, key, w.posOf(x), "the reader sends on %s outside a select with a ctx.Done() case: it parks forever once the parser stopped receiving", describe(x.Chan))
					return
				}
				once := !inCycle(x.Block())
				// no second send on the same channel after this one
				reachesOther := false
				for _, b2 := range f.Blocks {
					for _, i2 := range b2.Instrs {
						if s2, ok := i2.(*ssa.Send); ok && s2 != x && loadsField(s2.Chan, r.ConnErrChan) {
							if reachesAvoiding(x.Block(), b2, nil, nil) && x.Block() != b2 {
								reachesOther = true
							}
							if x.Block() == b2 {
								reachesOther = true
							}
						}
					}
				}
				pos := w.posOf(x)
				if mk != nil && capN < 1 {
					pos = w.posOf(mk)
				}
				a.check(capN >= 1 && once && !reachesOther, rule, key, pos, fmt.Sprintf("send on the capacity-%d reason channel, at most once per execution", capN),
					fmt.Sprintf("the reader's send of its exit reason can block (capacity=%d, once=%v, second send reachable=%v): nobody may be receiving, so the goroutine leaks and the channel is never closed", capN, once, reachesOther))
			case *ssa.UnOp:
				if x.Op == token.ARROW {
					n++
					key := fmt.Sprintf("blocking@reader[recv#%d]", n)
					_, ok := isDoneCall(x.X)
					a.check(ok, rule, key, w.posOf(x), "receive on ctx.Done()", "the reader blocks on a bare channel receive")
				}
			}
		})
	}
	a.atLeast(rule, "blocking@reader", 2)
}

// closeOf: in is `close(ch)`; returns ch.
func closeOf(in ssa.Instruction) (ssa.Value, bool) {
	c := callCommon(in)
	if c == nil || !isBuiltin(c, "close") || len(c.Args) != 1 {
		return nil, false
	}
	return c.Args[0], true
}

// R4 (also used as C06-R5): every exit of the reader publishes, then closes.
func c05R4(a *A, r *Roles, rule string) {
	w := a.W
	n := 0
	for _, ret := range returnsOf(r.Reader) {
		n++
		key := fmt.Sprintf("exit@reader[ret#%d]", n)
		// walk the dominator chain upwards from the return collecting send/close on errChan
		var send *ssa.Send
		var cl ssa.Instruction
		for b := ret.Block(); b != nil; b = b.Idom() {
			for i := len(b.Instrs) - 1; i >= 0; i-- {
				in := b.Instrs[i]
				if s, ok := in.(*ssa.Send); ok && loadsField(s.Chan, r.ConnErrChan) && send == nil {
					send = s
				}
				if ch, ok := closeOf(in); ok && loadsField(ch, r.ConnErrChan) && cl == nil {
					cl = in
				}
			}
		}
		ok := send != nil && cl != nil && instrDominates(send, cl)
		a.check(ok, rule, key, w.posOf(ret), "publishes its reason, then closes the reason channel",
			"an exit of the reader goroutine does not (send its reason and then) close the reason channel: Error() blocks forever or the reason is lost")
		if send != nil {
			a.check(provablyNonNilErr(send.X) || nonNilAt(send.X, send.Block()), rule, key+"[reason]", w.posOf(send), "published reason is non-nil", "the reader publishes a possibly-nil reason")
		}
	}
	a.atLeast(rule, "exit@reader", 1)
	// deferred close of the event channel in the entry block
	okDefer := false
	for _, in := range r.Reader.Blocks[0].Instrs {
		d, ok := in.(*ssa.Defer)
		if !ok {
			continue
		}
		if ch, ok := closeOf(d); ok && isEventChanValue(ch) {
			okDefer = true
		}
		if mc, ok := d.Call.Value.(*ssa.MakeClosure); ok {
			instrs(mc.Fn.(*ssa.Function), func(i2 ssa.Instruction) {
				if ch, ok := closeOf(i2); ok && isBinlogEventChan(ch.Type()) {
					okDefer = true
				}
			})
		}
	}
	a.check(okDefer, rule, "exit@reader[event-chan-close]", w.pos(r.Reader.Pos()), "close(eventChan) deferred at entry", "the event channel's close is not deferred at the reader's entry: the parser never sees the end of the stream")
	// errChan closed nowhere else; event channel closed nowhere else
	m := 0
	for _, f := range w.srcFuncs(w.Root) {
		instrs(f, func(in ssa.Instruction) {
			ch, ok := closeOf(in)
			if !ok {
				return
			}
			if _, isCh := ch.Type().Underlying().(*types.Chan); !isCh {
				return
			}
			m++
			inReader := f == r.Reader || f.Parent() == r.Reader
			a.check(inReader, rule, fmt.Sprintf("close-site@%s#%d", f.Name(), m), w.posOf(in), "closed by the reader", "a channel is closed outside the reader goroutine (double close or close-before-publish)")
			if f == r.Reader && isBinlogEventChan(ch.Type()) {
				// an explicit (non-deferred) close of the event channel must come after the reason was published
				published := false
				for b := in.Block(); b != nil; b = b.Idom() {
					for _, i2 := range b.Instrs {
						if s, ok := i2.(*ssa.Send); ok && loadsField(s.Chan, r.ConnErrChan) && instrDominates(s, in) {
							published = true
						}
					}
				}
				a.check(published, rule, fmt.Sprintf("close-order@%s#%d", f.Name(), m), w.posOf(in), "event channel closed after the reason was published",
					"the event channel is closed before the reader published its reason: the parser (and then Error()) can observe the end of the stream before the reason is available")
			}
		})
	}
}

func isEventChanValue(v ssa.Value) bool { return isBinlogEventChan(v.Type()) }

func c05R5(a *A, r *Roles) {
	const rule = "C05-R5"
	w := a.W
	// Stream: defer close(conn) dominating every return not on the constructor-failed edge
	var def *ssa.Defer
	instrs(r.Stream, func(in ssa.Instruction) {
		if d, ok := in.(*ssa.Defer); ok && d.Call.StaticCallee() == r.CloseConn {
			if len(d.Call.Args) == 1 {
				if ex, ok := d.Call.Args[0].(*ssa.Extract); ok && ex.Tuple == ssa.Value(r.NewConnCall) {
					def = d
				}
			}
		}
	})
	if def == nil {
		a.viol(rule, "release@Stream", w.posOf(r.NewConnCall), "Stream does not defer closing the connection it created: the socket (and a reader blocked in ReadPacket) outlive Stream")
	} else {
		var errV ssa.Value
		for _, ref := range *r.NewConnCall.Referrers() {
			if ex, ok := ref.(*ssa.Extract); ok && isErrType(ex.Type()) {
				errV = ex
			}
		}
		ok := true
		for _, ret := range returnsOf(r.Stream) {
			if def.Block().Dominates(ret.Block()) {
				continue
			}
			if errV != nil && nonNilAt(errV, ret.Block()) {
				continue // constructor failed: nothing to release
			}
			ok = false
		}
		// nothing that can exit between construction and the defer
		between := false
		if def.Block() == r.NewConnCall.Block() {
			between = false
		} else {
			for _, in := range def.Block().Instrs {
				if in == ssa.Instruction(def) {
					break
				}
				if _, isCall := in.(*ssa.Call); isCall {
					between = true
				}
			}
		}
		a.check(ok && !between, rule, "release@Stream", w.posOf(def), "defer conn.close() dominates every exit after construction", "some exit of Stream after the connection was created skips its close")
	}
	// constructor: after the factory succeeded, every return hands the object out or closes it first
	var alloc ssa.Value
	instrs(r.NewConn, func(in ssa.Instruction) {
		if al, ok := in.(*ssa.Alloc); ok && typeIs(al.Type(), rootPath, "slaveConnection") {
			alloc = al
		}
	})
	if a.need(alloc != nil, rule, "connection object allocation in the constructor") {
		n := 0
		for _, ret := range returnsOf(r.NewConn) {
			if !alloc.(*ssa.Alloc).Block().Dominates(ret.Block()) {
				continue
			}
			n++
			key := fmt.Sprintf("release@%s[ret#%d]", r.NewConn.Name(), n)
			if resolve(ret.Results[0]) == alloc {
				a.hold(rule, key, w.posOf(ret), "hands the connection out")
				continue
			}
			closed := false
			for b := ret.Block(); b != nil; b = b.Idom() {
				for _, in := range b.Instrs {
					if c, ok := in.(*ssa.Call); ok && c.Common().StaticCallee() == r.CloseConn && len(c.Common().Args) == 1 && c.Common().Args[0] == alloc {
						closed = true
					}
				}
			}
			a.check(closed, rule, key, w.posOf(ret), "closes the connection before failing", "the constructor fails after the driver connection exists without closing it: the socket leaks")
		}
	}
	// close reaches dc.Close() under sync.Once
	once, closes := false, false
	instrs(r.CloseConn, func(in ssa.Instruction) {
		if c := callCommon(in); c != nil && staticCalleeIs(c, "(*sync.Once).Do") {
			once = true
			if mc, ok := c.Args[1].(*ssa.MakeClosure); ok {
				instrs(mc.Fn.(*ssa.Function), func(i2 ssa.Instruction) {
					if cc := callCommon(i2); cc != nil && isInvokeOf(cc, "Close") {
						closes = true
					}
				})
			}
		}
		if cc := callCommon(in); cc != nil && isInvokeOf(cc, "Close") {
			closes = true
		}
	})
	a.check(once && closes, rule, "release@close", w.pos(r.CloseConn.Pos()), "close() calls dc.Close() under sync.Once", "close() does not reach dc.Close() under a sync.Once")
}

// ctxDerivation: v is result 0 of context.WithCancel/WithTimeout/WithDeadline called in f.
func ctxDerivation(v ssa.Value) (*ssa.Call, bool) {
	v = resolve(v)
	ex, ok := v.(*ssa.Extract)
	if !ok || ex.Index != 0 {
		return nil, false
	}
	c, ok := ex.Tuple.(*ssa.Call)
	if !ok {
		return nil, false
	}
	f := c.Common().StaticCallee()
	if f == nil || f.Pkg == nil || f.Pkg.Pkg.Path() != "context" {
		return nil, false
	}
	switch f.Name() {
	case "WithCancel", "WithTimeout", "WithDeadline", "WithCancelCause":
		return c, true
	}
	return nil, false
}

func c05R6(a *A, r *Roles) {
	const rule = "C05-R6"
	w := a.W
	var ctxArg ssa.Value
	for _, arg := range r.StartDumpCall.Common().Args {
		if namedIs(arg.Type(), "context", "Context") {
			ctxArg = arg
		}
	}
	if !a.need(ctxArg != nil, rule, "context argument of the dump starter") {
		return
	}
	der, ok := ctxDerivation(ctxArg)
	if !ok {
		a.viol(rule, "reader-ctx@Stream", w.posOf(r.StartDumpCall), "Stream hands the caller's context (%s) to the reader: when the parser stops for any reason other than the caller cancelling (handler error, decode error, table lookup failure) "+
			"a reader holding the next event stays parked on the hand-off forever, its reason channel is never closed and a later Error() blocks", describe(resolve(ctxArg)))
		return
	}
	// cancel deferred before the dump starts
	var cancel ssa.Value
	for _, ref := range *der.Referrers() {
		if ex, ok := ref.(*ssa.Extract); ok && ex.Index == 1 {
			cancel = ex
		}
	}
	deferred := false
	instrs(r.Stream, func(in ssa.Instruction) {
		d, ok := in.(*ssa.Defer)
		if !ok || cancel == nil {
			return
		}
		if resolve(d.Call.Value) == cancel && instrDominates(d, r.StartDumpCall) {
			deferred = true
		}
	})
	a.check(deferred, rule, "reader-ctx@Stream", w.posOf(der), "reader context derived in Stream, cancel deferred before the dump starts",
		"the reader's context is derived in Stream but its cancel function is not deferred before the dump starts: Stream's return does not stop the reader")
	// the goroutine's select uses the context it was given
	var selCtx ssa.Value
	instrs(r.Reader, func(in ssa.Instruction) {
		if s, ok := in.(*ssa.Select); ok {
			for _, st := range s.States {
				if dc, ok := isDoneCall(st.Chan); ok {
					selCtx = resolveFree(dc.Common().Value, r)
				}
			}
		}
	})
	var param ssa.Value
	for _, p := range r.StartDump.Params {
		if namedIs(p.Type(), "context", "Context") {
			param = p
		}
	}
	a.check(selCtx != nil && selCtx == param, rule, "reader-ctx@reader", w.pos(r.Reader.Pos()), "the reader selects on the context passed by Stream", "the reader's select watches a context other than the one Stream passes")
}

// resolveFree: a load of a captured variable in the reader resolves to what the
// enclosing function stored into that variable before the go statement.
func resolveFree(v ssa.Value, r *Roles) ssa.Value {
	v = strip(v)
	u, ok := v.(*ssa.UnOp)
	if !ok || u.Op != token.MUL {
		return v
	}
	fv, ok := u.X.(*ssa.FreeVar)
	if !ok {
		return v
	}
	mc, ok := r.GoInstr.Call.Value.(*ssa.MakeClosure)
	if !ok {
		return v
	}
	for i, f := range r.Reader.FreeVars {
		if f != fv {
			continue
		}
		cell := mc.Bindings[i]
		var val ssa.Value
		n := 0
		instrs(r.StartDump, func(in ssa.Instruction) {
			if st, ok := in.(*ssa.Store); ok && st.Addr == cell {
				val = st.Val
				n++
			}
		})
		if n == 1 {
			return val
		}
	}
	return v
}

func c05R7(a *A, r *Roles) {
	const rule = "C05-R7"
	w := a.W
	// receives on Streamer.errChan in Error()
	n := 0
	instrs(r.ErrorM, func(in ssa.Instruction) {
		var ch ssa.Value
		blocking := false
		switch x := in.(type) {
		case *ssa.UnOp:
			if x.Op == token.ARROW {
				ch, blocking = x.X, true
			}
		case *ssa.Select:
			for _, st := range x.States {
				if st.Dir == types.RecvOnly && loadsField(st.Chan, r.ErrChanField) {
					ch, blocking = st.Chan, x.Blocking
					// a blocking select with only this state is a plain receive
				}
			}
		}
		if ch == nil || !loadsField(ch, r.ErrChanField) {
			return
		}
		n++
		key := fmt.Sprintf("recv@Error#%d", n)
		if !blocking {
			a.hold(rule, key, w.posOf(in), "non-blocking receive")
			return
		}
		guarded := false
		for _, ce := range dominatingConds(in.Block()) {
			x, nonNilOnTrue, ok := nilTest(ce.Cond)
			if ok && ce.Val == nonNilOnTrue && loadsField(x, r.ErrChanField) {
				guarded = true
			}
		}
		a.check(guarded, rule, key, w.posOf(in), "receive guarded by a non-nil test of the channel",
			"Error() receives from the streamer's reason channel without checking it for nil: when the attempt failed before a connection existed (bad DSN, connect or handshake failure) the channel was never set and Error() blocks forever")
	})
	a.atLeast(rule, "recv@Error", 1)
	// stores to Streamer.errChan: only in Stream, only conn.errChan after a successful dump start
	m := 0
	for _, f := range w.srcFuncs(w.Root) {
		instrs(f, func(in ssa.Instruction) {
			st, ok := in.(*ssa.Store)
			if !ok || !isFieldAddrOf(st.Addr, r.ErrChanField) {
				return
			}
			m++
			key := fmt.Sprintf("errchan-store@%s#%d", f.Name(), m)
			if f != r.Stream {
				a.viol(rule, key, w.posOf(st), "the streamer's reason channel is set outside Stream")
				return
			}
			base, isConnChan := loadOfField(strip(st.Val), r.ConnErrChan)
			var dumpErr ssa.Value
			for _, ref := range *r.StartDumpCall.Referrers() {
				if ex, ok := ref.(*ssa.Extract); ok && isErrType(ex.Type()) {
					dumpErr = ex
				}
			}
			started := false
			for _, ce := range dominatingConds(st.Block()) {
				x, nonNilOnTrue, ok := nilTest(ce.Cond)
				if ok && x == dumpErr && ce.Val != nonNilOnTrue {
					started = true
				}
			}
			fromConn := false
			if isConnChan {
				if ex, ok := base.(*ssa.Extract); ok && ex.Tuple == ssa.Value(r.NewConnCall) {
					fromConn = true
				}
			}
			a.check(isConnChan && fromConn && started, rule, key, w.posOf(st), "the reason channel of the connection whose reader was started",
				"Error() may wait on a channel whose reader was never started (stored before the dump start succeeded, or not the connection's channel): it would never be closed")
		})
	}
	a.atLeast(rule, "errchan-store@", 1)
}

func c05R8(a *A, r *Roles) {
	const rule = "C05-R8"
	w := a.W
	mc, ok := r.GoInstr.Call.Value.(*ssa.MakeClosure)
	if !a.need(ok, rule, "closure started by the go statement") {
		return
	}
	// captured cells: every store dominates the go statement
	for i, b := range mc.Bindings {
		name := r.Reader.FreeVars[i].Name()
		al, isAlloc := b.(*ssa.Alloc)
		if !isAlloc {
			a.undecided(rule, "shared-cell@"+name, w.posOf(mc), "captured value is not a local variable cell")
			continue
		}
		c := newCell(al)
		ok := true
		for _, s := range c.stores() {
			if s.Fn != r.StartDump || !instrDominates(s.Store, r.GoInstr) {
				ok = false
			}
		}
		a.check(ok && len(c.otherUses()) == 0, rule, "shared-cell@"+name, w.posOf(al), "written only before the go statement", "a variable shared with the reader goroutine is written after (or concurrently with) its start")
	}
	// connection fields: stored only in the constructor, on the fresh object
	for _, fld := range []*types.Var{r.ConnDC, r.ConnErrChan} {
		ok := true
		n := 0
		for _, f := range w.srcFuncs(w.Root) {
			instrs(f, func(in ssa.Instruction) {
				st, isSt := in.(*ssa.Store)
				if !isSt || !isFieldAddrOf(st.Addr, fld) {
					return
				}
				n++
				fa := st.Addr.(*ssa.FieldAddr)
				_, fresh := fa.X.(*ssa.Alloc)
				if f != r.NewConn || !fresh {
					ok = false
					a.viol(rule, "shared-field@"+fld.Name()+"#"+fmt.Sprint(n), w.posOf(st), "connection field %s is written outside the constructor: races with the reader goroutine", fld.Name())
				}
			})
		}
		if ok {
			a.hold(rule, "shared-field@"+fld.Name(), "-", "stored only in the constructor (%d store)", n)
		}
	}
	// goroutine-reachable code does not touch Streamer
	reach := reachableIn(w.Root, r.Reader)
	touched := false
	for f := range reach {
		instrs(f, func(in ssa.Instruction) {
			if fa, ok := in.(*ssa.FieldAddr); ok && typeIs(fa.X.Type(), rootPath, "Streamer") {
				touched = true
				a.viol(rule, "streamer-in-goroutine@"+f.Name(), w.posOf(fa), "goroutine-reachable code touches Streamer.%s, which Stream writes without synchronisation", fieldName(fa))
			}
		})
	}
	if !touched {
		a.hold(rule, "streamer-in-goroutine", "-", "no Streamer field is touched by goroutine-reachable code")
	}
	// the event buffer handed over is allocated per event in the packet decoder
	fresh := false
	instrs(r.ReadEvent, func(in ssa.Instruction) {
		if c, ok := in.(*ssa.Call); ok {
			if f := c.Common().StaticCallee(); f != nil && f.Pkg == w.Repl && len(c.Common().Args) == 1 {
				if _, ok := c.Common().Args[0].(*ssa.MakeSlice); ok {
					fresh = true
				}
			}
		}
	})
	a.check(fresh, rule, "event-buffer@reader", w.pos(r.ReadEvent.Pos()), "each event gets a buffer allocated in the reader", "the event handed to the parser is not built on a per-event allocation")
}

func c05R9(a *A, r *Roles) {
	const rule = "C05-R9"
	w := a.W
	// blocking operations on Stream's own goroutine inside the library
	fns := reachableIn(w.Root, r.Stream)
	delete(fns, r.Reader)
	for f := range reachableIn(w.Root, r.Reader) {
		if f != r.CloseConn && f.Parent() != r.CloseConn {
			// reader-only functions are not on Stream's goroutine
			onStream := false
			for g := range fns {
				if g == r.Reader || g.Parent() == r.Reader {
					continue
				}
				instrs(g, func(in ssa.Instruction) {
					if c, ok := in.(*ssa.Call); ok && c.Common().StaticCallee() == f {
						onStream = true
					}
				})
			}
			if !onStream {
				delete(fns, f)
			}
		}
	}
	n := 0
	for f := range fns {
		if f == r.ErrorM {
			continue
		}
		instrs(f, func(in ssa.Instruction) {
			switch x := in.(type) {
			case *ssa.Select:
				n++
				key := fmt.Sprintf("parser-wait[select@%s#%d]", f.Name(), n)
				if !x.Blocking {
					a.hold(rule, key, w.posOf(x), "non-blocking")
					return
				}
				var done *ssa.Call
				for _, st := range x.States {
					if dc, ok := isDoneCall(st.Chan); ok && st.Dir == types.RecvOnly {
						done = dc
					}
				}
				if done == nil {
					a.viol(rule, key, w.posOf(x), "Stream's goroutine blocks in a select without a ctx.Done() case: cancellation cannot end the stream")
					return
				}
				// the context is the function's parameter, which Stream feeds with its own (or a derived) context
				okCtx := false
				if p, ok := resolve(done.Common().Value).(*ssa.Parameter); ok && f == r.Parser {
					for i, q := range r.Parser.Params {
						if q == p {
							arg := resolve(r.ParserCall.Common().Args[i])
							if _, isDer := ctxDerivation(arg); isDer {
								okCtx = true
							}
							if pp, ok := arg.(*ssa.Parameter); ok && pp.Parent() == r.Stream {
								okCtx = true
							}
						}
					}
				}
				a.check(okCtx, rule, key, w.posOf(x), "select watches the context given to Stream (or one derived from it)", "the parser's select watches a context that is not the one given to Stream")
			case *ssa.Send:
				n++
				a.viol(rule, fmt.Sprintf("parser-wait[send@%s#%d]", f.Name(), n), w.posOf(x), "Stream's goroutine performs a bare channel send")
			case *ssa.UnOp:
				if x.Op == token.ARROW {
					n++
					a.viol(rule, fmt.Sprintf("parser-wait[recv@%s#%d]", f.Name(), n), w.posOf(x), "Stream's goroutine performs a bare channel receive: cancellation cannot interrupt it")
				}
			}
		})
	}
	a.atLeast(rule, "parser-wait", 1)
}
