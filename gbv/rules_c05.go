package main

import (
	"fmt"
	"go/token"
	"go/types"
	"sort"

	"golang.org/x/tools/go/ssa"
)

func init() {
	register("C05", propMeta{
		Explanation: "Timing bounds are runtime quantities; what makes them hold is structural and is decided: (R1) goroutine inventory of the library = the one reader; " +
			"(R2) the handler is not reachable from any goroutine body (with C02-R1: it runs only synchronously inside Stream); (R3) every blocking channel operation of the reader is " +
			"escapable (select with a ctx.Done() case, or a send on a capacity>=1 channel sent once per execution); (R4) every exit of the reader publishes its reason then closes errChan, " +
			"and the event channel's close is deferred at entry; errChan is closed nowhere else; (R5) Stream defers the connection close right after construction, the constructor closes on " +
			"its own failure path, close reaches dc.Close under sync.Once; (R6) the context handed to the reader is derived in Stream by WithCancel/WithTimeout/WithDeadline whose cancel is " +
			"deferred, so Stream's return always stops the reader; (R7) Error()'s receive is guarded against the nil channel and the channel it stores is only ever that of a connection whose " +
			"reader was started; (R8) everything the goroutine shares is written before the go statement and never after; (R9) the parser's only blocking operation is a select with a " +
			"ctx.Done() case that returns. Not decided: wall-clock bounds, a master that stalls inside the handshake calls, races inside the driver, misuse (Error() concurrently with Stream()).",
		Rule:        "instances = go statements, blocking channel operations, exits of the reader, exits of Stream/constructor, stores to shared cells and fields",
		Trusted:     append([]string{"driver facts (DESIGN 2): only Close() unblocks a pending ReadPacket; NewDumpConn watches its context only while connecting", "sync.Once, context.WithCancel, buffered channel send semantics"}, commonTrusted...),
		Assumptions: []string{"the handler and the table mapper return", "Error() is not called concurrently with Stream()"},
	}, runC05)

	addVariants(
		Variant{ID: "c05-r1-extra-goroutine", Prop: "C05", File: "streamer.go",
			Old: "\ts.errChan = conn.errChan\n", New: "\ts.errChan = conn.errChan\n\tgo func() { <-ctx.Done(); conn.close() }()\n",
			Expect: "C05-R1 go@"},
		Variant{ID: "c05-r3-unbuffered-errchan", Prop: "C05", File: "slave_connection.go",
			Old: "errChan: make(chan *Error, 1),", New: "errChan: make(chan *Error),",
			Expect: "C05-R3 blocking@reader"},
		Variant{ID: "c05-r3-plain-send", Prop: "C05", File: "slave_connection.go",
			Old: "\t\t\tselect {\n\t\t\tcase eventChan <- ev:\n\t\t\tcase <-ctx.Done():", New: "\t\t\teventChan <- ev\n\t\t\tselect {\n\t\t\tdefault:\n\t\t\tcase <-ctx.Done():",
			Expect: "C05-R3 blocking@reader"},
		Variant{ID: "c05-r4-no-close-on-cancel", Prop: "C05", File: "slave_connection.go",
			Old: "\t\t\t\ts.errChan <- newError(ctx.Err()).msgf(\"startDumpFromBinlogPosition cancel\")\n\t\t\t\tclose(s.errChan)\n", New: "\t\t\t\ts.errChan <- newError(ctx.Err()).msgf(\"startDumpFromBinlogPosition cancel\")\n",
			Expect: "C05-R4 exit@reader"},
		Variant{ID: "c05-r5-no-defer-close", Prop: "C05", File: "streamer.go",
			Old: "\tdefer conn.close()\n", New: "",
			Expect: "C05-R5 release@Stream"},
		Variant{ID: "c05-r5-ctor-leak", Prop: "C05", File: "slave_connection.go",
			Old: "\tif err := s.prepareForReplication(); err != nil {\n\t\ts.close()\n", New: "\tif err := s.prepareForReplication(); err != nil {\n",
			Expect: "C05-R5 release@newSlaveConnection"},
		Variant{ID: "c05-r5-close-before-attach", Prop: "C05", File: "slave_connection.go",
			Old: "\t\tdc:      m,\n", New: "",
			Old2: "\t\ts.close()\n\t\treturn nil, err\n\t}\n", New2: "\t\ts.close()\n\t\treturn nil, err\n\t}\n\ts.dc = m\n",
			Expect: "C05-R5 release@newSlaveConnection"},
		Variant{ID: "c05-r5-ctor-returns-open-conn-with-error", Prop: "C05", File: "slave_connection.go",
			Old: "\tif err := s.prepareForReplication(); err != nil {\n\t\ts.close()\n\t\treturn nil, err\n\t}\n\n\treturn s, nil\n", New: "\treturn s, s.prepareForReplication()\n",
			Expect: "C05-R5 release@newSlaveConnection"},
		Variant{ID: "c05-r6-caller-ctx", Prop: "C05", File: "streamer.go",
			Old: "\tctx, cancel := context.WithCancel(ctx)\n\tdefer cancel()\n", New: "",
			Expect: "C05-R6 reader-ctx@Stream"},
		Variant{ID: "c05-r6-cancel-not-deferred", Prop: "C05", File: "streamer.go",
			Old: "\tdefer cancel()\n", New: "\t_ = cancel\n",
			Expect: "C05-R6 reader-ctx@Stream"},
		Variant{ID: "c05-r7-nil-chan", Prop: "C05", File: "streamer.go",
			Old: "\tif s.errChan == nil {\n\t\t// no dump was started, so there is no reader to report a reason\n\t\treturn nil\n\t}\n", New: "",
			Expect: "C05-R7 recv@Error"},
		Variant{ID: "c05-r7-early-store", Prop: "C05", File: "streamer.go",
			Old: "\ts.sendTransaction = sendTransaction\n", New: "\ts.sendTransaction = sendTransaction\n\ts.errChan = conn.errChan\n",
			Expect: "C05-R7 errchan-store@Stream"},
		Variant{ID: "c05-r8-late-field-write", Prop: "C05", File: "slave_connection.go",
			Old: "\treturn eventChan, nil\n", New: "\ts.errChan = make(chan *Error, 1)\n\treturn eventChan, nil\n",
			Expect: "C05-R8 shared-field@errChan"},
		Variant{ID: "c05-r11-second-sender", Prop: "C05", File: "streamer.go",
			Old: "\tif err != nil {\n\t\treturn err.msgf(\"parseEvents fail in pos: %+v\", err)", New: "\tif err != nil {\n\t\tselect {\n\t\tcase conn.errChan <- err:\n\t\tdefault:\n\t\t}\n\t\treturn err.msgf(\"parseEvents fail in pos: %+v\", err)",
			Expect: "C05-R11 sole-sender@"},
		Variant{ID: "c05-r9-parser-plain-receive", Prop: "C05", File: "streamer.go",
			Old: "\t\tcase <-ctx.Done():\n\t\t\t_log.Infof(\"parseEvents stopping early", New: "\t\tcase <-make(chan struct{}):\n\t\t\t_log.Infof(\"parseEvents stopping early",
			Expect: "C05-R9 parser-wait"},
	)
}

func runC05(a *A) {
	r := resolveRoles(a, "C05-R0")
	if r == nil {
		return
	}
	c05R1(a, r)
	c05R2(a, r)
	c05R3(a, r)
	c05R4(a, r, "C05-R4")
	c05R5(a, r)
	c05R6(a, r)
	c05R7(a, r)
	c05R8(a, r)
	c05R9(a, r)
	// R10: the reader cannot spin in the packet decoder (retry loops) nor bypass its hand-off
	readerForwardsAll(a, "C05-R10", r)
	c05R11(a, r)
}

func libPkgs(w *World) []*ssa.Package { return []*ssa.Package{w.Root, w.Repl} }

func c05R1(a *A, r *Roles) {
	const rule = "C05-R1"
	w := a.W
	n := 0
	for _, p := range libPkgs(w) {
		for _, f := range w.srcFuncs(p) {
			instrs(f, func(in ssa.Instruction) {
				g, ok := in.(*ssa.Go)
				if !ok {
					return
				}
				n++
				key := fmt.Sprintf("go@%s#%d", f.Name(), n)
				a.check(g == r.GoInstr, rule, key, w.posOf(g), "the reader goroutine", "the library starts a goroutine that is not in the inventory: nothing proves it ends when Stream returns")
			})
		}
	}
	a.atLeast(rule, "go@", 1)
}

func c05R2(a *A, r *Roles) {
	const rule = "C05-R2"
	w := a.W
	reach := reachableIn(w.Root, r.Reader)
	for f := range reach {
		a.touch(f)
	}
	a.check(!reach[r.Commit] && !reach[r.Parser], rule, "confined@reader", w.posOf(r.GoInstr), fmt.Sprintf("handler call site not reachable from the goroutine (%d functions)", len(reach)),
		"the commit closure (the only handler call site) is reachable from the reader goroutine: the handler can run concurrently with or after Stream")
	// no call through a SendTransactionFunc-typed value in goroutine-reachable code
	for f := range reach {
		instrs(f, func(in ssa.Instruction) {
			if c := callCommon(in); c != nil && !c.IsInvoke() && namedIs(c.Value.Type(), rootPath, "SendTransactionFunc") {
				a.viol(rule, "handler-in-goroutine@"+f.Name(), w.posOf(in), "the handler is called from goroutine-reachable code")
			}
		})
	}
	if a.Tier == "thorough" {
		cg := w.CallGraph()
		a.check(!vtaReaches(cg, r.Reader, r.Commit), rule, "confined@reader[vta]", w.posOf(r.GoInstr), "confirmed on the VTA call graph", "VTA call graph: commit closure reachable from the reader")
	}
}

// errChan make: capacity of the channel stored into slaveConnection.errChan
func errChanCap(a *A, r *Roles) (int64, *ssa.MakeChan) {
	var mk *ssa.MakeChan
	n := 0
	for _, f := range a.W.srcFuncs(a.W.Root) {
		instrs(f, func(in ssa.Instruction) {
			st, ok := in.(*ssa.Store)
			if !ok || !isFieldAddrOf(st.Addr, r.ConnErrChan) {
				return
			}
			n++
			if m, ok := st.Val.(*ssa.MakeChan); ok {
				mk = m
			} else {
				mk = nil
			}
		})
	}
	if n != 1 || mk == nil {
		return -1, nil
	}
	k, ok := constInt(mk.Size)
	if !ok {
		return -1, mk
	}
	return k, mk
}

func c05R3(a *A, r *Roles) {
	const rule = "C05-R3"
	w := a.W
	reach := reachableIn(w.Root, r.Reader)
	capN, mk := errChanCap(a, r)
	n := 0
	for f := range reach {
		instrs(f, func(in ssa.Instruction) {
			switch x := in.(type) {
			case *ssa.Select:
				n++
				key := fmt.Sprintf("blocking@reader[select#%d]", n)
				if !x.Blocking {
					a.hold(rule, key, w.posOf(x), "non-blocking select")
					return
				}
				hasDone := false
				for _, st := range x.States {
					if st.Dir == types.RecvOnly {
						if _, ok := isDoneCall(st.Chan); ok {
							hasDone = true
						}
					}
				}
				a.check(hasDone, rule, key, w.posOf(x), "blocking select has a ctx.Done() case", "the reader can block in a select that has no ctx.Done() case: it parks forever once the parser stopped receiving")
			case *ssa.Send:
				n++
				key := fmt.Sprintf("blocking@reader[send#%d]", n)
				if !loadsField(x.Chan, r.ConnErrChan) {
					a.viol(rule, key, w.posOf(x), "the reader sends on %s outside a select with a ctx.Done() case: it parks forever once the parser stopped receiving", describe(x.Chan))
					return
				}
				once := !inCycle(x.Block())
				// no second send on the same channel after this one
				reachesOther := false
				for _, b2 := range f.Blocks {
					for _, i2 := range b2.Instrs {
						if s2, ok := i2.(*ssa.Send); ok && s2 != x && loadsField(s2.Chan, r.ConnErrChan) {
							if reachesAvoiding(x.Block(), b2, nil, nil) && x.Block() != b2 {
								reachesOther = true
							}
							if x.Block() == b2 {
								reachesOther = true
							}
						}
					}
				}
				pos := w.posOf(x)
				if mk != nil && capN < 1 {
					pos = w.posOf(mk)
				}
				a.check(capN >= 1 && once && !reachesOther, rule, key, pos, fmt.Sprintf("send on the capacity-%d reason channel, at most once per execution", capN),
					fmt.Sprintf("the reader's send of its exit reason can block (capacity=%d, once=%v, second send reachable=%v): nobody may be receiving, so the goroutine leaks and the channel is never closed", capN, once, reachesOther))
			case *ssa.UnOp:
				if x.Op == token.ARROW {
					n++
					key := fmt.Sprintf("blocking@reader[recv#%d]", n)
					_, ok := isDoneCall(x.X)
					a.check(ok, rule, key, w.posOf(x), "receive on ctx.Done()", "the reader blocks on a bare channel receive")
				}
			}
		})
	}
	a.atLeast(rule, "blocking@reader", 2)
}

// closeOf: in is `close(ch)`; returns ch.
func closeOf(in ssa.Instruction) (ssa.Value, bool) {
	c := callCommon(in)
	if c == nil || !isBuiltin(c, "close") || len(c.Args) != 1 {
		return nil, false
	}
	return c.Args[0], true
}

// R4 (also used as C06-R5): every exit of the reader publishes, then closes.
//
// The reader's protocol is a three-state automaton over the effects on its two channels: S0 (nothing yet) --send reason-->
// S1 --close(reason channel)--> S2. It is run as a forward dataflow over the reader's control-flow graph with sets of
// states; calls to in-package functions apply the callee's own transfer function (computed the same way, bounded depth), so
// the effects may sit in helpers. Every return of the reader must be reached in S2 only; an explicit close of the event
// channel needs S1 or S2; a deferred close of the event channel must be registered in the entry block.
type rdState uint8

const (
	rdS0 rdState = 1 << iota
	rdS1
	rdS2
)

type rdFlow struct {
	a      *A
	r      *Roles
	rule   string
	report bool
	memo   map[*ssa.Function]map[rdState]rdState // callee transfer: single in-state -> set of out-states
	byBool map[*ssa.Call][2]rdState              // for a call of a bool-returning callee: states after it per returned constant (0 false, 1 true)
	active map[*ssa.Function]bool
	nOrd   int
}

// step applies one instruction to a state set.
func (fl *rdFlow) step(in ssa.Instruction, st rdState, depth int) rdState {
	w := fl.a.W
	switch x := in.(type) {
	case *ssa.Send:
		if !loadsField(x.Chan, fl.r.ConnErrChan) {
			return st
		}
		if st&(rdS1|rdS2) != 0 && fl.report {
			fl.a.viol(fl.rule, "exit@reader[second-publish]", w.posOf(in), "the reason channel can be sent to a second time (or after it was closed)")
		}
		if st&rdS0 != 0 {
			return rdS1
		}
		return 0
	case *ssa.Defer:
		return st // runs at exit; checked separately
	case *ssa.Go:
		return st
	}
	if ch, ok := closeOf(in); ok {
		switch {
		case loadsField(ch, fl.r.ConnErrChan):
			if st&(rdS0|rdS2) != 0 && fl.report {
				fl.a.viol(fl.rule, "exit@reader[close-reason]", w.posOf(in), "the reason channel can be closed before the reason was sent (Error() then reports a nil reason) or closed twice")
			}
			if st&rdS1 != 0 {
				return rdS2
			}
			return 0
		case isBinlogEventChan(ch.Type()):
			if fl.report {
				fl.nOrd++
				fl.a.check(st&rdS0 == 0, fl.rule, fmt.Sprintf("close-order@%s#%d", in.Parent().Name(), fl.nOrd), w.posOf(in), "event channel closed after the reason was published",
					"the event channel is closed before the reader published its reason: the parser (and then Error()) can observe the end of the stream before the reason is available")
			}
			return st
		}
		return st
	}
	if c, ok := in.(*ssa.Call); ok {
		cal := c.Common().StaticCallee()
		if cal != nil && cal.Blocks != nil && cal.Pkg == w.Root && depth < 3 && !fl.active[cal] {
			var out rdState
			var parts [2]rdState
			split := cal.Signature.Results().Len() == 1 && types.Identical(cal.Signature.Results().At(0).Type(), types.Typ[types.Bool])
			for _, one := range []rdState{rdS0, rdS1, rdS2} {
				if st&one != 0 {
					out |= fl.transfer(cal, one, depth+1)
					if split {
						p, ok := fl.transferByBool(cal, one, depth+1)
						if !ok {
							split = false
						}
						parts[0] |= p[0]
						parts[1] |= p[1]
					}
				}
			}
			if fl.byBool == nil {
				fl.byBool = map[*ssa.Call][2]rdState{}
			}
			if split {
				fl.byBool[c] = parts
			} else {
				delete(fl.byBool, c)
			}
			return out
		}
	}
	return st
}

// transfer: the set of states in which f can return when entered in state in.
func (fl *rdFlow) transfer(f *ssa.Function, in rdState, depth int) rdState {
	if !fl.report {
		if m, ok := fl.memo[f]; ok {
			if o, ok := m[in]; ok {
				return o
			}
		}
	}
	fl.active[f] = true
	defer delete(fl.active, f)
	saved := fl.report
	if depth > 0 {
		fl.report = false
	}
	out := fl.run(f, in, depth, nil)
	fl.report = saved
	if fl.memo[f] == nil {
		fl.memo[f] = map[rdState]rdState{}
	}
	fl.memo[f][in] = out
	return out
}

// transferByBool: for a callee returning a bool, the states in which it returns the constant false / true (ok is false when
// some return is not a constant).
func (fl *rdFlow) transferByBool(f *ssa.Function, in rdState, depth int) ([2]rdState, bool) {
	var parts [2]rdState
	ok := true
	fl.active[f] = true
	defer delete(fl.active, f)
	saved := fl.report
	fl.report = false
	fl.run(f, in, depth, func(ret *ssa.Return, st rdState) {
		b, isC := constBool(ret.Results[0])
		if !isC {
			ok = false
			return
		}
		if b {
			parts[1] |= st
		} else {
			parts[0] |= st
		}
	})
	fl.report = saved
	return parts, ok
}

// run is the forward dataflow; atRet, when given, receives the state set at each return.
func (fl *rdFlow) run(f *ssa.Function, in rdState, depth int, atRet func(*ssa.Return, rdState)) rdState {
	ins := map[*ssa.BasicBlock]rdState{f.Blocks[0]: in}
	work := []*ssa.BasicBlock{f.Blocks[0]}
	outs := map[*ssa.BasicBlock]rdState{}
	rep := fl.report
	fl.report = false
	for len(work) > 0 {
		b := work[0]
		work = work[1:]
		st := ins[b]
		var lastCall *ssa.Call
		var afterCall rdState
		for _, i := range b.Instrs {
			st = fl.step(i, st, depth)
			if c, ok := i.(*ssa.Call); ok {
				if _, has := fl.byBool[c]; has {
					lastCall, afterCall = c, st
				}
			}
		}
		if o, seen := outs[b]; seen && o == st {
			continue
		}
		outs[b] = st
		for k, s := range b.Succs {
			es := st
			// a branch on the bool a callee returned: each edge carries only the states in which the callee returns that value
			if lastCall != nil && afterCall == st {
				if iff, ok := lastInstr(b).(*ssa.If); ok {
					c, neg := iff.Cond, false
					for {
						u, isNot := c.(*ssa.UnOp)
						if !isNot || u.Op != token.NOT {
							break
						}
						c, neg = u.X, !neg
					}
					if c == ssa.Value(lastCall) {
						want := 1
						if (k == 0) == neg {
							want = 0
						}
						es = fl.byBool[lastCall][want]
					}
				}
			}
			if ins[s]|es != ins[s] {
				ins[s] |= es
				work = append(work, s)
			} else if _, seen := outs[s]; !seen {
				work = append(work, s)
			}
		}
	}
	fl.report = rep
	// reporting pass over the fixed point, in block order
	var exit rdState
	for _, b := range f.Blocks {
		st, reached := ins[b]
		if !reached {
			continue
		}
		for _, i := range b.Instrs {
			if ret, ok := i.(*ssa.Return); ok {
				exit |= st
				if atRet != nil {
					atRet(ret, st)
				}
			}
			st = fl.step(i, st, depth)
		}
	}
	return exit
}

func c05R4(a *A, r *Roles, rule string) {
	w := a.W
	fl := &rdFlow{a: a, r: r, rule: rule, report: true, memo: map[*ssa.Function]map[rdState]rdState{}, active: map[*ssa.Function]bool{r.Reader: true}}
	n := 0
	fl.run(r.Reader, rdS0, 0, func(ret *ssa.Return, st rdState) {
		n++
		key := fmt.Sprintf("exit@reader[ret#%d]", n)
		a.check(st == rdS2, rule, key, w.posOf(ret), "publishes its reason, then closes the reason channel",
			"an exit of the reader goroutine does not (send its reason and then) close the reason channel: Error() blocks forever or the reason is lost")
	})
	a.atLeast(rule, "exit@reader[ret#", 1)
	// every published reason is non-nil (sends in the reader and in the functions it calls)
	reach := reachableIn(w.Root, r.Reader)
	m := 0
	var sendFns []*ssa.Function
	for f := range reach {
		sendFns = append(sendFns, f)
	}
	sort.Slice(sendFns, func(i, j int) bool { return sendFns[i].Pos() < sendFns[j].Pos() })
	for _, f := range sendFns {
		instrs(f, func(in ssa.Instruction) {
			s, ok := in.(*ssa.Send)
			if !ok || !loadsField(s.Chan, r.ConnErrChan) {
				return
			}
			m++
			a.check(nonNilReason(s.X, s.Block(), f, reach, 0), rule, fmt.Sprintf("exit@reader[reason#%d]", m), w.posOf(s), "published reason is non-nil", "the reader publishes a possibly-nil reason")
		})
	}
	// deferred close of the event channel in the entry block
	okDefer := false
	for _, in := range r.Reader.Blocks[0].Instrs {
		d, ok := in.(*ssa.Defer)
		if !ok {
			continue
		}
		if ch, ok := closeOf(d); ok && isEventChanValue(ch) {
			okDefer = true
		}
		if mc, ok := d.Call.Value.(*ssa.MakeClosure); ok {
			instrs(mc.Fn.(*ssa.Function), func(i2 ssa.Instruction) {
				if ch, ok := closeOf(i2); ok && isBinlogEventChan(ch.Type()) {
					okDefer = true
				}
			})
		}
	}
	a.check(okDefer, rule, "exit@reader[event-chan-close]", w.pos(r.Reader.Pos()), "close(eventChan) deferred at entry", "the event channel's close is not deferred at the reader's entry: the parser never sees the end of the stream")
	// channels are closed only by the reader: in its body, its closures, or functions that only the reader's code calls
	private := readerPrivate(w, r.Reader)
	k := 0
	for _, f := range w.srcFuncs(w.Root) {
		instrs(f, func(in ssa.Instruction) {
			ch, ok := closeOf(in)
			if !ok {
				return
			}
			if _, isCh := ch.Type().Underlying().(*types.Chan); !isCh {
				return
			}
			k++
			a.check(private[f], rule, fmt.Sprintf("close-site@%s#%d", f.Name(), k), w.posOf(in), "closed by the reader", "a channel is closed outside the reader goroutine (double close or close-before-publish)")
		})
	}
}

// nonNilReason: v, sent as the reader's reason from block b of f, cannot be nil: by construction, by a dominating nil test,
// or - when it is a parameter of a helper - at every call site of that helper in the reader's code.
var nonNilPhiBusy = map[*ssa.Phi]bool{}

func nonNilReason(v ssa.Value, b *ssa.BasicBlock, f *ssa.Function, reach map[*ssa.Function]bool, depth int) bool {
	if provablyNonNilErr(v) || nonNilAt(v, b) {
		return true
	}
	// a reason variable assigned on several paths (single-exit form): every incoming value is non-nil where it is assigned
	if phi, isPhi := resolve(v).(*ssa.Phi); isPhi && depth <= 2 {
		if nonNilPhiBusy[phi] {
			return true // the phi itself, round a loop: adds no value of its own
		}
		nonNilPhiBusy[phi] = true
		defer delete(nonNilPhiBusy, phi)
		for i, e := range phi.Edges {
			if i >= len(phi.Block().Preds) || !nonNilReason(e, phi.Block().Preds[i], f, reach, depth) {
				return false
			}
		}
		return len(phi.Edges) > 0
	}
	p, ok := resolve(v).(*ssa.Parameter)
	if !ok || depth > 2 {
		return false
	}
	idx := -1
	for i, q := range f.Params {
		if q == p {
			idx = i
		}
	}
	if idx < 0 {
		return false
	}
	sites := 0
	good := true
	for g := range reach {
		instrs(g, func(in ssa.Instruction) {
			ci, ok := in.(ssa.CallInstruction)
			if !ok || ci.Common().StaticCallee() != f || ci.Common().IsInvoke() {
				return
			}
			sites++
			if idx >= len(ci.Common().Args) || !nonNilReason(ci.Common().Args[idx], in.Block(), g, reach, depth+1) {
				good = false
			}
		})
	}
	return good && sites > 0
}

// readerPrivate: the reader, its closures, and the in-package functions whose every static call site is in such a function
// and which are never used as a value.
func readerPrivate(w *World, reader *ssa.Function) map[*ssa.Function]bool {
	priv := map[*ssa.Function]bool{reader: true}
	fns := w.srcFuncs(w.Root)
	callers := map[*ssa.Function][]*ssa.Function{}
	escaped := map[*ssa.Function]bool{}
	for _, f := range fns {
		instrs(f, func(in ssa.Instruction) {
			if ci, ok := in.(ssa.CallInstruction); ok {
				if cal := ci.Common().StaticCallee(); cal != nil && !ci.Common().IsInvoke() {
					if _, isClosure := ci.Common().Value.(*ssa.MakeClosure); !isClosure {
						callers[cal] = append(callers[cal], f)
					}
				}
			}
			for _, op := range in.Operands(nil) {
				if op == nil || *op == nil {
					continue
				}
				if fn, ok := (*op).(*ssa.Function); ok {
					if ci, isCall := in.(ssa.CallInstruction); isCall && ci.Common().Value == ssa.Value(fn) {
						continue
					}
					if _, isMC := in.(*ssa.MakeClosure); isMC {
						continue
					}
					escaped[fn] = true
				}
			}
		})
	}
	for changed := true; changed; {
		changed = false
		for _, f := range fns {
			if priv[f] {
				continue
			}
			if f.Parent() != nil && priv[f.Parent()] {
				priv[f] = true
				changed = true
				continue
			}
			if escaped[f] || len(callers[f]) == 0 || f.Parent() != nil {
				continue
			}
			all := true
			for _, c := range callers[f] {
				if !priv[c] {
					all = false
				}
			}
			if all {
				priv[f] = true
				changed = true
			}
		}
	}
	return priv
}

func isEventChanValue(v ssa.Value) bool { return isBinlogEventChan(v.Type()) }

func c05R5(a *A, r *Roles) {
	const rule = "C05-R5"
	w := a.W
	// Stream: defer close(conn) dominating every return not on the constructor-failed edge
	var def *ssa.Defer
	instrs(r.Stream, func(in ssa.Instruction) {
		if d, ok := in.(*ssa.Defer); ok && d.Call.StaticCallee() == r.CloseConn {
			if len(d.Call.Args) == 1 {
				if ex, ok := d.Call.Args[0].(*ssa.Extract); ok && ex.Tuple == ssa.Value(r.NewConnCall) {
					def = d
				}
			}
		}
	})
	if def == nil {
		a.viol(rule, "release@Stream", w.posOf(r.NewConnCall), "Stream does not defer closing the connection it created: the socket (and a reader blocked in ReadPacket) outlive Stream")
	} else {
		var errV ssa.Value
		for _, ref := range *r.NewConnCall.Referrers() {
			if ex, ok := ref.(*ssa.Extract); ok && isErrType(ex.Type()) {
				errV = ex
			}
		}
		ok := true
		for _, ret := range returnsOf(r.Stream) {
			if def.Block().Dominates(ret.Block()) {
				continue
			}
			if errV != nil && nonNilAt(errV, ret.Block()) {
				continue // constructor failed: nothing to release
			}
			ok = false
		}
		// nothing that can exit between construction and the defer
		between := false
		if def.Block() == r.NewConnCall.Block() {
			between = false
		} else {
			for _, in := range def.Block().Instrs {
				if in == ssa.Instruction(def) {
					break
				}
				if _, isCall := in.(*ssa.Call); isCall {
					between = true
				}
			}
		}
		a.check(ok && !between, rule, "release@Stream", w.posOf(def), "defer conn.close() dominates every exit after construction", "some exit of Stream after the connection was created skips its close")
	}
	// constructor: after the factory succeeded, every return hands the object out or closes it first
	var alloc ssa.Value
	instrs(r.NewConn, func(in ssa.Instruction) {
		if al, ok := in.(*ssa.Alloc); ok && typeIs(al.Type(), rootPath, "slaveConnection") {
			alloc = al
		}
	})
	if a.need(alloc != nil, rule, "connection object allocation in the constructor") {
		n := 0
		for _, ret := range returnsOf(r.NewConn) {
			if !alloc.(*ssa.Alloc).Block().Dominates(ret.Block()) {
				continue
			}
			n++
			key := fmt.Sprintf("release@%s[ret#%d]", r.NewConn.Name(), n)
			if resolve(ret.Results[0]) == alloc {
				// handed out: the caller keeps (and later closes) it only when the error result is nil
				errNil := len(ret.Results) < 2 || isNilConst(resolve(ret.Results[len(ret.Results)-1]))
				if !errNil {
					ev := resolve(ret.Results[len(ret.Results)-1])
					for _, ce := range dominatingConds(ret.Block()) {
						if x, nonNilOnTrue, ok := nilTest(ce.Cond); ok && x == ev && ce.Val != nonNilOnTrue {
							errNil = true
						}
					}
				}
				if errNil {
					a.hold(rule, key, w.posOf(ret), "hands the connection out")
					continue
				}
				// returned together with a possibly non-nil error: Stream returns on that error before its deferred close
			}
			closed, attached := false, false
			for b := ret.Block(); b != nil; b = b.Idom() {
				for _, in := range b.Instrs {
					if c, ok := in.(*ssa.Call); ok && c.Common().StaticCallee() == r.CloseConn && len(c.Common().Args) == 1 && c.Common().Args[0] == alloc {
						closed = true
						// close() closes what the object holds: the driver connection must be in the object by then
						instrs(r.NewConn, func(i2 ssa.Instruction) {
							st, ok := i2.(*ssa.Store)
							if !ok {
								return
							}
							fa, ok := st.Addr.(*ssa.FieldAddr)
							if !ok || fa.X != alloc {
								return
							}
							if _, isIface := st.Val.Type().Underlying().(*types.Interface); isIface && !isNilConst(st.Val) && instrDominates(st, c) {
								attached = true
							}
						})
					}
				}
			}
			// closing the driver connection directly is as good
			for b := ret.Block(); b != nil && !(closed && attached); b = b.Idom() {
				for _, in := range b.Instrs {
					if c, ok := in.(*ssa.Call); ok && c.Common().IsInvoke() && c.Common().Method.Name() == "Close" && len(c.Common().Args) == 0 {
						if _, fromFactory := resolve(c.Common().Value).(*ssa.Extract); fromFactory {
							closed, attached = true, true
						}
					}
				}
			}
			if closed && !attached {
				a.viol(rule, key, w.posOf(ret), "the constructor calls close() on its failure path before the driver connection was stored in the object: close() finds nothing to close (and uses up its sync.Once), the socket leaks")
				continue
			}
			a.check(closed, rule, key, w.posOf(ret), "closes the connection before failing", "the constructor fails after the driver connection exists without closing it: the socket leaks")
		}
	}
	// close reaches dc.Close() under sync.Once
	once, closes := false, false
	bodies := onceBodies(w, r.CloseConn)
	once = len(bodies) > 0
	for f := range bodies {
		a.touch(f)
		instrs(f, func(i2 ssa.Instruction) {
			if cc := callCommon(i2); cc != nil && isInvokeOf(cc, "Close") {
				closes = true
			}
		})
	}
	a.check(once && closes, rule, "release@close", w.pos(r.CloseConn.Pos()), "close() calls dc.Close() under sync.Once", "close() does not reach dc.Close() under a sync.Once")
}

// ctxDerivation: v is result 0 of context.WithCancel/WithTimeout/WithDeadline called in f.
func ctxDerivation(v ssa.Value) (*ssa.Call, bool) {
	v = resolve(v)
	ex, ok := v.(*ssa.Extract)
	if !ok || ex.Index != 0 {
		return nil, false
	}
	c, ok := ex.Tuple.(*ssa.Call)
	if !ok {
		return nil, false
	}
	f := c.Common().StaticCallee()
	if f == nil || f.Pkg == nil || f.Pkg.Pkg.Path() != "context" {
		return nil, false
	}
	switch f.Name() {
	case "WithCancel", "WithTimeout", "WithDeadline", "WithCancelCause":
		return c, true
	}
	return nil, false
}

func c05R6(a *A, r *Roles) {
	const rule = "C05-R6"
	w := a.W
	var ctxArg ssa.Value
	for _, arg := range r.StartDumpCall.Common().Args {
		if namedIs(arg.Type(), "context", "Context") {
			ctxArg = arg
		}
	}
	if !a.need(ctxArg != nil, rule, "context argument of the dump starter") {
		return
	}
	der, ok := ctxDerivation(ctxArg)
	if !ok {
		a.viol(rule, "reader-ctx@Stream", w.posOf(r.StartDumpCall), "Stream hands the caller's context (%s) to the reader: when the parser stops for any reason other than the caller cancelling (handler error, decode error, table lookup failure) "+
			"a reader holding the next event stays parked on the hand-off forever, its reason channel is never closed and a later Error() blocks", describe(resolve(ctxArg)))
		return
	}
	// cancel deferred before the dump starts
	var cancel ssa.Value
	for _, ref := range *der.Referrers() {
		if ex, ok := ref.(*ssa.Extract); ok && ex.Index == 1 {
			cancel = ex
		}
	}
	deferred := false
	instrs(r.Stream, func(in ssa.Instruction) {
		d, ok := in.(*ssa.Defer)
		if !ok || cancel == nil {
			return
		}
		if resolve(d.Call.Value) == cancel && instrDominates(d, r.StartDumpCall) {
			deferred = true
		}
	})
	a.check(deferred, rule, "reader-ctx@Stream", w.posOf(der), "reader context derived in Stream, cancel deferred before the dump starts",
		"the reader's context is derived in Stream but its cancel function is not deferred before the dump starts: Stream's return does not stop the reader")
	// the goroutine's selects (in the reader or the functions it calls) use the context it was given
	reach := reachableIn(w.Root, r.Reader)
	var selCtxs []ssa.Value
	for f := range reach {
		instrs(f, func(in ssa.Instruction) {
			if s, ok := in.(*ssa.Select); ok {
				for _, st := range s.States {
					if dc, ok := isDoneCall(st.Chan); ok {
						selCtxs = append(selCtxs, traceToStarter(dc.Common().Value, f, r, reach, 0))
					}
				}
			}
		})
	}
	var param ssa.Value
	for _, p := range r.StartDump.Params {
		if namedIs(p.Type(), "context", "Context") {
			param = p
		}
	}
	sameCtx := len(selCtxs) > 0
	for _, c := range selCtxs {
		if c == nil || c != param {
			sameCtx = false
		}
	}
	a.check(sameCtx, rule, "reader-ctx@reader", w.pos(r.Reader.Pos()), "the reader selects on the context passed by Stream", "the reader's select watches a context other than the one Stream passes")
}

// resolveFree: a load of a captured variable in the reader resolves to what the
// enclosing function stored into that variable before the go statement.
func resolveFree(v ssa.Value, r *Roles) ssa.Value {
	v = strip(v)
	u, ok := v.(*ssa.UnOp)
	if !ok || u.Op != token.MUL {
		return v
	}
	fv, ok := u.X.(*ssa.FreeVar)
	if !ok {
		return v
	}
	mc, ok := r.GoInstr.Call.Value.(*ssa.MakeClosure)
	if !ok {
		return v
	}
	for i, f := range r.Reader.FreeVars {
		if f != fv {
			continue
		}
		cell := mc.Bindings[i]
		var val ssa.Value
		n := 0
		instrs(r.StartDump, func(in ssa.Instruction) {
			if st, ok := in.(*ssa.Store); ok && st.Addr == cell {
				val = st.Val
				n++
			}
		})
		if n == 1 {
			return val
		}
	}
	return v
}

func c05R7(a *A, r *Roles) {
	const rule = "C05-R7"
	w := a.W
	// receives on Streamer.errChan in Error()
	n := 0
	instrs(r.ErrorM, func(in ssa.Instruction) {
		var ch ssa.Value
		blocking := false
		switch x := in.(type) {
		case *ssa.UnOp:
			if x.Op == token.ARROW {
				ch, blocking = x.X, true
			}
		case *ssa.Select:
			for _, st := range x.States {
				if st.Dir == types.RecvOnly && loadsField(st.Chan, r.ErrChanField) {
					ch, blocking = st.Chan, x.Blocking
					// a blocking select with only this state is a plain receive
				}
			}
		}
		if ch == nil || !loadsField(ch, r.ErrChanField) {
			return
		}
		n++
		key := fmt.Sprintf("recv@Error#%d", n)
		if !blocking {
			a.hold(rule, key, w.posOf(in), "non-blocking receive")
			return
		}
		guarded := false
		for _, ce := range dominatingConds(in.Block()) {
			x, nonNilOnTrue, ok := nilTest(ce.Cond)
			if ok && ce.Val == nonNilOnTrue && loadsField(x, r.ErrChanField) {
				guarded = true
			}
		}
		a.check(guarded, rule, key, w.posOf(in), "receive guarded by a non-nil test of the channel",
			"Error() receives from the streamer's reason channel without checking it for nil: when the attempt failed before a connection existed (bad DSN, connect or handshake failure) the channel was never set and Error() blocks forever")
	})
	a.atLeast(rule, "recv@Error", 1)
	// stores to Streamer.errChan: only in Stream, only conn.errChan after a successful dump start
	m := 0
	for _, f := range w.srcFuncs(w.Root) {
		instrs(f, func(in ssa.Instruction) {
			st, ok := in.(*ssa.Store)
			if !ok || !isFieldAddrOf(st.Addr, r.ErrChanField) {
				return
			}
			m++
			key := fmt.Sprintf("errchan-store@%s#%d", f.Name(), m)
			if f != r.Stream {
				a.viol(rule, key, w.posOf(st), "the streamer's reason channel is set outside Stream")
				return
			}
			base, isConnChan := loadOfField(strip(st.Val), r.ConnErrChan)
			var dumpErr ssa.Value
			for _, ref := range *r.StartDumpCall.Referrers() {
				if ex, ok := ref.(*ssa.Extract); ok && isErrType(ex.Type()) {
					dumpErr = ex
				}
			}
			started := false
			for _, ce := range dominatingConds(st.Block()) {
				x, nonNilOnTrue, ok := nilTest(ce.Cond)
				if ok && x == dumpErr && ce.Val != nonNilOnTrue {
					started = true
				}
			}
			fromConn := false
			if isConnChan {
				if ex, ok := base.(*ssa.Extract); ok && ex.Tuple == ssa.Value(r.NewConnCall) {
					fromConn = true
				}
			}
			a.check(isConnChan && fromConn && started, rule, key, w.posOf(st), "the reason channel of the connection whose reader was started",
				"Error() may wait on a channel whose reader was never started (stored before the dump start succeeded, or not the connection's channel): it would never be closed")
		})
	}
	a.atLeast(rule, "errchan-store@", 1)
}

func c05R8(a *A, r *Roles) {
	const rule = "C05-R8"
	w := a.W
	if mc, ok := r.GoInstr.Call.Value.(*ssa.MakeClosure); ok {
		// captured cells: every store dominates the go statement
		for i, b := range mc.Bindings {
			name := r.Reader.FreeVars[i].Name()
			al, isAlloc := b.(*ssa.Alloc)
			if !isAlloc {
				a.undecided(rule, "shared-cell@"+name, w.posOf(mc), "captured value is not a local variable cell")
				continue
			}
			c := newCell(al)
			ok := true
			for _, s := range c.stores() {
				if s.Fn != r.StartDump || !instrDominates(s.Store, r.GoInstr) {
					ok = false
				}
			}
			a.check(ok && len(c.otherUses()) == 0, rule, "shared-cell@"+name, w.posOf(al), "written only before the go statement", "a variable shared with the reader goroutine is written after (or concurrently with) its start")
		}
	} else if a.need(r.GoInstr.Call.StaticCallee() != nil, rule, "function started by the go statement") {
		// started as `go fn(args)`: the arguments are copied at the go statement, no variable cell is shared; an argument that
		// is the address of a local would be one
		for i, arg := range r.GoInstr.Call.Args {
			_, isCell := strip(arg).(*ssa.Alloc)
			isLocalCell := false
			if isCell {
				if al := strip(arg).(*ssa.Alloc); al.Parent() == r.StartDump && !typeIs(al.Type(), rootPath, "slaveConnection") {
					isLocalCell = true
				}
			}
			if isLocalCell {
				// a state object built for the goroutine: fine when the starter only writes it before the go statement and
				// nobody else ever writes its fields (the starter may still read, e.g. return its channel)
				al := strip(arg).(*ssa.Alloc)
				if st := structOf(al.Type()); st != nil && al.Heap {
					okObj := true
					for _, ref := range *al.Referrers() {
						switch x := ref.(type) {
						case *ssa.FieldAddr:
							for _, rr := range *x.Referrers() {
								if s2, ok := rr.(*ssa.Store); ok && s2.Addr == ssa.Value(x) && !instrDominates(s2, r.GoInstr) {
									okObj = false
								}
							}
						case *ssa.Store:
							if x.Addr == ssa.Value(al) && !instrDominates(x, r.GoInstr) {
								okObj = false
							}
						}
					}
					for _, g := range w.srcFuncs(w.Root) {
						if g == r.StartDump {
							continue
						}
						instrs(g, func(in ssa.Instruction) {
							if s2, ok := in.(*ssa.Store); ok {
								if fa, ok := s2.Addr.(*ssa.FieldAddr); ok && types.Identical(fa.X.Type(), al.Type()) {
									okObj = false
								}
							}
						})
					}
					if okObj {
						isLocalCell = false
					}
				}
			}
			a.check(!isLocalCell, rule, fmt.Sprintf("shared-cell@arg#%d", i), w.posOf(r.GoInstr), "passed by value at the go statement (or a state object written only before it)", "the address of a local variable is handed to the reader goroutine")
		}
	}
	// connection fields: stored only in the constructor, on the fresh object
	for _, fld := range []*types.Var{r.ConnDC, r.ConnErrChan} {
		ok := true
		n := 0
		for _, f := range w.srcFuncs(w.Root) {
			instrs(f, func(in ssa.Instruction) {
				st, isSt := in.(*ssa.Store)
				if !isSt || !isFieldAddrOf(st.Addr, fld) {
					return
				}
				n++
				fa := st.Addr.(*ssa.FieldAddr)
				_, fresh := fa.X.(*ssa.Alloc)
				if f != r.NewConn || !fresh {
					ok = false
					a.viol(rule, "shared-field@"+fld.Name()+"#"+fmt.Sprint(n), w.posOf(st), "connection field %s is written outside the constructor: races with the reader goroutine", fld.Name())
				}
			})
		}
		if ok {
			a.hold(rule, "shared-field@"+fld.Name(), "-", "stored only in the constructor (%d store)", n)
		}
	}
	// goroutine-reachable code does not touch Streamer
	reach := reachableIn(w.Root, r.Reader)
	touched := false
	for f := range reach {
		instrs(f, func(in ssa.Instruction) {
			if fa, ok := in.(*ssa.FieldAddr); ok && typeIs(fa.X.Type(), rootPath, "Streamer") {
				touched = true
				a.viol(rule, "streamer-in-goroutine@"+f.Name(), w.posOf(fa), "goroutine-reachable code touches Streamer.%s, which Stream writes without synchronisation", fieldName(fa))
			}
		})
	}
	if !touched {
		a.hold(rule, "streamer-in-goroutine", "-", "no Streamer field is touched by goroutine-reachable code")
	}
	// the event buffer handed over is allocated per event in the packet decoder
	fresh := false
	instrs(r.ReadEvent, func(in ssa.Instruction) {
		if c, ok := in.(*ssa.Call); ok {
			if f := c.Common().StaticCallee(); f != nil && f.Pkg == w.Repl && len(c.Common().Args) == 1 {
				if _, ok := c.Common().Args[0].(*ssa.MakeSlice); ok {
					fresh = true
				} else if rs := newAliasAn(w).roots(c.Common().Args[0]); len(rs) == 1 && rs["fresh"] {
					fresh = true // allocated per call by an in-package helper
				}
			}
		}
	})
	a.check(fresh, rule, "event-buffer@reader", w.pos(r.ReadEvent.Pos()), "each event gets a buffer allocated in the reader", "the event handed to the parser is not built on a per-event allocation")
}

func c05R9(a *A, r *Roles) {
	const rule = "C05-R9"
	w := a.W
	// blocking operations on Stream's own goroutine inside the library
	// = reachable from Stream without following go statements (what a go statement starts runs on another goroutine)
	fns := map[*ssa.Function]bool{}
	var visit func(f *ssa.Function)
	visit = func(f *ssa.Function) {
		if f == nil || fns[f] || f.Blocks == nil || enclosingPkg(f) != w.Root {
			return
		}
		fns[f] = true
		instrs(f, func(in ssa.Instruction) {
			if _, isGo := in.(*ssa.Go); isGo {
				return
			}
			if mc, ok := in.(*ssa.MakeClosure); ok {
				// a closure made here runs on this goroutine unless it is only ever started by a go statement
				onlyGo := true
				for _, ref := range *mc.Referrers() {
					if g, isGo := ref.(*ssa.Go); !(isGo && g.Call.Value == ssa.Value(mc)) {
						onlyGo = false
					}
				}
				if !onlyGo {
					visit(mc.Fn.(*ssa.Function))
				}
				return
			}
			if ci, ok := in.(ssa.CallInstruction); ok {
				if cal := ci.Common().StaticCallee(); cal != nil {
					visit(cal)
				}
			}
		})
	}
	visit(r.Stream)
	n := 0
	for f := range fns {
		if f == r.ErrorM {
			continue
		}
		instrs(f, func(in ssa.Instruction) {
			switch x := in.(type) {
			case *ssa.Select:
				n++
				key := fmt.Sprintf("parser-wait[select@%s#%d]", f.Name(), n)
				if !x.Blocking {
					a.hold(rule, key, w.posOf(x), "non-blocking")
					return
				}
				var done *ssa.Call
				for _, st := range x.States {
					if dc, ok := isDoneCall(st.Chan); ok && st.Dir == types.RecvOnly {
						done = dc
					}
				}
				if done == nil {
					a.viol(rule, key, w.posOf(x), "Stream's goroutine blocks in a select without a ctx.Done() case: cancellation cannot end the stream")
					return
				}
				// the context is the function's parameter, which Stream feeds with its own (or a derived) context
				okCtx := false
				// the context may reach the select through a helper of the parser: follow the parameter to the parser's own
				cv, cf := resolve(done.Common().Value), f
				for hop := 0; hop < 3 && cf != r.Parser; hop++ {
					p, isP := cv.(*ssa.Parameter)
					fieldName := ""
					if !isP {
						// the context travels as a field of a small struct passed by value (a helper type with methods)
						if pp, fn, ok := paramField(cv); ok {
							p, isP, fieldName = pp, true, fn
						}
					}
					if !isP {
						break
					}
					idx := -1
					for i, q := range cf.Params {
						if q == p {
							idx = i
						}
					}
					var site *ssa.Call
					nSites := 0
					for g := range fns {
						instrs(g, func(i2 ssa.Instruction) {
							if c, ok := i2.(*ssa.Call); ok && c.Common().StaticCallee() == cf {
								site = c
								nSites++
							}
						})
					}
					if idx < 0 || nSites != 1 || idx >= len(site.Common().Args) {
						break
					}
					if fieldName != "" {
						src, ok := fieldsOfValue(strip(site.Common().Args[idx]), 0)[fieldName]
						if !ok || src.Val == nil {
							break
						}
						cv, cf = resolve(src.Val), site.Parent()
						continue
					}
					cv, cf = resolve(site.Common().Args[idx]), site.Parent()
				}
				if p, ok := cv.(*ssa.Parameter); ok && cf == r.Parser {
					for i, q := range r.Parser.Params {
						if q == p {
							arg := resolve(r.ParserCall.Common().Args[i])
							if _, isDer := ctxDerivation(arg); isDer {
								okCtx = true
							}
							if pp, ok := arg.(*ssa.Parameter); ok && pp.Parent() == r.Stream {
								okCtx = true
							}
						}
					}
				}
				a.check(okCtx, rule, key, w.posOf(x), "select watches the context given to Stream (or one derived from it)", "the parser's select watches a context that is not the one given to Stream")
			case *ssa.Send:
				n++
				a.viol(rule, fmt.Sprintf("parser-wait[send@%s#%d]", f.Name(), n), w.posOf(x), "Stream's goroutine performs a bare channel send")
			case *ssa.UnOp:
				if x.Op == token.ARROW {
					n++
					a.viol(rule, fmt.Sprintf("parser-wait[recv@%s#%d]", f.Name(), n), w.posOf(x), "Stream's goroutine performs a bare channel receive: cancellation cannot interrupt it")
				}
			}
		})
	}
	a.atLeast(rule, "parser-wait", 1)
}

// traceToStarter follows v, a value used in function f of the reader's code, back to a value of the dump starter's frame:
// through captured variables of the reader closure, through the arguments of a reader started as `go fn(args)`, and through
// the parameters of helpers when every call site in the reader's code passes the same origin.
func traceToStarter(v ssa.Value, f *ssa.Function, r *Roles, reach map[*ssa.Function]bool, depth int) ssa.Value {
	v = strip(v)
	if depth > 4 {
		return nil
	}
	if u, ok := v.(*ssa.UnOp); ok && u.Op == token.MUL {
		if _, isFV := u.X.(*ssa.FreeVar); isFV && f == r.Reader {
			return resolveFree(v, r)
		}
	}
	if fv, ok := v.(*ssa.FreeVar); ok && f == r.Reader {
		if mc, ok := r.GoInstr.Call.Value.(*ssa.MakeClosure); ok {
			for i, x := range r.Reader.FreeVars {
				if x == fv && i < len(mc.Bindings) {
					return strip(mc.Bindings[i])
				}
			}
		}
		return nil
	}
	// a field of an object that traces back to something the starter built: what the starter stored into that field before
	// the go statement
	if u, ok := v.(*ssa.UnOp); ok && u.Op == token.MUL {
		if fa, ok := u.X.(*ssa.FieldAddr); ok {
			base := traceToStarter(fa.X, f, r, reach, depth+1)
			if al, ok := base.(*ssa.Alloc); ok && al.Parent() == r.StartDump {
				var stored ssa.Value
				n := 0
				for _, ref := range *al.Referrers() {
					if fa2, ok := ref.(*ssa.FieldAddr); ok && fa2.Field == fa.Field {
						for _, rr := range *fa2.Referrers() {
							if st, ok := rr.(*ssa.Store); ok && st.Addr == ssa.Value(fa2) {
								n++
								if instrDominates(st, r.GoInstr) {
									stored = st.Val
								}
							}
						}
					}
				}
				if n == 1 && stored != nil {
					return strip(stored)
				}
			}
			return nil
		}
	}
	p, ok := v.(*ssa.Parameter)
	if !ok {
		return v
	}
	idx := -1
	for i, q := range f.Params {
		if q == p {
			idx = i
		}
	}
	if idx < 0 {
		return nil
	}
	if f == r.Reader {
		if _, isClosure := r.GoInstr.Call.Value.(*ssa.MakeClosure); isClosure || idx >= len(r.GoInstr.Call.Args) {
			return nil
		}
		return strip(r.GoInstr.Call.Args[idx])
	}
	var origin ssa.Value
	sites := 0
	for g := range reach {
		instrs(g, func(in ssa.Instruction) {
			ci, ok := in.(ssa.CallInstruction)
			if !ok || ci.Common().IsInvoke() || ci.Common().StaticCallee() != f || idx >= len(ci.Common().Args) {
				return
			}
			sites++
			o := traceToStarter(ci.Common().Args[idx], g, r, reach, depth+1)
			if sites == 1 {
				origin = o
			} else if o != origin {
				origin = nil
			}
		})
	}
	if sites == 0 {
		return nil
	}
	return origin
}

// R11: the reader goroutine is the only sender on the reason channel. R3 accepts the reader's plain (unselected) send of
// its exit reason because the channel has capacity 1 and the reader sends at most once per execution; that argument needs
// the slot to be free, i.e. nobody else ever sends on it. Instances: every send statement and every send case of a
// select, anywhere in the root package, whose channel carries *Error values. Each must lie in code that only the reader
// goroutine executes: the goroutine's function, its closures, or a function all of whose uses are in such code.
func c05R11(a *A, r *Roles) {
	const rule = "C05-R11"
	w := a.W
	isReasonChan := func(v ssa.Value) bool {
		if loadsField(v, r.ConnErrChan) {
			return true
		}
		ch, ok := v.Type().Underlying().(*types.Chan)
		if !ok {
			return false
		}
		p, ok := ch.Elem().Underlying().(*types.Pointer)
		return ok && namedIs(p.Elem(), rootPath, "Error")
	}
	funcs := w.srcFuncs(w.Root)
	// uses of each function: the functions that call it or mention it as a value
	users := map[*ssa.Function]map[*ssa.Function]bool{}
	for _, f := range funcs {
		instrs(f, func(in ssa.Instruction) {
			var ops []*ssa.Value
			for _, op := range in.Operands(ops) {
				if op == nil || *op == nil {
					continue
				}
				var g *ssa.Function
				switch x := (*op).(type) {
				case *ssa.Function:
					g = x
				case *ssa.MakeClosure:
					g, _ = x.Fn.(*ssa.Function)
				}
				if g != nil {
					if users[g] == nil {
						users[g] = map[*ssa.Function]bool{}
					}
					users[g][f] = true
				}
			}
		})
	}
	memo := map[*ssa.Function]int{} // 1 reader-only, 2 not, 3 in progress
	var readerOnly func(f *ssa.Function) bool
	readerOnly = func(f *ssa.Function) bool {
		switch memo[f] {
		case 1:
			return true
		case 2:
			return false
		case 3:
			return true // a cycle adds no outside use
		}
		memo[f] = 3
		res := false
		if f == r.Reader {
			res = true
		} else {
			for p := f.Parent(); p != nil; p = p.Parent() {
				if p == r.Reader {
					res = true
				}
			}
			if !res && len(users[f]) > 0 && !ast_isExported(f.Name()) {
				res = true
				for u := range users[f] {
					if u != f && !readerOnly(u) {
						res = false
					}
				}
			}
		}
		if res {
			memo[f] = 1
		} else {
			memo[f] = 2
		}
		return res
	}
	n, inside := 0, 0
	perFn := map[*ssa.Function]int{}
	for _, f := range funcs {
		instrs(f, func(in ssa.Instruction) {
			var chans []ssa.Value
			switch x := in.(type) {
			case *ssa.Send:
				chans = append(chans, x.Chan)
			case *ssa.Select:
				for _, st := range x.States {
					if st.Dir == types.SendOnly {
						chans = append(chans, st.Chan)
					}
				}
			}
			for _, ch := range chans {
				if !isReasonChan(ch) {
					continue
				}
				n++
				perFn[f]++
				a.touch(f)
				key := fmt.Sprintf("sole-sender@%s#%d", fnName(f), perFn[f])
				if readerOnly(f) {
					inside++
					a.hold(rule, key, w.posOf(in), "send on the reason channel in code that only the reader goroutine runs")
				} else {
					a.viol(rule, key, w.posOf(in), "a second party sends on the capacity-1 reason channel (%s): the reader's own send of its exit reason - accepted by R3 because the slot is free - can then block forever (goroutine and channel leak; Error() may hang or report the wrong reason)", describe(ch))
				}
			}
		})
	}
	if inside == 0 {
		a.undecided(rule, "sole-sender@reader", "-", "no send on the reason channel found in the reader goroutine (shape not recognised)")
	}
}

func ast_isExported(name string) bool { return len(name) > 0 && name[0] >= 'A' && name[0] <= 'Z' }

// paramField: v reads field F of a struct-typed parameter passed by value - `Field(param, i)`, or a load of `&spill.F`
// where spill is the local copy go/ssa makes of such a parameter (its only store is the parameter itself).
func paramField(v ssa.Value) (*ssa.Parameter, string, bool) {
	name := func(t types.Type, i int) (string, bool) {
		st := structOf(t)
		if st == nil || i < 0 || i >= st.NumFields() {
			return "", false
		}
		return st.Field(i).Name(), true
	}
	switch x := v.(type) {
	case *ssa.Field:
		if p, ok := x.X.(*ssa.Parameter); ok {
			n, ok := name(p.Type(), x.Field)
			return p, n, ok
		}
	case *ssa.UnOp:
		if x.Op != token.MUL {
			return nil, "", false
		}
		fa, ok := x.X.(*ssa.FieldAddr)
		if !ok {
			return nil, "", false
		}
		al, ok := fa.X.(*ssa.Alloc)
		if !ok || al.Referrers() == nil {
			return nil, "", false
		}
		var p *ssa.Parameter
		for _, ref := range *al.Referrers() {
			switch r := ref.(type) {
			case *ssa.Store:
				if r.Addr != ssa.Value(al) {
					return nil, "", false
				}
				q, isP := r.Val.(*ssa.Parameter)
				if !isP || p != nil {
					return nil, "", false
				}
				p = q
			case *ssa.FieldAddr:
				// its uses must be loads only
				if r.Referrers() != nil {
					for _, rr := range *r.Referrers() {
						if u, isU := rr.(*ssa.UnOp); !isU || u.Op != token.MUL {
							return nil, "", false
						}
					}
				}
			case *ssa.DebugRef:
			default:
				return nil, "", false
			}
		}
		if p == nil {
			return nil, "", false
		}
		n, ok := name(p.Type(), fa.Field)
		return p, n, ok
	}
	return nil, "", false
}
