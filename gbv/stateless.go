package main

import (
	"fmt"
	"go/token"
	"go/types"
	"sort"
	"strings"

	"golang.org/x/tools/go/ssa"
)

// H-stateless: which functions of a package can change package-level state after initialisation. A decoder, printer or
// marshaler whose result depends on such state depends on the history of earlier calls (caches keyed too coarsely,
// scratch buffers handed out, interned values), which no property quantified over all histories allows.

type globalWrite struct {
	Fn   *ssa.Function
	In   ssa.Instruction
	G    *ssa.Global
	What string
}

// globalRoot: v is (an address inside, or memory reached from) a package-level variable of pkg.
func globalRoot(v ssa.Value, pkg *ssa.Package, depth int) *ssa.Global {
	if depth > 12 || v == nil {
		return nil
	}
	switch x := v.(type) {
	case *ssa.Global:
		if x.Pkg == pkg {
			return x
		}
	case *ssa.FieldAddr:
		return globalRoot(x.X, pkg, depth+1)
	case *ssa.IndexAddr:
		return globalRoot(x.X, pkg, depth+1)
	case *ssa.UnOp:
		if x.Op == token.MUL {
			return globalRoot(x.X, pkg, depth+1)
		}
	case *ssa.Slice:
		return globalRoot(x.X, pkg, depth+1)
	case *ssa.ChangeType:
		return globalRoot(x.X, pkg, depth+1)
	case *ssa.Field:
		return globalRoot(x.X, pkg, depth+1)
	case *ssa.Phi:
		for _, e := range x.Edges {
			if g := globalRoot(e, pkg, depth+1); g != nil {
				return g
			}
		}
	}
	return nil
}

// lockLike: types whose methods change only their own synchronisation state.
func lockLike(t types.Type) bool {
	if p, ok := t.(*types.Pointer); ok {
		t = p.Elem()
	}
	n, ok := t.(*types.Named)
	if !ok || n.Obj().Pkg() == nil {
		return false
	}
	switch n.Obj().Pkg().Path() + "." + n.Obj().Name() {
	case "sync.Mutex", "sync.RWMutex", "sync.Once", "sync.WaitGroup":
		return true
	}
	return false
}

// globalWrites lists the instructions of pkg's source functions (package initialisers excluded) that may change
// package-level state of pkg.
func globalWrites(w *World, pkg *ssa.Package) []globalWrite {
	var out []globalWrite
	for _, f := range w.srcFuncs(pkg) {
		top := f
		for top.Parent() != nil {
			top = top.Parent()
		}
		if strings.HasPrefix(top.Name(), "init") || top.Synthetic != "" {
			continue
		}
		instrs(f, func(in ssa.Instruction) {
			switch x := in.(type) {
			case *ssa.Store:
				if g := globalRoot(x.Addr, pkg, 0); g != nil {
					out = append(out, globalWrite{f, in, g, "stores into"})
				}
			case *ssa.MapUpdate:
				if g := globalRoot(x.Map, pkg, 0); g != nil {
					out = append(out, globalWrite{f, in, g, "updates the map"})
				}
			case ssa.CallInstruction:
				c := x.Common()
				if isBuiltin(c, "append") || isBuiltin(c, "copy") {
					if g := globalRoot(c.Args[0], pkg, 0); g != nil {
						if _, isSl := c.Args[0].Type().Underlying().(*types.Slice); isSl {
							out = append(out, globalWrite{f, in, g, "writes (append/copy) into the storage of"})
						}
					}
					return
				}
				if isBuiltin(c, "delete") {
					if g := globalRoot(c.Args[0], pkg, 0); g != nil {
						out = append(out, globalWrite{f, in, g, "deletes from"})
					}
					return
				}
				// a method of a standard-library container called on a package-level object (sync.Map, sync.Pool,
				// bytes.Buffer ...): the object is mutable state
				if !c.IsInvoke() && len(c.Args) > 0 {
					cal := c.StaticCallee()
					if cal == nil || cal.Signature.Recv() == nil || cal.Pkg == pkg {
						return
					}
					if _, isPtr := c.Args[0].Type().Underlying().(*types.Pointer); !isPtr {
						return
					}
					if lockLike(c.Args[0].Type()) {
						return
					}
					if g := globalRoot(c.Args[0], pkg, 0); g != nil {
						out = append(out, globalWrite{f, in, g, "calls " + cal.Name() + " on"})
					}
				}
			}
		})
	}
	sort.SliceStable(out, func(i, j int) bool { return fnName(out[i].Fn) < fnName(out[j].Fn) })
	return out
}

// reachableInPkg: the in-package functions reachable from the roots through static calls and closures.
func reachableInPkg(roots []*ssa.Function, pkgs ...*ssa.Package) map[*ssa.Function]bool {
	in := func(f *ssa.Function) bool {
		for _, p := range pkgs {
			if enclosingPkg(f) == p {
				return true
			}
		}
		return false
	}
	seen := map[*ssa.Function]bool{}
	var visit func(f *ssa.Function)
	visit = func(f *ssa.Function) {
		if f == nil || seen[f] || f.Blocks == nil || !in(f) {
			return
		}
		seen[f] = true
		instrs(f, func(i ssa.Instruction) {
			switch x := i.(type) {
			case *ssa.MakeClosure:
				visit(x.Fn.(*ssa.Function))
			case ssa.CallInstruction:
				if cal := x.Common().StaticCallee(); cal != nil {
					visit(cal)
				}
				for _, a := range x.Common().Args {
					if fn, ok := a.(*ssa.Function); ok {
						visit(fn)
					}
				}
			}
		})
	}
	for _, r := range roots {
		visit(r)
	}
	return seen
}

// statelessRule: none of the functions reachable from the roots changes package-level state of the given packages.
func statelessRule(a *A, rule, what string, roots []*ssa.Function, pkgs ...*ssa.Package) {
	w := a.W
	n := 0
	for _, r := range roots {
		if r != nil {
			n++
		}
	}
	if n == 0 {
		a.undecided(rule, "stateless@"+what, "-", "no entry point of %s resolves", what)
		return
	}
	reach := reachableInPkg(roots, pkgs...)
	bad := 0
	for _, p := range pkgs {
		for _, gw := range globalWrites(w, p) {
			if !reach[gw.Fn] {
				continue
			}
			bad++
			a.viol(rule, fmt.Sprintf("stateless@%s#%d", what, bad), w.posOf(gw.In), "%s (reachable from %s) %s the package-level variable %s: the result of decoding can depend on what was decoded before (a cache, a reused scratch buffer, interned values), which the property - quantified over all histories - does not allow; cannot show it is independent of earlier calls",
				fnName(gw.Fn), what, gw.What, gw.G.Name())
		}
	}
	if bad == 0 {
		a.hold(rule, "stateless@"+what, "-", "%d functions reachable from %s, none changes package-level state", len(reach), what)
	}
}

// eventMethods: the source methods of the event types and of BinlogFormat in the replication package.
func eventMethods(w *World) []*ssa.Function {
	var out []*ssa.Function
	for _, tn := range []string{"binlogEvent", "mysql56BinlogEvent", "mariadbBinlogEvent", "BinlogFormat", "Bitmap"} {
		out = append(out, methodsOf(w, w.Repl, tn)...)
	}
	return out
}

// readOnlyInput: the decoders do not write into the buffer they decode. Starting from the byte-slice parameters of the
// roots, memory derived from them (re-slices, named slice types, phis, the same parameter of in-package callees) is
// followed; a store through an element address of it - or handing it to copy/append as the destination - changes the
// event in place: every later decode of the same bytes (the other image of the row, a second pass, a retained event)
// sees different data. (A decoder that needs scratch space copies first, as the DECIMAL case does.)
func readOnlyInput(a *A, rule, what string, roots []*ssa.Function, pkg *ssa.Package) {
	w := a.W
	type pkey struct {
		f *ssa.Function
		i int
	}
	seen := map[pkey]bool{}
	var work []pkey
	isBytes := func(t types.Type) bool {
		sl, ok := t.Underlying().(*types.Slice)
		if !ok {
			return false
		}
		b, ok := sl.Elem().Underlying().(*types.Basic)
		return ok && b.Kind() == types.Uint8
	}
	for _, r := range roots {
		if r == nil {
			continue
		}
		for i, p := range r.Params {
			if isBytes(p.Type()) {
				work = append(work, pkey{r, i})
			}
		}
	}
	if len(work) == 0 {
		a.undecided(rule, "read-only@"+what, "-", "no byte-slice parameter of %s found", what)
		return
	}
	bad, nfn := 0, 0
	for len(work) > 0 {
		k := work[len(work)-1]
		work = work[:len(work)-1]
		if seen[k] || k.f.Blocks == nil || k.i >= len(k.f.Params) {
			continue
		}
		seen[k] = true
		nfn++
		tainted := map[ssa.Value]bool{}
		var visit func(v ssa.Value, d int)
		visit = func(v ssa.Value, d int) {
			if tainted[v] || d > 12 || v.Referrers() == nil {
				return
			}
			tainted[v] = true
			for _, ref := range *v.Referrers() {
				switch x := ref.(type) {
				case *ssa.Slice:
					if x.X == v {
						visit(x, d+1)
					}
				case *ssa.ChangeType:
					visit(x, d+1)
				case *ssa.Phi:
					visit(x, d+1)
				case *ssa.IndexAddr:
					if x.X != v {
						continue
					}
					for _, rr := range *x.Referrers() {
						if st, ok := rr.(*ssa.Store); ok && st.Addr == ssa.Value(x) {
							bad++
							a.viol(rule, fmt.Sprintf("read-only@%s#%d", what, bad), w.posOf(st), "%s writes into the buffer it decodes (an element of memory derived from its parameter %s): the event is changed in place, so decoding the same bytes again gives a different result", fnName(k.f), k.f.Params[k.i].Name())
						}
					}
				case ssa.CallInstruction:
					c := x.Common()
					if (isBuiltin(c, "copy") || isBuiltin(c, "append")) && len(c.Args) > 0 && c.Args[0] == v {
						if isBuiltin(c, "copy") {
							bad++
							a.viol(rule, fmt.Sprintf("read-only@%s#%d", what, bad), w.posOf(x), "%s copies into the buffer it decodes", fnName(k.f))
						}
						continue
					}
					cal := c.StaticCallee()
					if cal == nil || cal.Blocks == nil || enclosingPkg(cal) != pkg || c.IsInvoke() {
						continue
					}
					for i, arg := range c.Args {
						if arg == v && i < len(cal.Params) {
							work = append(work, pkey{cal, i})
						}
					}
				}
			}
		}
		visit(k.f.Params[k.i], 0)
	}
	if bad == 0 {
		a.hold(rule, "read-only@"+what, "-", "the input buffer is followed through %d (function, parameter) pairs; nothing stores into it", nfn)
	}
}
