package main

import (
	"fmt"
	"go/token"
	"go/types"
	"sort"
	"strings"

	"golang.org/x/tools/go/ssa"
)

func init() {
	register("C04", propMeta{
		Explanation: "Decides the position-cell invariant structurally: (R1) every exit of the parser returns a fresh load of the position cell; " +
			"(R2) in the commit closure every write of the cell is dominated by the 'handler returned nil' edge; (R3) the cell is written only by its " +
			"initialisation, the commit closure and the rotate arm, and its address does not escape; (R4) Stream writes the parser's result back " +
			"unconditionally and nothing else stores the resume position; (R5) the next attempt starts from the stored position. " +
			"Not decided: behaviour of the master between attempts; whether a handler that returned an error also acted on the transaction.",
		Rule:        "instances = exits of the parser, writes of the position cell, writers of Streamer.nowPos, call sites of SetBinlogPosition; distinct by rule+construct key",
		Trusted:     append([]string{"sync/atomic.Value Load/Store semantics"}, commonTrusted...),
		Assumptions: []string{"the analysers see non-test files only", "handler errors are reported through the returned error"},
	}, runC04)

	addVariants(
		Variant{ID: "c04-r1-zero-position", Prop: "C04", File: "streamer.go",
			Old: "return pos, newError(err).msgf(\"parseEvents Rotate fail.\")", New: "return Position{}, newError(err).msgf(\"parseEvents Rotate fail.\")",
			Expect: "C04-R1 ret-pos@parser[arm=IsRotate"},
		Variant{ID: "c04-r2-advance-before-accept", Prop: "C04", File: "streamer.go",
			Old: "\t\tnext.Offset = ev.NextPosition()\n", New: "\t\tnext.Offset = ev.NextPosition()\n\t\tpos = next\n",
			Expect: "C04-R2 pos-advance@commit"},
		Variant{ID: "c04-r4-writeback-on-success-only", Prop: "C04", File: "streamer.go",
			Old: "\ts.SetBinlogPosition(pos)\n\tif err != nil {\n\t\treturn err.msgf(\"parseEvents fail in pos: %+v\", err)\n\t}\n", New: "\tif err != nil {\n\t\treturn err.msgf(\"parseEvents fail in pos: %+v\", err)\n\t}\n\ts.SetBinlogPosition(pos)\n",
			Expect: "C04-R4 writeback@Stream"},
		Variant{ID: "c04-r3-heartbeat-resets", Prop: "C04", File: "streamer.go",
			Old: "\t\tcase ev.IsGTID():\n", New: "\t\tcase ev.IsGTID():\n\t\t\tpos.Offset = ev.NextPosition()\n",
			Expect: "C04-R3 pos-writer@parser[arm=IsGTID"},
		Variant{ID: "c04-r2-exit-between-accept-and-advance", Prop: "C04", File: "streamer.go",
			Old: "\t\tpos = next\n", New: "\t\tif ctx.Err() != nil {\n\t\t\treturn ctx.Err()\n\t\t}\n\t\tpos = next\n",
			Expect: "C04-R2 advance-required@commit"},
		Variant{ID: "c04-r6-skip-artificial-rotate", Prop: "C04", File: "streamer.go",
			Old: "\t\tif format.IsZero() {\n", New: "\t\tif ev.IsRotate() && ev.Timestamp() == 0 {\n\t\t\tcontinue\n\t\t}\n\t\tif format.IsZero() {\n",
			Expect: "C04-R6 dispatch-reach@parser"},
		Variant{ID: "c04-r6-skip-small-events", Prop: "C04", File: "streamer.go",
			Old: "\t\tif format.IsZero() {\n", New: "\t\tif ev.Timestamp() == 0 {\n\t\t\tcontinue\n\t\t}\n\t\tif format.IsZero() {\n",
			Expect: "C04-R6 dispatch-reach@parser"},
	)
}

func runC04(a *A) {
	r := resolveRolesG(a, "C04-R0", "pt")
	if r == nil {
		return
	}
	ar := armAnalysis(a.W, r)
	c04R1(a, r, ar)
	c04R2(a, r)
	c04R3(a, r, ar)
	c04R4(a, r)
	c04R5(a, r)
	c04R6(a, r, ar)
	// R7: nothing is lost between the socket and the parser
	if rc := resolveRolesG(a, "C04-R0", "r"); rc != nil {
		readerForwardsAll(a, "C04-R7", rc)
	}
}

// R6: every accepted event reaches the dispatch. A way round the loop that does not pass the checksum stripping (the
// entry of the dispatch) is allowed for a format description (handled on the raw event), while no format is known, and
// for kinds the dispatch has no arm for; any other skip drops an event whose arm would have moved the position, the
// table cache or the open transaction.
func c04R6(a *A, r *Roles, ar *Arms) {
	const rule = "C04-R6"
	w := a.W
	if !a.need(r.StripCall != nil, rule, "checksum stripping at the entry of the dispatch") {
		return
	}
	dispatch := map[string]bool{}
	for _, p := range ar.Preds {
		if !strings.HasPrefix(p.Name, "raw.") {
			dispatch[p.Name] = true
		}
	}
	n := 0
	for _, p := range r.LoopHead.Preds {
		if !r.LoopHead.Dominates(p) {
			continue // loop entry
		}
		n++
		key := fmt.Sprintf("dispatch-reach@parser[back#%d]", n)
		if r.StripCall.Block().Dominates(p) {
			a.hold(rule, key, w.posOf(lastInstr(p)), "after the dispatch")
			continue
		}
		zero := false
		for _, ce := range dominatingConds(p) {
			if c, ok := ce.Cond.(*ssa.Call); ok && ce.Val {
				if f := c.Common().StaticCallee(); f != nil && f.Name() == "IsZero" && f.Signature.Recv() != nil && namedIs(f.Signature.Recv().Type(), replPath, "BinlogFormat") {
					zero = true
				}
			}
		}
		var bad []string
		for l := range ar.of[p] {
			switch {
			case l == "raw.IsFormatDescription":
			case strings.HasPrefix(l, "raw.") && !dispatch[strings.TrimPrefix(l, "raw.")]:
			default:
				bad = append(bad, l)
			}
		}
		sort.Strings(bad)
		if zero || len(bad) == 0 {
			a.hold(rule, key, w.posOf(lastInstr(p)), "skips the dispatch only for the format description, before a format is known, or for a kind without an arm")
		} else {
			a.viol(rule, key, w.posOf(lastInstr(p)), "an accepted event (%s) goes round the loop without reaching the dispatch although a format is known: its arm (rotation, table map, rows, commit ...) never runs and the position, table cache or open transaction miss it", strings.Join(bad, ","))
		}
	}
	a.atLeast(rule, "dispatch-reach@parser", 2)
}

// R1: operand 0 of every Return of the parser is a load of the position cell
// taken after the last possible write.
func c04R1(a *A, r *Roles, ar *Arms) {
	const rule = "C04-R1"
	ord := map[string]int{}
	for _, ret := range returnsOf(r.Parser) {
		lab := ar.label(ret.Block())
		ord[lab]++
		key := fmt.Sprintf("ret-pos@parser[arm=%s#%d]", lab, ord[lab])
		pos := a.W.posOf(ret)
		if len(ret.Results) < 1 {
			a.undecided(rule, key, pos, "return without results")
			continue
		}
		if ok, why := freshPosLoad(r, ret); !ok {
			a.viol(rule, key, pos, "%s", why)
			continue
		}
		a.hold(rule, key, pos, "returns load(%s)", r.Pos.Name)
	}
	a.atLeast(rule, "ret-pos@parser", 3)
}

// freshPosLoad: the first result of ret is a load of the position cell with no possible write of the cell
// between the load and the return.
func freshPosLoad(r *Roles, ret *ssa.Return) (bool, string) {
	v := ret.Results[0]
	u, ok := v.(*ssa.UnOp)
	if !ok || u.Op != token.MUL || !r.Pos.isAddr(u.X) {
		return false, fmt.Sprintf("exit returns %s instead of the tracked position cell; Stream stores it as the resume position", describe(v))
	}
	stale := false
	if u.Block() != ret.Block() {
		stale = true
	} else {
		for i := indexIn(u.Block(), u) + 1; i < len(u.Block().Instrs); i++ {
			if mayWriteCell(u.Block().Instrs[i], u.X) {
				stale = true
			}
		}
	}
	if stale {
		return false, "exit returns a stale copy of the position cell (loaded before a possible write)"
	}
	return true, ""
}

// handlerCall finds the call through the handler field in the commit closure.
func handlerCall(r *Roles) *ssa.Call {
	var hc *ssa.Call
	instrs(r.Commit, func(in ssa.Instruction) {
		if c, ok := in.(*ssa.Call); ok && !c.Common().IsInvoke() && namedIs(c.Common().Value.Type(), rootPath, "SendTransactionFunc") {
			hc = c
		}
	})
	return hc
}

// acceptedEdges returns the (block, succ index) edges taken when the handler's
// result was nil.
func acceptedEdges(r *Roles, hc *ssa.Call) [][2]interface{} {
	var out [][2]interface{}
	for _, b := range r.Commit.Blocks {
		iff, ok := lastInstr(b).(*ssa.If)
		if !ok {
			continue
		}
		x, nonNilOnTrue, ok := nilTest(iff.Cond)
		if !ok || x != ssa.Value(hc) {
			continue
		}
		k := 0
		if nonNilOnTrue {
			k = 1
		}
		out = append(out, [2]interface{}{b, k})
	}
	return out
}

// R2: every write of the position cell in the commit closure is dominated by
// the accepted edge.
func c04R2(a *A, r *Roles) {
	const rule = "C04-R2"
	hc := handlerCall(r)
	if !a.need(hc != nil, rule, "handler call in the commit closure") {
		return
	}
	edges := acceptedEdges(r, hc)
	if !a.need(len(edges) > 0, rule, "nil test of the handler's result in the commit closure") {
		return
	}
	n := 0
	for _, s := range r.Pos.stores() {
		if s.Fn != r.Commit {
			continue
		}
		n++
		f := s.Field
		if f == "" {
			f = "*"
		}
		key := fmt.Sprintf("pos-advance@commit[field=%s#%d]", f, n)
		ok := false
		for _, e := range edges {
			if edgeHolds(e[0].(*ssa.BasicBlock), e[1].(int), s.block()) {
				ok = true
			}
		}
		a.check(ok, rule, key, a.W.posOf(s.instr()),
			"write of the position cell is dominated by the handler-accepted edge",
			"the position cell is advanced before the handler has accepted the transaction and is not restored on its error: after a handler failure the parser returns (and Stream stores) a position past the failed transaction, so it is never redelivered")
	}
	a.atLeast(rule, "pos-advance@commit", 1)
	// ... and once the handler has accepted, every way out of commit has advanced the cell: an exit between the
	// acceptance and the advance (a cancellation test, a late error) leaves an accepted transaction to be redelivered
	nr := 0
	for _, ret := range returnsOf(r.Commit) {
		after := false
		for _, e := range edges {
			if edgeHolds(e[0].(*ssa.BasicBlock), e[1].(int), ret.Block()) {
				after = true
			}
		}
		if !after {
			continue
		}
		nr++
		adv := false
		for _, s := range r.Pos.stores() {
			if s.Fn != r.Commit {
				continue
			}
			if s.block() == ret.Block() || s.block().Dominates(ret.Block()) {
				adv = true
			}
		}
		a.check(adv, rule, fmt.Sprintf("advance-required@commit[ret#%d]", nr), a.W.posOf(ret), "the exit after acceptance has advanced the position cell",
			"commit can return after the handler accepted the transaction without having advanced the position cell: the accepted transaction is delivered again by the next attempt")
	}
	if nr == 0 {
		a.undecided(rule, "advance-required@commit", a.W.posOf(hc), "no exit of commit after the handler-accepted edge found")
	}
}

// R3: who writes the position cell.
func c04R3(a *A, r *Roles, ar *Arms) {
	const rule = "C04-R3"
	n := map[string]int{}
	for _, s := range r.Pos.stores() {
		pos := a.W.posOf(s.instr())
		switch s.Fn {
		case r.Commit:
			n["commit"]++
			a.hold(rule, fmt.Sprintf("pos-writer@commit#%d", n["commit"]), pos, "commit closure writes %s", s.Field)
		case r.Parser:
			lab := ar.label(s.block())
			n[lab]++
			key := fmt.Sprintf("pos-writer@parser[arm=%s#%d]", lab, n[lab])
			switch lab {
			case "init":
				c, _ := s.val().(*ssa.Call)
				ok := c != nil && c.Common().StaticCallee() == r.GetPos
				a.check(ok, rule, key, pos, "initialised from the stored position", "position cell initialised from something other than the stored position")
			case "IsRotate":
				a.hold(rule, key, pos, "rotate arm writes %s", s.Field)
			default:
				a.viol(rule, key, pos, "the position cell is written in arm %q; only its initialisation, the commit closure and the rotate arm may move the resume position", lab)
			}
		default:
			// the constructor of the state object, called by the parser before its loop, initialises the cell
			if r.StateT != nil && s.At == nil {
				isCtor := false
				instrs(s.Fn, func(in ssa.Instruction) {
					if al, ok := in.(*ssa.Alloc); ok && types.Identical(al.Type().(*types.Pointer).Elem(), r.StateT) {
						isCtor = true
					}
				})
				calledInInit := false
				instrs(r.Parser, func(in ssa.Instruction) {
					if c, ok := in.(*ssa.Call); ok && c.Common().StaticCallee() == s.Fn && ar.label(c.Block()) == "init" {
						calledInInit = true
					}
				})
				if isCtor && calledInInit {
					n["init"]++
					c, _ := s.val().(*ssa.Call)
					ok := c != nil && c.Common().StaticCallee() == r.GetPos
					a.check(ok, rule, fmt.Sprintf("pos-writer@parser[arm=init#%d]", n["init"]), pos, "initialised from the stored position", "position cell initialised from something other than the stored position")
					continue
				}
			}
			n["other"]++
			a.viol(rule, fmt.Sprintf("pos-writer@%s#%d", s.Fn.Name(), n["other"]), pos, "the position cell is written by %s", fnName(s.Fn))
		}
	}
	// a decoded rotation always moves the cell (otherwise the kept position names the old file)
	rot := map[*ssa.BasicBlock]bool{}
	for _, s := range r.Pos.stores() {
		if s.Fn == r.Parser && ar.of[s.block()]["IsRotate"] && s.Field != "Offset" {
			rot[s.block()] = true
		}
	}
	for _, p := range ar.Preds {
		if p.Name == "IsRotate" {
			esc := reachesAvoiding(p.Entry, r.LoopHead, func(b *ssa.BasicBlock) bool { return rot[b] }, nil) && !rot[p.Entry]
			a.check(!esc, rule, "pos-rotation@parser", a.W.posOf(p.Entry.Instrs[0]), "every decoded rotation moves the position cell to the new file",
				"a rotate event can pass without moving the position cell: after a failure in the new file the kept resume position is (old file, new-file offset)")
		}
	}
	for i, u := range r.Pos.otherUses() {
		a.viol(rule, fmt.Sprintf("pos-escape#%d", i+1), a.W.posOf(u), "the address of the position cell escapes (%T); writers can no longer be enumerated", u)
	}
	a.atLeast(rule, "pos-writer@", 2)
}

// R4: write-back in Stream and writers of the stored position.
func c04R4(a *A, r *Roles) {
	const rule = "C04-R4"
	w := a.W
	// the SetBinlogPosition call carrying result 0 of the parser
	var wb *ssa.Call
	instrs(r.Stream, func(in ssa.Instruction) {
		c, ok := in.(*ssa.Call)
		if !ok || c.Common().StaticCallee() != r.SetPos || len(c.Common().Args) < 2 {
			return
		}
		arg := resolve(c.Common().Args[1])
		if ex, ok := arg.(*ssa.Extract); ok && ex.Tuple == ssa.Value(r.ParserCall) && ex.Index == 0 {
			wb = c
		}
	})
	key := "writeback@Stream"
	if wb == nil {
		a.viol(rule, key, w.posOf(r.ParserCall), "Stream does not store the position returned by the parser: the next attempt restarts from the old position and re-delivers accepted transactions")
	} else {
		// must be reached on every path from the parser call to any exit
		ok := true
		if wb.Block() != r.ParserCall.Block() || indexIn(wb.Block(), wb) < indexIn(wb.Block(), r.ParserCall) {
			for _, ret := range returnsOf(r.Stream) {
				if !r.ParserCall.Block().Dominates(ret.Block()) && ret.Block() != r.ParserCall.Block() {
					continue
				}
				if reachesAvoiding(r.ParserCall.Block(), ret.Block(), func(b *ssa.BasicBlock) bool { return b == wb.Block() }, nil) && ret.Block() != wb.Block() {
					ok = false
				}
			}
		}
		a.check(ok, rule, key, w.posOf(wb), "SetBinlogPosition(parser result) post-dominates the parser call",
			"the write-back of the parser's position is conditional: some exit of Stream after parsing skips it, so the stored resume position misses accepted transactions")
	}
	// every in-package call of SetBinlogPosition is that one
	n := 0
	for _, f := range w.srcFuncs(w.Root) {
		instrs(f, func(in ssa.Instruction) {
			c := callCommon(in)
			if c == nil || c.StaticCallee() != r.SetPos {
				return
			}
			a.Calls++
			n++
			k := fmt.Sprintf("setpos-caller@%s#%d", f.Name(), n)
			if in == ssa.Instruction(wb) {
				a.hold(rule, k, w.posOf(in), "the write-back")
			} else {
				a.viol(rule, k, w.posOf(in), "library code other than the write-back stores a resume position")
			}
		})
	}
	// writers of the nowPos field: only SetBinlogPosition
	st := w.namedType(w.Root, "Streamer").Underlying().(*types.Struct)
	var nowPos *types.Var
	for i := 0; i < st.NumFields(); i++ {
		if typeIs(st.Field(i).Type(), "sync/atomic", "Value") {
			nowPos = st.Field(i)
		}
	}
	if !a.need(nowPos != nil, rule, "Streamer field of type atomic.Value") {
		return
	}
	m := 0
	for _, f := range w.srcFuncs(w.Root) {
		instrs(f, func(in ssa.Instruction) {
			fa, ok := in.(*ssa.FieldAddr)
			if !ok || !isFieldAddrOf(fa, nowPos) || fa.Referrers() == nil {
				return
			}
			for _, ref := range *fa.Referrers() {
				m++
				k := fmt.Sprintf("nowpos-use@%s#%d", f.Name(), m)
				switch x := ref.(type) {
				case *ssa.UnOp: // copy read
					a.hold(rule, k, w.posOf(ref), "read (copy)")
				case *ssa.DebugRef:
				case ssa.CallInstruction:
					name := ""
					if cal := x.Common().StaticCallee(); cal != nil {
						name = cal.Name()
					}
					switch {
					case name == "Load":
						a.check(f == r.GetPos, rule, k, w.posOf(ref), "Load in the position getter", "Load of the stored position outside the getter")
					case name == "Store" && f == r.SetPos:
						a.hold(rule, k, w.posOf(ref), "Store in SetBinlogPosition")
					default:
						a.viol(rule, k, w.posOf(ref), "the stored resume position is written by %s.%s outside SetBinlogPosition", f.Name(), name)
					}
				default:
					a.viol(rule, k, w.posOf(ref), "the stored resume position's address is used in an unrecognised way (%T)", ref)
				}
			}
		})
	}
	a.atLeast(rule, "nowpos-use@", 2)
}

// R5: the next attempt starts from the stored position.
func c04R5(a *A, r *Roles) {
	const rule = "C04-R5"
	w := a.W
	// getter returns the loaded value
	ok := false
	for _, ret := range returnsOf(r.GetPos) {
		v := resolve(ret.Results[0])
		if ta, isTA := v.(*ssa.TypeAssert); isTA {
			if c, isC := ta.X.(*ssa.Call); isC {
				if f := c.Common().StaticCallee(); f != nil && f.Name() == "Load" {
					ok = true
				}
			}
		}
	}
	a.check(ok, rule, "getter@binlogPosition", w.pos(r.GetPos.Pos()), "getter returns the atomically loaded stored position", "the position getter does not return the stored position")
	// dump request is given getter(s) evaluated in this Stream call
	args := r.StartDumpCall.Common().Args
	found := false
	for _, arg := range args {
		if !namedIs(arg.Type(), rootPath, "Position") {
			continue
		}
		c, isC := resolve(arg).(*ssa.Call)
		found = isC && c.Common().StaticCallee() == r.GetPos
	}
	a.check(found, rule, "dump-start@Stream", w.posOf(r.StartDumpCall), "the dump is requested from the stored position", "the dump request does not start from the stored position")
}
