package main

import (
	"fmt"
	"go/constant"
	"go/token"
	"go/types"
	"sort"
	"strings"

	"golang.org/x/tools/go/ssa"
)

func init() {
	register("C16", propMeta{
		Explanation: "Decides the structural half of header/control-event decoding: (R1) in the parser every body parser runs on the checksum-stripped event of the same iteration, " +
			"never on the raw one; (R2) StripChecksum, specialised on each of the 256 values of the announced algorithm, returns the receiver unchanged for OFF/UNDEF, a pure re-slice " +
			"dropping exactly the last 4 bytes (capacity kept) for CRC32, and an error otherwise (MariaDB flavour: strips 4 for every non-OFF/UNDEF value); (R3) the six header accessors read exactly the byte ranges " +
			"of the documented v4 event header, little-endian, pairwise disjoint, and the package's own writer (Packetize) writes the same ranges; (R4) the fixed-offset reads of the " +
			"format-description, rotate, query, int-var, rand and GTID body parsers — extracted as affine offset terms with their destinations — equal the documented event layouts " +
			"(e.g. rotate: position [0,8) then file name [8,end); query: db length at 8, status-vars length at [11,13), vars at 13, db name after the vars, SQL after db name + NUL); " +
			"(R5) the query status-variable scanner advances by the documented size of every variable that precedes the charset; (R6) the parser tests every event for FORMAT_DESCRIPTION whether or not a format is known and adopts the decoded format; each BinlogFormat field is stored once, from the event. " +
			"Not decided: the decoded values themselves (endianness of multi-byte body fields is checked, arithmetic on them is not).",
		Rule:        "instances = invokes on events in the parser, algorithm values 0..255 per flavour, byte ranges of header accessors and writer, body read facts per parser",
		Trusted:     append([]string{"MySQL internals documentation of the v4 event header and event bodies (encoded as the spec table in rules_c16.go)"}, commonTrusted...),
		Assumptions: []string{"encoding/binary Uint16/32/64 read little-/big-endian as named"},
	}, runC16)

	addVariants(
		Variant{ID: "c16-r8-headersize-guard-off-by-one", Prop: "C16", File: "replication/binlog_event.go",
			Old: "\treturn f.HeaderSizes[typ-1]\n", New: "\tif int(typ) >= len(f.HeaderSizes) {\n\t\treturn 0\n\t}\n\treturn f.HeaderSizes[typ-1]\n",
			Expect: "C16-R8 default@HeaderSize"},
		Variant{ID: "c16-r6-later-format-descriptions-skipped", Prop: "C16", File: "streamer.go",
			Old: "\t\tif ev.IsFormatDescription() {\n", New: "\t\tif ev.IsFormatDescription() {\n\t\t\tif !format.IsZero() {\n\t\t\t\tcontinue\n\t\t\t}\n",
			Expect: "C16-R6 format-every@parser"},
		Variant{ID: "c16-r1-parse-raw", Prop: "C16", File: "streamer.go",
			Old: "\t\tev, _, err = ev.StripChecksum(format)\n", New: "\t\traw := ev\n\t\tev, _, err = ev.StripChecksum(format)\n",
			Old2: "\t\t\tif filename, offset, err = ev.Rotate(format); err != nil {", New2: "\t\t\tif filename, offset, err = raw.Rotate(format); err != nil {",
			Expect: "C16-R1 stripped-recv@parser[Rotate"},
		Variant{ID: "c16-r2-strip-5", Prop: "C16", File: "replication/binlog_event_mysql56.go",
			Old: "\t\tdata = data[:length-4]\n", New: "\t\tdata = data[:length-5]\n",
			Expect: "C16-R2 strip@mysql56BinlogEvent[alg=1]"},
		Variant{ID: "c16-r2-undef-strips", Prop: "C16", File: "replication/binlog_event_mysql56.go",
			Old:    "\tcase BinlogChecksumAlgOff, BinlogChecksumAlgUndef:\n\t\t// There is no checksum.\n\t\treturn ev, nil, nil\n\tcase BinlogChecksumAlgCRC32:",
			New:    "\tcase BinlogChecksumAlgOff:\n\t\t// There is no checksum.\n\t\treturn ev, nil, nil\n\tcase BinlogChecksumAlgCRC32, BinlogChecksumAlgUndef:",
			Expect: "C16-R2 strip@mysql56BinlogEvent[alg=255]"},
		Variant{ID: "c16-r3-serverid-offset", Prop: "C16", File: "replication/binlog_event_common.go",
			Old: "binary.LittleEndian.Uint32(ev.Bytes()[5 : 5+4])", New: "binary.LittleEndian.Uint32(ev.Bytes()[4 : 4+4])",
			Expect: "C16-R3 header@ServerID"},
		Variant{ID: "c16-r3-bigendian", Prop: "C16", File: "replication/binlog_event_common.go",
			Old: "return binary.LittleEndian.Uint32(ev.Bytes()[:4])", New: "return binary.BigEndian.Uint32(ev.Bytes()[:4])",
			Expect: "C16-R3 header@Timestamp"},
		Variant{ID: "c16-r4-rotate-name-offset", Prop: "C16", File: "replication/binlog_event_common.go",
			Old: "filename := string(data[8:])", New: "filename := string(data[9:])",
			Expect: "C16-R4 layout@Rotate"},
		Variant{ID: "c16-r4-query-sqlpos", Prop: "C16", File: "replication/binlog_event_common.go",
			Old: "sqlPos := dbPos + dbLen + 1 // +1 for NULL terminator", New: "sqlPos := dbPos + dbLen",
			Expect: "C16-R4 layout@Query"},
		Variant{ID: "c16-r4-format-alg", Prop: "C16", File: "replication/binlog_event_common.go",
			Old: "f.ChecksumAlgorithm = data[len(data)-5]", New: "f.ChecksumAlgorithm = data[len(data)-4]",
			Expect: "C16-R4 layout@Format"},
		Variant{ID: "c16-r4-rand-swap", Prop: "C16", File: "replication/binlog_event_common.go",
			Old: "\tseed1 = binary.LittleEndian.Uint64(data[0:8])\n\tseed2 = binary.LittleEndian.Uint64(data[8 : 8+8])", New: "\tseed2 = binary.LittleEndian.Uint64(data[0:8])\n\tseed1 = binary.LittleEndian.Uint64(data[8 : 8+8])",
			Expect: "C16-R4 layout@Rand"},
		Variant{ID: "c16-r6-format-only-first", Prop: "C16", File: "streamer.go",
			Old: "\t\tif ev.IsFormatDescription() {\n", New: "\t\tif format.IsZero() && ev.IsFormatDescription() {\n",
			Expect: "C16-R6 format-redescription@parser"},
		Variant{ID: "c16-r4-alg-overridden", Prop: "C16", File: "replication/binlog_event_common.go",
			Old: "\tf.ChecksumAlgorithm = data[len(data)-5]\n", New: "\tf.ChecksumAlgorithm = data[len(data)-5]\n\tif len(f.ServerVersion) > 0 && f.ServerVersion[0] < '5' {\n\t\tf.ChecksumAlgorithm = BinlogChecksumAlgOff\n\t}\n",
			Expect: "C16-R4 layout@Format[single-source:ChecksumAlgorithm]"},
		Variant{ID: "c16-r5-sqlmode-size", Prop: "C16", File: "replication/binlog_event_common.go",
			Old: "\t\tcase QSQLModeCode:\n\t\t\tpos += 8", New: "\t\tcase QSQLModeCode:\n\t\t\tpos += 4",
			Expect: "C16-R5 statusvar@Query[code=1]"},
	)
}

func runC16(a *A) {
	r := resolveRolesG(a, "C16-R0", "p")
	if r != nil {
		c16R1(a, r)
		c16R6(a, r)
	}
	c16R2(a)
	c16R3(a)
	c16R4(a)
	c16R5(a)
	// R7: what an event decodes to is a function of its bytes and the format alone
	statelessRule(a, "C16-R7", "the event accessors and body parsers", eventMethods(a.W), a.W.Repl)
	c16R8(a)
}

// c16Beyond: the condition (taken with value val) implies that typ is not a described type: typ == 0, or
// typ-1 >= len(table).
func c16Beyond(t *tb, lenAtom string, cond ssa.Value, val bool, seen *[]string) bool {
	bo, ok := cond.(*ssa.BinOp)
	if !ok {
		return false
	}
	if (bo.Op == token.EQL && val) || (bo.Op == token.NEQ && !val) {
		d := t.term(bo.X).add(t.term(bo.Y), -1)
		return d.ok && len(d.syms) == 1 && d.syms["typ"] != 0 && d.c == 0
	}
	e, ok := t.leqZeroAff(bo, !val)
	if !ok || lenAtom == "" {
		return false
	}
	*seen = append(*seen, e.String()+" <= 0")
	fit := affAtom(lenAtom).add(affAtom("typ"), -1).add(affConst(1), 1)
	d := e.add(fit, -1)
	k, isC := d.isConst()
	return isC && k >= 0
}

// R8: HeaderSize(typ) is entry typ-1 of the table the format description carried, for every described type. An exit that
// returns anything else must be dominated by a condition implying that the type is not described (typ-1 >= len(table), or
// typ == 0); "typ >= len(table)" also cuts off the last described type.
func c16R8(a *A) {
	const rule = "C16-R8"
	w := a.W
	f := w.method(w.Repl, "BinlogFormat", "HeaderSize")
	if !a.need(f != nil && len(f.Params) == 2, rule, "BinlogFormat.HeaderSize(typ)") {
		return
	}
	a.touch(f)
	t := newTB(Specialize(f, nil, nil))
	t.names[f.Params[1]] = "typ"
	var lenAtom string
	instrs(f, func(in ssa.Instruction) {
		if c, ok := in.(*ssa.Call); ok && isBuiltin(c.Common(), "len") {
			lenAtom = t.term(c).String()
		}
	})
	nIdx, bad := 0, 0
	for _, ret := range returnsOf(f) {
		v := resolve(ret.Results[0])
		if u, ok := v.(*ssa.UnOp); ok && u.Op == token.MUL {
			if ia, ok := u.X.(*ssa.IndexAddr); ok {
				idx := t.term(ia.Index).add(affAtom("typ"), -1)
				if k, isC := idx.isConst(); isC && k == -1 {
					nIdx++
					continue
				}
				bad++
				a.viol(rule, fmt.Sprintf("index@HeaderSize#%d", bad), w.posOf(ret), "HeaderSize returns entry %s of the table; the post-header size of event type t is entry t-1", t.term(ia.Index).String())
				continue
			}
		}
		// a default: justified only when the type is beyond the table
		just := false
		var seen []string
		conds := dominatingConds(ret.Block())
		// "a || b": the exit is entered from several tests; each entering edge must justify it on its own
		if len(ret.Block().Preds) > 1 {
			all := true
			for _, p := range ret.Block().Preds {
				iff, ok := lastInstr(p).(*ssa.If)
				if !ok {
					all = false
					break
				}
				val := p.Succs[0] == ret.Block()
				cond := iff.Cond
				for {
					u, isNot := cond.(*ssa.UnOp)
					if !isNot || u.Op != token.NOT {
						break
					}
					cond, val = u.X, !val
				}
				if !c16Beyond(t, lenAtom, cond, val, &seen) {
					all = false
				}
			}
			just = all
			conds = nil
		}
		for _, ce := range conds {
			if c16Beyond(t, lenAtom, ce.Cond, ce.Val, &seen) {
				just = true
			}
		}
		for _, ce := range []condEdge{} {
			bo, ok := ce.Cond.(*ssa.BinOp)
			if !ok {
				continue
			}
			if (bo.Op == token.EQL && ce.Val) || (bo.Op == token.NEQ && !ce.Val) {
				d := t.term(bo.X).add(t.term(bo.Y), -1)
				if d.ok && len(d.syms) == 1 && d.syms["typ"] != 0 && d.c == 0 {
					just = true // typ == 0
				}
				continue
			}
			e, ok := t.leqZeroAff(bo, !ce.Val)
			if !ok || lenAtom == "" {
				continue
			}
			seen = append(seen, e.String()+" <= 0")
			// not described: len - typ + 1 <= 0
			fit := affAtom(lenAtom).add(affAtom("typ"), -1).add(affConst(1), 1)
			d := e.add(fit, -1)
			if k, isC := d.isConst(); isC && k >= 0 {
				just = true
			}
		}
		if !just {
			bad++
			a.viol(rule, fmt.Sprintf("default@HeaderSize#%d", bad), w.posOf(ret), "HeaderSize returns %s instead of a table entry under %v, which does not imply that the type lies beyond the table: a described event type (the last one) gets a wrong post-header size and its events are parsed from the wrong offset", describe(v), seen)
		}
	}
	if bad == 0 {
		a.check(nIdx > 0, rule, "index@HeaderSize", w.pos(f.Pos()), "entry typ-1 of the described table for every described type", "HeaderSize never returns a table entry")
	}
}

func c16R1(a *A, r *Roles) {
	const rule = "C16-R1"
	w := a.W
	n := 0
	instrs(r.Parser, func(in ssa.Instruction) {
		c, ok := in.(*ssa.Call)
		if !ok || !c.Common().IsInvoke() || !namedIs(c.Common().Value.Type(), replPath, "BinlogEvent") {
			return
		}
		m := c.Common().Method
		takesFormat := false
		sig := m.Type().(*types.Signature)
		for i := 0; i < sig.Params().Len(); i++ {
			if namedIs(sig.Params().At(i).Type(), replPath, "BinlogFormat") {
				takesFormat = true
			}
		}
		recv := c.Common().Value
		afterStrip := c != r.StripCall && (r.StripCall.Block().Dominates(c.Block()) && c.Block() != r.StripCall.Block() ||
			c.Block() == r.StripCall.Block() && indexIn(c.Block(), c) > indexIn(c.Block(), r.StripCall))
		n++
		key := fmt.Sprintf("stripped-recv@parser[%s#%d]", m.Name(), n)
		a.Calls++
		switch {
		case m.Name() == "StripChecksum":
			a.check(recv == r.RawEv && len(c.Common().Args) == 1 && r.isFormat(c.Common().Args[0]), rule, key, w.posOf(c), "strips the received event with the current format", "StripChecksum is not applied to the received event with the current format")
		case takesFormat:
			ok := recv == r.StrippedEv
			for _, arg := range c.Common().Args {
				if namedIs(arg.Type(), replPath, "BinlogFormat") && !r.isFormat(arg) {
					ok = false
				}
			}
			a.check(ok, rule, key, w.posOf(c), "body parser runs on the stripped event with the current format",
				"a body parser runs on the raw event (or with another format): with CRC32 enabled the trailing checksum is decoded as event data")
		case afterStrip:
			a.check(recv == r.StrippedEv, rule, key, w.posOf(c), "after stripping, the stripped event is used", "the raw event is used after it was stripped")
		default:
			a.hold(rule, key, w.posOf(c), "before stripping (header-only use)")
		}
	})
	a.atLeast(rule, "stripped-recv@parser", 10)
}

// R6: a format description is honoured whenever it arrives - its dispatch is not restricted to "no format known yet" -
// and on success its result becomes the format used from the next event on.
func c16R6(a *A, r *Roles) {
	const rule = "C16-R6"
	w := a.W
	ar := armAnalysis(w, r)
	var fdIf *ssa.If
	for _, p := range ar.Preds {
		if p.Name == "raw.IsFormatDescription" {
			fdIf = p.If
		}
	}
	if !a.need(fdIf != nil, rule, "format-description dispatch in the parser") {
		return
	}
	restricted := false
	for _, ce := range dominatingConds(fdIf.Block()) {
		if c, ok := ce.Cond.(*ssa.Call); ok {
			if f := c.Common().StaticCallee(); f != nil && f.Name() == "IsZero" && ce.Val {
				restricted = true
			}
		}
	}
	a.check(!restricted, rule, "format-redescription@parser", w.posOf(fdIf), "every event is tested for FORMAT_DESCRIPTION, whether or not a format is already known",
		"format descriptions are only honoured while no format is known: one that arrives later (after a rotation, when binlog_checksum or the server version changed) is ignored and the rest of the stream is decoded with the stale checksum algorithm and header sizes")
	// the Format() result reaches the loop variable
	phi, ok := r.FormatPhi.(*ssa.Phi)
	okFlow := false
	if ok {
		for _, e := range phi.Edges {
			if ex, isEx := e.(*ssa.Extract); isEx && ex.Index == 0 {
				if c, isC := ex.Tuple.(*ssa.Call); isC && c.Common().IsInvoke() && c.Common().Method.Name() == "Format" && c.Common().Value == r.RawEv {
					okFlow = true
				}
			}
		}
	}
	if !ok {
		// the variable lives in memory (captured by a closure): the decoded format is stored into its cell
		if u, isLoad := r.FormatPhi.(*ssa.UnOp); isLoad && u.Op == token.MUL {
			instrs(r.Parser, func(in ssa.Instruction) {
				st, isSt := in.(*ssa.Store)
				if !isSt || st.Addr != u.X {
					return
				}
				if ex, isEx := st.Val.(*ssa.Extract); isEx && ex.Index == 0 {
					if c, isC := ex.Tuple.(*ssa.Call); isC && c.Common().IsInvoke() && c.Common().Method.Name() == "Format" && c.Common().Value == r.RawEv {
						okFlow = true
					}
				}
			})
		}
	}
	a.check(okFlow, rule, "format-adopted@parser", w.posOf(fdIf), "the decoded format becomes the current format", "the result of Format() on the received event does not become the format used for later events")
	// every format description is decoded: no way from the arm's entry back to the loop head round the Format() call
	var fmtBlk *ssa.BasicBlock
	instrs(r.Parser, func(in ssa.Instruction) {
		if c, isC := in.(*ssa.Call); isC && c.Common().IsInvoke() && c.Common().Method.Name() == "Format" && c.Common().Value == r.RawEv {
			fmtBlk = c.Block()
		}
	})
	if fmtBlk != nil {
		for _, p := range ar.Preds {
			if p.Name != "raw.IsFormatDescription" {
				continue
			}
			skip := p.Entry != fmtBlk && reachesAvoiding(p.Entry, r.LoopHead, func(b *ssa.BasicBlock) bool { return b == fmtBlk }, nil)
			a.check(!skip, rule, "format-every@parser", w.posOf(p.If), "every format description is decoded",
				"a format description can go round the loop without being decoded (skipped once a format is known): the checksum algorithm and header sizes announced by a later binlog file are never applied")
		}
	}
}

// R2: StripChecksum per algorithm value.
func c16R2(a *A) {
	const rule = "C16-R2"
	w := a.W
	for _, tn := range []string{"mysql56BinlogEvent", "mariadbBinlogEvent"} {
		f := w.method(w.Repl, tn, "StripChecksum")
		if !a.need(f != nil, rule, tn+".StripChecksum") {
			continue
		}
		a.touch(f)
		// the atom: every load of f.ChecksumAlgorithm
		var atoms []ssa.Value
		instrs(f, func(in ssa.Instruction) {
			switch x := in.(type) {
			case *ssa.UnOp:
				if fa, ok := x.X.(*ssa.FieldAddr); ok && x.Op == token.MUL && fieldName(fa) == "ChecksumAlgorithm" {
					atoms = append(atoms, x)
				}
			case *ssa.Field:
				if fieldNameV(x) == "ChecksumAlgorithm" {
					atoms = append(atoms, x)
				}
			}
		})
		if !a.need(len(atoms) > 0, rule, "read of ChecksumAlgorithm in "+tn+".StripChecksum") {
			continue
		}
		recv := f.Params[0]
		bad := 0
		classes := map[string][]int{}
		for alg := int64(0); alg < 256; alg++ {
			bind := map[ssa.Value]constant.Value{}
			for _, at := range atoms {
				bind[at] = constant.MakeInt64(alg)
			}
			res := Specialize(f, bind, nil)
			a.Evals++
			key := fmt.Sprintf("strip@%s[alg=%d]", tn, alg)
			if len(res.Returns) != 1 {
				a.undecided(rule, key, w.pos(f.Pos()), "%d reachable returns for this algorithm value", len(res.Returns))
				bad++
				continue
			}
			ret := res.Returns[0]
			shape := stripShape(ret, recv)
			want := "error"
			switch {
			case alg == 0 || alg == 255:
				want = "unchanged"
			case alg == 1:
				want = "strip4"
			case tn == "mariadbBinlogEvent":
				want = "strip4"
			}
			classes[shape] = append(classes[shape], int(alg))
			if shape != want {
				bad++
				a.viol(rule, key, w.posOf(ret), "for checksum algorithm %d StripChecksum does %q, expected %q", alg, shape, want)
			}
		}
		if bad == 0 {
			var ks []string
			for k, v := range classes {
				ks = append(ks, fmt.Sprintf("%s:%d values", k, len(v)))
			}
			sort.Strings(ks)
			a.hold(rule, "strip@"+tn, w.pos(f.Pos()), "all 256 algorithm values: %s", strings.Join(ks, ", "))
		}
	}
	a.exhaustive = true
}

// stripShape classifies a return of StripChecksum by the canonical term of the buffer of the event it returns
// (helpers that cut the checksum off are inlined).
func stripShape(ret *ssa.Return, recv ssa.Value) string {
	if len(ret.Results) != 3 {
		return "?"
	}
	if !isNilConst(ret.Results[2]) {
		return "error"
	}
	ev := strip(ret.Results[0])
	if ev == recv {
		if isNilConst(ret.Results[1]) {
			return "unchanged"
		}
		return "unchanged+checksum"
	}
	// composite literal {binlogEvent: binlogEvent(<slice>)}: the value stored into its field
	var stored ssa.Value
	if u, ok := ev.(*ssa.UnOp); ok && u.Op == token.MUL {
		if al, ok := u.X.(*ssa.Alloc); ok {
			for _, r := range *al.Referrers() {
				fa, ok := r.(*ssa.FieldAddr)
				if !ok {
					continue
				}
				for _, rr := range *fa.Referrers() {
					if st, ok := rr.(*ssa.Store); ok {
						stored = st.Val
					}
				}
			}
		}
	}
	if stored == nil {
		return "other"
	}
	f := ret.Parent()
	t := newTB(nil)
	// the event buffer: the receiver, its embedded binlogEvent, and what Bytes() returns for them
	t.ssub[f.Params[0]] = "buf"
	instrs(f, func(in ssa.Instruction) {
		if c, ok := in.(*ssa.Call); ok {
			if cal := c.Common().StaticCallee(); cal != nil && cal.Name() == "Bytes" {
				t.names[c] = "buf"
				t.ssub[c] = "buf"
			}
		}
		if fl, ok := in.(*ssa.Field); ok && fl.X == ssa.Value(f.Params[0]) {
			t.ssub[fl] = "buf"
		}
	})
	term := t.sliceTerm(strip(stored))
	var k int64
	if n, _ := fmt.Sscanf(term, "buf[:len(buf)-%d]", &k); n == 1 && term == fmt.Sprintf("buf[:len(buf)-%d]", k) {
		return fmt.Sprintf("strip%d", k)
	}
	return "other(" + term + ")"
}

// v4 header layout (MySQL internals: event header fields).
var headerSpec = map[string][2]int64{
	"Timestamp": {0, 4}, "Type": {4, 5}, "ServerID": {5, 9}, "Length": {9, 13}, "NextPosition": {13, 17}, "Flags": {17, 19},
}

func c16R3(a *A) {
	const rule = "C16-R3"
	w := a.W
	got := map[string][2]int64{}
	for _, name := range headerAccessors {
		f := w.method(w.Repl, "binlogEvent", name)
		if !a.need(f != nil, rule, "binlogEvent."+name) {
			continue
		}
		a.touch(f)
		// canonical term of the returned value over the event buffer "buf" (= the receiver / its Bytes())
		t := newTB(nil)
		t.names[f.Params[0]] = "buf"
		instrs(f, func(in ssa.Instruction) {
			if c, ok := in.(*ssa.Call); ok {
				if cal := c.Common().StaticCallee(); cal != nil && cal.Name() == "Bytes" && len(c.Common().Args) == 1 && strip(c.Common().Args[0]) == ssa.Value(f.Params[0]) {
					t.names[c] = "buf"
				}
			}
		})
		want := headerSpec[name]
		wantT := fmt.Sprintf("LE(%d,buf[%d])", want[1]-want[0], want[0])
		if want[1]-want[0] == 1 {
			wantT = fmt.Sprintf("buf[%d]", want[0])
		}
		var terms []string
		for _, ret := range returnsOf(f) {
			terms = append(terms, t.term(ret.Results[0]).String())
		}
		terms = uniq(terms)
		ok := len(terms) == 1 && terms[0] == wantT
		if ok {
			got[name] = want
		}
		a.check(ok, rule, "header@"+name, w.pos(f.Pos()), fmt.Sprintf("reads bytes [%d,%d) little-endian", want[0], want[1]),
			fmt.Sprintf("%s() returns %v; the v4 event header has this field at bytes [%d,%d), little-endian (%s)", name, terms, want[0], want[1], wantT))
	}
	// writer agreement (the package's own packet builder)
	pk := w.method(w.Repl, "FakeBinlogStream", "Packetize")
	if pk != nil {
		a.touch(pk)
		wr := map[string]bool{}
		instrs(pk, func(in ssa.Instruction) {
			switch x := in.(type) {
			case *ssa.Slice:
				lo, ok1 := int64(0), true
				if x.Low != nil {
					lo, ok1 = constInt(x.Low)
				}
				hi, ok2 := int64(0), false
				if x.High != nil {
					hi, ok2 = constInt(x.High)
				}
				if ok1 && ok2 {
					for _, r := range *x.Referrers() {
						if c, ok := r.(*ssa.Call); ok {
							if cal := c.Common().StaticCallee(); cal != nil && strings.HasPrefix(cal.Name(), "PutUint") {
								wr[fmt.Sprintf("%d,%d", lo, hi)] = true
							}
						}
					}
				}
			case *ssa.IndexAddr:
				if k, ok := constInt(x.Index); ok {
					for _, r := range *x.Referrers() {
						if st, ok := r.(*ssa.Store); ok && st.Addr == ssa.Value(x) {
							wr[fmt.Sprintf("%d,%d", k, k+1)] = true
						}
					}
				}
			}
		})
		for name, rg := range got {
			a.check(wr[fmt.Sprintf("%d,%d", rg[0], rg[1])], rule, "writer@"+name, w.pos(pk.Pos()), "Packetize writes the same range", fmt.Sprintf("Packetize writes no field at [%d,%d) where %s() reads", rg[0], rg[1], name))
		}
	}
}

// documented body layouts: function -> destination -> range term.
type layoutSpec struct {
	Type, Method string
	Header       string
	Want         map[string]string // dest -> range
	Endian       string            // "le" for multi-byte integers read through encoding/binary
}

var bodySpecs = []layoutSpec{
	{"binlogEvent", "Format", "19", map[string]string{
		"field:FormatVersion": "[0,2)", "field:ServerVersion": "[2,52)", "field:HeaderLength": "[56]",
		"field:ChecksumAlgorithm": "[len-5]", "field:HeaderSizes": "[57,len-5)"}, "le"},
	{"binlogEvent", "Rotate", "HeaderLength", map[string]string{"ret#1": "[0,8)", "ret#0": "[8,end)"}, "le"},
	{"binlogEvent", "Query", "HeaderLength", map[string]string{
		"~bound": "[8]|[11,13)", "field:Database": "[le[11,13)+13,b[8]+le[11,13)+13)", "field:SQL": "[b[8]+le[11,13)+14,end)", "len": "[13,le[11,13)+13)"}, "le"},
	{"binlogEvent", "IntVar", "HeaderLength", map[string]string{"ret#0": "[0]", "ret#1": "[1,9)"}, "le"},
	{"binlogEvent", "Rand", "HeaderLength", map[string]string{"ret#0": "[0,8)", "ret#1": "[8,16)"}, "le"},
	{"mysql56BinlogEvent", "GTID", "HeaderLength", map[string]string{"copy:var:sid": "[1,17)", "field:Sequence": "[17,25)"}, "le"},
	{"mariadbBinlogEvent", "GTID", "HeaderLength", map[string]string{"field:Sequence": "[0,8)", "field:Domain": "[8,12)", "~cond": "[12]"}, "le"},
}

func c16R4(a *A) {
	const rule = "C16-R4"
	w := a.W
	for _, sp := range bodySpecs {
		f := w.method(w.Repl, sp.Type, sp.Method)
		if !a.need(f != nil, rule, sp.Type+"."+sp.Method) {
			continue
		}
		a.touch(f)
		x := newWF(f)
		hl := x.bodyBases()
		name := sp.Method
		if sp.Type != "binlogEvent" {
			name = sp.Type + "." + sp.Method
		}
		a.check(len(hl) == 1 && hl[0] == sp.Header, rule, "layout@"+name+"[body-start]", w.pos(f.Pos()), "body starts after the header ("+sp.Header+")",
			fmt.Sprintf("body slice starts at %v, expected %s", hl, sp.Header))
		facts := x.reads()
		byDest := map[string][]string{}
		for _, rd := range facts {
			if strings.Contains(rd.Range, "?") {
				continue // offset relative to a loop variable: not a fixed-layout read
			}
			for _, d := range rd.Dests {
				byDest[d] = append(byDest[d], rd.Range)
			}
		}
		var dests []string
		for d := range sp.Want {
			dests = append(dests, d)
		}
		sort.Strings(dests)
		for _, d := range dests {
			want := strings.Split(sp.Want[d], "|")
			got := uniq(append([]string{}, byDest[d]...))
			if d == "len" && len(got) == 0 && sp.Method == "Query" {
				// the status-variable block handed to the scanner function instead of being scanned in place
				if g, _, _ := findStatusScan(f); g != nil && g != f {
					for dd, rs := range byDest {
						if strings.HasPrefix(dd, "arg:"+g.Name()+"#") {
							got = uniq(append(got, rs...))
						}
					}
				}
			}
			sort.Strings(want)
			a.check(strings.Join(got, "|") == strings.Join(want, "|"), rule, "layout@"+name+"["+d+"]", w.pos(f.Pos()),
				fmt.Sprintf("%s <- %s", d, strings.Join(want, "|")),
				fmt.Sprintf("%s is decoded from %v; the documented layout puts it at %v", d, got, want))
		}
		// each result field is stored exactly once (a second, conditional store overrides what was read from the event)
		if sp.Method == "Format" {
			cnt := map[string]int{}
			instrs(f, func(in ssa.Instruction) {
				if st, ok := in.(*ssa.Store); ok {
					if fa, ok := st.Addr.(*ssa.FieldAddr); ok && typeIs(fa.X.Type(), replPath, "BinlogFormat") {
						if _, isAlloc := fa.X.(*ssa.Alloc); isAlloc {
							cnt[fieldName(fa)]++
						}
					}
				}
			})
			for fld, n := range cnt {
				a.check(n == 1, rule, "layout@"+name+"[single-source:"+fld+"]", w.pos(f.Pos()), fld+" is set once, from the event",
					fmt.Sprintf("BinlogFormat.%s is stored %d times in Format(): a later store overrides the value read from the event (e.g. a checksum algorithm guessed from the server version), so the decoded format is not what the master wrote", fld, n))
			}
		}
		// forbidden: a constant-range read the layout does not define
		allowed := map[string]bool{}
		for _, v := range sp.Want {
			for _, s := range strings.Split(v, "|") {
				allowed[s] = true
			}
		}
		for i, rd := range facts {
			if strings.ContainsAny(rd.Range, "?") || allowed[rd.Range] {
				continue
			}
			onlyFmt := true
			for _, d := range rd.Dests {
				if d != "fmt" && d != "~fmt" && d != "unused" {
					onlyFmt = false
				}
			}
			if onlyFmt {
				continue
			}
			a.viol(rule, fmt.Sprintf("layout@%s[extra#%d]", name, i+1), w.pos(rd.Pos), "reads %s -> %v, which the documented layout of this event does not define", rd.Range, rd.Dests)
		}
		// endianness of multi-byte reads via encoding/binary (in the decoder and, for Query, its status-variable scanner)
		endianFns := []*ssa.Function{f}
		if sp.Method == "Query" {
			if g, _, _ := findStatusScan(f); g != nil && g != f {
				endianFns = append(endianFns, g)
			}
		}
		// ... and the pure reader helpers it calls
		instrs(f, func(in ssa.Instruction) {
			if c, ok := in.(*ssa.Call); ok {
				if cal := c.Common().StaticCallee(); cal != nil && cal.Pkg == w.Repl && cal.Blocks != nil && !c.Common().IsInvoke() {
					dup := false
					for _, e := range endianFns {
						if e == cal {
							dup = true
						}
					}
					if !dup && len(cal.Blocks) == 1 {
						endianFns = append(endianFns, cal)
					}
				}
			}
		})
		for _, ef := range endianFns {
			instrs(ef, func(in ssa.Instruction) {
				c, ok := in.(*ssa.Call)
				if !ok {
					return
				}
				cal := c.Common().StaticCallee()
				if cal == nil || cal.Pkg == nil || cal.Pkg.Pkg.Path() != "encoding/binary" || !strings.HasPrefix(cal.Name(), "Uint") {
					return
				}
				a.check(strings.Contains(cal.String(), "littleEndian"), rule, fmt.Sprintf("endian@%s[%s]", name, w.posOf(c)), w.posOf(c), "little-endian", "multi-byte body field read big-endian; binlog event fields are little-endian")
			})
		}
	}
	// charset triple of the query event: three consecutive little-endian uint16
	q := w.method(w.Repl, "binlogEvent", "Query")
	if q != nil {
		g, _, _ := findStatusScan(q)
		if g == nil {
			g = q
		}
		x := newWF(g)
		if g == q {
			x.bodyBases()
		} else {
			a.touch(g)
			for _, p := range g.Params {
				if _, isSlice := p.Type().Underlying().(*types.Slice); isSlice {
					x.bases[p] = affConst(0)
				}
			}
		}
		starts := map[string]aff{}
		for _, rd := range x.reads() {
			for _, d := range rd.Dests {
				if d == "field:Client" || d == "field:Conn" || d == "field:Server" {
					if s, ok := rd.In.(*ssa.Slice); ok {
						lo, hi, open, ok := x.sliceRange(s)
						if ok && !open {
							if k, isK := hi.add(lo, -1).isConst(); isK && k == 2 {
								starts[d] = lo
							}
						}
					}
				}
			}
		}
		ok := len(starts) == 3
		if ok {
			d1, ok1 := starts["field:Conn"].add(starts["field:Client"], -1).isConst()
			d2, ok2 := starts["field:Server"].add(starts["field:Client"], -1).isConst()
			ok = ok1 && ok2 && d1 == 2 && d2 == 4
		}
		a.check(ok, rule, "layout@Query[charset]", w.pos(q.Pos()), "client, connection, server collations are consecutive uint16 at +0,+2,+4", "the charset status variable is not decoded as three consecutive uint16 (client, conn, server)")
	}
}

// R5: status-variable sizes in the Query scanner. The scanner is a loop
// `code = vars[pos]; pos++; switch code {...}`; per case the net advance of pos
// must equal the documented size for every variable that can precede the charset.
func c16R5(a *A) {
	const rule = "C16-R5"
	w := a.W
	q := w.method(w.Repl, "binlogEvent", "Query")
	if !a.need(q != nil, rule, "binlogEvent.Query") {
		return
	}
	// the scanner: Query itself or an in-package function it hands the status-variable block to
	g, phi, code := findStatusScan(q)
	if !a.need(g != nil && phi != nil, rule, "status-variable scan loop in Query") {
		return
	}
	if !a.need(code != nil, rule, "status-variable code byte read") {
		return
	}
	a.touch(g)
	q = g
	// documented: code -> size after the code byte; "1+n" = one length byte plus n; "1+n+1" = plus NUL
	doc := map[int64]string{0: "4", 1: "8", 2: "1+n+1", 3: "4", 4: "6", 6: "1+n"}
	head := phi.Block()
	for c := int64(0); c <= 6; c++ {
		want, known := doc[c]
		if !known {
			continue // code 5 (time zone) follows the charset; the scanner may stop there
		}
		res := Specialize(q, map[ssa.Value]constant.Value{code: constant.MakeInt64(c)}, nil)
		a.Evals++
		// edges of phi coming from executable back-edge predecessors
		var terms []string
		for i, pr := range head.Preds {
			if !head.Dominates(pr) || !res.Exec[pr] || !res.edgeExec(pr, head) {
				continue
			}
			x := newWF(q)
			x.res = res
			x.extra = func(v ssa.Value) (aff, bool) {
				if v == ssa.Value(phi) {
					return affAtom("pos"), true
				}
				if u, ok := v.(*ssa.UnOp); ok && u.Op == token.MUL {
					if ia, ok := u.X.(*ssa.IndexAddr); ok {
						d := x.affine(ia.Index).add(affAtom("pos"), -1)
						if k, isK := d.isConst(); isK && k == 1 {
							return affAtom("n"), true
						}
					}
				}
				return aff{}, false
			}
			t := x.affine(phi.Edges[i]).add(affAtom("pos"), -1).add(affConst(1), -1)
			terms = append(terms, t.String())
		}
		terms = uniq(terms)
		wantT := map[string]string{"4": "4", "8": "8", "6": "6", "1+n": "n+1", "1+n+1": "n+2"}[want]
		key := fmt.Sprintf("statusvar@Query[code=%d]", c)
		a.check(len(terms) == 1 && terms[0] == wantT, rule, key, w.pos(q.Pos()), "advances by "+want+" bytes after the code byte",
			fmt.Sprintf("status variable %d advances the scan by %v bytes after its code; documented size is %s: the charset (and anything after) is read from the wrong offset when this variable is present", c, terms, want))
	}
}

// findStatusScan locates the status-variable scanner: a loop whose position counter phi indexes a byte slice to fetch the
// code that the loop body dispatches on. It is looked for in f and in the in-package functions f calls (depth 2).
func findStatusScan(f *ssa.Function) (*ssa.Function, *ssa.Phi, ssa.Value) {
	var try func(g *ssa.Function, depth int) (*ssa.Function, *ssa.Phi, ssa.Value)
	try = func(g *ssa.Function, depth int) (*ssa.Function, *ssa.Phi, ssa.Value) {
		var cands []*ssa.Phi
		for _, b := range g.Blocks {
			if !isLoopHeader(b) {
				continue
			}
			for _, in := range b.Instrs {
				if p, ok := in.(*ssa.Phi); ok && isIntegerType(p.Type()) {
					cands = append(cands, p)
				}
			}
		}
		for _, phi := range cands {
			var code ssa.Value
			instrs(g, func(in ssa.Instruction) {
				if u, ok := in.(*ssa.UnOp); ok && u.Op == token.MUL {
					if ia, ok := u.X.(*ssa.IndexAddr); ok && ia.Index == ssa.Value(phi) {
						code = u
					}
				}
			})
			if code != nil {
				return g, phi, code
			}
		}
		if depth >= 2 {
			return nil, nil, nil
		}
		var out *ssa.Function
		var op *ssa.Phi
		var oc ssa.Value
		instrs(g, func(in ssa.Instruction) {
			c, ok := in.(*ssa.Call)
			if !ok || out != nil {
				return
			}
			cal := c.Common().StaticCallee()
			if cal == nil || cal.Blocks == nil || cal.Pkg != f.Pkg || cal == g {
				return
			}
			hasSlice := false
			for _, a := range c.Common().Args {
				if _, isSlice := a.Type().Underlying().(*types.Slice); isSlice {
					hasSlice = true
				}
			}
			if !hasSlice {
				return
			}
			if h, p, cd := try(cal, depth+1); h != nil {
				out, op, oc = h, p, cd
			}
		})
		return out, op, oc
	}
	return try(f, 0)
}
