package main

import (
	"go/token"
	"go/types"

	"golang.org/x/tools/go/ssa"
)

// rowLoop is the skeleton of one "walk the columns of a row image" loop.
type rowLoop struct {
	Fn       *ssa.Function
	Header   *ssa.BasicBlock
	Latch    *ssa.BasicBlock
	C, Idx   *ssa.Phi
	Off      *ssa.Phi
	Presence *ssa.Call                    // presence.Bit(c)
	Null     *ssa.Call                    // null.Bit(idx)
	Len      *ssa.Call                    // cellLength(...) / CellBytes(...)
	LenRes   ssa.Value                    // the int result of Len
	Family   string                       // "Data" / "Identify" by the presence bitmap's field name
	Env      map[*ssa.Parameter]ssa.Value // when the loop lives in a helper: its parameters' values at the call site
	Site     *ssa.Call                    // that call site (nil for a loop in the function itself)
	// per path class: increments of (c, idx, off) as terms over {c, idx, off, L}
	Paths map[string]map[string]string
	// predecessor block of the merge for each class (where per-path effects live)
	PathBlock map[string][]*ssa.BasicBlock
}

func isBitCall(v ssa.Value) (*ssa.Call, bool) {
	c, ok := v.(*ssa.Call)
	if !ok {
		return nil, false
	}
	f := c.Common().StaticCallee()
	if f == nil || f.Name() != "Bit" || f.Signature.Recv() == nil || !typeIs(f.Signature.Recv().Type(), replPath, "Bitmap") {
		return nil, false
	}
	return c, true
}

// bitmapField names the struct field holding the bitmap a Bit() call tests.
func bitmapField(c *ssa.Call) string { return bitmapFieldEnv(c, nil) }

// pickByEnv: v is a phi whose alternatives are selected by a test of a boolean parameter that the call site binds to a
// constant; returns the alternative that call site gets (v itself otherwise).
func pickByEnv(v ssa.Value, env map[*ssa.Parameter]ssa.Value) ssa.Value {
	phi, ok := v.(*ssa.Phi)
	if !ok || env == nil {
		return v
	}
	var pick ssa.Value
	n := 0
	for i, pred := range phi.Block().Preds {
		conds := dominatingConds(pred)
		if iff, isIf := lastInstr(pred).(*ssa.If); isIf && pred.Succs[0] != pred.Succs[1] {
			c, val := iff.Cond, pred.Succs[0] == phi.Block()
			for {
				u, isNot := c.(*ssa.UnOp)
				if !isNot || u.Op != token.NOT {
					break
				}
				c, val = u.X, !val
			}
			conds = append(conds, condEdge{iff, c, val})
		}
		feasible := true
		decided := false
		for _, ce := range conds {
			p, isP := ce.Cond.(*ssa.Parameter)
			if !isP {
				continue
			}
			if b, isC := constBool(env[p]); isC {
				decided = true
				if b != ce.Val {
					feasible = false
				}
			}
		}
		if !decided {
			return v
		}
		if feasible {
			pick = phi.Edges[i]
			n++
		}
	}
	if n == 1 {
		return pick
	}
	return v
}

func bitmapFieldEnv(c *ssa.Call, env map[*ssa.Parameter]ssa.Value) string {
	recv := strip(pickByEnv(strip(c.Common().Args[0]), env))
	// a bitmap passed by value is spilled into a local of the helper before its address is taken
	if al, ok := recv.(*ssa.Alloc); ok && al.Referrers() != nil {
		var src ssa.Value
		n := 0
		for _, ref := range *al.Referrers() {
			if st, isSt := ref.(*ssa.Store); isSt && st.Addr == ssa.Value(al) {
				src = st.Val
				n++
			}
		}
		if p, isP := src.(*ssa.Parameter); isP && n == 1 {
			recv = p
		}
	}
	if p, ok := recv.(*ssa.Parameter); ok && env != nil {
		if av, bound := env[p]; bound {
			recv = strip(av)
			if u, isLoad := recv.(*ssa.UnOp); isLoad && u.Op == token.MUL {
				recv = u.X // the bitmap value was loaded from a field
			}
		}
	}
	if fa, ok := recv.(*ssa.FieldAddr); ok {
		return fieldName(fa)
	}
	return "?"
}

// NullField / PresenceField name the bitmaps the loop tests, resolved through the call site when the loop is in a helper.
func (rl *rowLoop) NullField() string {
	if rl.Null == nil {
		return "?"
	}
	if f := bitmapFieldEnv(rl.Null, rl.Env); f != "?" {
		return f
	}
	// a bitmap built inside the helper and handed back: the field the caller stores that result into
	return returnedLocalDest(strip(rl.Null.Common().Args[0]), rl.Site)
}

// returnedLocalDest: addr is a local of a helper whose value the helper returns as result k; the name of the struct field
// the caller stores result k of call site into ("?" if that does not hold).
func returnedLocalDest(addr ssa.Value, site *ssa.Call) string {
	al, ok := addr.(*ssa.Alloc)
	if !ok || site == nil {
		return "?"
	}
	k := -1
	for _, ret := range returnsOf(al.Parent()) {
		for i, res := range ret.Results {
			if u, ok := res.(*ssa.UnOp); ok && u.Op == token.MUL && u.X == ssa.Value(al) {
				if k >= 0 && k != i {
					return "?"
				}
				k = i
			}
		}
	}
	if k < 0 {
		return "?"
	}
	dest := "?"
	for _, ref := range *site.Referrers() {
		if ex, ok := ref.(*ssa.Extract); ok && ex.Index == k {
			for _, rr := range *ex.Referrers() {
				if st, ok := rr.(*ssa.Store); ok {
					if fa, ok := st.Addr.(*ssa.FieldAddr); ok {
						dest = fieldName(fa)
					}
				}
			}
		}
	}
	return dest
}

func isLoopHeader(b *ssa.BasicBlock) bool {
	for _, p := range b.Preds {
		if b.Dominates(p) {
			return true
		}
	}
	return false
}

// findRowLoops locates the loops of f that call a (data,pos,typ,metadata,...) length function.
func findRowLoops(w *World, f *ssa.Function, isLenFn func(*ssa.Function) bool) []*rowLoop {
	return findRowLoopsEnv(w, f, isLenFn, nil, nil)
}

// findRowLoopsDeep: the loops of f itself plus, per call site, those of the in-package functions f calls directly.
func findRowLoopsDeep(w *World, f *ssa.Function, isLenFn func(*ssa.Function) bool) []*rowLoop {
	out := findRowLoops(w, f, isLenFn)
	instrs(f, func(in ssa.Instruction) {
		c, ok := in.(*ssa.Call)
		if !ok || c.Common().IsInvoke() {
			return
		}
		g := c.Common().StaticCallee()
		if g == nil || g.Blocks == nil || g.Pkg != f.Pkg || g == f || isLenFn(g) {
			return
		}
		env := map[*ssa.Parameter]ssa.Value{}
		for i, a := range c.Common().Args {
			if i < len(g.Params) {
				env[g.Params[i]] = a
			}
		}
		out = append(out, findRowLoopsEnv(w, g, isLenFn, env, c)...)
	})
	return out
}

func findRowLoopsEnv(w *World, f *ssa.Function, isLenFn func(*ssa.Function) bool, env map[*ssa.Parameter]ssa.Value, site *ssa.Call) []*rowLoop {
	var out []*rowLoop
	instrs(f, func(in ssa.Instruction) {
		call, ok := in.(*ssa.Call)
		if !ok {
			return
		}
		cal := call.Common().StaticCallee()
		if cal == nil || !isLenFn(cal) {
			return
		}
		off, ok := call.Common().Args[1].(*ssa.Phi)
		if !ok || !isLoopHeader(off.Block()) {
			return
		}
		rl := &rowLoop{Fn: f, Env: env, Site: site, Header: off.Block(), Off: off, Len: call, Paths: map[string]map[string]string{}, PathBlock: map[string][]*ssa.BasicBlock{}}
		// result
		if tup, ok := call.Type().(*types.Tuple); ok {
			for _, ref := range *call.Referrers() {
				if ex, ok := ref.(*ssa.Extract); ok && isIntegerType(tup.At(ex.Index).Type()) {
					rl.LenRes = ex
				}
			}
		}
		for _, ce := range dominatingConds(call.Block()) {
			bc, ok := isBitCall(ce.Cond)
			if !ok || !rl.Header.Dominates(bc.Block()) {
				continue
			}
			if ce.Val {
				rl.Presence = bc
			} else {
				rl.Null = bc
			}
		}
		if rl.Presence != nil {
			rl.C, _ = rl.Presence.Common().Args[1].(*ssa.Phi)
			rl.Family = familyOf(bitmapFieldEnv(rl.Presence, env))
		}
		if rl.Null != nil {
			rl.Idx, _ = rl.Null.Common().Args[1].(*ssa.Phi)
		}
		for _, p := range rl.Header.Preds {
			if rl.Header.Dominates(p) {
				rl.Latch = p
			}
		}
		out = append(out, rl)
	})
	return out
}

func familyOf(field string) string {
	switch field {
	case "DataColumns", "NullColumns", "Data":
		return "Data"
	case "IdentifyColumns", "NullIdentifyColumns", "Identify":
		return "Identify"
	}
	return "?" + field
}

// classify assigns the edge pred->succ to a path class by the Bit() conditions
// that hold on it (those dominating pred, plus pred's own branch towards succ).
func (rl *rowLoop) classify(b *ssa.BasicBlock) string { return rl.classifyEdge(b, nil) }

func (rl *rowLoop) classifyEdge(b *ssa.BasicBlock, succ *ssa.BasicBlock) string {
	pres, null := "", ""
	note := func(cond ssa.Value, val bool) {
		if cond == ssa.Value(rl.Presence) {
			if val {
				pres = "present"
			} else {
				pres = "absent"
			}
		}
		if cond == ssa.Value(rl.Null) {
			if val {
				null = "null"
			} else {
				null = "value"
			}
		}
	}
	for _, ce := range dominatingConds(b) {
		note(ce.Cond, ce.Val)
	}
	if succ != nil {
		if iff, ok := lastInstr(b).(*ssa.If); ok && b.Succs[0] != b.Succs[1] {
			if b.Succs[0] == succ {
				note(iff.Cond, true)
			} else if b.Succs[1] == succ {
				note(iff.Cond, false)
			}
		}
	}
	switch {
	case pres == "absent":
		return "absent"
	case pres == "present" && null != "":
		return null
	}
	return "?"
}

// analyse computes, for each path class, the back-edge increments of the three loop variables.
func (rl *rowLoop) analyse() bool {
	if rl.C == nil || rl.Idx == nil || rl.Off == nil || rl.Latch == nil || rl.Presence == nil || rl.Null == nil {
		return false
	}
	latchIdx := -1
	for i, p := range rl.Header.Preds {
		if p == rl.Latch {
			latchIdx = i
		}
	}
	if latchIdx < 0 {
		return false
	}
	names := map[ssa.Value]string{rl.C: "c", rl.Idx: "idx", rl.Off: "off"}
	if rl.LenRes != nil {
		names[rl.LenRes] = "L"
	}
	for varName, phi := range map[string]*ssa.Phi{"c": rl.C, "idx": rl.Idx, "off": rl.Off} {
		back := phi.Edges[latchIdx]
		// expand a merge phi in the latch (or on the way to it) into its incoming values
		type inc struct {
			blk  *ssa.BasicBlock
			v    ssa.Value
			succ *ssa.BasicBlock
		}
		var incs []inc
		if mp, ok := back.(*ssa.Phi); ok && mp.Block() != rl.Header {
			for i, e := range mp.Edges {
				incs = append(incs, inc{mp.Block().Preds[i], e, mp.Block()})
			}
		} else {
			// same on all paths; attribute to every class via the merge block's predecessors
			merge := rl.Latch
			for len(merge.Preds) == 1 && merge != rl.Header {
				merge = merge.Preds[0]
			}
			if len(merge.Preds) > 1 && merge != rl.Header {
				for _, p := range merge.Preds {
					incs = append(incs, inc{p, back, merge})
				}
			} else {
				incs = append(incs, inc{rl.Latch, back, nil})
			}
		}
		for _, ic := range incs {
			cls := rl.classifyEdge(ic.blk, ic.succ)
			t := newTB(nil)
			for k, v := range names {
				t.names[k] = v
			}
			d := t.term(ic.v).add(affAtom(varName), -1)
			if rl.Paths[cls] == nil {
				rl.Paths[cls] = map[string]string{}
			}
			if old, dup := rl.Paths[cls][varName]; dup && old != d.String() {
				rl.Paths[cls][varName] = old + "|" + d.String()
			} else {
				rl.Paths[cls][varName] = d.String()
			}
			if varName == "idx" {
				rl.PathBlock[cls] = append(rl.PathBlock[cls], ic.blk)
			}
		}
	}
	return true
}

// blocksOfClass: all blocks of the loop body that belong to a path class.
func (rl *rowLoop) blocksOfClass(cls string) []*ssa.BasicBlock {
	var out []*ssa.BasicBlock
	for _, b := range rl.Fn.Blocks {
		if rl.Header.Dominates(b) && b != rl.Header && rl.classify(b) == cls {
			out = append(out, b)
		}
	}
	return out
}

// commonBlocks: blocks of the loop body that belong to no path class and lie on every completed iteration (they dominate
// the latch): code before the presence test and after the paths have merged again.
func (rl *rowLoop) commonBlocks() []*ssa.BasicBlock {
	var out []*ssa.BasicBlock
	for _, b := range rl.Fn.Blocks {
		if rl.Header.Dominates(b) && b != rl.Header && rl.classify(b) == "?" && rl.Latch != nil && b.Dominates(rl.Latch) {
			out = append(out, b)
		}
	}
	return out
}

// indexedBy: v is `X[i]` (a load of an element) with index i == the given phi; returns the slice term's field path.
func indexedBy(v ssa.Value, idx ssa.Value) (string, bool) {
	u, ok := v.(*ssa.UnOp)
	if !ok || u.Op != token.MUL {
		return "", false
	}
	ia, ok := u.X.(*ssa.IndexAddr)
	if !ok || ia.Index != idx {
		return "", false
	}
	return fieldPath(ia.X), true
}

// fieldPath renders the chain of field loads producing v, e.g. "tableMap.Types".
func fieldPath(v ssa.Value) string {
	switch x := v.(type) {
	case *ssa.UnOp:
		if x.Op == token.MUL {
			return fieldPath(x.X)
		}
	case *ssa.FieldAddr:
		p := fieldPath(x.X)
		if p == "" {
			return fieldName(x)
		}
		return p + "." + fieldName(x)
	case *ssa.Field:
		p := fieldPath(x.X)
		if p == "" {
			return fieldNameV(x)
		}
		return p + "." + fieldNameV(x)
	case *ssa.IndexAddr:
		return fieldPath(x.X) + "[]"
	case *ssa.Parameter:
		return ""
	case *ssa.Call:
		if x.Common().IsInvoke() {
			return fieldPath(x.Common().Value) + "." + x.Common().Method.Name() + "()"
		}
	}
	return ""
}

// colObject is the ColumnData of one iteration of a streamer column loop: built by a constructor call or in place.
type colObject struct {
	Val                  ssa.Value // the *ColumnData
	Name, Type, IsEmptyV ssa.Value // initial field values (IsEmptyV nil when left at its zero value)
	Pos                  ssa.Instruction
}

// columnObject finds the per-iteration ColumnData of rl: a call inside the loop to an in-package function returning
// *ColumnData whose result is a fresh allocation with fields taken from its parameters, or a heap allocation of ColumnData
// inside the loop with its fields stored directly.
func (rl *rowLoop) columnObject() *colObject {
	var out *colObject
	fromAlloc := func(al *ssa.Alloc, bind func(ssa.Value) ssa.Value) *colObject {
		co := &colObject{}
		for _, ref := range *al.Referrers() {
			fa, ok := ref.(*ssa.FieldAddr)
			if !ok {
				continue
			}
			for _, rr := range *fa.Referrers() {
				st, ok := rr.(*ssa.Store)
				if !ok || st.Addr != ssa.Value(fa) || st.Block() != al.Block() {
					continue // only the initialisation next to the allocation
				}
				v := bind(st.Val)
				switch fieldName(fa) {
				case "Filed":
					co.Name = v
				case "Type":
					co.Type = v
				case "IsEmpty":
					co.IsEmptyV = v
				}
			}
		}
		return co
	}
	instrs(rl.Fn, func(in ssa.Instruction) {
		if !rl.Header.Dominates(in.Block()) || in.Block() == rl.Header {
			return
		}
		switch x := in.(type) {
		case *ssa.Call:
			cal := x.Common().StaticCallee()
			if cal == nil || cal.Blocks == nil || x.Common().IsInvoke() || cal.Pkg != rl.Fn.Pkg || !typeIs(x.Type(), rootPath, "ColumnData") {
				return
			}
			rets := returnsOf(cal)
			if len(rets) != 1 {
				return
			}
			al, ok := resolve(rets[0].Results[0]).(*ssa.Alloc)
			if !ok {
				return
			}
			co := fromAlloc(al, func(v ssa.Value) ssa.Value {
				if p, isP := v.(*ssa.Parameter); isP {
					for i, q := range cal.Params {
						if q == p && i < len(x.Common().Args) {
							return x.Common().Args[i]
						}
					}
				}
				return v
			})
			co.Val, co.Pos = x, x
			out = co
		case *ssa.Alloc:
			if x.Heap && typeIs(x.Type(), rootPath, "ColumnData") {
				co := fromAlloc(x, func(v ssa.Value) ssa.Value { return v })
				co.Val, co.Pos = x, x
				out = co
			}
		}
	})
	return out
}
