package main

import (
	"fmt"
	"go/token"
	"go/types"
	"strings"

	"golang.org/x/tools/go/ssa"
)

func init() {
	register("C08", propMeta{
		Explanation: "Decides the may-alias structure of what is delivered: (R1) the transport's read buffer (result of ReadPacket) flows only into len(), constant-index reads, the source operand of " +
			"copy/append and HandleErrorPacket, and the event is built on a slice allocated per packet; (R2) on every success return of CellBytes (through summaries of printTimestamp, printJSONData and " +
			"helpers) the value may alias only the event's own buffer (parameter data) or memory allocated during the call - never package-level storage or an unknown producer; (R3) Transaction, " +
			"StreamEvent, RowData and ColumnData are fresh allocations per delivery, allocated inside the loop that appends them, and the delivered buffer is dropped by the streamer after acceptance (C02-R4). " +
			"Not decided: what a handler does through cap() of a delivered value (cell ranges are disjoint by C09's consumed-length agreement).",
		Rule:        "instances = uses of the transport buffer, success returns of CellBytes, allocation sites of delivered containers",
		Trusted:     append([]string{"H-alias model of bytes.Buffer / append / strconv.Append* / copy / string conversions (ownership.go)", "driver fact: ReadPacket returns a window of a reused buffer"}, commonTrusted...),
		Assumptions: []string{"strings are immutable"},
	}, runC08)

	addVariants(
		Variant{ID: "c08-r1-no-copy", Prop: "C08", File: "slave_connection.go",
			Old: "\tdata := make([]byte, len(buf)-1)\n\tcopy(data, buf[1:])\n\treturn replication.NewMysql56BinlogEvent(data), nil", New: "\treturn replication.NewMysql56BinlogEvent(buf[1:]), nil",
			Expect: "C08-R1"},
		Variant{ID: "c08-r1-copy-small-only", Prop: "C08", File: "slave_connection.go",
			Old: "\tdata := make([]byte, len(buf)-1)\n\tcopy(data, buf[1:])\n", New: "\tdata := buf[1:]\n\tif len(buf) < 4096 {\n\t\tdata = make([]byte, len(buf)-1)\n\t\tcopy(data, buf[1:])\n\t}\n",
			Expect: "C08-R1"},
		Variant{ID: "c08-r2-shared-year-zero", Prop: "C08", File: "replication/binlog_event_rbr.go",
			Old: "\t\t\treturn []byte{'0', '0', '0', '0'}, 1, nil", New: "\t\t\treturn ZeroTimestamp[:4], 1, nil",
			Expect: "C08-R2 value-alias@CellBytes"},
		Variant{ID: "c08-r2-zero-timestamp-alias", Prop: "C08", File: "replication/binlog_event_rbr.go",
			Old: "bytes.NewBuffer(append([]byte(nil), ZeroTimestamp...))", New: "bytes.NewBuffer(ZeroTimestamp)",
			Expect: "C08-R2 value-alias@CellBytes"},
		Variant{ID: "c08-r3-reused-rowdata", Prop: "C08", File: "streamer.go",
			Old:    "\tfor i := range rows.Rows {\n\t\tvalues, err := getValuesFromRow(tc, rows, i)\n\t\tif err != nil {\n\t\t\treturn ev, err\n\t\t}\n\t\tev.RowValues = append(ev.RowValues, values)\n\t}\n\treturn ev, nil\n}\n\nfunc appendDeleteEventFromRows",
			New:    "\tvar values *RowData\n\tfor i := range rows.Rows {\n\t\tif values == nil {\n\t\t\tv, err := getValuesFromRow(tc, rows, i)\n\t\t\tif err != nil {\n\t\t\t\treturn ev, err\n\t\t\t}\n\t\t\tvalues = v\n\t\t}\n\t\tev.RowValues = append(ev.RowValues, values)\n\t}\n\treturn ev, nil\n}\n\nfunc appendDeleteEventFromRows",
			Expect: "C08-R3 fresh-per-iteration@appendInsertEventFromRows"},
		Variant{ID: "c08-r4-after-image-shares-before-image", Prop: "C08", File: "streamer.go",
			Old: "\t\tev.RowValues = append(ev.RowValues, values)\n\t}\n\n\treturn ev, nil\n}\n\nfunc appendInsertEventFromRows", New: "\t\tfor c, col := range values.Columns {\n\t\t\tif c < len(identifies.Columns) && string(col.Data) == string(identifies.Columns[c].Data) {\n\t\t\t\tcol.Data = identifies.Columns[c].Data\n\t\t\t}\n\t\t}\n\t\tev.RowValues = append(ev.RowValues, values)\n\t}\n\n\treturn ev, nil\n}\n\nfunc appendInsertEventFromRows",
			Expect: "C08-R4 shared@"},
	)
}

func runC08(a *A) {
	r := resolveRolesG(a, "C08-R0", "r")
	if r != nil {
		c08R1(a, r)
	}
	c08R2(a)
	c08R3(a, r)
	c08R4(a)
	// R5: the conversion of events into delivered objects keeps no package-level state (shared tables, pooled objects)
	{
		w := a.W
		roots := []*ssa.Function{w.method(w.Root, "Streamer", "parseEvents"), w.method(w.Root, "slaveConnection", "readBinlogEvent"), w.fn(w.Repl, "CellBytes")}
		if r != nil {
			roots = append(roots, r.ReadEvent)
		}
		if rp := resolveRolesG(newA(w, "C08", a.Tier), "C08-R0", "p"); rp != nil {
			roots = append(roots, rp.Parser)
		}
		statelessRule(a, "C08-R5", "the streamer's conversion path", roots, w.Root, w.Repl)
	}
}

var deliveredTypes = []string{"Transaction", "StreamEvent", "RowData", "ColumnData"}

func isDeliveredPtr(t types.Type) bool {
	for _, n := range deliveredTypes {
		if typeIs(t, rootPath, n) {
			return true
		}
	}
	return false
}

// deliveredSource: v is (a window of) memory read out of a delivered object: a load through a field of one of the
// delivered types, followed through element addresses, re-slices, phis and append's first operand. Returns the field
// address it was read through.
func deliveredSource(v ssa.Value, depth int) *ssa.FieldAddr {
	if depth > 12 || v == nil {
		return nil
	}
	switch x := v.(type) {
	case *ssa.UnOp:
		if x.Op != token.MUL {
			return nil
		}
		return deliveredAddr(x.X, depth+1)
	case *ssa.Slice:
		if fa := deliveredAddr(x.X, depth+1); fa != nil {
			return fa
		}
		return deliveredSource(x.X, depth+1)
	case *ssa.Phi:
		for _, e := range x.Edges {
			if fa := deliveredSource(e, depth+1); fa != nil {
				return fa
			}
		}
	case *ssa.ChangeType:
		return deliveredSource(x.X, depth+1)
	case *ssa.Convert:
		if _, isSl := x.Type().Underlying().(*types.Slice); isSl {
			if _, fromSl := x.X.Type().Underlying().(*types.Slice); fromSl {
				return deliveredSource(x.X, depth+1)
			}
		}
	case *ssa.Call:
		if isBuiltin(x.Common(), "append") && len(x.Common().Args) >= 1 {
			return deliveredSource(x.Common().Args[0], depth+1)
		}
	}
	return nil
}

func deliveredAddr(addr ssa.Value, depth int) *ssa.FieldAddr {
	if depth > 12 {
		return nil
	}
	switch x := addr.(type) {
	case *ssa.FieldAddr:
		if isDeliveredPtr(x.X.Type()) {
			return x
		}
		return deliveredAddr(x.X, depth+1)
	case *ssa.IndexAddr:
		if fa := deliveredAddr(x.X, depth+1); fa != nil {
			return fa
		}
		return deliveredSource(x.X, depth+1)
	}
	return nil
}

// R4: no sharing between delivered objects. What is stored into a slice- or pointer-typed field (or into an element of
// a slice field) of a delivered object is never memory read out of a delivered object - except the object's own field
// being extended (x.F = append(x.F, ...)).
func c08R4(a *A) {
	const rule = "C08-R4"
	w := a.W
	n, bad := 0, 0
	{
		for _, f := range w.srcFuncs(w.Root) {
			if f.Blocks == nil {
				continue
			}
			instrs(f, func(in ssa.Instruction) {
				st, ok := in.(*ssa.Store)
				if !ok {
					return
				}
				switch st.Val.Type().Underlying().(type) {
				case *types.Slice, *types.Pointer, *types.Map:
				default:
					return
				}
				dst := deliveredAddr(st.Addr, 0)
				if dst == nil {
					return
				}
				n++
				src := deliveredSource(st.Val, 0)
				if src == nil {
					return
				}
				if da, ok := st.Addr.(*ssa.FieldAddr); ok && da.X == src.X && da.Field == src.Field {
					return // own field extended or re-sliced in place
				}
				bad++
				a.viol(rule, fmt.Sprintf("shared@%s#%d", f.Name(), bad), w.posOf(st), "%s of a delivered %s is set to memory read out of %s of a delivered %s: two delivered values share storage, so overwriting one changes the other",
					fieldName(dst), shortType(dst.X.Type()), fieldName(src), shortType(src.X.Type()))
			})
		}
	}
	if bad == 0 {
		a.hold(rule, "shared@all", "-", "%d stores into reference-typed fields/elements of delivered objects, none of memory read out of a delivered object", n)
	}
	if n < 5 {
		a.undecided(rule, "count@stores", "-", "found %d stores into delivered objects, expected at least 5", n)
	}
}

func c08R1(a *A, r *Roles) {
	const rule = "C08-R1"
	w := a.W
	f := r.ReadEvent
	var buf ssa.Value
	instrs(f, func(in ssa.Instruction) {
		if c, ok := in.(*ssa.Call); ok && isInvokeOf(c.Common(), "ReadPacket") {
			for _, ref := range *c.Referrers() {
				if ex, ok := ref.(*ssa.Extract); ok && ex.Index == 0 {
					buf = ex
				}
			}
		}
	})
	if !a.need(buf != nil, rule, "result of ReadPacket") {
		return
	}
	tainted := map[ssa.Value]bool{buf: true}
	n := 0
	depth := 0
	retTainted := false
	var visit func(v ssa.Value)
	visit = func(v ssa.Value) {
		refs := v.Referrers()
		if refs == nil {
			return
		}
		for _, ref := range *refs {
			n++
			key := fmt.Sprintf("transport-use@%s#%d", ref.Parent().Name(), n)
			switch x := ref.(type) {
			case *ssa.DebugRef:
				n--
			case *ssa.Slice:
				if x.X == v {
					if !tainted[x] {
						tainted[x] = true
						a.hold(rule, key, w.posOf(x), "re-slice (still transport memory)")
						visit(x)
					}
				} else {
					a.hold(rule, key, w.posOf(x), "used as a bound")
				}
			case *ssa.ChangeType:
				// a named slice type over the same bytes (`type packet []byte`): still transport memory
				if !tainted[x] {
					tainted[x] = true
					a.hold(rule, key, w.posOf(x), "same memory under a named type")
					visit(x)
				}
			case *ssa.IndexAddr:
				okUse := true
				for _, rr := range *x.Referrers() {
					if u, ok := rr.(*ssa.UnOp); !ok || u.Op != token.MUL {
						if _, isDbg := rr.(*ssa.DebugRef); !isDbg {
							okUse = false
						}
					}
				}
				a.check(okUse, rule, key, w.posOf(x), "element read", "an element address of the transport buffer is kept or written")
			case *ssa.Call:
				c := x.Common()
				switch {
				case isBuiltin(c, "len") || isBuiltin(c, "cap"):
					a.hold(rule, key, w.posOf(x), "len/cap")
				case isBuiltin(c, "copy") && len(c.Args) == 2 && c.Args[1] == v && c.Args[0] != v:
					a.hold(rule, key, w.posOf(x), "source of copy")
				case isBuiltin(c, "append") && len(c.Args) == 2 && c.Args[1] == v && !tainted[c.Args[0]]:
					a.hold(rule, key, w.posOf(x), "source of append")
				case isInvokeOf(c, "HandleErrorPacket"):
					a.hold(rule, key, w.posOf(x), "decoded synchronously by the driver")
				default:
					// an in-package function: the same discipline applies to its parameter (bounded depth); what it returns is
					// transport memory again if it returns (a slice of) the parameter
					cal := c.StaticCallee()
					if cal != nil && cal.Blocks != nil && cal.Pkg == w.Root && !c.IsInvoke() && depth < 2 {
						a.touch(cal)
						a.hold(rule, key, w.posOf(x), "handed to "+cal.Name()+", whose uses of it are checked in turn")
						for i, arg := range c.Args {
							if arg != v || i >= len(cal.Params) || tainted[cal.Params[i]] {
								continue
							}
							tainted[cal.Params[i]] = true
							savedRet := retTainted
							retTainted = false
							depth++
							visit(cal.Params[i])
							depth--
							if retTainted && !tainted[x] {
								tainted[x] = true
								visit(x)
							}
							retTainted = savedRet
						}
						break
					}
					a.viol(rule, key, w.posOf(x), "the transport's reused read buffer is passed to %s: whatever keeps it sees later packets overwrite it", shortCallee(c))
				}
			case *ssa.Convert:
				if isStringType(x.Type()) {
					a.hold(rule, key, w.posOf(x), "copied into a string")
				} else {
					a.viol(rule, key, w.posOf(x), "transport buffer converted and kept")
				}
			case *ssa.Return:
				if depth > 0 {
					retTainted = true
					a.hold(rule, key, w.posOf(x), "returned to the caller, where it is still treated as transport memory")
				} else {
					a.viol(rule, key, w.posOf(ref), "the transport's reused read buffer is returned by the packet decoder: delivered data would change when the next packet arrives")
				}
			default:
				a.viol(rule, key, w.posOf(ref), "the transport's reused read buffer escapes through %T: delivered data would change when the next packet arrives", ref)
			}
		}
	}
	visit(buf)
	// the event is built on a fresh allocation, on every path
	an := newAliasAn(w)
	m := 0
	instrs(f, func(in ssa.Instruction) {
		c, ok := in.(*ssa.Call)
		if !ok {
			return
		}
		cal := c.Common().StaticCallee()
		if cal == nil || cal.Pkg != w.Repl || cal.Signature.Results().Len() != 1 || !namedIs(cal.Signature.Results().At(0).Type(), replPath, "BinlogEvent") {
			return
		}
		m++
		rs := an.roots(c.Common().Args[0])
		ok = len(rs) == 1 && rs["fresh"] && !tainted[c.Common().Args[0]]
		a.check(ok, rule, fmt.Sprintf("event-buffer@%s#%d", f.Name(), m), w.posOf(c), "event built on a per-packet allocation",
			fmt.Sprintf("the event is built on memory that may be %v: it is not a private copy of the packet", rs.list()))
		a.touch(cal)
		// the constructor keeps the slice as is (no hidden aliasing of something else)
	})
	a.atLeast(rule, "event-buffer@", 1)
}

func c08R2(a *A) {
	const rule = "C08-R2"
	w := a.W
	cb := w.fn(w.Repl, "CellBytes")
	if !a.need(cb != nil, rule, "replication.CellBytes") {
		return
	}
	a.touch(cb)
	an := newAliasAn(w)
	// which parameter is the event buffer
	dataIdx := -1
	for i, p := range cb.Params {
		if s, ok := p.Type().Underlying().(*types.Slice); ok && types.Identical(s.Elem(), types.Typ[types.Byte]) {
			dataIdx = i
		}
	}
	if !a.need(dataIdx >= 0, rule, "[]byte parameter of CellBytes") {
		return
	}
	allowed := map[string]bool{"fresh": true, fmt.Sprintf("param:%d", dataIdx): true}
	n := 0
	for _, ret := range returnsOf(cb) {
		if len(ret.Results) != 3 || !isNilConst(ret.Results[2]) {
			continue
		}
		n++
		rs := an.roots(ret.Results[0])
		var bad []string
		for _, k := range rs.list() {
			if !allowed[k] {
				bad = append(bad, k)
			}
		}
		key := fmt.Sprintf("value-alias@CellBytes[ret#%d]", n)
		if len(bad) == 0 {
			a.hold(rule, key, w.posOf(ret), "may alias only %v", rs.list())
		} else if strings.HasPrefix(bad[0], "unknown:") {
			a.undecided(rule, key, w.posOf(ret), "cannot bound what the returned value aliases: %v", bad)
		} else {
			a.viol(rule, key, w.posOf(ret), "the returned value may alias %v: every delivery of this value shares one backing array, so a handler overwriting it corrupts later deliveries (and other values delivered earlier)", bad)
		}
	}
	a.atLeast(rule, "value-alias@CellBytes", 10)
	a.Extra["alias_values_analysed"] = len(an.memo)
}

func c08R3(a *A, r *Roles) {
	const rule = "C08-R3"
	w := a.W
	// constructors return fresh allocations
	for _, name := range []string{"newTransaction", "newStreamEvent", "newRowData", "newColumnData"} {
		f := w.fn(w.Root, name)
		if f == nil {
			a.info(rule, "ctor@"+name, "-", "constructor not present")
			continue
		}
		a.touch(f)
		ok := len(returnsOf(f)) > 0
		for _, ret := range returnsOf(f) {
			al, isAlloc := resolve(ret.Results[0]).(*ssa.Alloc)
			if !isAlloc || !al.Heap {
				ok = false
			}
		}
		a.check(ok, rule, "ctor@"+name, w.pos(f.Pos()), "returns a fresh allocation", "the constructor does not return a fresh object: deliveries share structure")
	}
	// slices created by the constructors are fresh
	for _, name := range []string{"newStreamEvent", "newRowData"} {
		f := w.fn(w.Root, name)
		if f == nil {
			continue
		}
		instrs(f, func(in ssa.Instruction) {
			st, ok := in.(*ssa.Store)
			if !ok {
				return
			}
			fa, ok := st.Addr.(*ssa.FieldAddr)
			if !ok {
				return
			}
			if _, isSlice := st.Val.Type().Underlying().(*types.Slice); !isSlice {
				return
			}
			fresh := freshSlice(st.Val, 0)
			a.check(fresh, rule, "ctor-slice@"+name+"."+fieldName(fa), w.posOf(st), "fresh slice", "a delivered container's slice is not freshly allocated")
		})
	}
	// per-iteration freshness: a pointer appended inside a loop is produced inside that loop
	for _, name := range []string{"appendInsertEventFromRows", "appendUpdateEventFromRows", "appendDeleteEventFromRows", "getValuesFromRow", "getIdentifiesFromRow"} {
		f := w.fn(w.Root, name)
		if f == nil {
			continue
		}
		a.touch(f)
		n := 0
		instrs(f, func(in ssa.Instruction) {
			c, ok := in.(*ssa.Call)
			if !ok || !isBuiltin(c.Common(), "append") || len(c.Common().Args) != 2 {
				return
			}
			if !inCycle(c.Block()) {
				return
			}
			// appended elements: stores into the variadic array
			sl, ok := c.Common().Args[1].(*ssa.Slice)
			if !ok {
				return
			}
			al, ok := sl.X.(*ssa.Alloc)
			if !ok {
				return
			}
			for _, ref := range *al.Referrers() {
				ia, ok := ref.(*ssa.IndexAddr)
				if !ok {
					continue
				}
				for _, rr := range *ia.Referrers() {
					st, ok := rr.(*ssa.Store)
					if !ok {
						continue
					}
					if _, isPtr := st.Val.Type().Underlying().(*types.Pointer); !isPtr {
						continue
					}
					n++
					src := resolve(st.Val)
					if ex, ok := src.(*ssa.Extract); ok {
						src = ex.Tuple
					}
					prod, isCall := src.(*ssa.Call)
					key := fmt.Sprintf("fresh-per-iteration@%s#%d", name, n)
					okIt := isCall && inCycle(prod.Block()) && prod.Block().Dominates(c.Block())
					// ... or allocated in place (a composite literal) in the same iteration
					if al2, isAlloc := src.(*ssa.Alloc); isAlloc && al2.Heap && inCycle(al2.Block()) && al2.Block().Dominates(c.Block()) {
						okIt = true
					}
					a.check(okIt, rule, key, w.posOf(c), "appended object is produced in the same loop iteration",
						"an object appended on every iteration is not produced in that iteration ("+describe(src)+"): rows/columns share one object")
				}
			}
		})
	}
	a.atLeast(rule, "fresh-per-iteration@", 4)
}

// freshSlice: v is a slice nobody else can hold: make, a slice of a new array, nil, or the result of an in-package function
// all of whose returns are such (bounded depth).
func freshSlice(v ssa.Value, depth int) bool {
	switch x := strip(v).(type) {
	case *ssa.MakeSlice:
		return true
	case *ssa.Slice:
		al, ok := x.X.(*ssa.Alloc)
		return ok && al.Heap
	case *ssa.Const:
		return x.Value == nil
	case *ssa.Phi:
		if depth > 3 {
			return false
		}
		for _, e := range x.Edges {
			if !freshSlice(e, depth+1) {
				return false
			}
		}
		return true
	case *ssa.Call:
		cal := x.Common().StaticCallee()
		home := x.Parent()
		if cal == nil || cal.Blocks == nil || x.Common().IsInvoke() || cal.Pkg == nil || home == nil || cal.Pkg != enclosingPkg(home) || depth > 2 {
			return false
		}
		rets := returnsOf(cal)
		if len(rets) == 0 {
			return false
		}
		for _, r := range rets {
			if len(r.Results) != 1 || !freshSlice(r.Results[0], depth+1) {
				return false
			}
		}
		return true
	}
	return false
}

func shortType(t types.Type) string {
	if p, ok := t.(*types.Pointer); ok {
		t = p.Elem()
	}
	if n, ok := t.(*types.Named); ok {
		return n.Obj().Name()
	}
	return t.String()
}
