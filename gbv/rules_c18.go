package main

import (
	"fmt"
	"go/constant"
	"go/token"
	"go/types"
	"strings"

	"golang.org/x/tools/go/ssa"
)

func init() {
	register("C18", propMeta{
		Explanation: "Agreement of Contains/Equal/AddGTID with the set model is a statement about values and is not decided. Decided: the immutability clause - (R1) no method of Mysql56GTIDSet (nor any " +
			"in-package function it passes receiver-derived memory to) stores into storage reachable from its receiver: no map update on the receiver, no store through an element/field address of a slice " +
			"obtained from it, no sort/copy/delete on it. Range copies are locals. An append whose first operand is receiver-derived is recorded but is not a violation (it cannot change what the original " +
			"observes within its length). (R2) AddGTID's result is built in a map made in the method, and every interval slice stored into it is allocated in the method; " +
			"(R3) structural necessary conditions of canonical form: the parser sorts each interval list before storing it and SIDs() sorts its result; (R4) the loops of AddGTID over the receiver's lists leave only through their range condition, so every existing interval is carried into the result. " +
			"Not decided: canonical form of results, correctness of interval merging, Contains/Equal.",
		Rule:        "instances = methods of Mysql56GTIDSet x write-capable instructions on receiver-derived memory (taint fixpoint over SSA, in-package callee summaries)",
		Trusted:     append([]string{"list of standard-library functions that write through an argument (sort.*, binary.Read, hex.Decode/Encode, Reader.Read) in ownership.go"}, commonTrusted...),
		Assumptions: []string{"other standard-library callees do not write through receiver-derived arguments"},
	}, runC18)

	addVariants(
		Variant{ID: "c18-r8-binary-search-strict-end", Prop: "C18", File: "replication/mysql56_gtid_set.go",
			Old: "\tfor _, iv := range set[gtid56.Server] {\n\t\tif iv.start > gtid56.Sequence {", New: "\tif ivs := set[gtid56.Server]; len(ivs) > 8 {\n\t\ti := sort.Search(len(ivs), func(i int) bool { return ivs[i].end > gtid56.Sequence })\n\t\treturn i < len(ivs) && ivs[i].start <= gtid56.Sequence\n\t}\n\tfor _, iv := range set[gtid56.Server] {\n\t\tif iv.start > gtid56.Sequence {",
			Expect: "C18-R8 closed@"},
		Variant{ID: "c18-r8-start-not-strict", Prop: "C18", File: "replication/mysql56_gtid_set.go",
			Old: "\t\tif iv.start > gtid56.Sequence {", New: "\t\tif iv.start >= gtid56.Sequence {",
			Expect: "C18-R8 closed@"},
		Variant{ID: "c18-r6-interval-count-shortcut", Prop: "C18", File: "replication/mysql56_gtid_set.go",
			Old: "\t\tcount := len(intervals)\n\n\t\t// Check each interval for this SID in the other set.\n", New: "\t\tcount := len(intervals)\n\t\tif len(otherIntervals) > count {\n\t\t\treturn false\n\t\t}\n\n\t\t// Check each interval for this SID in the other set.\n",
			Expect: "C18-R6 count-shortcut@Contains"},
		Variant{ID: "c18-r5-interval-order-by-difference", Prop: "C18", File: "replication/mysql56_gtid_set.go",
			Old: "func (s intervalList) Less(i, j int) bool { return s[i].start < s[j].start }", New: "func (s intervalList) Less(i, j int) bool { return s[i].start-s[j].start < 0 }",
			Expect: "C18-R5 order@"},
		Variant{ID: "c18-r1-merge-in-place", Prop: "C18", File: "replication/mysql56_gtid_set.go",
			Old: "\t// Make a copy and add the new GTID in the proper place.\n", New: "\tif ivs := set[gtid56.Server]; len(ivs) > 0 && ivs[len(ivs)-1].end+1 == gtid56.Sequence {\n\t\tivs[len(ivs)-1].end = gtid56.Sequence\n\t\treturn set\n\t}\n",
			Expect: "C18-R1 receiver-write@AddGTID"},
		Variant{ID: "c18-r1-map-insert", Prop: "C18", File: "replication/mysql56_gtid_set.go",
			Old: "\t// Make a copy and add the new GTID in the proper place.\n", New: "\tif _, ok := set[gtid56.Server]; !ok {\n\t\tset[gtid56.Server] = []interval{{start: gtid56.Sequence, end: gtid56.Sequence}}\n\t\treturn set\n\t}\n",
			Expect: "C18-R1 receiver-write@AddGTID"},
		Variant{ID: "c18-r1-sort-in-string", Prop: "C18", File: "replication/mysql56_gtid_set.go",
			Old: "\t\tfor _, interval := range set[sid] {\n\t\t\tbuf.WriteByte(':')", New: "\t\tsort.Sort(intervalList(set[sid]))\n\t\tfor _, interval := range set[sid] {\n\t\t\tbuf.WriteByte(':')",
			Expect: "C18-R1 receiver-write@String"},
		Variant{ID: "c18-r2-share-intervals", Prop: "C18", File: "replication/mysql56_gtid_set.go",
			Old: "\t\t\t// Just copy everything.\n\t\t\tnewIntervals = append(newIntervals, intervals...)\n", New: "\t\t\t// Just copy everything.\n\t\t\tnewIntervals = intervals\n",
			Expect: "C18-R2 result-storage@AddGTID"},
		Variant{ID: "c18-r4-break-after-merge", Prop: "C18", File: "replication/mysql56_gtid_set.go",
			Old: "\t\t\t\t\t// Merge instead of appending.\n\t\t\t\t\tnewIntervals[count-1].end = iv.end\n", New: "\t\t\t\t\t// Merge instead of appending.\n\t\t\t\t\tnewIntervals[count-1].end = iv.end\n\t\t\t\t\tbreak\n",
			Expect: "C18-R4 copy-all@AddGTID"},
		Variant{ID: "c18-r3-parser-unsorted", Prop: "C18", File: "replication/mysql56_gtid_set.go",
			Old: "\t\tsort.Sort(intervalList(intervals))\n\t\tset[sid] = intervals\n", New: "\t\tset[sid] = intervals\n",
			Expect: "C18-R3 sorted@parseMysql56GTIDSet"},
	)
}

func runC18(a *A) {
	w := a.W
	const rule = "C18-R1"
	ms := methodsOf(w, w.Repl, "Mysql56GTIDSet")
	if !a.need(len(ms) >= 6, rule, "methods of Mysql56GTIDSet") {
		return
	}
	an := newWT(w)
	for _, f := range ms {
		a.touch(f)
		facts := an.writesThrough(f, 0)
		hard := 0
		for i, wf := range facts {
			key := fmt.Sprintf("receiver-write@%s#%d", f.Name(), i+1)
			if wf.Hard {
				hard++
				a.viol(rule, key, w.posOf(wf.In), "%s: the method modifies storage of the set it was called on; GTID sets are shared as immutable values (AddGTID returns the receiver itself when nothing changes)", wf.What)
			} else {
				a.info(rule, key, w.posOf(wf.In), "%s (recorded; not observable through the original)", wf.What)
			}
		}
		if hard == 0 {
			a.hold(rule, "receiver-write@"+f.Name(), w.pos(f.Pos()), "no write through receiver-derived memory")
		}
	}
	c18R2(a)
	c18R3(a)
	c18R4(a)
	c18R5(a)
	c18R6(a)
	c18R8(a)
	statelessRule(a, "C18-R7", "the Mysql56GTIDSet operations", append(methodsOf(a.W, a.W.Repl, "Mysql56GTIDSet"), a.W.fn(a.W.Repl, "parseMysql56GTIDSet")), a.W.Repl)
}

// R4: AddGTID carries every interval of the receiver over: the loops that range over receiver-derived lists leave only through
// their range condition (no break / return in the body), so no tail of a list can be dropped.
func c18R4(a *A) {
	const rule = "C18-R4"
	w := a.W
	f := w.method(w.Repl, "Mysql56GTIDSet", "AddGTID")
	if !a.need(f != nil, rule, "Mysql56GTIDSet.AddGTID") {
		return
	}
	derived := receiverDerived(f)
	n := 0
	for _, h := range f.Blocks {
		if !isLoopHeader(h) {
			continue
		}
		// the loop ranges over receiver-derived data: its header (or the block before it) takes len()/Next of a derived value
		over := false
		for _, b := range []*ssa.BasicBlock{h, h.Idom()} {
			if b == nil {
				continue
			}
			for _, in := range b.Instrs {
				switch x := in.(type) {
				case *ssa.Next:
					if derived[x.Iter] {
						over = true
					}
				case *ssa.Call:
					if isBuiltin(x.Common(), "len") && derived[x.Common().Args[0]] {
						over = true
					}
				}
			}
		}
		if !over {
			continue
		}
		n++
		// exits of the loop: edges from a block inside the loop to a block outside; only the header may exit
		inLoop := func(b *ssa.BasicBlock) bool { return h.Dominates(b) && (b == h || reachesAvoiding(b, h, nil, nil)) }
		early := ""
		for _, b := range f.Blocks {
			if !inLoop(b) || b == h {
				continue
			}
			for _, sx := range b.Succs {
				if !inLoop(sx) {
					early = w.posOf(lastInstr(b))
				}
			}
			if _, isRet := lastInstr(b).(*ssa.Return); isRet {
				early = w.posOf(lastInstr(b))
			}
		}
		a.check(early == "", rule, fmt.Sprintf("copy-all@AddGTID[loop#%d]", n), w.posOf(h.Instrs[0]), "the loop over the receiver's data runs to completion",
			"a loop over the receiver's intervals can be left early ("+early+"): the intervals after that point are not carried into the result, so AddGTID no longer yields the union (it can lose transactions the set already contained)")
	}
	if n == 0 {
		a.undecided(rule, "copy-all@AddGTID", w.pos(f.Pos()), "no loop over receiver-derived data found in AddGTID")
	}
}

// R2: AddGTID builds its result in fresh storage.
func c18R2(a *A) {
	const rule = "C18-R2"
	w := a.W
	f := w.method(w.Repl, "Mysql56GTIDSet", "AddGTID")
	if !a.need(f != nil, rule, "Mysql56GTIDSet.AddGTID") {
		return
	}
	an := newWT(w)
	_ = an
	// values derived from the receiver
	recvDerived := receiverDerived(f)
	n := 0
	instrs(f, func(in ssa.Instruction) {
		mu, ok := in.(*ssa.MapUpdate)
		if !ok {
			return
		}
		if _, fresh := mu.Map.(*ssa.MakeMap); !fresh {
			return // writes on the receiver are R1's business
		}
		n++
		key := fmt.Sprintf("result-storage@AddGTID#%d", n)
		shared := sliceMayBe(mu.Value, recvDerived, map[ssa.Value]bool{})
		a.check(!shared, rule, key, w.posOf(mu), "interval list stored into the result is allocated in the method",
			"the result shares an interval list with the set it was derived from: a later AddGTID on either (append within spare capacity, in-place merge) shows through in the other")
	})
	a.atLeast(rule, "result-storage@AddGTID", 1)
}

// receiverDerived: values that may reference the receiver's storage (same taint as writesThrough).
func receiverDerived(f *ssa.Function) map[ssa.Value]bool {
	val := map[ssa.Value]bool{f.Params[0]: true}
	changed := true
	for changed {
		changed = false
		mark := func(v ssa.Value) {
			if !val[v] {
				val[v] = true
				changed = true
			}
		}
		instrs(f, func(in ssa.Instruction) {
			switch x := in.(type) {
			case *ssa.Lookup:
				if val[x.X] && hasRefs(x.Type()) {
					mark(x)
				}
			case *ssa.Range:
				if val[x.X] {
					mark(x)
				}
			case *ssa.Next:
				if val[x.Iter] {
					mark(x)
				}
			case *ssa.Extract:
				if val[x.Tuple] && hasRefs(x.Type()) {
					mark(x)
				}
			case *ssa.Slice:
				if val[x.X] {
					mark(x)
				}
			case *ssa.ChangeType:
				if val[x.X] {
					mark(x)
				}
			}
		})
	}
	return val
}

// sliceMayBe: the slice value v may be (an alias of) a receiver-derived slice.
// append(fresh, derived...) copies; append(derived, ...) aliases.
func sliceMayBe(v ssa.Value, derived map[ssa.Value]bool, seen map[ssa.Value]bool) bool {
	if seen[v] {
		return false
	}
	seen[v] = true
	if derived[v] {
		return true
	}
	switch x := v.(type) {
	case *ssa.Phi:
		for _, e := range x.Edges {
			if sliceMayBe(e, derived, seen) {
				return true
			}
		}
	case *ssa.Slice:
		return sliceMayBe(x.X, derived, seen)
	case *ssa.ChangeType:
		return sliceMayBe(x.X, derived, seen)
	case *ssa.Call:
		if isBuiltin(x.Common(), "append") {
			return sliceMayBe(x.Common().Args[0], derived, seen)
		}
	case *ssa.UnOp:
		if fv := forwardLoad(x); fv != nil {
			return sliceMayBe(fv, derived, seen)
		}
		if al, ok := x.X.(*ssa.Alloc); ok {
			for _, ref := range *al.Referrers() {
				if st, ok := ref.(*ssa.Store); ok && st.Addr == ssa.Value(al) && sliceMayBe(st.Val, derived, seen) {
					return true
				}
			}
		}
	case *ssa.Lookup:
		// lookup on the fresh result map: whatever was stored into it
		if mm, ok := x.X.(*ssa.MakeMap); ok {
			for _, ref := range *mm.Referrers() {
				if mu, ok := ref.(*ssa.MapUpdate); ok && sliceMayBe(mu.Value, derived, seen) {
					return true
				}
			}
		}
	}
	return false
}

// R3: sortedness at the two places that establish canonical order.
func c18R3(a *A) {
	const rule = "C18-R3"
	w := a.W
	p := w.fn(w.Repl, "parseMysql56GTIDSet")
	if a.need(p != nil, rule, "parseMysql56GTIDSet") {
		a.touch(p)
		n := 0
		instrs(p, func(in ssa.Instruction) {
			mu, ok := in.(*ssa.MapUpdate)
			if !ok {
				return
			}
			n++
			// a sort.Sort call on (a conversion of) the stored slice dominates the store - here, or in the in-package function
			// that produced the slice (before each of its returns)
			sorted := sortedBefore(mu.Value, mu, 0)
			a.check(sorted, rule, fmt.Sprintf("sorted@parseMysql56GTIDSet#%d", n), w.posOf(mu), "interval list sorted before it is stored",
				"the parser stores an interval list without sorting it: Contains/ContainsGTID/AddGTID scan assuming sorted intervals and give wrong answers for text such as 'uuid:5-6:1-2'")
		})
	}
	s := w.method(w.Repl, "Mysql56GTIDSet", "SIDs")
	if a.need(s != nil, rule, "Mysql56GTIDSet.SIDs") {
		a.touch(s)
		ok := false
		for _, ret := range returnsOf(s) {
			instrs(s, func(in ssa.Instruction) {
				if c, isC := in.(*ssa.Call); isC && staticCalleeIs(c.Common(), "sort.Sort") && strip(c.Common().Args[0]) == resolve(ret.Results[0]) && instrDominates(c, ret) {
					ok = true
				}
			})
		}
		a.check(ok, rule, "sorted@SIDs", w.pos(s.Pos()), "SID list sorted before it is returned", "SIDs() returns the map's iteration order: String() and SIDBlock() are not canonical")
	}
}

// R5: the comparators that establish canonical order are total orders. Instances: the Less methods of the package's
// sort.Interface types and the functions handed to sort.Slice / SliceStable / slices.SortFunc. A comparator that
// decides by the sign of a difference (a-b < 0, or returns a-b) is an order only while the difference cannot wrap: both
// operands must be bounded below the width of the (signed) difference; otherwise distant keys compare inverted, the
// relation is not transitive and the "sorted" output is not canonical.
func c18R5(a *A) {
	const rule = "C18-R5"
	w := a.W
	var cmps []*ssa.Function
	seen := map[*ssa.Function]bool{}
	add := func(f *ssa.Function) {
		if f != nil && f.Blocks != nil && !seen[f] {
			seen[f] = true
			cmps = append(cmps, f)
		}
	}
	for _, f := range w.srcFuncs(w.Repl) {
		if f.Name() == "Less" && f.Signature.Recv() != nil && f.Signature.Params().Len() == 2 && f.Signature.Results().Len() == 1 {
			add(f)
		}
		instrs(f, func(in ssa.Instruction) {
			c, ok := in.(*ssa.Call)
			if !ok {
				return
			}
			cal := c.Common().StaticCallee()
			if cal == nil || cal.Pkg == nil {
				return
			}
			pp := cal.Pkg.Pkg.Path()
			if !(pp == "sort" && (cal.Name() == "Slice" || cal.Name() == "SliceStable") || pp == "slices" && strings.HasPrefix(cal.Name(), "Sort")) {
				return
			}
			for _, arg := range c.Common().Args {
				switch x := arg.(type) {
				case *ssa.MakeClosure:
					add(x.Fn.(*ssa.Function))
				case *ssa.Function:
					add(x)
				}
			}
		})
	}
	for _, f := range cmps {
		a.touch(f)
		t := newTB(Specialize(f, nil, nil))
		bad := ""
		var badPos ssa.Instruction
		nSub := 0
		instrs(f, func(in ssa.Instruction) {
			bo, ok := in.(*ssa.BinOp)
			if !ok || bo.Op != token.SUB {
				return
			}
			bits, _, isInt := intBits(bo.Type())
			if !isInt {
				return
			}
			// does the difference decide the order: compared with a constant, or returned, possibly through conversions
			decides := false
			var walk func(v ssa.Value, d int)
			walk = func(v ssa.Value, d int) {
				if d > 4 || v.Referrers() == nil {
					return
				}
				for _, ref := range *v.Referrers() {
					switch r := ref.(type) {
					case *ssa.Convert:
						if b2, _, ok := intBits(r.Type()); ok && b2 < bits {
							bits = b2
						}
						walk(r, d+1)
					case *ssa.ChangeType:
						walk(r, d+1)
					case *ssa.Phi:
						walk(r, d+1)
					case *ssa.BinOp:
						switch r.Op {
						case token.LSS, token.GTR, token.LEQ, token.GEQ:
							_, cx := r.X.(*ssa.Const)
							_, cy := r.Y.(*ssa.Const)
							if cx || cy {
								decides = true
							}
						}
					case *ssa.Return:
						decides = true
					}
				}
			}
			walk(bo, 0)
			if !decides {
				return
			}
			nSub++
			bx, by := t.ubits(bo.X), t.ubits(bo.Y)
			if bx >= bits || by >= bits {
				bad = fmt.Sprintf("the order is decided by the sign of %s - %s computed in %d bits, but the operands can need %d and %d bits", describe(bo.X), describe(bo.Y), bits, bx, by)
				badPos = bo
			}
		})
		// ... nor by comparing, as signed numbers, values that are unsigned quantities of the full width (bytes composed
		// into a uint64 and converted to int64): the top bit flips the order
		var signedOfUnsigned func(v ssa.Value, d int) bool
		signedOfUnsigned = func(v ssa.Value, d int) bool {
			if d > 6 || v == nil {
				return false
			}
			switch x := v.(type) {
			case *ssa.Convert:
				db, du, ok1 := intBits(x.Type())
				sb, su, ok2 := intBits(x.X.Type())
				if ok1 && ok2 && !du && su && db == sb {
					tt := newTB(Specialize(x.Parent(), nil, nil))
					return tt.ubits(x.X) >= sb
				}
				return signedOfUnsigned(x.X, d+1)
			case *ssa.ChangeType:
				return signedOfUnsigned(x.X, d+1)
			case *ssa.Phi:
				for _, e := range x.Edges {
					if signedOfUnsigned(e, d+1) {
						return true
					}
				}
			case *ssa.Extract:
				if c, ok := x.Tuple.(*ssa.Call); ok {
					if cal := c.Common().StaticCallee(); cal != nil && cal.Blocks != nil && cal.Pkg == w.Repl {
						for _, ret := range returnsOf(cal) {
							if x.Index < len(ret.Results) && signedOfUnsigned(ret.Results[x.Index], d+1) {
								return true
							}
						}
					}
				}
			case *ssa.Call:
				if cal := x.Common().StaticCallee(); cal != nil && cal.Blocks != nil && cal.Pkg == w.Repl {
					for _, ret := range returnsOf(cal) {
						if len(ret.Results) == 1 && signedOfUnsigned(ret.Results[0], d+1) {
							return true
						}
					}
				}
			}
			return false
		}
		instrs(f, func(in ssa.Instruction) {
			bo, ok := in.(*ssa.BinOp)
			if !ok || bad != "" {
				return
			}
			switch bo.Op {
			case token.LSS, token.GTR, token.LEQ, token.GEQ:
			default:
				return
			}
			if signedOfUnsigned(bo.X, 0) || signedOfUnsigned(bo.Y, 0) {
				bad = "the order is decided by comparing as signed numbers values that are full-width unsigned quantities converted to a signed type (the top bit inverts the order)"
				badPos = bo
			}
		})
		key := "order@" + fnName(f)
		if bad != "" {
			a.viol(rule, key, w.posOf(badPos), "%s: the difference wraps for keys far apart, the comparison inverts and is not transitive, so sorted output (SIDs(), String(), SIDBlock()) is not canonical", bad)
		} else {
			a.hold(rule, key, w.pos(f.Pos()), "no ordering decided by a difference that can wrap (%d difference-based comparison(s))", nSub)
		}
	}
	a.atLeast(rule, "order@", 2)
}

// R6: two shortcuts that are never a subset test. Set-algebra agreement is not decided (it is a statement about values),
// but in Contains - and in the in-package functions it calls - (a) no branch may depend on comparing the NUMBER of
// intervals the two sets hold for a server: a set with one wide interval contains sets with many narrow ones; (b) an
// interval of the other set must not be accepted by looking up its two end points as single GTIDs: the end points can lie
// in different intervals of the receiver with a gap between them. Each fires only on code whose answer is wrong for some
// pair of sets.
func c18R6(a *A) {
	const rule = "C18-R6"
	w := a.W
	f := w.method(w.Repl, "Mysql56GTIDSet", "Contains")
	if !a.need(f != nil, rule, "Mysql56GTIDSet.Contains") {
		return
	}
	a.touch(f)
	isIvSlice := func(t types.Type) bool {
		sl, ok := t.Underlying().(*types.Slice)
		return ok && typeIs(sl.Elem(), replPath, "interval")
	}
	// where an interval list comes from: the receiver (parameter 0) or something else
	var fromRecv func(v ssa.Value, d int) bool
	fromRecv = func(v ssa.Value, d int) bool {
		if d > 10 || v == nil {
			return false
		}
		switch x := v.(type) {
		case *ssa.Parameter:
			return x == f.Params[0]
		case *ssa.Lookup:
			return fromRecv(x.X, d+1)
		case *ssa.Extract:
			return fromRecv(x.Tuple, d+1)
		case *ssa.Next:
			return fromRecv(x.Iter, d+1)
		case *ssa.Range:
			return fromRecv(x.X, d+1)
		case *ssa.Slice:
			return fromRecv(x.X, d+1)
		case *ssa.ChangeType:
			return fromRecv(x.X, d+1)
		case *ssa.Phi:
			for _, e := range x.Edges {
				if fromRecv(e, d+1) {
					return true
				}
			}
		}
		return false
	}
	lenOf := func(v ssa.Value) (ssa.Value, bool) {
		c, ok := stripW(v).(*ssa.Call)
		if !ok || !isBuiltin(c.Common(), "len") || !isIvSlice(c.Common().Args[0].Type()) {
			return nil, false
		}
		return c.Common().Args[0], true
	}
	bad := 0
	instrs(f, func(in ssa.Instruction) {
		bo, ok := in.(*ssa.BinOp)
		if !ok {
			return
		}
		switch bo.Op {
		case token.LSS, token.LEQ, token.GTR, token.GEQ, token.EQL, token.NEQ:
		default:
			return
		}
		lx, okx := lenOf(bo.X)
		ly, oky := lenOf(bo.Y)
		if okx && oky && fromRecv(lx, 0) != fromRecv(ly, 0) {
			bad++
			a.viol(rule, fmt.Sprintf("count-shortcut@Contains#%d", bad), w.posOf(bo), "Contains compares how many intervals the two sets hold for a server: the number of intervals says nothing about coverage (uuid:1-10 contains uuid:1-2:4-5:7), so the answer is wrong for such pairs")
		}
	})
	if bad == 0 {
		a.hold(rule, "count-shortcut@Contains", w.pos(f.Pos()), "no decision on the number of intervals of the two sets")
	}
	// (b) end-point lookups
	point := w.method(w.Repl, "Mysql56GTIDSet", "ContainsGTID")
	nb := 0
	if point != nil {
		instrs(f, func(in ssa.Instruction) {
			st, ok := in.(*ssa.Store)
			if !ok {
				return
			}
			fa, ok := st.Addr.(*ssa.FieldAddr)
			if !ok || !typeIs(fa.X.Type(), replPath, "Mysql56GTID") || fieldName(fa) != "Sequence" {
				return
			}
			fromIv := false
			switch x := stripW(st.Val).(type) {
			case *ssa.Field:
				fromIv = typeIs(x.X.Type(), replPath, "interval")
			case *ssa.UnOp:
				if fa2, ok := x.X.(*ssa.FieldAddr); ok && x.Op == token.MUL {
					fromIv = typeIs(fa2.X.Type(), replPath, "interval")
				}
			}
			if !fromIv {
				return
			}
			calls := false
			instrs(f, func(i2 ssa.Instruction) {
				if c, ok := i2.(*ssa.Call); ok && c.Common().StaticCallee() == point {
					calls = true
				}
			})
			if calls {
				nb++
				a.viol(rule, fmt.Sprintf("endpoint-lookup@Contains#%d", nb), w.posOf(st), "Contains looks an end point of the other set's interval up as a single GTID: both end points can be members while the sequence numbers between them are not (1-5:10-20 does not contain 3-12)")
			}
		})
	}
	if nb == 0 {
		a.hold(rule, "endpoint-lookup@Contains", w.pos(f.Pos()), "no interval accepted by point lookups of its end points")
	}
}

// sortedBefore: v has been passed to sort.Sort / sort.Slice* / slices.Sort* at a point dominating `at`, or v is a result of
// an in-package call and the corresponding result is sorted before every return of the callee that yields a non-nil slice.
func sortedBefore(v ssa.Value, at ssa.Instruction, depth int) bool {
	if depth > 3 {
		return false
	}
	v = strip(v)
	f := at.Parent()
	found := false
	instrs(f, func(in ssa.Instruction) {
		c, ok := in.(*ssa.Call)
		if !ok || len(c.Common().Args) == 0 {
			return
		}
		cal := c.Common().StaticCallee()
		if cal == nil || cal.Pkg == nil {
			return
		}
		pp := cal.Pkg.Pkg.Path()
		if !(pp == "sort" && (cal.Name() == "Sort" || cal.Name() == "Stable" || cal.Name() == "Slice" || cal.Name() == "SliceStable") || pp == "slices" && strings.HasPrefix(cal.Name(), "Sort")) {
			return
		}
		arg := strip(c.Common().Args[0])
		if mi, ok := arg.(*ssa.MakeInterface); ok {
			arg = strip(mi.X)
		}
		if arg == v && instrDominates(c, at) {
			found = true
		}
	})
	if found {
		return true
	}
	ex, ok := v.(*ssa.Extract)
	var call *ssa.Call
	idx := 0
	if ok {
		call, _ = ex.Tuple.(*ssa.Call)
		idx = ex.Index
	} else if c, isC := v.(*ssa.Call); isC {
		call = c
	}
	if call == nil {
		return false
	}
	cal := call.Common().StaticCallee()
	if cal == nil || cal.Blocks == nil || cal.Pkg != f.Pkg {
		return false
	}
	n := 0
	for _, ret := range returnsOf(cal) {
		if idx >= len(ret.Results) {
			return false
		}
		rv := strip(ret.Results[idx])
		if isNilConst(rv) {
			continue // failure exits hand out no list
		}
		n++
		if !sortedBefore(rv, ret, depth+1) {
			return false
		}
	}
	return n > 0
}

// R8: closed-interval comparisons. An interval {start,end} denotes the members start..end, both included, and the set
// model cannot tell two members of one interval apart. An inequality between a bound of an interval and a sequence
// number (any non-constant integer that is not itself a bound) is normalised to  bound - x >= t  (or its negation);
// it separates the values x <= bound-t from the values x > bound-t. For an `end` bound the members are the x with
// end-x >= 0, so t must be <= 0 (t=0: inside/beyond, t=-1: touching, ...); t >= 1 puts the last member(s) on the side of
// the values beyond the interval. For a `start` bound the members have start-x <= 0, so t must be >= 1. A comparison
// on the wrong side (end > seq, start >= seq, seq < end, ...) treats the boundary member as a non-member: membership,
// and through AddGTID's already-present test the canonical form, are wrong for exactly those GTIDs. Equalities and
// comparisons between two bounds are not instances (their meaning depends on the context).
func c18R8(a *A) {
	const rule = "C18-R8"
	w := a.W
	boundOf := func(v ssa.Value) (string, bool) {
		v = stripW(v)
		var st types.Type
		idx := -1
		switch x := v.(type) {
		case *ssa.Field:
			st, idx = x.X.Type(), x.Field
		case *ssa.UnOp:
			if x.Op != token.MUL {
				return "", false
			}
			fa, ok := x.X.(*ssa.FieldAddr)
			if !ok {
				return "", false
			}
			p, ok := fa.X.Type().Underlying().(*types.Pointer)
			if !ok {
				return "", false
			}
			st, idx = p.Elem(), fa.Field
		default:
			return "", false
		}
		if !typeIs(st, replPath, "interval") {
			return "", false
		}
		s, ok := st.Underlying().(*types.Struct)
		if !ok || idx < 0 || idx >= s.NumFields() {
			return "", false
		}
		n := s.Field(idx).Name()
		if n != "start" && n != "end" {
			return "", false
		}
		return n, true
	}
	// v = base + c
	var linear func(v ssa.Value, d int) (ssa.Value, int64, bool)
	linear = func(v ssa.Value, d int) (ssa.Value, int64, bool) {
		v = stripW(v)
		if bo, ok := v.(*ssa.BinOp); ok && d < 4 && (bo.Op == token.ADD || bo.Op == token.SUB) {
			if c, ok := stripW(bo.Y).(*ssa.Const); ok && c.Value != nil {
				if k, ok := constInt64(c); ok {
					b, c0, ok := linear(bo.X, d+1)
					if bo.Op == token.SUB {
						k = -k
					}
					return b, c0 + k, ok
				}
			}
			if c, ok := stripW(bo.X).(*ssa.Const); ok && c.Value != nil && bo.Op == token.ADD {
				if k, ok := constInt64(c); ok {
					b, c0, ok := linear(bo.Y, d+1)
					return b, c0 + k, ok
				}
			}
		}
		if _, isC := v.(*ssa.Const); isC {
			return nil, 0, false
		}
		return v, 0, true
	}
	n, bad := 0, 0
	perFn := map[string]int{}
	for _, f := range w.srcFuncs(w.Repl) {
		instrs(f, func(in ssa.Instruction) {
			bo, ok := in.(*ssa.BinOp)
			if !ok {
				return
			}
			op := bo.Op
			switch op {
			case token.LSS, token.LEQ, token.GTR, token.GEQ:
			default:
				return
			}
			lb, lc, lok := linear(bo.X, 0)
			rb, rc, rok := linear(bo.Y, 0)
			if !lok || !rok {
				return
			}
			lk, lIs := boundOf(lb)
			rk, rIs := boundOf(rb)
			if lIs == rIs {
				return // two bounds, or none
			}
			kind, k := lk, rc-lc // bound + lc OP x + rc  <=>  bound - x OP rc-lc
			if rIs {
				kind, k = rk, lc-rc
				switch op { // x + lc OP bound + rc  <=>  bound - x OP' lc-rc
				case token.LSS:
					op = token.GTR
				case token.LEQ:
					op = token.GEQ
				case token.GTR:
					op = token.LSS
				case token.GEQ:
					op = token.LEQ
				}
			}
			t := k
			if op == token.GTR || op == token.LEQ {
				t = k + 1
			}
			n++
			perFn[f.String()+kind]++
			a.touch(f)
			key := fmt.Sprintf("closed@%s[%s#%d]", fnName(f), kind, perFn[f.String()+kind])
			good := kind == "end" && t <= 0 || kind == "start" && t >= 1
			if good {
				a.hold(rule, key, w.posOf(bo), "comparison is (the negation of) %s - x >= %d: it does not separate members of the interval", kind, t)
			} else {
				bad++
				a.viol(rule, key, w.posOf(bo), "comparison is (the negation of) %s - x >= %d: intervals are closed (start and end are members), so it separates members of the interval from each other and puts a boundary member on the side of the non-members - membership (and AddGTID's already-present test, hence canonical form) is wrong for GTIDs on an interval boundary", kind, t)
			}
		})
	}
	if n == 0 {
		a.info(rule, "closed@none", "-", "no inequality between an interval bound and a sequence number in the package (nothing to decide)")
	}
}

func constInt64(c *ssa.Const) (int64, bool) {
	if c.Value == nil || c.Value.Kind() != constant.Int {
		return 0, false
	}
	return constant.Int64Val(c.Value)
}
