#!/bin/bash
# Developer convenience: run every registered check at the given tier (default quick), 4 at a time, and summarise.
cd "$(dirname "$0")"
TIER="${1:-quick}"
./gbv.sh build || exit 2
mkdir -p out/runall
ls evidence >/dev/null 2>&1
printf "%s\n" C01 C02 C03 C04 C05 C06 C07 C08 C09 C10 C11 C12 C13 C14 C15 C16 C17 C18 C19 C20 | xargs -P 4 -I{} sh -c "./gbv.sh check {} $TIER > out/runall/{}.$TIER.log 2>&1; echo {} exit=\$?"  | sort
grep -h "^VIOLATION\|^KNOWN-FINDING" out/runall/*.$TIER.log | head -20
